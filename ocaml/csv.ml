(* topic driver: CSV decoder / reader / inference models (extract/csv_model.ml).
   All results are computed by extracted functions; this file parses lines and prints. *)
let render_recs (o : n list list list option) : string =
  match o with
  | None -> "PANIC"
  | Some recs ->
    String.concat "" (List.map (fun r -> "[" ^ String.concat "," (List.map hex_of_bytes r) ^ "]") recs)

let dialect_of a b = { delim = n_of_int (int_of_string a); quote = n_of_int (int_of_string b) }

let rec split_at (l : 'a list) (cuts : int list) (pos : int) : 'a list list =
  match cuts with
  | [] -> [l]
  | c :: rest ->
    let k = c - pos in
    let rec take i l acc = if i = 0 then (List.rev acc, l) else (match l with [] -> (List.rev acc, []) | x :: r -> take (i - 1) r (x :: acc)) in
    let (a, b) = take k l [] in
    a :: split_at b rest c

let nonempty chunks = List.filter (fun c -> c <> []) chunks

let run_one d data cuts flush final_empty =
  let chunks = nonempty (split_at data cuts 0) in
  let chunks = if final_empty then chunks @ [[]] else chunks in
  (* CsvDecoder::decode = decode_h (a first read ending inside a BOM is held back) *)
  if flush then render_recs (decode_flush_h d chunks)
  else render_recs (records_of (snd (decode_chunks_h d chunks).h_st))

(* decode: "<delim> <quote> <hex|-> <all2|cuts> <flush> <final_empty> [<cuts;cuts;..>]"  ('-' = no cut)
   -> line 1: distinct results joined by '|', line 2: index per chunking joined by ',' *)
let decode_cmd () =
  (try
     while true do
       let line = input_line stdin in
       match split_ws line with
       | dl :: q :: hx :: mode :: fl :: fe :: rest ->
         let d = dialect_of dl q in
         let data = if hx = "-" then [] else bytes_of_hex hx in
         let n = List.length data in
         let chunkings =
           if mode = "all2" then begin
             let acc = ref [[]] in
             for i = 1 to n - 1 do acc := [i] :: !acc done;
             for i = 1 to n - 1 do for j = i + 1 to n - 1 do acc := [i; j] :: !acc done done;
             List.rev !acc
           end else
             (match rest with
              | [s] -> List.map (fun c -> if c = "-" then [] else List.map int_of_string (split_on ',' c)) (split_on ';' s)
              | _ -> [[]]) in
         let results = ref [] and which = ref [] in
         List.iter (fun cuts ->
             let s = run_one d data cuts (fl = "1") (fe = "1") in
             let rec find i = function [] -> -1 | x :: r -> if x = s then i else find (i + 1) r in
             let cur = List.rev !results in
             let i = find 0 cur in
             let i = if i < 0 then (results := s :: !results; List.length cur) else i in
             which := i :: !which) chunkings;
         print_endline (String.concat "|" (List.rev !results));
         print_endline (String.concat "," (List.map string_of_int (List.rev !which)))
       | [] -> ()
       | _ -> failwith ("bad line " ^ line)
     done
   with End_of_file -> ())

(* spec: "<delim> <quote> <hex|->" -> rfc4180 records *)
let spec_cmd () =
  (try
     while true do
       let line = input_line stdin in
       match split_ws line with
       | [dl; q; hx] ->
         let data = if hx = "-" then [] else bytes_of_hex hx in
         print_endline (render_recs (Some (rfc4180 (dialect_of dl q) data)))
       | [] -> ()
       | _ -> failwith ("bad line " ^ line)
     done
   with End_of_file -> ())

let cand_str = function CBool -> "Boolean" | CInt -> "Int64" | CFloat -> "Float64" | CTimestamp -> "Timestamp" | CUtf8 -> "Utf8"
let cand_of = function "Boolean" -> CBool | "Int64" -> CInt | "Float64" -> CFloat | "Timestamp" -> CTimestamp | _ -> CUtf8

let render_rows (o : n list option list list option) : string =
  match o with
  | None -> "ERR"
  | Some rows ->
    if rows = [] then "EMPTY" else
    String.concat "" (List.map (fun r ->
        "[" ^ String.concat "," (List.map (function None -> "N" | Some f -> hex_of_bytes f) r) ^ "]") rows)

let rec chunks_of (l : 'a list) (k : int) : 'a list list =
  if l = [] then [] else
    let rec take i l acc = if i = 0 then (List.rev acc, l) else (match l with [] -> (List.rev acc, []) | x :: r -> take (i - 1) r (x :: acc)) in
    let (a, b) = take k l [] in
    a :: chunks_of b k

(* scan: "<out_cap> <read_buf> <INFER_BUF_SIZE> <MAX_INFER_BUF_SIZE> <hex|->"
   -> PANIC | BINDERR | OK <d,q|none> <hdr> <types ,> <names , (hex or -)> <rows|ERR|EMPTY> *)
let scan_cmd () =
  (try
     while true do
       let line = input_line stdin in
       match split_ws line with
       | [cap; rb; init; mx; hx] ->
         let data = if hx = "-" then [] else bytes_of_hex hx in
         let chunks = chunks_of data (int_of_string rb) in
         (match read_csv (n_of_int (int_of_string init)) (n_of_int (int_of_string mx)) data
                  (nat_of_int (int_of_string cap)) chunks with
          | ScanPanic -> print_endline "PANIC"
          | ScanBindErr -> print_endline "BINDERR"
          | ScanOk (od, s, rows) ->
            let ds = match od with None -> "none" | Some d -> Printf.sprintf "%d,%d" (int_of_n d.delim) (int_of_n d.quote) in
            Printf.printf "OK %s %d %s %s %s\n" ds (if s.has_header then 1 else 0)
              (String.concat "," (List.map cand_str s.col_types))
              (String.concat "," (List.map (function None -> "-" | Some f -> "x" ^ hex_of_bytes f) s.col_names))
              (render_rows rows))
       | [] -> ()
       | _ -> failwith ("bad line " ^ line)
     done
   with End_of_file -> ())

(* queue: "<delim> <quote> <hdr> <types ,> <out_cap> <read_buf> <hex;hex;..>" -> rows of one partition's file queue *)
let queue_cmd () =
  (try
     while true do
       let line = input_line stdin in
       match split_ws line with
       | [dl; q; hdr; tys; cap; rb; hxs] ->
         let files = List.map (fun hx -> chunks_of (if hx = "-" then [] else bytes_of_hex hx) (int_of_string rb)) (split_on ';' hxs) in
         let types = List.map cand_of (split_on ',' tys) in
         (match read_queue prepare (dialect_of dl q) (nat_of_int (int_of_string cap)) (hdr = "1") h_init files with
          | None -> print_endline "PANIC"
          | Some rows -> print_endline (render_rows (type_rows types rows)))
       | [] -> ()
       | _ -> failwith ("bad line " ^ line)
     done
   with End_of_file -> ())

(* reader: "<delim> <quote> <hdr> <types ,> <out_cap> <read_buf> <hex|->" -> rows | ERR | EMPTY | PANIC *)
let reader_cmd () =
  (try
     while true do
       let line = input_line stdin in
       match split_ws line with
       | [dl; q; hdr; tys; cap; rb; hx] ->
         let data = if hx = "-" then [] else bytes_of_hex hx in
         let chunks = chunks_of data (int_of_string rb) in
         let d = dialect_of dl q in
         let types = List.map cand_of (split_on ',' tys) in
         (match reader_loop_h d (nat_of_int (int_of_string cap)) (hdr = "1") h_init chunks with
          | None -> print_endline "PANIC"
          | Some rows -> print_endline (render_rows (type_rows types rows)))
       | [] -> ()
       | _ -> failwith ("bad line " ^ line)
     done
   with End_of_file -> ())

let () =
  match Array.to_list Sys.argv with
  | [_; "decode"] -> decode_cmd ()
  | [_; "spec"] -> spec_cmd ()
  | [_; "scan"] -> scan_cmd ()
  | [_; "reader"] -> reader_cmd ()
  | [_; "queue"] -> queue_cmd ()
  | _ -> prerr_endline "usage: csv <decode|spec|scan|reader|queue>"; exit 2
