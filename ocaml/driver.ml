(* Line-protocol driver around the extracted model (coq/extract/model.ml).
   Conversions between decimal text and the extracted positive/N/Z go through zarith;
   nothing here computes a result of the model, it only parses and prints. *)
module B = Z  (* zarith, before Model's own module Z shadows it *)
open Model

let rec pos_of_z (z : B.t) : positive =
  if B.equal z B.one then XH
  else if B.testbit z 0 then XI (pos_of_z (B.shift_right z 1))
  else XO (pos_of_z (B.shift_right z 1))
let n_of_z (z : B.t) : n = if B.sign z = 0 then N0 else Npos (pos_of_z z)
let zz_of_z (z : B.t) : Model.z =
  if B.sign z = 0 then Z0 else if B.sign z > 0 then Zpos (pos_of_z z) else Zneg (pos_of_z (B.neg z))
let rec z_of_pos (p : positive) : B.t =
  match p with
  | XH -> B.one
  | XO q -> B.shift_left (z_of_pos q) 1
  | XI q -> B.succ (B.shift_left (z_of_pos q) 1)
let z_of_n (x : n) : B.t = match x with N0 -> B.zero | Npos p -> z_of_pos p
let z_of_zz (x : Model.z) : B.t = match x with Z0 -> B.zero | Zpos p -> z_of_pos p | Zneg p -> B.neg (z_of_pos p)
let rec nat_of_int (i : int) : nat = if i <= 0 then O else S (nat_of_int (i - 1))
let n_of_string s = n_of_z (B.of_string s)
let n_of_int i = n_of_z (B.of_int i)
let int_of_n x = B.to_int (z_of_n x)

let split_ws s = List.filter (fun x -> x <> "") (String.split_on_char ' ' s)
let split_on c s = String.split_on_char c s

let bytes_of_hex (h : string) : n list =
  let l = String.length h / 2 in
  List.init l (fun i -> n_of_int (int_of_string ("0x" ^ String.sub h (2 * i) 2)))
let hex_of_bytes (bs : n list) : string =
  String.concat "" (List.map (fun b -> Printf.sprintf "%02x" (int_of_n b)) bs)

let cmp_str = function Eq -> "Eq" | Lt -> "Lt" | Gt -> "Gt"

(* ---- sort keys ----
   type syntax: u<w> | s<w> | f<w>:<shift> | b:<tkey>:<fkey> | str:<pw> | iv     (w in bytes)
   col syntax : <type>,<desc 0/1>,<nulls_first 0/1>
   value syntax: N | <decimal bits> | x<hex bytes> | v<months>/<days>/<nanos> *)
let parse_kty (s : string) : kty =
  match split_on ':' s with
  | [t] when t = "iv" -> KInterval
  | [t] when t.[0] = 'u' -> KU (nat_of_int (int_of_string (String.sub t 1 (String.length t - 1))))
  | [t] when t.[0] = 's' -> KS (nat_of_int (int_of_string (String.sub t 1 (String.length t - 1))))
  | [t; k] when t.[0] = 'f' -> KF (nat_of_int (int_of_string (String.sub t 1 (String.length t - 1))), n_of_string k)
  | ["b"; t; f] -> KBool (n_of_string t, n_of_string f)
  | ["str"; w] -> KStr (nat_of_int (int_of_string w))
  | _ -> failwith ("bad key type " ^ s)
let parse_kcol (s : string) : kcol =
  match split_on ',' s with
  | [t; d; nf] -> { k_ty = parse_kty t; k_desc = (d = "1"); k_nulls_first = (nf = "1") }
  | _ -> failwith ("bad col " ^ s)
let parse_kval (s : string) : kval =
  if s = "N" then KNull
  else if s.[0] = 'x' then KBytes (bytes_of_hex (String.sub s 1 (String.length s - 1)))
  else if s.[0] = 'v' then
    (match split_on '/' (String.sub s 1 (String.length s - 1)) with
     | [m; d; n] -> KIv (n_of_string m, n_of_string d, n_of_string n)
     | _ -> failwith "bad interval")
  else KBits (n_of_string s)

(* input: "cols c1 c2 .." then "row v1 v2 .." lines, "all <bits>" (single column: every pattern
   0..2^bits-1), "cmp" sections compare consecutive rows with the SPEC order. *)
let sortkey () =
  let cols = ref [] in
  (try
     while true do
       let line = input_line stdin in
       match split_ws line with
       | "cols" :: cs -> cols := List.map parse_kcol cs
       | "row" :: vs ->
         print_endline (hex_of_bytes (encode_row !cols (List.map parse_kval vs)))
       | ["all"; bits] ->
         let n = 1 lsl (int_of_string bits) in
         for i = 0 to n - 1 do
           print_endline (hex_of_bytes (encode_row !cols [KBits (n_of_int i)]))
         done
       | ("speccmp" :: rest) ->
         (* speccmp v1 .. vk | w1 .. wk : declared order of two rows *)
         let rec split acc = function
           | "|" :: r -> (List.rev acc, r)
           | x :: r -> split (x :: acc) r
           | [] -> (List.rev acc, []) in
         let (a, b) = split [] rest in
         print_endline (cmp_str (row_cmp !cols (List.map parse_kval a) (List.map parse_kval b)))
       | [] -> ()
       | _ -> failwith ("bad line " ^ line)
     done
   with End_of_file -> ())

(* sortcheck: "cols .." then rows in the order the engine returned them; prints the index of the
   first adjacent pair (i, i+1) with row_cmp = Gt, or OK <n>. *)
let sortcheck () =
  let cols = ref [] in
  let prev = ref None in
  let idx = ref 0 in
  let bad = ref (-1) in
  let flush_case () =
    if !idx > 0 || !prev <> None then begin
      if !bad >= 0 then Printf.printf "BAD %d\n" !bad else Printf.printf "OK %d\n" !idx
    end;
    prev := None; idx := 0; bad := -1 in
  (try
     while true do
       let line = input_line stdin in
       match split_ws line with
       | "cols" :: cs -> cols := List.map parse_kcol cs
       | "row" :: vs ->
         let r = List.map parse_kval vs in
         (match !prev with
          | Some p -> if !bad < 0 && row_cmp !cols p r = Gt then bad := !idx - 1
          | None -> ());
         prev := Some r; incr idx
       | ["end"] -> if !bad >= 0 then Printf.printf "BAD %d\n" !bad else Printf.printf "OK %d\n" !idx;
         prev := None; idx := 0; bad := -1
       | [] -> ()
       | _ -> failwith ("bad line " ^ line)
     done
   with End_of_file -> ())


(* orderslice: cols / off n / lim n|none / in <keys> | <payload> / out <keys> | <payload> / end
   -> OK | BAD  (Model.check_order_slice) *)
let orderslice () =
  let cols = ref [] and off = ref 0 and lim = ref None and inp = ref [] and out = ref [] in
  let rec split acc = function
    | "|" :: r -> (List.rev acc, r)
    | x :: r -> split (x :: acc) r
    | [] -> (List.rev acc, []) in
  let row toks = let (k, p) = split [] toks in (List.map parse_kval k, List.map parse_kval p) in
  (try
     while true do
       let line = input_line stdin in
       match split_ws line with
       | "cols" :: cs -> cols := List.map parse_kcol cs
       | ["off"; n] -> off := int_of_string n
       | ["lim"; "none"] -> lim := None
       | ["lim"; n] -> lim := Some (int_of_string n)
       | "in" :: r -> inp := row r :: !inp
       | "out" :: r -> out := row r :: !out
       | ["end"] ->
         let ok = check_order_slice !cols (List.rev !inp) (nat_of_int !off)
             (match !lim with None -> None | Some n -> Some (nat_of_int n)) (List.rev !out) in
         print_endline (if ok then "OK" else "BAD");
         inp := []; out := []
       | [] -> ()
       | _ -> failwith ("bad line " ^ line)
     done
   with End_of_file -> ())

let () =
  match Array.to_list Sys.argv with
  | [_; "sortkey"] -> sortkey ()
  | [_; "sortcheck"] -> sortcheck ()
  | [_; "orderslice"] -> orderslice ()
  | _ -> prerr_endline "usage: gmodel <sortkey|sortcheck>"; exit 2
