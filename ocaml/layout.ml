(* topic driver: row / aggregate / sort layouts, block appends, string views, directory masks
   (extract/layout_model.ml).  Parsing / printing only. *)
let pty_of = function
  | "null" -> PNull | "bool" -> PBool
  | "i8" -> PI8 | "i16" -> PI16 | "i32" -> PI32 | "i64" -> PI64 | "i128" -> PI128
  | "u8" -> PU8 | "u16" -> PU16 | "u32" -> PU32 | "u64" -> PU64 | "u128" -> PU128
  | "f16" -> PF16 | "f32" -> PF32 | "f64" -> PF64
  | "interval" -> PInterval | "binary" -> PBinary | "utf8" -> PUtf8 | "list" -> PList | "struct" -> PStruct
  | s -> failwith ("bad physical type " ^ s)
let ns l = String.concat "," (List.map string_of_n l)
let types_of s = if s = "-" then [] else List.map pty_of (split_on ',' s)

let () =
  try
    while true do
      let line = input_line stdin in
      match split_ws line with
      | ["row"; ts] ->
        let tys = types_of ts in
        let l = row_layout_of tys in
        let bo = List.mapi (fun c _ -> match byte_offset l (n_of_int 3) (nat_of_int c) with Some o -> string_of_n o | None -> "?") tys in
        Printf.printf "offsets=%s row_width=%s validity=%s heap=%d bo3=%s\n" (ns l.rl_offsets) (string_of_n l.rl_width)
          (string_of_n l.rl_validity) (if l.rl_heap then 1 else 0) (String.concat "," bo)
      | ["agg"; gs; sts] ->
        let states = if sts = "-" then [] else
            List.map (fun s -> match split_on ':' s with [a; b] -> (n_of_string a, n_of_string b) | _ -> failwith "state") (split_on ',' sts) in
        (match agg_layout_of (types_of gs) states with
         | None -> print_endline "panic"
         | Some l -> Printf.printf "base=%s width=%s offsets=%s group=%s\n" (string_of_n l.al_base) (string_of_n l.al_width)
                       (ns l.al_offsets) (string_of_n l.al_groups.rl_width))
      | ["sort"; ts] ->
        (match sort_layout_of (types_of ts) with
         | Panic -> print_endline "panic"
         | Err -> print_endline "err"
         | Ok l -> Printf.printf "offsets=%s widths=%s compare=%s width=%s heap=%s heaprow=%s\n" (ns l.sl_offsets) (ns l.sl_widths)
                     (string_of_n l.sl_compare) (string_of_n l.sl_width)
                     (String.concat "," (List.map (function Some i -> string_of_int (int_of_nat i) | None -> "-") l.sl_heap_mapping))
                     (string_of_n l.sl_heap.rl_width))
      | "append" :: rw :: rc :: rows ->
        (match appends (n_of_string rw) (n_of_string rc) [] (List.map n_of_string rows) with
         | None -> print_endline "fail"
         | Some (bs, pss) ->
           Printf.printf "ptrs=%s blocks=%s\n"
             (String.concat "|" (List.map (fun ps -> String.concat "," (List.map (fun (b, o) -> string_of_int (int_of_nat b) ^ ":" ^ string_of_n o) ps)) pss))
             (String.concat "," (List.map (fun b -> string_of_n b.b_cap ^ ":" ^ string_of_n b.b_res) bs)))
      | "strview" :: mx :: lit :: lens ->
        print_endline (String.concat "," (List.map (fun l ->
            if sv_is_inline (n_of_string lit) (sv_new (n_of_string mx) (n_of_string l)) then "1" else "0") lens))
      | "mask" :: cap :: hs ->
        let c = n_of_string cap in
        let offs = List.map (fun h -> offset_from_hash (n_of_string h) c) hs in
        Printf.printf "offs=%s next=%s\n" (ns offs) (ns (List.map (fun o -> inc_and_wrap o c) offs))
      | ("strpred" | "heapsizes") :: _ when src_str_preds = None ->
        (* a predicate of the current source could not be read: no prediction (the check module decides) *)
        print_endline "nopreds"
      | "strpred" :: lens ->
        (* the four real predicates + how a pushed value is represented + the modelled round trip, per length *)
        let sp = (match src_str_preds with Some x -> x | None -> failwith "src_str_preds = None") in
        let b x = if x then "1" else "0" in
        print_endline (String.concat " " (List.map (fun l ->
            let n = n_of_string l in
            b (holds sp.sv_inline n) ^ b (holds sp.sv_reference n) ^ b (holds sp.sp_inline n) ^ b (holds sp.sp_reference n) ^
            (match push_view sp n with Safe RInline -> "i" | Safe RReference -> "r" | _ -> "x") ^
            (match roundtrip sp n with Safe _ -> "s" | Wild -> "W" | AssertFail -> "A")) lens))
      | "heapsizes" :: rows :: arrays ->
        (* heapsizes <rows r,r,..|-> <array>..   array = valid bits ; selection ; lens   e.g. 101;0,1,2;5,20,13 *)
        let sp = (match src_str_preds with Some x -> x | None -> failwith "src_str_preds = None") in
        let ints s = if s = "-" || s = "" then [] else List.map int_of_string (split_on ',' s) in
        let arr s = (match split_on ';' s with
            | [v; sel; lens] -> { a_valid = List.init (String.length v) (fun i -> v.[i] = '1');
                                  a_sel = List.map nat_of_int (ints sel); a_lens = List.map n_of_int (ints lens) }
            | _ -> failwith "array") in
        (match compute_heap_sizes sp (List.map arr arrays) (List.map nat_of_int (ints rows)) with
         | None -> print_endline "panic"
         | Some sz -> let (offs, total) = heap_block_of sz in
           Printf.printf "sizes=%s offsets=%s total=%s\n" (ns sz) (ns offs) (string_of_n total))
      | [] -> ()
      | _ -> failwith ("bad line " ^ line)
    done
  with End_of_file -> ()
