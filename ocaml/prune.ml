(* topic driver: C11 models (extract/prune_model.ml).  Parsing/printing only; every answer is computed
   by extracted code.

   prune run   one s-expression per stdin line, one answer per stdout line:
     (sp <lt> (st <min|-> <max|-> <min_exact 0|1> <max_exact 0|1>) (cs C ...))
          lt = i8|i16|i32|i64|u8|u16|u32|u64
          C  = N (NULL) | U (a filter of unknown type) | (<kind> <int>)  kind = i8..u64|date32|date64|dec64|ts|other
          the constants go through col_consts (filters on column 0), then should_prune  -> true | false | ERR
     (th <lt> (t <old_max|-> <old_min|-> <nulls|-> <new_max|-> <new_min|->) (cs C ...))
          from_thrift, then should_prune   -> <true|false|ERR> | <min> <max> <min_exact> <max_exact> <deprecated> <nulls>
     (rg (prj <col> ...) (col <idx> <nop|lt> <none | (st ..) | (t ..)>) ... (fs (f <col> C) (f2 <col> <col> C) ...))
          rg_should_prune over the projected data columns   -> true | false | ERR
     (glob (segs (d <sid>) | (s <sid>) ...) (tree T) (m (<sid> <name> ...) ...))    T = (f <name>) | (d <name> T ...)
          names and sids are numbers; (m (<sid> n1 n2 ..)) lists the names segment sid matches
          -> impl: <p> .. ; spec: <p> .. ; stack: <p> .. | FUEL     p = names joined by /
             (expand = the proved denotation, spec_expand = declarative, expand_stack = the loop as written, 3000 iterations)
     (text <pc 0|1> <p> <hex|-> ...)   text_multi: the content rows of read_text over the files (bytes as hex, - = empty)
          under p partitions, in partition order  -> x<hex> x<hex> .. | N N ..   (N: content not projected)
     (textgrow <hex|-> ...)            the grow-only buffer variant (refuted), one queue
     (globpull <p> <cap> <n>)   glob_multi: the path indices the glob() table function emits for n expanded paths under
          p partitions when every poll has output capacity cap (n + 1 polls per partition)  -> i i i ..
     (globnorev <cap> <n>)      the variant without .rev() (refuted), one partition
     (deal <p> <n>)   -> deal p k [0..n-1] for k = 0..p-1, then deal_mod:   0,4|1,5|2|3 ; 0,4|1,5|2|3 *)

let atom = function A s -> s | L _ -> failwith "atom expected"

let parse_lt (s : string) : ltype =
  let sg = s.[0] = 'i' in
  let bits = int_of_string (String.sub s 1 (String.length s - 1)) in
  { lt_bits = zz_of_z (B.of_int bits); lt_signed = sg }

let parse_kind = function
  | "date32" -> KDate32 | "date64" -> KDate64 | "dec64" -> KDecimal64 | "ts" -> KTimestamp | "other" -> KOther
  | s -> KInt (parse_lt s)

let parse_filter (cols : nat list) (c : sexp) : sfilter =
  match c with
  | A "N" -> { f_cols = cols; f_type = FConstEq CNull }
  | A "U" -> { f_cols = cols; f_type = FUnknown }
  | L [A k; A v] -> { f_cols = cols; f_type = FConstEq (CVal (parse_kind k, zz_of_string v)) }
  | _ -> failwith "bad constant"

let opt_z s = if s = "-" then None else Some (zz_of_string s)

let parse_st = function
  | L [A "st"; A mn; A mx; A me; A xe] ->
    { st_min = opt_z mn; st_max = opt_z mx; st_min_exact = (me = "1"); st_max_exact = (xe = "1");
      st_deprecated = false; st_nulls = Z0 }
  | _ -> failwith "bad st"

let show_out = function Ok true -> "true" | Ok false -> "false" | Err -> "ERR"
let show_oz = function None -> "-" | Some z -> string_of_zz z
let b01 b = if b then "1" else "0"

let rec parse_tree = function
  | L [A "f"; A n] -> File (n_of_string n)
  | L (A "d" :: A n :: ch) -> Dir (n_of_string n, List.fold_right (fun c acc -> FCons (parse_tree c, acc)) ch FNil)
  | _ -> failwith "bad tree"

let show_path (p : n list) = String.concat "/" (List.map string_of_n p)

let run_line (line : string) =
  match parse_sexp line with
  | L [A "sp"; A lt; st; L (A "cs" :: cs)] ->
    let fs = List.map (parse_filter [O]) cs in
    print_endline (show_out (should_prune (parse_lt lt) (parse_st st) (col_consts O fs)))
  | L [A "th"; A lt; L [A "t"; A omx; A omn; A nl; A nmx; A nmn]; L (A "cs" :: cs)] ->
    let fs = List.map (parse_filter [O]) cs in
    let t = { t_max = opt_z omx; t_min = opt_z omn; t_nulls = opt_z nl; t_max_value = opt_z nmx; t_min_value = opt_z nmn } in
    (match from_thrift t with
     | Err -> print_endline "ERR | ERR"
     | Ok st ->
       Printf.printf "%s | %s %s %s %s %s %s\n" (show_out (should_prune (parse_lt lt) st (col_consts O fs)))
         (show_oz st.st_min) (show_oz st.st_max) (b01 st.st_min_exact) (b01 st.st_max_exact) (b01 st.st_deprecated)
         (string_of_zz st.st_nulls))
  | L (A "rg" :: L (A "prj" :: prj) :: rest) ->
    let cols = ref [] and fs = ref [] in
    List.iter (function
        | L [A "col"; A idx; A pr; st] ->
          let p = if pr = "nop" then PNop else PPrim (parse_lt pr) in
          let s = (match st with
              | A "none" -> None
              | L [A "t"; A omx; A omn; A nl; A nmx; A nmn] ->
                (match from_thrift { t_max = opt_z omx; t_min = opt_z omn; t_nulls = opt_z nl;
                                     t_max_value = opt_z nmx; t_min_value = opt_z nmn } with
                 | Ok st -> Some st | Err -> failwith "from_thrift Err")
              | s -> Some (parse_st s)) in
          cols := (int_of_string idx, (p, s)) :: !cols
        | L (A "fs" :: l) ->
          fs := List.map (function
              | L [A "f"; A c; k] -> parse_filter [nat_of_int (int_of_string c)] k
              | L [A "f2"; A c1; A c2; k] -> parse_filter [nat_of_int (int_of_string c1); nat_of_int (int_of_string c2)] k
              | _ -> failwith "bad filter") l
        | _ -> failwith "bad rg clause") rest;
    let pr c = (match List.assoc_opt (int_of_nat c) !cols with Some (p, _) -> p | None -> PNop) in
    let rgst c = (match List.assoc_opt (int_of_nat c) !cols with Some (_, s) -> s | None -> None) in
    let prj = List.map (fun x -> nat_of_int (int_of_string (atom x))) prj in
    print_endline (show_out (rg_should_prune prj pr rgst !fs))
  | L [A "glob"; L (A "segs" :: segs); L [A "tree"; t]; L (A "m" :: ms)] ->
    let segs = List.map (function
        | L [A "d"; A i] -> { dstar = true; sid = n_of_string i }
        | L [A "s"; A i] -> { dstar = false; sid = n_of_string i }
        | _ -> failwith "bad seg") segs in
    let table = List.map (function
        | L (A i :: names) -> (i, List.map atom names)
        | _ -> failwith "bad m") ms in
    let m (s : n) (nm : n) : bool =
      (match List.assoc_opt (string_of_n s) table with
       | Some names -> List.mem (string_of_n nm) names
       | None -> false) in
    let tree = parse_tree t in
    let stack = (match expand_stack m (nat_of_int 3000) tree segs with
        | Some l -> String.concat " " (List.map show_path l)
        | None -> "FUEL") in
    Printf.printf "impl: %s ; spec: %s ; stack: %s\n"
      (String.concat " " (List.map show_path (expand m tree segs)))
      (String.concat " " (List.map show_path (spec_expand m tree segs))) stack
  | L (A "text" :: A pc :: A p :: files) ->
    let fs = List.map (fun x -> let h = atom x in if h = "-" then [] else bytes_of_hex h) files in
    let out = text_multi (pc = "1") (nat_of_int (int_of_string p)) fs in
    print_endline (String.concat " " (List.map (function None -> "N" | Some b -> "x" ^ hex_of_bytes b) out))
  | L (A "textgrow" :: files) ->
    let fs = List.map (fun x -> let h = atom x in if h = "-" then [] else bytes_of_hex h) files in
    print_endline (String.concat " " (List.map (function None -> "N" | Some b -> "x" ^ hex_of_bytes b) (text_reader_grow [] fs)))
  | L [A "globpull"; A p; A cap; A n] ->
    let n = int_of_string n and cap = nat_of_int (int_of_string cap) in
    let caps _ = List.init (n + 1) (fun _ -> cap) in
    let out = glob_multi caps (nat_of_int (int_of_string p)) (List.init n (fun i -> i)) in
    print_endline (String.concat " " (List.map string_of_int out))
  | L [A "globnorev"; A cap; A n] ->
    let n = int_of_string n and cap = nat_of_int (int_of_string cap) in
    print_endline (String.concat " " (List.map string_of_int
      (glob_pull_norev (List.init (n + 1) (fun _ -> cap)) (List.init n (fun i -> i)))))
  | L [A "deal"; A p; A n] ->
    let p = int_of_string p and n = int_of_string n in
    let l = List.init n (fun i -> i) in
    let show f = String.concat "|" (List.init p (fun k ->
        String.concat "," (List.map string_of_int (f (nat_of_int p) (nat_of_int k) l)))) in
    Printf.printf "%s ; %s\n" (show deal) (show deal_mod)
  | _ -> failwith ("bad line " ^ line)

let () =
  match Array.to_list Sys.argv with
  | [_; "run"] ->
    (try
       while true do
         let line = input_line stdin in
         if String.trim line <> "" then
           (try run_line line with Failure msg -> Printf.printf "DRIVER-ERROR %s\n" (String.escaped msg))
       done
     with End_of_file -> ())
  | _ -> prerr_endline "usage: prune run"; exit 2
