(* topic driver: integer / decimal arithmetic, SUM, AVG (extract/arith_model.ml).
   Parsing and printing only; every result is computed by extracted code.
   One request per line (mode argument `arith`), one answer line per request (all8: 65536 lines).
     bin <n|c> <d|r> <s|u> <w> <add|sub|mul|div|rem> <a> <b>   -> <impl> <spec> <known 0/1>
     all8 <n|c> <d|r> <s|u> <op>                                -> <a> <b> <impl> <spec> <known>  (x 65536)
     neg <n|c> <d|r> <w> <a>                                    -> <impl> <spec>
     abs <a>                                                    -> some:<v> | none
     sum <w> <x x ; x ; ..>                                     -> <ok:null|ok:v|err> <ok:null|ok:v|err>
     decadd <n|c> <d|r> <64|128> <sub 0/1> <max64> <max128> <pow_i32 0/1> <d2d_validates 0/1> <res_validates 0/1> <opnd> <opnd>  -> <p> <s> <clamped> <impl> <spec>
     decmul <n|c> <d|r> <64|128> <max64> <max128> <res_validates 0/1> <opnd> <opnd>            -> none | <p> <s> <clamped> <impl> <spec>
        opnd = d:<p>:<s>:<unscaled> | i:<bits>:<v>
     round <64|128> <v> <k>                                     -> <outcome>
     sumdec <max64> <max128> <x x ; x ..>                       -> <ok:null|ok:v|err> <ok:null|ok:v|err>
     avgdec <d|r> <x x ..>                                      -> <outcome>   (the i128 accumulator)
     avgint <x x ..>                                            -> <sum> <count>
     avgf <sum> <count> <scale>                                 -> some:<f64 bits> | none
   outcome = ok:<v> | err | panic *)
let zs = zz_of_string
let sz = string_of_zz
let out = function Ok v -> "ok:" ^ sz v | Err -> "err" | Panic -> "panic"
let oopt = function None -> "null" | Some v -> sz v
let out_opt = function Ok v -> "ok:" ^ oopt v | Err -> "err" | Panic -> "panic"
let p_style = function "n" -> Native | "c" -> Checked | s -> failwith ("style " ^ s)
let p_mode = function "d" -> Debug | "r" -> Release | s -> failwith ("mode " ^ s)
let p_sgn = function "s" -> Signed | "u" -> Unsigned | s -> failwith ("sgn " ^ s)
let p_op = function "add" -> Add | "sub" -> Sub | "mul" -> Mul | "div" -> Div | "rem" -> Rem | s -> failwith ("op " ^ s)
let p_kind = function "64" -> D64 | "128" -> D128 | s -> failwith ("kind " ^ s)
let p_operand s =
  match split_on ':' s with
  | ["d"; p; sc; v] -> ODec (zs p, zs sc, zs v)
  | ["i"; w; v] -> OInt (zs w, zs v)
  | _ -> failwith ("operand " ^ s)
(* "x x ; x ; .." -> z list list *)
let p_parts toks =
  let rec go cur acc = function
    | [] -> List.rev (List.rev cur :: acc)
    | ";" :: r -> go [] (List.rev cur :: acc) r
    | x :: r -> go (zs x :: cur) acc r in
  go [] [] toks
let b01 b = if b then "1" else "0"

let bin_line st m sg w op a b =
  Printf.sprintf "%s %s %s" (out (impl_bin st m sg w op a b)) (out (spec_bin sg w op a b)) (b01 (known_class_b sg w op a b))

let arith () =
  (try
     while true do
       let line = input_line stdin in
       match split_ws line with
       | ["bin"; st; m; sg; w; op; a; b] ->
         print_endline (bin_line (p_style st) (p_mode m) (p_sgn sg) (zs w) (p_op op) (zs a) (zs b))
       | ["all8"; st; m; sg; op] ->
         let sg' = p_sgn sg in
         let lo, hi = if sg = "s" then (-128, 127) else (0, 255) in
         let buf = Buffer.create (1 lsl 21) in
         for a = lo to hi do
           for b = lo to hi do
             Buffer.add_string buf (Printf.sprintf "%d %d %s\n" a b
               (bin_line (p_style st) (p_mode m) sg' (zs "8") (p_op op) (zs (string_of_int a)) (zs (string_of_int b))))
           done
         done;
         print_string (Buffer.contents buf)
       | ["neg"; st; m; w; a] ->
         Printf.printf "%s %s\n" (out (impl_neg (p_style st) (p_mode m) (zs w) (zs a))) (out (spec_neg (zs w) (zs a)))
       | ["abs"; a] -> print_endline (match impl_abs_f64 (zs a) with Some v -> "some:" ^ sz v | None -> "none")
       | "sum" :: w :: rest ->
         let parts = p_parts rest in
         Printf.printf "%s %s\n" (out_opt (sum_impl (zs w) parts)) (out_opt (sum_spec (zs w) parts))
       | ["decadd"; st; m; k; sub; m64; m128; pw; dv; rv; l; r] ->
         let pp = { max64 = zs m64; max128 = zs m128; pow_i32 = (pw = "1"); d2d_validates = (dv = "1"); res_validates = (rv = "1") } in
         let (((p, s), exc), res) = dec_addsub pp (p_style st) (p_mode m) (p_kind k) (sub = "1") (p_operand l) (p_operand r) in
         Printf.printf "%s %s %s %s %s\n" (sz p) (sz s) (b01 exc) (out res)
           (out (spec_addsub pp (p_kind k) (sub = "1") (p_operand l) (p_operand r)))
       | ["decmul"; st; m; k; m64; m128; rv; l; r] ->
         let pp = { max64 = zs m64; max128 = zs m128; pow_i32 = false; d2d_validates = true; res_validates = (rv = "1") } in
         (match dec_mul pp (p_style st) (p_mode m) (p_kind k) (p_operand l) (p_operand r),
                spec_mul pp (p_kind k) (p_operand l) (p_operand r) with
          | Some ((((p, s), cl), res)), Some sp -> Printf.printf "%s %s %s %s %s\n" (sz p) (sz s) (b01 cl) (out res) (out sp)
          | _ -> print_endline "none")
       | ["round"; k; v; d] -> print_endline (out (dec_round (p_kind k) (zs v) (zs d)))
       | "sumdec" :: m64 :: m128 :: rest ->
         let pp = { max64 = zs m64; max128 = zs m128; pow_i32 = false; d2d_validates = true; res_validates = true } in
         let parts = p_parts rest in
         Printf.printf "%s %s\n" (out_opt (sum_dec_impl parts)) (out_opt (sum_dec_spec pp parts))
       | "avgdec" :: m :: xs -> print_endline (out (avg_dec_acc (p_mode m) (List.map zs xs)))
       | "avgint" :: xs -> let (s, c) = avg_acc (List.map zs xs) in Printf.printf "%s %s\n" (sz s) (sz c)
       | ["avgf"; s; c; sc] ->
         print_endline (match avg_f64 (zs s) (zs c) (zs sc) with Some v -> "some:" ^ sz v | None -> "none")
       | [] -> print_endline ""
       | _ -> failwith ("bad line " ^ line)
     done
   with End_of_file -> ())

let () =
  match Array.to_list Sys.argv with
  | [_; "arith"] -> arith ()
  | _ -> prerr_endline "usage: arith arith"; exit 2
