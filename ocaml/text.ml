(* topic driver: UTF-8, LIKE, string functions (extract/text_model.ml).
   Strings travel as x<hex of the UTF-8 bytes>; they are decoded to code points by the extracted
   `decode` and results are encoded by the extracted `encode`.  Integers are decimal (i64 range).
   sub-command `fn`:   one call per line:  <name> <args..>   ->  "<impl outcome> | <spec>"
       outcomes:  S<hex> | I<int> | B0/B1 | PANIC | FUEL          spec:  same, or ERR
   sub-command `like`: one line per pattern:  <pat> <s1> <s2> ...
       ->  "<class> <regex bits> <spec bits> <rewrite bits>"  (one character 0/1 per string) *)
let str_arg (s : string) : n list =
  if String.length s = 0 || s.[0] <> 'x' then failwith ("bad string arg " ^ s);
  match decode (bytes_of_hex (String.sub s 1 (String.length s - 1))) with
  | Some cs -> cs
  | None -> failwith ("not utf-8: " ^ s)
let out_str (cs : n list) : string = "S" ^ hex_of_bytes (encode cs)
let out_int (x : z) : string = "I" ^ string_of_zz x
let out_bool b = if b then "B1" else "B0"
let oc (f : 'a -> string) (o : 'a outcome) : string =
  match o with Ok a -> f a | Panic -> "PANIC" | OutOfFuel -> "FUEL"
let osp (f : 'a -> string) (o : 'a option) : string = match o with Some a -> f a | None -> "ERR"
let zi = zz_of_string
let fuel_of s = nat_of_int (int_of_string s)

let fn_line (ws : string list) : string =
  let both a b = a ^ " | " ^ b in
  match ws with
  | ["length"; s] -> let s = str_arg s in both (out_int (impl_length s)) (out_int (spec_length s))
  | ["reverse"; s] -> let s = str_arg s in both (oc out_str (impl_reverse s)) (out_str (spec_reverse s))
  | ["concat"; a; b] -> let a = str_arg a and b = str_arg b in both (oc out_str (impl_concat a b)) (out_str (spec_concat a b))
  | ["repeat"; s; n] -> let s = str_arg s in both (oc out_str (impl_repeat s (zi n))) (out_str (spec_repeat_copies s (zi n)))
  | ["left"; s; n] -> let s = str_arg s in both (oc out_str (impl_left s (zi n))) (out_str (spec_left s (zi n)))
  | ["right"; s; n] -> let s = str_arg s in both (oc out_str (impl_right s (zi n))) (out_str (spec_right s (zi n)))
  | ["substring_from"; fuel; s; f] ->
    let s = str_arg s in
    both (oc out_str (impl_substring_from (fuel_of fuel) s (zi f))) (out_str (spec_substring_from s (zi f)))
  | ["substring"; fuel; s; f; c] ->
    let s = str_arg s in
    both (oc out_str (impl_substring (fuel_of fuel) s (zi f) (zi c))) (out_str (spec_substring s (zi f) (zi c)))
  | ["lpad"; fuel; s; n; p] ->
    let s = str_arg s and p = str_arg p in
    both (oc out_str (impl_lpad (fuel_of fuel) s (zi n) p)) (out_str (spec_lpad s (zi n) p))
  | ["rpad"; fuel; s; n; p] ->
    let s = str_arg s and p = str_arg p in
    both (oc out_str (impl_rpad (fuel_of fuel) s (zi n) p)) (out_str (spec_rpad s (zi n) p))
  | ["strpos"; s; p] -> let s = str_arg s and p = str_arg p in both (oc out_int (impl_strpos s p)) (out_int (spec_strpos s p))
  | ["replace"; s; a; b] ->
    let s = str_arg s and a = str_arg a and b = str_arg b in
    both (oc out_str (impl_replace s a b)) (out_str (spec_replace s a b))
  | ["translate"; s; a; b] ->
    let s = str_arg s and a = str_arg a and b = str_arg b in
    both (oc out_str (translate_map s a b)) (out_str (spec_translate s a b))
  | ["upper"; s] -> let s = str_arg s in both (oc out_str (upper_ascii s)) (out_str (spec_upper_ascii s))
  | ["lower"; s] -> let s = str_arg s in both (oc out_str (lower_ascii s)) (out_str (spec_lower_ascii s))
  | ["initcap"; s] -> let s = str_arg s in both (oc out_str (initcap_ascii s)) (out_str (spec_initcap_ascii s))
  | ["ltrim"; s; p] -> let s = str_arg s and p = str_arg p in both (out_str (spec_ltrim s p)) (out_str (spec_ltrim s p))
  | ["rtrim"; s; p] -> let s = str_arg s and p = str_arg p in both (out_str (spec_rtrim s p)) (out_str (spec_rtrim s p))
  | ["btrim"; s; p] -> let s = str_arg s and p = str_arg p in both (out_str (spec_btrim s p)) (out_str (spec_btrim s p))
  | ["starts_with"; s; p] -> let s = str_arg s and p = str_arg p in both (out_bool (starts_with s p)) (out_bool (starts_with s p))
  | ["ends_with"; s; p] -> let s = str_arg s and p = str_arg p in both (out_bool (ends_with s p)) (out_bool (ends_with s p))
  | ["contains"; s; p] -> let s = str_arg s and p = str_arg p in both (out_bool (contains s p)) (out_bool (contains s p))
  | ["split_part"; s; d; n] ->
    let s = str_arg s and d = str_arg d in
    both (oc out_str (impl_split_part s d (zi n))) (out_str (spec_split_part s d (zi n)))
  | ["valid"; h] -> let b = utf8_validb (bytes_of_hex (String.sub h 1 (String.length h - 1))) in both (out_bool b) (out_bool b)
  | _ -> failwith ("bad fn line: " ^ String.concat " " ws)

let fn () =
  try
    while true do
      let line = input_line stdin in
      match split_ws line with
      | [] -> ()
      | ws -> print_endline (fn_line ws)
    done
  with End_of_file -> ()

let class_str = function
  | REq _ -> "eq" | RStarts _ -> "starts" | REnds _ -> "ends" | RContains _ -> "contains" | RKeep _ -> "keep"

let like () =
  try
    while true do
      let line = input_line stdin in
      match split_ws line with
      | [] -> ()
      | pat :: ss ->
        let pat = str_arg pat in
        let r = classify pat in
        let n = List.length ss in
        let b1 = Bytes.make n '0' and b2 = Bytes.make n '0' and b3 = Bytes.make n '0' in
        List.iteri (fun i s ->
            let s = str_arg s in
            if like_regex pat s then Bytes.set b1 i '1';
            if like_spec pat s then Bytes.set b2 i '1';
            if rewrite_sem r s then Bytes.set b3 i '1') ss;
        Printf.printf "%s %s %s %s\n" (class_str r) (Bytes.to_string b1) (Bytes.to_string b2) (Bytes.to_string b3)
    done
  with End_of_file -> ()

(* sub-command `rx`: one call per line, TAB separated:
     <bol 0/1> <eol 0/1> <regex s-expression> <string> <replacement>
   regex: (lit N) (dot) (eps) (set <neg 0/1> (lo hi) ...) (cat a b) (alt a b) (star a)
   ->  "<like B0/B1> <instr impl> <instr spec> <count> <replace S..>" *)
let rec re_of_sexp (x : sexp) : re =
  match x with
  | L [A "lit"; A c] -> Chr (CLit (n_of_string c))
  | L [A "dot"] -> Chr CDot
  | L [A "eps"] -> Eps
  | L (A "set" :: A neg :: rs) ->
    Chr (CSet ((neg = "1"), List.map (function L [A lo; A hi] -> (n_of_string lo, n_of_string hi) | _ -> failwith "bad range") rs))
  | L [A "cat"; a; b] -> Cat (re_of_sexp a, re_of_sexp b)
  | L [A "alt"; a; b] -> Alt (re_of_sexp a, re_of_sexp b)
  | L [A "star"; a] -> Star (re_of_sexp a)
  | _ -> failwith "bad regex s-expression"

let rx () =
  try
    while true do
      let line = input_line stdin in
      if line <> "" then
        match String.split_on_char '\t' line with
        | [bol; eol; sx; s; rep] ->
          let p = { rx_bol = (bol = "1"); rx_body = re_of_sexp (parse_sexp sx); rx_eol = (eol = "1") } in
          let s = str_arg s and rep = str_arg rep in
          Printf.printf "%s %s %s %s %s\n"
            (oc out_bool (impl_regexp_like p s)) (oc out_int (impl_regexp_instr p s)) (out_int (spec_regexp_instr p s))
            (oc out_int (impl_regexp_count p s)) (oc out_str (impl_regexp_replace p s rep))
        | _ -> failwith ("bad rx line: " ^ line)
    done
  with End_of_file -> ()

let () =
  match Sys.argv with
  | [| _; "rx" |] -> rx ()
  | [| _; "fn" |] -> fn ()
  | [| _; "like" |] -> like ()
  | _ -> prerr_endline "usage: text <fn|like>"; exit 2
