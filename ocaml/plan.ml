(* topic driver: plan model (extract/plan_model.ml).
   One case per line:
     (skel (sch (w..)) <query>)  ->  line 1: <supported 0|1> <joins_wf 0|1> <skeleton lskel (plan_of q)>
                                    line 2: <pskel (phys_of (plan_of q)) = phys_sk (lskel ..) 0|1> <skeleton phys_sk (lskel (plan_of q))>
     (same <db> <query>)  ->  SAME | DIFF | ERRPLAN <kind> | ERRSPEC <kind> | ERRBOTH   (eval_lplan (plan_of q) vs eval_query q, env [])
     (e2e (sch (w..)) <db> <query> <partitions> <batch size> <reversed 0|1>) -> OK | MISMATCH | EXECERR <kind> | SPECERR <kind>
                             check_answer d q (exec_pplan <that runtime> (phys_of (plan_of q)))
     (same0 <db> <query>) ->  likewise for plan0_of, errors compared too (SAME also when both are the same error)
   db / query syntax: see ocaml/sql.ml (the parser below is copied from it). *)

let atom = function A s -> s | L _ -> failwith "atom expected"
let lst = function L l -> l | A s -> failwith ("list expected, got " ^ s)
let nat_of s = nat_of_int (int_of_string s)
let bool_of s = (s = "1" || s = "true")

let p_value (x : sexp) : value =
  match x with
  | A "N" -> VNull
  | L [A "b"; A v] -> VBool (bool_of v)
  | L [A "i"; A v] -> VInt (zz_of_string v)
  | L [A "s"; A h] -> VStr (bytes_of_hex h)
  | L [A "s"] -> VStr []
  | _ -> failwith "bad value"
let p_row x = List.map p_value (lst x)
let p_rows x = List.map p_row (lst x)

let p_cmpop = function "eq" -> CEq | "ne" -> CNe | "lt" -> CLt | "le" -> CLe | "gt" -> CGt | "ge" -> CGe | s -> failwith ("cmpop " ^ s)
let p_binop = function "add" -> Add | "sub" -> Sub | "mul" -> Mul | "div" -> Div | "rem" -> Rem | s -> failwith ("binop " ^ s)
let p_agg = function "countstar" -> ACountStar | "count" -> ACount | "sum" -> ASum | "min" -> AMin | "max" -> AMax
                   | "bool_and" -> ABoolAnd | "bool_or" -> ABoolOr | s -> failwith ("agg " ^ s)
let p_jk = function "cross" -> JCross | "inner" -> JInner | "left" -> JLeft | "right" -> JRight | "semi" -> JSemi
                  | "anti" -> JAnti | s -> failwith ("join kind " ^ s)
let p_opt f = function A "-" -> None | x -> Some (f x)

let rec p_expr (x : sexp) : expr =
  match x with
  | L [A "const"; v] -> EConst (p_value v)
  | L [A "col"; A d; A i] -> ECol (nat_of d, nat_of i)
  | L [A "cmp"; A op; a; b] -> ECmp (p_cmpop op, p_expr a, p_expr b)
  | L [A "distinct"; A neg; a; b] -> EDistinct (bool_of neg, p_expr a, p_expr b)
  | L [A "and"; a; b] -> EAnd (p_expr a, p_expr b)
  | L [A "or"; a; b] -> EOr (p_expr a, p_expr b)
  | L [A "not"; a] -> ENot (p_expr a)
  | L [A "isnull"; A neg; a] -> EIsNull (bool_of neg, p_expr a)
  | L [A "arith"; A op; A w; a; b] -> EArith (p_binop op, n_of_string w, p_expr a, p_expr b)
  | L [A "neg"; A w; a] -> ENeg (n_of_string w, p_expr a)
  | L [A "case"; L bs; els] ->
    ECase (List.map (function L [c; t] -> (p_expr c, p_expr t) | _ -> failwith "case branch") bs, p_expr els)
  | L [A "inlist"; A neg; a; L es] -> EInList (bool_of neg, p_expr a, List.map p_expr es)
  | L [A "exists"; A neg; q] -> EExists (bool_of neg, p_query q)
  | L [A "insub"; A neg; a; q] -> EInSub (bool_of neg, p_expr a, p_query q)
  | L [A "scalar"; q] -> EScalar (p_query q)
  | _ -> failwith "bad expr"
and p_query (x : sexp) : query =
  match x with
  | L [A "table"; A t] -> QTable (nat_of t)
  | L [A "values"; L rows] -> QValues (List.map (fun r -> List.map p_expr (lst r)) rows)
  | L [A "select"; f; wh; grp; hav; L sel; A dis] ->
    let g = p_opt (function
        | L [L keys; L aggs] ->
          (List.map p_expr keys,
           List.map (function L [A fn; A d; arg] -> ((p_agg fn, bool_of d), p_expr arg) | _ -> failwith "agg") aggs)
        | _ -> failwith "grp") grp in
    QSelect (p_opt p_from f, p_opt p_expr wh, g, p_opt p_expr hav, List.map p_expr sel, bool_of dis)
  | L [A "union"; A all; a; b] -> QUnion (bool_of all, p_query a, p_query b)
  | L [A "order"; q; L keys; lim; A off] ->
    QOrderLimit (p_query q,
                 List.map (function L [A i; A d; A nf] -> ((nat_of i, bool_of d), bool_of nf) | _ -> failwith "key") keys,
                 p_opt (fun x -> nat_of (atom x)) lim, nat_of off)
  | _ -> failwith "bad query"
and p_from (x : sexp) : fromc =
  match x with
  | L [A "fq"; q] -> FQuery (p_query q)
  | L [A "join"; A k; l; r; on; A la; A ra] -> FJoin (p_jk k, p_from l, p_from r, p_opt p_expr on, nat_of la, nat_of ra)
  | L [A "lateral"; A k; l; r; on; A ra] -> FLateral (p_jk k, p_from l, p_query r, p_opt p_expr on, nat_of ra)
  | _ -> failwith "bad from"

let s_value = function
  | VNull -> "N"
  | VBool b -> if b then "(b 1)" else "(b 0)"
  | VInt z -> "(i " ^ string_of_zz z ^ ")"
  | VStr s -> "(s " ^ hex_of_bytes s ^ ")"
let s_row r = "(" ^ String.concat " " (List.map s_value r) ^ ")"
let s_err = function EOverflow -> "overflow" | EDivZero -> "divzero" | ECard -> "card" | EType -> "type"


let s_jk = function JCross -> "cross" | JInner -> "inner" | JLeft -> "left" | JRight -> "right" | JSemi -> "semi" | JAnti -> "anti"
let s_nat n = string_of_int (int_of_nat n)
let s_onat = function None -> "-" | Some n -> s_nat n
let s_b b = if b then "1" else "0"
let s_op = function
  | KScan t -> "scan " ^ s_nat t
  | KSingleRow -> "singlerow"
  | KExprList n -> "exprlist " ^ s_nat n
  | KFilter -> "filter"
  | KProject n -> "project " ^ s_onat n
  | KCrossJoin -> "crossjoin"
  | KArbitraryJoin k -> "arbitraryjoin " ^ s_jk k
  | KComparisonJoin (k, n, e) -> "comparisonjoin " ^ s_jk k ^ " " ^ s_nat n ^ " " ^ s_b e
  | KDependentJoin k -> "dependentjoin " ^ s_jk k
  | KAggregate (nk, na) -> "aggregate " ^ s_nat nk ^ " " ^ s_nat na
  | KDistinct -> "distinct"
  | KSetop all -> "setop " ^ s_b all
  | KOrder n -> "order " ^ s_nat n
  | KLimit (l, o) -> "limit " ^ s_onat l ^ " " ^ s_nat o
  | KMatScan -> "matscan"
  | KMarkJoin n -> "markjoin " ^ s_nat n
  | KMagicJoin SubScalar -> "magicjoin scalar"
  | KMagicJoin SubExists -> "magicjoin exists"
  | KMagicJoin SubIn -> "magicjoin in"
let rec s_sk (Sk (op, cs)) = "(" ^ s_op op ^ String.concat "" (List.map (fun c -> " " ^ s_sk c) cs) ^ ")"

let s_pjk = function PJ k -> s_jk k | PJMark -> "mark"
let s_pop = function
  | QScan t -> "scan " ^ s_nat t
  | QSingleRow -> "singlerow"
  | QExprList n -> "exprlist " ^ s_nat n
  | QFilter -> "filter"
  | QProject n -> "project " ^ s_onat n
  | QNlJoin (k, f) -> "nljoin " ^ s_pjk k ^ " " ^ s_b f
  | QHashJoin (k, n) -> "hashjoin " ^ s_pjk k ^ " " ^ s_nat n
  | QHashAggregate (nk, na) -> "hashaggregate " ^ s_nat nk ^ " " ^ s_nat na
  | QUngroupedAggregate na -> "ungroupedaggregate " ^ s_nat na
  | QHashDistinct -> "hashdistinct"
  | QUnionOp -> "union"
  | QSort n -> "sort " ^ s_nat n
  | QLimit (l, o) -> "limit " ^ s_onat l ^ " " ^ s_nat o
  | QMaterialize -> "materialize"
  | QUnsupported -> "unsupported"
let rec s_psk (Psk (op, cs)) = "(" ^ s_pop op ^ String.concat "" (List.map (fun c -> " " ^ s_psk c) cs) ^ ")"

(* ---- a concrete runtime for exec_pplan: p partitions, batches of bsz rows, optionally reversed arrival ---- *)
let rec chunk n l =
  if l = [] then [] else
    let rec take k l acc = if k = 0 then (List.rev acc, l) else match l with [] -> (List.rev acc, []) | x :: t -> take (k - 1) t (x :: acc) in
    let (a, b) = take (max 1 n) l [] in a :: chunk n b
let mk_deal p bsz rev = fun _ _ rows ->
  let rows = if rev then List.rev rows else rows in
  let parts = Array.make p [] in
  List.iteri (fun i r -> parts.(i mod p) <- r :: parts.(i mod p)) rows;
  Array.to_list (Array.map (fun l -> chunk bsz (List.rev l)) parts)
let run_e2e sch d q p bsz rev =
  let hashv x = n_of_int (Hashtbl.hash x land 0xffffff) in
  let tree _ rs = List.fold_right (fun r t -> Node (Run r, t)) rs (Run []) in
  let lsched _ = List.init (4096 * p) (fun i -> nat_of_int (i mod p)) in
  let usched _ _ = [UPush; UExec; UExec; UPush; UExec; UExec] in
  exec_pplan (mk_deal p bsz rev) (fun _ rows -> chunk bsz rows) (fun _ l -> List.rev l) (fun _ l -> List.rev l)
    hashv (n_of_int 4) (nat_of_int p) hashv (nat_of_int p) (nat_of_int 4) (nat_of_int 3) tree lsched usched
    [] d [] (phys_of (plan_of q))

let sch_of (d : value list list list) : nat list =
  List.map (fun rows -> match rows with [] -> O | r :: _ -> nat_of_int (List.length r)) d

let () =
  (try
     while true do
       let line = input_line stdin in
       if String.trim line <> "" then begin
         (try
            match parse_sexp line with
            | L [A "skel"; L [A "sch"; L ws]; q] ->
              let sch = List.map (fun w -> nat_of (atom w)) ws in
              let q = p_query q in
              let lp = plan_of q in
              let ls = lskel sch lp in
              print_endline (s_b (plan_supported q) ^ " " ^ s_b (joins_wf sch q) ^ " " ^ s_sk ls);
              let pp = pskel sch (phys_of lp) in
              let rec has_uns (Psk (op, cs)) = (op = QUnsupported) || List.exists has_uns cs in
              print_endline ((if has_uns pp then "u" else s_b (psk_eqb pp (phys_sk ls))) ^ " " ^ s_psk (phys_sk ls))
            | L [A "same"; L [A "sch"; L ws]; d; q] ->
              let sch = List.map (fun w -> nat_of (atom w)) ws in
              let d = List.map p_rows (lst d) in
              let q = p_query q in
              let wf = joins_wf sch q && db_arity_ok sch d in
              (match eval_lplan d [] (plan_of q), eval_query d [] q with
               | Ok a, Ok b -> print_endline ((if a = b then "SAME" else "DIFF") ^ " " ^ s_b wf)
               | Err e, Ok _ -> print_endline ("ERRPLAN " ^ s_err e ^ " " ^ s_b wf)
               | Ok _, Err e -> print_endline ("ERRSPEC " ^ s_err e ^ " " ^ s_b wf)
               | Err _, Err _ -> print_endline ("ERRBOTH " ^ s_b wf))
            | L [A "e2e"; L [A "sch"; L ws]; d; q; A p; A bsz; A rev] ->
              let sch = List.map (fun w -> nat_of (atom w)) ws in
              let d = List.map p_rows (lst d) in
              let q = p_query q in
              (match run_e2e sch d q (int_of_string p) (int_of_string bsz) (rev = "1") with
               | Err e -> print_endline ("EXECERR " ^ s_err e)
               | Ok got ->
                 (match check_answer d q got with
                  | VOk -> print_endline "OK"
                  | VMismatch -> print_endline "MISMATCH"
                  | VSpecError e -> print_endline ("SPECERR " ^ s_err e)))
            | L [A "same0"; d; q] ->
              let d = List.map p_rows (lst d) in
              let q = p_query q in
              print_endline (if eval_lplan d [] (plan0_of q) = eval_query d [] q then "SAME" else "DIFF")
            | _ -> print_endline "BADCASE"
          with Failure m ->
                 let twice = String.length line > 5 && String.sub (String.trim line) 0 5 = "(skel" in
                 print_endline ("BADCASE " ^ m); if twice then print_endline ("BADCASE " ^ m)
             | Stack_overflow -> print_endline "BADCASE stack")
       end
     done
   with End_of_file -> ())
