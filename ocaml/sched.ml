(* topic driver: C04 scheduling models (extract/sched_model.ml).
   stack:   "case <nops> <script>"  script = 2 chars per step: exec answer R P N H X E, fin answer F D P E
            -> one line: comma separated "<control> <call>" per step (same alphabet as gv_sched stack),
               or "new_panic" when ExecStack.new refuses the operator count.
   tasklog: "trace ev ev ..."  ev in wake | cancel_set | begin | done:D | done:E | done:P | end
            (one task's events in lock order, from the cfg(glaredb_verif) log of threaded/task.rs)
            -> "OK <n> alive=<k> in_exec=<k> after_err=<k> after_done=<k>"  or "REJECT <idx> <ev>".
            The log carries no worker-closure ids: the driver picks the worker whose phase makes the
            event possible (the model proves there is at most one live worker); acceptance of every
            event is decided by the extracted TaskSched.step. *)
let pexec_of = function
  | 'R' -> ROk XReady | 'P' -> ROk XPending | 'N' -> ROk XNeedsMore | 'H' -> ROk XHasMore
  | 'X' -> ROk XExhausted | 'E' -> RErr | c -> failwith (Printf.sprintf "bad exec answer %c" c)
let pfin_of = function
  | 'F' -> ROk FFinalized | 'D' -> ROk FNeedsDrain | 'P' -> ROk FPending | 'E' -> RErr
  | c -> failwith (Printf.sprintf "bad fin answer %c" c)
let control_str = function
  | Continue -> "C" | Finished -> "F" | Pending -> "P"
  | Error EOperator -> "!O" | Error ELastHasMore -> "!H" | Error ELastExhausted -> "!X"
  | Error ELastNeedsDrain -> "!D" | Panic -> "PANIC"
let call_str = function
  | CNone -> "-" | CExec i -> "e" ^ string_of_int (int_of_nat i) | CFin i -> "f" ^ string_of_int (int_of_nat i)

let stack () =
  (try
     while true do
       let line = input_line stdin in
       match split_ws line with
       | ["case"; n; script] ->
         (match new0 (nat_of_int (int_of_string n)) with
          | None -> print_endline "new_panic"
          | Some s ->
            let k = String.length script / 2 in
            let polls = List.init k (fun i ->
                { on_exec = pexec_of script.[2 * i]; on_fin = pfin_of script.[2 * i + 1] }) in
            let outs = run_script s polls in
            print_endline (String.concat "," (List.map (fun (c, k) -> control_str c ^ " " ^ call_str k) outs)))
       | ["case"; n] ->
         (match new0 (nat_of_int (int_of_string n)) with None -> print_endline "new_panic" | Some _ -> print_endline "")
       | [] -> ()
       | _ -> failwith ("bad line " ^ line)
     done
   with End_of_file -> ())

let find_worker (s : tstate) (pred : wphase -> bool) : int =
  let rec go i = function [] -> -1 | w :: t -> if pred w then i else go (i + 1) t in
  go 0 s.workers

let tasklog () =
  (try
     while true do
       let line = input_line stdin in
       match split_ws line with
       | "trace" :: evs ->
         let st = ref init in
         let bad = ref None in
         List.iteri (fun idx e ->
             if !bad = None then begin
               let ev =
                 match e with
                 | "wake" -> Some EWake
                 | "cancel_set" -> Some ECancelSet
                 | "begin" ->
                   let w = find_worker !st (function WSpawned | WLoop -> true | _ -> false) in
                   if w < 0 then None else Some (EBegin (nat_of_int w))
                 | "done:D" | "done:E" | "done:P" ->
                   let r = (match e with "done:D" -> XDone | "done:E" -> XErr | _ -> XPend) in
                   let w = find_worker !st (function WExec -> true | _ -> false) in
                   if w < 0 then None else Some (EExecDone (nat_of_int w, r))
                 | "end" ->
                   let w = find_worker !st (function WGot _ -> true | _ -> false) in
                   if w < 0 then None else Some (EEnd (nat_of_int w))
                 | _ -> None in
               match ev with
               | None -> bad := Some (idx, e)
               | Some ev ->
                 (match step !st ev with
                  | Some s' -> st := s'
                  | None -> bad := Some (idx, e))
             end) evs;
         (match !bad with
          | Some (i, e) -> Printf.printf "REJECT %d %s\n" i e
          | None ->
            Printf.printf "OK %d alive=%d in_exec=%d after_err=%d after_done=%d\n" (List.length evs)
              (int_of_nat (n_alive !st)) (int_of_nat (n_in_execute !st))
              (int_of_nat !st.execs_after_err) (int_of_nat !st.execs_after_done))
       | [] -> ()
       | _ -> failwith ("bad line " ^ line)
     done
   with End_of_file -> ())


(* mq: "case <parts> <tok> <tok> ..." with the token language of `gv_sched mq`
   (f<p>:<k> | p<p>[ .. ] | t<p>); prints the events separated by ';' in the harness' format.
   Every state and result is computed by the extracted q_* functions. *)
type mqop = MFin of int * int | MPoll of int * mqop list | MTake of int
let rec mq_parse (toks : string array) (pos : int ref) : mqop list =
  let ops = ref [] in
  let stop = ref false in
  while not !stop && !pos < Array.length toks do
    let t = toks.(!pos) in
    if t = "]" then stop := true
    else begin
      incr pos;
      let body = String.sub t 1 (String.length t - 1) in
      (match t.[0] with
       | 'f' -> (match split_on ':' body with
           | [a; b] -> ops := MFin (int_of_string a, int_of_string b) :: !ops
           | _ -> failwith "bad f token")
       | 't' -> ops := MTake (int_of_string body) :: !ops
       | 'p' ->
         let p = int_of_string (String.sub body 0 (String.length body - 1)) in
         let sub = mq_parse toks pos in
         if !pos >= Array.length toks || toks.(!pos) <> "]" then failwith "unclosed [";
         incr pos;
         ops := MPoll (p, sub) :: !ops
       | _ -> failwith ("bad token " ^ t))
    end
  done;
  List.rev !ops
let mq_state (q : mq) : string =
  Printf.sprintf "%d/%d/%d/%d" (int_of_nat q.q_runs) (int_of_nat q.q_remaining) (int_of_nat q.q_merging)
    (if q_complete q then 1 else 0)
let mq_woken (l : nat list) : string = String.concat "," (List.map (fun i -> string_of_int (int_of_nat i)) l)
let mq () =
  (try
     while true do
       let line = input_line stdin in
       match split_ws line with
       | "case" :: parts :: toks ->
         let q = ref (q_new (nat_of_int (int_of_string parts))) in
         let out = ref [Printf.sprintf "init | %s" (mq_state !q)] in
         let emit s = out := s :: !out in
         let rec exec ops =
           List.iter (fun op ->
               match op with
               | MFin (p, k) ->
                 let (q', ok) = q_add !q (nat_of_int k) in
                 q := q';
                 emit (Printf.sprintf "f%d %s k=%d w= | %s" p (if ok then "ok" else "err") k (mq_state !q))
               | MPoll (p, sub) ->
                 let (q', r) = q_poll !q (nat_of_int p) in
                 q := q';
                 (match r with
                  | QFinished -> emit (Printf.sprintf "p%d finished w= | %s" p (mq_state !q))
                  | QPending -> emit (Printf.sprintf "p%d pending w= | %s" p (mq_state !q))
                  | QPopped ->
                    emit (Printf.sprintf "p%d pop w= | %s" p (mq_state !q));
                    exec sub;
                    let (q'', w) = q_merge_done !q in
                    q := q'';
                    emit (Printf.sprintf "p%d merged w=%s | %s" p (mq_woken w) (mq_state !q)))
               | MTake p ->
                 let ((q', r), w) = q_take !q in
                 q := q';
                 emit (Printf.sprintf "t%d %s w=%s | %s" p
                         (match r with QErr -> "err" | QSome -> "some" | QNone -> "none") (mq_woken w) (mq_state !q)))
             ops in
         let arr = Array.of_list toks in
         let pos = ref 0 in
         exec (mq_parse arr pos);
         print_endline (String.concat ";" (List.rev !out))
       | [] -> ()
       | _ -> failwith ("bad line " ^ line)
     done
   with End_of_file -> ())

let () =
  match Array.to_list Sys.argv with
  | [_; "stack"] -> stack ()
  | [_; "tasklog"] -> tasklog ()
  | [_; "mq"] -> mq ()
  | _ -> prerr_endline "usage: sched <stack|tasklog|mq>"; exit 2
