(* Shared prelude, textually prepended (after `module B = Z` and `open <Topic>_model`) to every
   topic driver by vlib/common.py:build_ocaml.  Conversions between text and the extracted
   positive / N / Z / nat go through zarith (bound to B); a tiny s-expression reader. *)


let rec pos_of_z (z : B.t) : positive =
  if B.equal z B.one then XH
  else if B.testbit z 0 then XI (pos_of_z (B.shift_right z 1))
  else XO (pos_of_z (B.shift_right z 1))
let n_of_z (z : B.t) : n = if B.sign z = 0 then N0 else Npos (pos_of_z z)
let zz_of_z (z : B.t) : z =
  if B.sign z = 0 then Z0 else if B.sign z > 0 then Zpos (pos_of_z z) else Zneg (pos_of_z (B.neg z))
let rec z_of_pos (p : positive) : B.t =
  match p with
  | XH -> B.one
  | XO q -> B.shift_left (z_of_pos q) 1
  | XI q -> B.succ (B.shift_left (z_of_pos q) 1)
let z_of_n (x : n) : B.t = match x with N0 -> B.zero | Npos p -> z_of_pos p
let z_of_zz (x : z) : B.t = match x with Z0 -> B.zero | Zpos p -> z_of_pos p | Zneg p -> B.neg (z_of_pos p)
let rec nat_of_int (i : int) : nat = if i <= 0 then O else S (nat_of_int (i - 1))
let n_of_string s = n_of_z (B.of_string s)
let n_of_int i = n_of_z (B.of_int i)
let int_of_n x = B.to_int (z_of_n x)

let split_ws s = List.filter (fun x -> x <> "") (String.split_on_char ' ' s)
let split_on c s = String.split_on_char c s

let bytes_of_hex (h : string) : n list =
  let l = String.length h / 2 in
  List.init l (fun i -> n_of_int (int_of_string ("0x" ^ String.sub h (2 * i) 2)))
let hex_of_bytes (bs : n list) : string =
  String.concat "" (List.map (fun b -> Printf.sprintf "%02x" (int_of_n b)) bs)

let cmp_str = function Eq -> "Eq" | Lt -> "Lt" | Gt -> "Gt"


(* ---- s-expressions: atoms and lists; atoms may be double-quoted with backslash escapes ---- *)
type sexp = A of string | L of sexp list
let parse_sexp (s : string) : sexp =
  let n = String.length s in
  let pos = ref 0 in
  let rec skip () = if !pos < n && (s.[!pos] = ' ' || s.[!pos] = '\t' || s.[!pos] = '\n') then (incr pos; skip ()) in
  let rec item () =
    skip ();
    if !pos >= n then failwith "sexp: eof"
    else if s.[!pos] = '(' then begin
      incr pos;
      let items = ref [] in
      let rec loop () =
        skip ();
        if !pos >= n then failwith "sexp: unclosed"
        else if s.[!pos] = ')' then incr pos
        else (items := item () :: !items; loop ()) in
      loop (); L (List.rev !items)
    end else if s.[!pos] = '"' then begin
      incr pos;
      let b = Buffer.create 16 in
      let rec loop () =
        if !pos >= n then failwith "sexp: unclosed string"
        else if s.[!pos] = '"' then incr pos
        else if s.[!pos] = '\\' && !pos + 1 < n then (Buffer.add_char b s.[!pos + 1]; pos := !pos + 2; loop ())
        else (Buffer.add_char b s.[!pos]; incr pos; loop ()) in
      loop (); A (Buffer.contents b)
    end else begin
      let st = !pos in
      while !pos < n && s.[!pos] <> ' ' && s.[!pos] <> '(' && s.[!pos] <> ')' && s.[!pos] <> '\t' do incr pos done;
      A (String.sub s st (!pos - st))
    end in
  item ()
let bytes_of_string (s : string) : n list = List.init (String.length s) (fun i -> n_of_int (Char.code s.[i]))
let string_of_bytes (bs : n list) : string = String.concat "" (List.map (fun b -> String.make 1 (Char.chr (int_of_n b))) bs)
let zz_of_string s = zz_of_z (B.of_string s)
let string_of_zz x = B.to_string (z_of_zz x)
let string_of_n x = B.to_string (z_of_n x)
let rec int_of_nat = function O -> 0 | S k -> 1 + int_of_nat k
