(* C14 driver: s-expression lines in, one text line out per request.  Parsing / printing only; every
   result is computed by the extracted model (Catalog.step_impl, Storage.run / run_order ...).

   catalog history:
     (new <default_partitions> <sessions>)                  -> ok
     (stmt <session> <oracle> <stmt>)                       -> F<fails_at_runtime> S<is_self_insert> <outcome>
       oracle : (o (none) (extra)) | (o (leak n ...) (extra))       (the `extra` slot is unused since 2e9960218)
       ref    : (- n) | (s n)
       src    : (rows (c ...) (r ...) 0|1) | (ref <ref>)
       stmt   : (cs s ine) (ds s ie casc) (ct <ref> (c ...) e|i|r) (cv <ref> <ref> orrep) (dt <ref> ie casc)
                (ins <ref> <src>) (ctas <ref> e|i|r <src>) (set v <val>) (reset v) (resetall) (show v)
                (sel <ref>) (lt) (lv) (ls)           v : p|b|o|u     val : (i z) | (b 0|1) | (t)
       outcome: ok none | ok count n | ok rows c,c | r r r | ok names s.n ... | ok schemas s ... | ok val i z | ok val b 0|1
                | err exists|notfound|invalid|other
   storage:
     (selfinsert segsz cap ocap nrows p (order ...) [fuel])   (Storage.self_insert: table scan with segment limit)
     (selfinsert_old segsz cap ocap nrows p (order ...) [fuel]) (Storage.Old.self_insert: the scan before 2e9960218)
                                                 a table of nrows rows loaded by one partition in batches of cap
                                                 rows, then INSERT INTO t SELECT * FROM t with p partitions, each
                                                 partition run to completion in the given order
                                                 -> total <rows in table> count <sum of rows_inserted> | stuck
     (bulk t|f segsz cap k n bs)                 chunk level (Storage.bulk / batches_of): a table loaded with rows 1..k in
                                                 batches of cap rows, then one appender appends rows k+1..k+n in batches of
                                                 bs rows (t: append_batch as written, f: the `input_offset = copy_count`
                                                 variant) -> count <n> rows lo-hi*mult,... (sorted multiset, run-length coded)
     (failinsert segsz cap nbatches)             one partition appends nbatches batches of cap rows and stops
                                                 (no finalize) -> visible <rows> *)

let atom = function A s -> s | L _ -> failwith "atom expected"
let items = function L l -> l | A _ -> failwith "list expected"
let nn s = n_of_string (atom s)
let nlist s = List.map nn (items s)
let bool_of s = atom s = "1"

let parse_ref s : ref =
  match items s with
  | [A "-"; n] -> (None, nn n)
  | [sc; n] -> (Some (nn sc), nn n)
  | _ -> failwith "ref"
let parse_src s : source =
  match items s with
  | [A "rows"; c; r; f] -> SrcRows (nlist c, nlist r, bool_of f)
  | [A "ref"; r] -> SrcRef (parse_ref r)
  | _ -> failwith "src"
let parse_oc s = match atom s with "e" -> OnError | "i" -> OnIgnore | "r" -> OnReplace | _ -> failwith "oc"
let parse_var s = match atom s with "p" -> VPartitions | "b" -> VBatchSize | "o" -> VEnableOptimizer | _ -> VUnknown
let parse_val s =
  match items s with
  | [A "i"; z] -> SInt (zz_of_string (atom z))
  | [A "b"; b] -> SBool (bool_of b)
  | _ -> SText
let parse_stmt s : stmt =
  match items s with
  | [A "cs"; sc; ine] -> CreateSchema (nn sc, bool_of ine)
  | [A "ds"; sc; ie; ca] -> DropSchema (nn sc, bool_of ie, bool_of ca)
  | [A "ct"; r; c; oc] -> CreateTable (parse_ref r, nlist c, parse_oc oc)
  | [A "cv"; r; t; orr] -> CreateView (parse_ref r, parse_ref t, bool_of orr)
  | [A "dt"; r; ie; ca] -> DropTable (parse_ref r, bool_of ie, bool_of ca)
  | [A "ins"; r; src] -> Insert (parse_ref r, parse_src src)
  | [A "ctas"; r; oc; src] -> Ctas (parse_ref r, parse_oc oc, parse_src src)
  | [A "set"; v; x] -> SetVar (parse_var v, parse_val x)
  | [A "reset"; v] -> ResetVar (parse_var v)
  | [A "resetall"] -> ResetAll
  | [A "show"; v] -> ShowVar (parse_var v)
  | [A "sel"; r] -> Select (parse_ref r)
  | [A "lt"] -> ListTables
  | [A "lv"] -> ListViews
  | [A "ls"] -> ListSchemas
  | _ -> failwith "stmt"
let parse_oracle s : oracle =
  match items s with
  | [A "o"; lk; ex] ->
    let leak = (match items lk with
        | A "none" :: _ -> None
        | A "leak" :: r -> Some (List.map nn r)
        | _ -> failwith "leak") in
    ignore ex; leak
  | _ -> failwith "oracle"

let sn = string_of_n
let show_outcome = function
  | Err EExists -> "err exists" | Err ENotFound -> "err notfound" | Err EInvalid -> "err invalid" | Err EOther -> "err other"
  | Ok RNone -> "ok none"
  | Ok (RCount n) -> "ok count " ^ sn n
  | Ok (RRows (c, r)) -> "ok rows " ^ String.concat "," (List.map sn c) ^ " | " ^ String.concat " " (List.map sn r)
  | Ok (RNames l) -> "ok names " ^ String.concat " " (List.map (fun (s, n) -> sn s ^ "." ^ sn n) l)
  | Ok (RSchemas l) -> "ok schemas " ^ String.concat " " (List.map sn l)
  | Ok (RVal (SInt z)) -> "ok val i " ^ string_of_zz z
  | Ok (RVal (SBool b)) -> "ok val b " ^ (if b then "1" else "0")
  | Ok (RVal SText) -> "ok val t"

let history () =
  let st = ref (new_engine (zz_of_string "1") (nat_of_int 1)) in
  (try
     while true do
       let line = input_line stdin in
       if String.trim line <> "" then begin
         match items (parse_sexp line) with
         | [A "new"; p; k] -> st := new_engine (zz_of_string (atom p)) (nat_of_int (int_of_string (atom k))); print_endline "ok"
         | [A "stmt"; u; o; s] ->
           let u = nat_of_int (int_of_string (atom u)) in
           let s = parse_stmt s in
           let f = fails_at_runtime s in
           let self = (match nth_error !st u with Some se -> is_self_insert se s | None -> false) in
           let (st', out) = step_impl (parse_oracle o) !st u s in
           st := st';
           print_endline (Printf.sprintf "F%d S%d %s" (if f then 1 else 0) (if self then 1 else 0) (show_outcome out))
         | _ -> failwith ("bad line " ^ line)
       end
     done
   with End_of_file -> ())

let rec batches (start : B.t) (cap : int) (remaining : int) (acc : label list) : label list =
  if remaining <= 0 then List.rev acc
  else
    let k = min cap remaining in
    batches (B.add start (B.of_int k)) cap (remaining - k) (LAppend (O, iotaN (n_of_z start) (nat_of_int k)) :: acc)

let storage () =
  (try
     while true do
       let line = input_line stdin in
       if String.trim line <> "" then begin
         match items (parse_sexp line) with
         | A (("selfinsert" | "selfinsert_old") as which) :: segsz :: cap :: ocap :: nrows :: p :: order :: rest ->
           let fuel = (match rest with [f] -> int_of_string (atom f) | _ -> 100000) in
           let capi = int_of_string (atom cap) in
           let k = { segsz = nat_of_int (int_of_string (atom segsz)); cap = nat_of_int capi;
                     ocap = nat_of_int (int_of_string (atom ocap)) } in
           let load = batches B.one capi (int_of_string (atom nrows)) [] @ [LFinalize O] in
           (match run k (writers [] (nat_of_int 1)) load with
            | None -> print_endline "stuck load"
            | Some c0 ->
              let pn = nat_of_int (int_of_string (atom p)) in
              let ord = List.map (fun x -> nat_of_int (int_of_string (atom x))) (items order) in
              let start = if which = "selfinsert" then self_insert c0.segs pn else Old.self_insert c0.segs pn in
              (match run_order k (nat_of_int fuel) start ord with
               | None -> print_endline (Printf.sprintf "unfinished after %d scan calls of one partition" fuel)
               | Some c ->
                 print_endline (Printf.sprintf "total %s count %d complete %b segments %d"
                                  (string_of_n (total_rows c)) (int_of_nat (insert_count c)) (complete c)
                                  (List.length c.segs))))
         | [A "bulk"; acc; segsz; cap; k; n; bs] ->
           let capi = int_of_string (atom cap) and ki = int_of_string (atom k) and ni = int_of_string (atom n) in
           let bsi = int_of_string (atom bs) and sz = nat_of_int (int_of_string (atom segsz)) in
           let capn = nat_of_int capi in
           let pre = batches_of (nat_of_int (ki + 1)) capn (iotaN (n_of_int 1) (nat_of_int ki)) in
           let nw = batches_of (nat_of_int (ni + 1)) (nat_of_int bsi) (iotaN (n_of_int (ki + 1)) (nat_of_int ni)) in
           (match bulk true capn sz [] [] pre with
            | None -> print_endline "stuck"
            | Some sg1 ->
              (match bulk (atom acc = "t") capn sz sg1 [] nw with
               | None -> print_endline "stuck"
               | Some sg2 ->
                 let ids = List.sort compare (List.map int_of_n (List.concat sg2)) in
                 (* run-length print: maximal runs lo..hi of consecutive ids all with the same multiplicity *)
                 let rec groups acc = function
                   | [] -> List.rev acc
                   | x :: r -> (match acc with
                       | (y, m) :: a when y = x -> groups ((y, m + 1) :: a) r
                       | _ -> groups ((x, 1) :: acc) r) in
                 let g = groups [] ids in
                 let rec runs acc = function
                   | [] -> List.rev acc
                   | (x, m) :: r -> (match acc with
                       | (lo, hi, m') :: a when hi + 1 = x && m' = m -> runs ((lo, x, m) :: a) r
                       | _ -> runs ((x, x, m) :: acc) r) in
                 let rs = runs [] g in
                 print_endline (Printf.sprintf "count %d rows %s" (List.length ids)
                                  (String.concat "," (List.map (fun (lo, hi, m) -> Printf.sprintf "%d-%d*%d" lo hi m) rs)))))
         | [A "failinsert"; segsz; cap; nb] ->
           let capi = int_of_string (atom cap) in
           let k = { segsz = nat_of_int (int_of_string (atom segsz)); cap = nat_of_int capi; ocap = nat_of_int capi } in
           let load = batches B.one capi (capi * int_of_string (atom nb)) [] in
           (match run k (writers [] (nat_of_int 1)) load with
            | None -> print_endline "stuck"
            | Some c -> print_endline (Printf.sprintf "visible %s" (string_of_n (total_rows c))))
         | _ -> failwith ("bad line " ^ line)
       end
     done
   with End_of_file -> ())

let () =
  match Array.to_list Sys.argv with
  | [_; "history"] -> history ()
  | [_; "storage"] -> storage ()
  | _ -> prerr_endline "usage: catalog <history|storage>"; exit 2
