(* topic driver: the tokenizer model (extract/lexer_model.ml).
   sub-command `lex`.  stdin:
     line 1:  A <lo>-<hi> <lo>-<hi> ...     ranges of char::is_alphabetic (decimal scalar values)
     line 2:  N <lo>-<hi> ...               ranges of char::is_numeric
     then one statement text per line, as hex of its UTF-8 bytes (decoded by the extracted `decode`)
   stdout, one line per text, in the canonical form of harness/src/bin/gv_lex.rs:
     OK <tok>;<tok>;..   tok = <kind>,<hex of text>,<start_idx>,<line>,<col>[,<keyword index | ->]
     ERR <code point> | ERRQ <code point of the quote> | PANIC | FUEL | NOTUTF8
   The two tables are INPUT DATA (dumped from the std the engine is built with by `gv_lex classes`); the
   lookup below is the only thing computed outside the extracted code. *)
let parse_ranges (l : string) : (int * int) array =
  match split_ws l with
  | _ :: rs -> Array.of_list (List.map (fun r -> match split_on '-' r with
      | [a; b] -> (int_of_string a, int_of_string b) | _ -> failwith ("bad range " ^ r)) rs)
  | [] -> [||]
let in_ranges (t : (int * int) array) (c : n) : bool =
  let c = int_of_n c in
  let lo = ref 0 and hi = ref (Array.length t - 1) and found = ref false in
  while not !found && !lo <= !hi do
    let mid = (!lo + !hi) / 2 in
    let (a, b) = t.(mid) in
    if c < a then hi := mid - 1 else if c > b then lo := mid + 1 else found := true
  done;
  !found

let op_name = function
  | OEq -> "Eq" | ODoubleEq -> "DoubleEq" | ONeq -> "Neq" | OLt -> "Lt" | OGt -> "Gt" | OLtEq -> "LtEq"
  | OGtEq -> "GtEq" | OPlus -> "Plus" | OMinus -> "Minus" | OMul -> "Mul" | ODiv -> "Div" | OIntDiv -> "IntDiv"
  | OMod -> "Mod" | OExponent -> "Exponent" | OShl -> "BitShiftLeft" | OShr -> "BitShiftRight" | OPipe -> "Pipe"
  | OAmp -> "Ampersand" | OHash -> "Hash" | OConcat -> "Concat" | OComma -> "Comma" | OLParen -> "LeftParen"
  | ORParen -> "RightParen" | OPeriod -> "Period" | OColon -> "Colon" | ODoubleColon -> "DoubleColon"
  | OSemi -> "SemiColon" | OLBracket -> "LeftBracket" | ORBracket -> "RightBracket" | ORightArrow -> "RightArrow"
  | OExcl -> "Exclamation" | OCaret -> "Caret" | OTilde -> "Tilde" | OCaretAt -> "CaretAt"

let hx (cs : n list) : string = hex_of_bytes (encode cs)
let render (t : twl) : string =
  let loc = Printf.sprintf "%s,%s,%s" (string_of_n t.start_idx) (string_of_n t.tline) (string_of_n t.tcol) in
  match t.tok with
  | TWord (v, None, kw) ->
    Printf.sprintf "W,%s,%s,%s" (hx v) loc (match kw with Some k -> string_of_int (int_of_nat k) | None -> "-")
  | TWord (v, Some qc, None) when int_of_n qc = 34 -> Printf.sprintf "Q,%s,%s" (hx v) loc
  | TWord (v, Some qc, _) -> Printf.sprintf "Q?%d,%s,%s" (int_of_n qc) (hx v) loc
  | TString s -> Printf.sprintf "S,%s,%s" (hx s) loc
  | TNumber s -> Printf.sprintf "N,%s,%s" (hx s) loc
  | TWhitespace -> Printf.sprintf "WS,,%s" loc
  | TComment s -> Printf.sprintf "C,%s,%s" (hx s) loc
  | TOp o -> Printf.sprintf "%s,,%s" (op_name o) loc

(* sub-command `expr`: same input; runs the extracted ParserSkel.front_end (tokenize, then parse_expr on the tokens).  Output:  <outcome> D<native depth reached>
     outcome = OK <parser idx after> <ast> | ERR | UNSUP | PANIC | FUEL | LEXERR
     ast: tag | tag(a,b,..) | "<hex of string>" | [a,b,..] | <integer>      (the Debug rendering of the Rust AST, canonical) *)
let ocaml_string (t : tag) : string =
  String.concat "" (List.map (fun c -> String.make 1 (Char.chr (int_of_n c))) (tag_codes t))
let rec render_sx (b : Buffer.t) (x : sx) : unit =
  let commas l = List.iteri (fun i y -> if i > 0 then Buffer.add_char b ','; render_sx b y) l in
  match x with
  | SN (tag, []) -> Buffer.add_string b (ocaml_string tag)
  | SN (tag, args) -> Buffer.add_string b (ocaml_string tag); Buffer.add_char b '('; commas args; Buffer.add_char b ')'
  | SS s -> Buffer.add_char b '"'; Buffer.add_string b (hx s); Buffer.add_char b '"'
  | SV l -> Buffer.add_char b '['; commas l; Buffer.add_char b ']'
  | SZ z -> Buffer.add_string b (string_of_zz z)

let expr_line is_alpha is_numeric (l : string) : string =
  match decode (bytes_of_hex l) with
  | None -> "NOTUTF8"
  | Some q ->
    (match front_end is_alpha is_numeric q with
     | Ok r ->
       let o = match r.out with
         | POk (e, i) -> let b = Buffer.create 256 in render_sx b e; Printf.sprintf "OK %d %s" (int_of_nat i) (Buffer.contents b)
         | PErr -> "ERR" | PUnsup -> "UNSUP" | PPanic -> "PANIC" | PFuel -> "FUEL" in
       Printf.sprintf "%s D%d" o (int_of_nat r.dep)
     | Err _ -> "LEXERR"
     | Panic -> "LEXPANIC"
     | Fuel -> "LEXFUEL")

let () =
  let sub = if Array.length Sys.argv > 1 then Sys.argv.(1) else "" in
  if sub = "expr" then begin
    let alpha = parse_ranges (input_line stdin) in
    let numeric = parse_ranges (input_line stdin) in
    let is_alpha = in_ranges alpha and is_numeric = in_ranges numeric in
    (try
      while true do
        let l = String.trim (input_line stdin) in
        print_string (expr_line is_alpha is_numeric l); print_char '\n'
      done
    with End_of_file -> ());
    flush stdout; exit 0
  end;
  if sub <> "lex" then (prerr_endline "usage: lexer <lex|expr>"; exit 2);
  let alpha = parse_ranges (input_line stdin) in
  let numeric = parse_ranges (input_line stdin) in
  let is_alpha = in_ranges alpha and is_numeric = in_ranges numeric in
  (try
    while true do
      let l = String.trim (input_line stdin) in
      let out =
        match decode (bytes_of_hex l) with
        | None -> "NOTUTF8"
        | Some q ->
          (match tokenize is_alpha is_numeric q with
           | Ok (toks, _) -> "OK " ^ String.concat ";" (List.map render toks)
           | Err (Unhandled c) -> "ERR " ^ string_of_n c
           | Err (Unterminated qc) -> "ERRQ " ^ string_of_n qc
           | Panic -> "PANIC"
           | Fuel -> "FUEL") in
      print_string out; print_char '\n'
    done
  with End_of_file -> ());
  flush stdout
