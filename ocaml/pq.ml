(* topic driver: Parquet spec writer + streaming decoder models (extract/pq_model.ml).
   Parsing/printing only; every byte and every decoded value is computed by extracted code.

   pq write   one s-expression per stdin line, one JSON object per stdout line:
     (file (out hex | "<path>") (v2 0|1) (rgs <rows> ...) (created_by "<s>") (lvl <min_rle> <groups>)
           (col (name "<s>") (type bool|i32|i64|i96|f32|f64|bytes|flba:<n>) (conv none|<int>) (optional 0|1)
                (enc plain|dict|rle|dbp|dlba|dba|bss) (pages <rows> ...) (rle <min_rle> <groups>)
                (delta <block> <miniblocks>) (dictx <extra bits>)
                (logical string|date|float16|int:<bits>:<s|u>|decimal:<scale>:<precision>|timestamp:<millis|micros|nanos>:<utc 0|1>)
                (decimal <scale> <precision>)            SchemaElement.scale / precision (use with (conv 5) or a decimal logical type)
                (stats <item> ...)                       ColumnMetaData.statistics of every chunk of this column; items:
                     new            write min_value / max_value (fields 6 / 5)
                     old            write the deprecated min / max (fields 2 / 1)        (new and old may be combined)
                     nulls          write null_count
                     signed | unsigned   order used to CHOOSE min and max: integers of the physical width as signed /
                                    unsigned numbers, byte arrays lexicographic with signed / unsigned bytes
                                    (floats: IEEE order, NaN skipped); default signed.  Writing e.g. `old signed` on a
                                    UINT_32 column or `new signed` on an unsigned column gives wrong-signedness statistics.
                     exact:0 | exact:1   is_max_value_exact / is_min_value_exact (only with `new`)
                     (chunk <rg> absent)                           no statistics for the chunk in row group <rg>
                     (chunk <rg> raw <min> <max> <nulls>)           literal values: x<hex> or - (absent), nulls: <int> or -
                (vals <v> ...))
           (column_orders 0|1)                          FileMetaData.column_orders = TYPE_ORDER for every column (default 0: absent)
           (col ...) ...)
     value tokens: N = NULL, <decimal> = bit pattern of the physical type (two's complement / IEEE bits,
                   INT96 as one 96 bit little endian number), x<hex> = bytes (x alone = empty)
     every clause except type/vals is optional (defaults: v1 pages, one row group, PLAIN, one page, required).
     -> {"bytes":n,"hex":"..."|"path":"...","rgs":[{"rows":..,"bytes":..,"ordinal":..,
          "chunks":[{"start":..,"dict_off":..|null,"data_off":..,"size":..,"num_values":..}]}]}
   pq decode  line protocol:
     dbp <bits> <hex> <n1,n2,..>      faithful DELTA_BINARY_PACKED decoder, one read per ni
     (<hex> may be - for the empty buffer)
     rle <tw> <w> <hex> <n1,..>       faithful RLE/bit-packed hybrid decoder
     unpack <tw> <w> <hex> <n1,..>    faithful bit_unpack
     vlq <hex>                        read_unsigned_vlq -> OK <value> <bytes consumed>
     lens <hex>                       DELTA_LENGTH/DELTA_BYTE_ARRAY length prefix (try_new) -> OK l1 l2 .. ; <rest bytes>
     dlba <hex> | dba <hex>           faithful DELTA_LENGTH_BYTE_ARRAY / DELTA_BYTE_ARRAY page decode -> OK x<hex> x<hex> ..
     enc_dlba <block> <mbc> x<hex> ..  enc_dba <block> <mbc> x<hex> ..
     enc_dbp <bits> <block> <mbc> v..  spec encoders -> hex
     enc_rle <w> <min_rle> <groups> v..
     enc_pack <w> v..
     -> OK a b c | d e   (reads separated by |)   or ERR | PANIC | OOB *)

let atom = function A s -> s | L _ -> failwith "atom expected"
let ints l = List.map (fun x -> int_of_string (atom x)) l

let parse_ptype s =
  match s with
  | "bool" -> PBool | "i32" -> PInt32 | "i64" -> PInt64 | "i96" -> PInt96
  | "f32" -> PFloat | "f64" -> PDouble | "bytes" -> PByteArray
  | _ when String.length s > 5 && String.sub s 0 5 = "flba:" ->
    PFlba (n_of_string (String.sub s 5 (String.length s - 5)))
  | _ -> failwith ("bad type " ^ s)
let parse_enc = function
  | "plain" -> EPlain | "dict" -> EDict | "rle" -> ERle | "dbp" -> EDbp
  | "dlba" -> EDlba | "dba" -> EDba | "bss" -> EBss | s -> failwith ("bad enc " ^ s)
let parse_val s : pval option =
  if s = "N" then None
  else if s.[0] = 'x' then Some (VBytes (bytes_of_hex (String.sub s 1 (String.length s - 1))))
  else Some (VNum (n_of_string s))

let parse_logical (s : string) : logical =
  match split_on ':' s with
  | ["string"] -> LString | ["date"] -> LDate | ["float16"] -> LFloat16
  | ["int"; b; sg] -> LInteger (zz_of_string b, sg = "s")
  | ["decimal"; sc; pr] -> LDecimal (zz_of_string sc, zz_of_string pr)
  | ["timestamp"; u; utc] ->
    LTimestamp (utc = "1", n_of_int (match u with "millis" -> 1 | "micros" -> 2 | "nanos" -> 3 | _ -> failwith "bad unit"))
  | _ -> failwith ("bad logical " ^ s)
let opt_hex s = if s = "-" then None else Some (bytes_of_hex (String.sub s 1 (String.length s - 1)))
let parse_stats (items : sexp list) : stats_spec =
  let nw = ref false and old = ref false and ord = ref OSigned and nulls = ref false and exact = ref None
  and chunks = ref [] in
  List.iter (function
      | A "new" -> nw := true | A "old" -> old := true | A "nulls" -> nulls := true
      | A "signed" -> ord := OSigned | A "unsigned" -> ord := OUnsigned
      | A "exact:0" -> exact := Some false | A "exact:1" -> exact := Some true
      | L [A "chunk"; A rg; A "absent"] -> chunks := (n_of_string rg, ScAbsent) :: !chunks
      | L [A "chunk"; A rg; A "raw"; A mn; A mx; A nl] ->
        chunks := (n_of_string rg, ScRaw (opt_hex mn, opt_hex mx, if nl = "-" then None else Some (zz_of_string nl))) :: !chunks
      | _ -> failwith "bad stats item") items;
  { s_new = !nw; s_old = !old; s_order = !ord; s_nulls = !nulls; s_exact = !exact; s_chunks = List.rev !chunks }

let parse_col (items : sexp list) : column * col_layout =
  let name = ref "c" and ty = ref PInt32 and conv = ref None and opt = ref false and vals = ref [] in
  let logical = ref None and decimal = ref None and stats = ref no_stats in
  let e = ref EPlain and pages = ref [50000] and mr = ref 8 and g = ref 1 and blk = ref 128 and mbc = ref 4
  and dx = ref 0 in
  List.iter (function
      | L [A "name"; A s] -> name := s
      | L [A "type"; A s] -> ty := parse_ptype s
      | L [A "conv"; A "none"] -> conv := None
      | L [A "conv"; A s] -> conv := Some (zz_of_string s)
      | L [A "optional"; A s] -> opt := (s = "1")
      | L [A "enc"; A s] -> e := parse_enc s
      | L (A "pages" :: l) -> pages := ints l
      | L [A "rle"; A a; A b] -> mr := int_of_string a; g := int_of_string b
      | L [A "delta"; A a; A b] -> blk := int_of_string a; mbc := int_of_string b
      | L [A "dictx"; A a] -> dx := int_of_string a
      | L [A "logical"; A a] -> logical := Some (parse_logical a)
      | L [A "decimal"; A a; A b] -> decimal := Some (zz_of_string a, zz_of_string b)
      | L (A "stats" :: l) -> stats := parse_stats l
      | L (A "vals" :: l) -> vals := List.map (fun x -> parse_val (atom x)) l
      | _ -> failwith "bad col clause") items;
  ({ c_name = bytes_of_string !name; c_ty = !ty; c_conv = !conv; c_logical = !logical; c_decimal = !decimal;
     c_optional = !opt; c_vals = !vals },
   { l_enc = !e; l_pages = List.map nat_of_int !pages; l_min_rle = nat_of_int !mr; l_groups = nat_of_int !g;
     l_block = n_of_int !blk; l_mbc = n_of_int !mbc; l_dict_extra = n_of_int !dx; l_stats = !stats })

let json_of_meta (gs : rg_meta list) : string =
  let chunk (m : chunk_meta) =
    Printf.sprintf "{\"start\":%s,\"dict_off\":%s,\"data_off\":%s,\"size\":%s,\"num_values\":%s}"
      (string_of_n m.m_start) (match m.m_dict_off with None -> "null" | Some o -> string_of_n o)
      (string_of_n m.m_data_off) (string_of_n m.m_size) (string_of_n m.m_num_values) in
  let rg (g : rg_meta) =
    Printf.sprintf "{\"rows\":%s,\"bytes\":%s,\"ordinal\":%s,\"chunks\":[%s]}"
      (string_of_n g.g_rows) (string_of_n g.g_bytes) (string_of_n g.g_ordinal)
      (String.concat "," (List.map chunk g.g_chunks)) in
  "[" ^ String.concat "," (List.map rg gs) ^ "]"

let write_one (line : string) =
  match parse_sexp line with
  | L (A "file" :: items) ->
    let out = ref "hex" and v2 = ref false and rgs = ref [50000] and cb = ref "gverif pq model"
    and lmr = ref 8 and lg = ref 1 and cols = ref [] and corders = ref false in
    List.iter (function
        | L [A "out"; A s] -> out := s
        | L [A "v2"; A s] -> v2 := (s = "1")
        | L (A "rgs" :: l) -> rgs := ints l
        | L [A "created_by"; A s] -> cb := s
        | L [A "lvl"; A a; A b] -> lmr := int_of_string a; lg := int_of_string b
        | L [A "column_orders"; A s] -> corders := (s = "1")
        | L (A "col" :: l) -> cols := parse_col l :: !cols
        | _ -> failwith "bad file clause") items;
    let cs = List.rev !cols in
    let y = { y_v2 = !v2; y_rgs = List.map nat_of_int !rgs; y_cols = List.map snd cs;
              y_created_by = bytes_of_string !cb; y_lvl_min_rle = nat_of_int !lmr; y_lvl_groups = nat_of_int !lg;
              y_column_orders = !corders } in
    let (bytes, gs) = write_file (List.map fst cs) y in
    let nb = List.length bytes in
    if !out = "hex" then
      Printf.printf "{\"bytes\":%d,\"hex\":\"%s\",\"rgs\":%s}\n" nb (hex_of_bytes bytes) (json_of_meta gs)
    else begin
      let oc = open_out_bin !out in
      List.iter (fun b -> output_char oc (Char.chr (int_of_n b))) bytes;
      close_out oc;
      Printf.printf "{\"bytes\":%d,\"path\":\"%s\",\"rgs\":%s}\n" nb !out (json_of_meta gs)
    end
  | _ -> failwith "expected (file ...)"

let write () =
  (try
     while true do
       let line = input_line stdin in
       if String.trim line <> "" then
         (try write_one line with Failure m -> Printf.printf "{\"error\":\"%s\"}\n" (String.escaped m))
     done
   with End_of_file -> ())

let show_reads (o : n list list outcome) : string =
  match o with
  | Ok rs -> "OK " ^ String.concat " | " (List.map (fun r -> String.concat " " (List.map string_of_n r)) rs)
  | Err -> "ERR" | Panic -> "PANIC" | OOB -> "OOB"
let show_bytes (o : n list list outcome) : string =
  match o with
  | Ok vs -> "OK " ^ String.concat " " (List.map (fun v -> "x" ^ hex_of_bytes v) vs)
  | Err -> "ERR" | Panic -> "PANIC" | OOB -> "OOB"
let xarg s = bytes_of_hex (String.sub s 1 (String.length s - 1))
let hexarg h = if h = "-" then [] else bytes_of_hex h
let nats s = if s = "-" then [] else List.map (fun x -> nat_of_int (int_of_string x)) (split_on ',' s)

let decode () =
  (try
     while true do
       let line = input_line stdin in
       match split_ws line with
       | ["dbp"; bits; hex; ns] ->
         print_endline (show_reads (dbp_decode_split (n_of_string bits) (hexarg hex) (nats ns)))
       | ["rle"; tw; w; hex; ns] ->
         print_endline (show_reads (rle_reads (n_of_string tw) (nats ns) (rle_new (hexarg hex) (n_of_string w))))
       | ["unpack"; tw; w; hex; ns] ->
         print_endline (show_reads (unpack_reads (n_of_string tw) (n_of_string w) (nats ns) (hexarg hex) N0))
       | ["vlq"; hex] ->
         let bs = hexarg hex in
         (match vlq_decode bs with
          | Ok (v, rest) -> Printf.printf "OK %s %d\n" (string_of_n v) (List.length bs - List.length rest)
          | Err -> print_endline "ERR" | Panic -> print_endline "PANIC" | OOB -> print_endline "OOB")
       | ["lens"; hex] ->
         (match dbp_read_lengths (hexarg hex) with
          | Ok (ls, rest) -> Printf.printf "OK %s ; %d\n" (String.concat " " (List.map string_of_n ls)) (List.length rest)
          | Err -> print_endline "ERR" | Panic -> print_endline "PANIC" | OOB -> print_endline "OOB")
       | ["dlba"; hex] -> print_endline (show_bytes (dlba_decode (hexarg hex)))
       | ["dba"; hex] -> print_endline (show_bytes (dba_decode (hexarg hex)))
       | "enc_dlba" :: blk :: mbc :: vs ->
         print_endline (hex_of_bytes (dlba_encode (n_of_string blk) (n_of_string mbc) (List.map xarg vs)))
       | "enc_dba" :: blk :: mbc :: vs ->
         print_endline (hex_of_bytes (dba_encode (n_of_string blk) (n_of_string mbc) (List.map xarg vs)))
       | "enc_dbp" :: bits :: blk :: mbc :: vs ->
         print_endline (hex_of_bytes (dbp_encode (n_of_string bits) (n_of_string blk) (n_of_string mbc) (List.map n_of_string vs)))
       | "enc_rle" :: w :: mr :: g :: vs ->
         print_endline (hex_of_bytes (rle_encode (n_of_string w) (nat_of_int (int_of_string mr)) (nat_of_int (int_of_string g)) (List.map n_of_string vs)))
       | "enc_pack" :: w :: vs ->
         print_endline (hex_of_bytes (bitpack (n_of_string w) (List.map n_of_string vs)))
       | [] -> ()
       | _ -> failwith ("bad line " ^ line)
     done
   with End_of_file -> ())

let () =
  match Array.to_list Sys.argv with
  | [_; "write"] -> write ()
  | [_; "decode"] -> decode ()
  | _ -> prerr_endline "usage: pq <write|decode>"; exit 2
