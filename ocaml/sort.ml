(* topic driver: sort keys, ORDER BY / LIMIT checker (extract/sort_model.ml) *)
(* ---- sort keys ----
   type syntax: u<w> | s<w> | f<w>:<shift> | b:<tkey>:<fkey> | str:<pw> | iv     (w in bytes)
   col syntax : <type>,<desc 0/1>,<nulls_first 0/1>
   value syntax: N | <decimal bits> | x<hex bytes> | v<months>/<days>/<nanos> *)
let parse_kty (s : string) : kty =
  match split_on ':' s with
  | [t] when t = "iv" -> KInterval
  | [t] when t.[0] = 'u' -> KU (nat_of_int (int_of_string (String.sub t 1 (String.length t - 1))))
  | [t] when t.[0] = 's' -> KS (nat_of_int (int_of_string (String.sub t 1 (String.length t - 1))))
  | [t; k] when t.[0] = 'f' -> KF (nat_of_int (int_of_string (String.sub t 1 (String.length t - 1))), n_of_string k)
  | ["b"; t; f] -> KBool (n_of_string t, n_of_string f)
  | ["str"; w] -> KStr (nat_of_int (int_of_string w))
  | _ -> failwith ("bad key type " ^ s)
let parse_kcol (s : string) : kcol =
  match split_on ',' s with
  | [t; d; nf] -> { k_ty = parse_kty t; k_desc = (d = "1"); k_nulls_first = (nf = "1") }
  | _ -> failwith ("bad col " ^ s)
let parse_kval (s : string) : kval =
  if s = "N" then KNull
  else if s.[0] = 'x' then KBytes (bytes_of_hex (String.sub s 1 (String.length s - 1)))
  else if s.[0] = 'v' then
    (match split_on '/' (String.sub s 1 (String.length s - 1)) with
     | [m; d; n] -> KIv (n_of_string m, n_of_string d, n_of_string n)
     | _ -> failwith "bad interval")
  else KBits (n_of_string s)

(* input: "cols c1 c2 .." then "row v1 v2 .." lines, "all <bits>" (single column: every pattern
   0..2^bits-1), "cmp" sections compare consecutive rows with the SPEC order. *)
let sortkey () =
  let cols = ref [] in
  (try
     while true do
       let line = input_line stdin in
       match split_ws line with
       | "cols" :: cs -> cols := List.map parse_kcol cs
       | "row" :: vs ->
         print_endline (hex_of_bytes (encode_row !cols (List.map parse_kval vs)))
       | ["all"; bits] ->
         let n = 1 lsl (int_of_string bits) in
         for i = 0 to n - 1 do
           print_endline (hex_of_bytes (encode_row !cols [KBits (n_of_int i)]))
         done
       | ("speccmp" :: rest) ->
         (* speccmp v1 .. vk | w1 .. wk : declared order of two rows *)
         let rec split acc = function
           | "|" :: r -> (List.rev acc, r)
           | x :: r -> split (x :: acc) r
           | [] -> (List.rev acc, []) in
         let (a, b) = split [] rest in
         print_endline (cmp_str (row_cmp !cols (List.map parse_kval a) (List.map parse_kval b)))
       | [] -> ()
       | _ -> failwith ("bad line " ^ line)
     done
   with End_of_file -> ())

(* sortcheck: "cols .." then rows in the order the engine returned them; prints the index of the
   first adjacent pair (i, i+1) with row_cmp = Gt, or OK <n>. *)
let sortcheck () =
  let cols = ref [] in
  let prev = ref None in
  let idx = ref 0 in
  let bad = ref (-1) in
  let flush_case () =
    if !idx > 0 || !prev <> None then begin
      if !bad >= 0 then Printf.printf "BAD %d\n" !bad else Printf.printf "OK %d\n" !idx
    end;
    prev := None; idx := 0; bad := -1 in
  (try
     while true do
       let line = input_line stdin in
       match split_ws line with
       | "cols" :: cs -> cols := List.map parse_kcol cs
       | "row" :: vs ->
         let r = List.map parse_kval vs in
         (match !prev with
          | Some p -> if !bad < 0 && row_cmp !cols p r = Gt then bad := !idx - 1
          | None -> ());
         prev := Some r; incr idx
       | ["end"] -> if !bad >= 0 then Printf.printf "BAD %d\n" !bad else Printf.printf "OK %d\n" !idx;
         prev := None; idx := 0; bad := -1
       | [] -> ()
       | _ -> failwith ("bad line " ^ line)
     done
   with End_of_file -> ())


(* orderslice: cols / off n / lim n|none / in <keys> | <payload> / out <keys> | <payload> / end
   -> OK | BAD  (Model.check_order_slice) *)
let orderslice () =
  let cols = ref [] and off = ref 0 and lim = ref None and inp = ref [] and out = ref [] in
  let rec split acc = function
    | "|" :: r -> (List.rev acc, r)
    | x :: r -> split (x :: acc) r
    | [] -> (List.rev acc, []) in
  let row toks = let (k, p) = split [] toks in (List.map parse_kval k, List.map parse_kval p) in
  (try
     while true do
       let line = input_line stdin in
       match split_ws line with
       | "cols" :: cs -> cols := List.map parse_kcol cs
       | ["off"; n] -> off := int_of_string n
       | ["lim"; "none"] -> lim := None
       | ["lim"; n] -> lim := Some (int_of_string n)
       | "in" :: r -> inp := row r :: !inp
       | "out" :: r -> out := row r :: !out
       | ["end"] ->
         let ok = check_order_slice !cols (List.rev !inp) (nat_of_int !off)
             (match !lim with None -> None | Some n -> Some (nat_of_int n)) (List.rev !out) in
         print_endline (if ok then "OK" else "BAD");
         inp := []; out := []
       | [] -> ()
       | _ -> failwith ("bad line " ^ line)
     done
   with End_of_file -> ())

let () =
  match Array.to_list Sys.argv with
  | [_; "sortkey"] -> sortkey ()
  | [_; "sortcheck"] -> sortcheck ()
  | [_; "orderslice"] -> orderslice ()
  | _ -> prerr_endline "usage: sort <sortkey|sortcheck|orderslice>"; exit 2
