(* topic driver: SQL reference semantics (extract/sql_model.ml).
   One case per line:  (check <db> <query> <got-rows>)  ->  OK | MISMATCH | SPECERR <kind>
                       (eval <db> <query>)              ->  (rows ...) | ERR <kind>
   db = ((row ...) ...) per table; row = (v ...); v = N | (b 0|1) | (i <dec>) | (s <hex utf8>) *)

let atom = function A s -> s | L _ -> failwith "atom expected"
let lst = function L l -> l | A s -> failwith ("list expected, got " ^ s)
let nat_of s = nat_of_int (int_of_string s)
let bool_of s = (s = "1" || s = "true")

let p_value (x : sexp) : value =
  match x with
  | A "N" -> VNull
  | L [A "b"; A v] -> VBool (bool_of v)
  | L [A "i"; A v] -> VInt (zz_of_string v)
  | L [A "s"; A h] -> VStr (bytes_of_hex h)
  | L [A "s"] -> VStr []
  | _ -> failwith "bad value"
let p_row x = List.map p_value (lst x)
let p_rows x = List.map p_row (lst x)

let p_cmpop = function "eq" -> CEq | "ne" -> CNe | "lt" -> CLt | "le" -> CLe | "gt" -> CGt | "ge" -> CGe | s -> failwith ("cmpop " ^ s)
let p_binop = function "add" -> Add | "sub" -> Sub | "mul" -> Mul | "div" -> Div | "rem" -> Rem | s -> failwith ("binop " ^ s)
let p_agg = function "countstar" -> ACountStar | "count" -> ACount | "sum" -> ASum | "min" -> AMin | "max" -> AMax
                   | "bool_and" -> ABoolAnd | "bool_or" -> ABoolOr | s -> failwith ("agg " ^ s)
let p_jk = function "cross" -> JCross | "inner" -> JInner | "left" -> JLeft | "right" -> JRight | "semi" -> JSemi
                  | "anti" -> JAnti | s -> failwith ("join kind " ^ s)
let p_opt f = function A "-" -> None | x -> Some (f x)

let rec p_expr (x : sexp) : expr =
  match x with
  | L [A "const"; v] -> EConst (p_value v)
  | L [A "col"; A d; A i] -> ECol (nat_of d, nat_of i)
  | L [A "cmp"; A op; a; b] -> ECmp (p_cmpop op, p_expr a, p_expr b)
  | L [A "distinct"; A neg; a; b] -> EDistinct (bool_of neg, p_expr a, p_expr b)
  | L [A "and"; a; b] -> EAnd (p_expr a, p_expr b)
  | L [A "or"; a; b] -> EOr (p_expr a, p_expr b)
  | L [A "not"; a] -> ENot (p_expr a)
  | L [A "isnull"; A neg; a] -> EIsNull (bool_of neg, p_expr a)
  | L [A "arith"; A op; A w; a; b] -> EArith (p_binop op, n_of_string w, p_expr a, p_expr b)
  | L [A "neg"; A w; a] -> ENeg (n_of_string w, p_expr a)
  | L [A "case"; L bs; els] ->
    ECase (List.map (function L [c; t] -> (p_expr c, p_expr t) | _ -> failwith "case branch") bs, p_expr els)
  | L [A "inlist"; A neg; a; L es] -> EInList (bool_of neg, p_expr a, List.map p_expr es)
  | L [A "exists"; A neg; q] -> EExists (bool_of neg, p_query q)
  | L [A "insub"; A neg; a; q] -> EInSub (bool_of neg, p_expr a, p_query q)
  | L [A "scalar"; q] -> EScalar (p_query q)
  | _ -> failwith "bad expr"
and p_query (x : sexp) : query =
  match x with
  | L [A "table"; A t] -> QTable (nat_of t)
  | L [A "values"; L rows] -> QValues (List.map (fun r -> List.map p_expr (lst r)) rows)
  | L [A "select"; f; wh; grp; hav; L sel; A dis] ->
    let g = p_opt (function
        | L [L keys; L aggs] ->
          (List.map p_expr keys,
           List.map (function L [A fn; A d; arg] -> ((p_agg fn, bool_of d), p_expr arg) | _ -> failwith "agg") aggs)
        | _ -> failwith "grp") grp in
    QSelect (p_opt p_from f, p_opt p_expr wh, g, p_opt p_expr hav, List.map p_expr sel, bool_of dis)
  | L [A "union"; A all; a; b] -> QUnion (bool_of all, p_query a, p_query b)
  | L [A "order"; q; L keys; lim; A off] ->
    QOrderLimit (p_query q,
                 List.map (function L [A i; A d; A nf] -> ((nat_of i, bool_of d), bool_of nf) | _ -> failwith "key") keys,
                 p_opt (fun x -> nat_of (atom x)) lim, nat_of off)
  | _ -> failwith "bad query"
and p_from (x : sexp) : fromc =
  match x with
  | L [A "fq"; q] -> FQuery (p_query q)
  | L [A "join"; A k; l; r; on; A la; A ra] -> FJoin (p_jk k, p_from l, p_from r, p_opt p_expr on, nat_of la, nat_of ra)
  | L [A "lateral"; A k; l; r; on; A ra] -> FLateral (p_jk k, p_from l, p_query r, p_opt p_expr on, nat_of ra)
  | _ -> failwith "bad from"

let s_value = function
  | VNull -> "N"
  | VBool b -> if b then "(b 1)" else "(b 0)"
  | VInt z -> "(i " ^ string_of_zz z ^ ")"
  | VStr s -> "(s " ^ hex_of_bytes s ^ ")"
let s_row r = "(" ^ String.concat " " (List.map s_value r) ^ ")"
let s_err = function EOverflow -> "overflow" | EDivZero -> "divzero" | ECard -> "card" | EType -> "type"

let () =
  (try
     while true do
       let line = input_line stdin in
       if String.trim line <> "" then begin
         (try
            match parse_sexp line with
            | L [A "check"; d; q; got] ->
              (match check_answer (List.map p_rows (lst d)) (p_query q) (p_rows got) with
               | VOk -> print_endline "OK"
               | VMismatch -> print_endline "MISMATCH"
               | VSpecError e -> print_endline ("SPECERR " ^ s_err e))
            | L [A "eval"; d; q] ->
              (match eval_query (List.map p_rows (lst d)) [] (p_query q) with
               | Ok rows -> print_endline ("(" ^ String.concat " " (List.map s_row rows) ^ ")")
               | Err e -> print_endline ("ERR " ^ s_err e))
            | _ -> print_endline "BADCASE"
          with Failure m -> print_endline ("BADCASE " ^ m) | Stack_overflow -> print_endline "BADCASE stack")
       end
     done
   with End_of_file -> ())
