(* topic driver: integer / decimal numeric and bitwise scalar functions (extract/numfn_model.ml).
   Parsing and printing only; every result is computed by extracted code.
   One request per line (mode argument `numfn`), one answer line per request (all8: 65536 lines).
   <st> = n (the variant with native operators / NULL / zero fill) | c (the repaired variant), see model/NumFn.v
     gcd|lcm <st> <d|r> <w> <a> <b>                 -> <impl> <spec>
     factorial <st> <n>                              -> <impl> <spec>        (ok:null = SQL NULL)
     bitand|bitor|xor|shl <s|u> <w> <a> <b>          -> <impl> <spec>
     shr <st> <s|u> <w> <a> <b>                      -> <impl> <spec>
     bitnot <s|u> <w> <a>                            -> <impl> <spec>
     all8 <fn> <st> <d|r> <s|u>                      -> <a> <b> <impl> <spec>   (x 65536; fn binary)
     round <st> <d|r> <64|128> <p> <s> <n> <v>       -> <impl> <spec>        (ok:<scale>:<unscaled>)
     intfn <abs|sign|ceil|floor|trunc|round> <a>     -> <impl> <spec> <same 0/1>
     decfn <op> <v> <s>                              -> <impl> <spec> <same 0/1>
     deccmp <i8 0/1> <u64prec> <wide 0/1> <d|r> <opnd> <opnd>                     -> <impl> <spec> <impl8> <spec8>    (lt|eq|gt|null|err|panic; eight results
        opnd = d:<64|128>:<p>:<s>:<v|N> | i:<s|u>:<w>:<v|N> | f:<bits|N>          < <= = <> >= > distinct not-distinct as 1/0/N, - if none)
     cmp <a> <b>                                     -> six 0/1 characters: a<b a<=b a=b a<>b a>=b a>b (definition only)
   outcome = ok:<v> | err | panic | fuel ;  fres = int:<n> | nz (negative zero) | bits:<b> | none *)
let zs = zz_of_string
let sz = string_of_zz
let out = function Ok v -> "ok:" ^ sz v | Err -> "err" | Panic -> "panic"
let outf = function None -> "fuel" | Some o -> out o
let oopt = function None -> "null" | Some v -> sz v
let out_opt = function Ok v -> "ok:" ^ oopt v | Err -> "err" | Panic -> "panic"
let outf_opt = function None -> "fuel" | Some o -> out_opt o
let out_pair = function Ok (s, v) -> "ok:" ^ sz s ^ ":" ^ sz v | Err -> "err" | Panic -> "panic"
let p_style = function "n" -> Native | "c" -> Checked | s -> failwith ("style " ^ s)
let p_mode = function "d" -> Debug | "r" -> Release | s -> failwith ("mode " ^ s)
let p_sgn = function "s" -> Signed | "u" -> Unsigned | s -> failwith ("sgn " ^ s)
let p_kind = function "64" -> D64 | "128" -> D128 | s -> failwith ("kind " ^ s)
let p_fop = function "abs" -> FAbs | "sign" -> FSign | "ceil" -> FCeil | "floor" -> FFloor | "trunc" -> FTrunc
                   | "round" -> FRound | s -> failwith ("fop " ^ s)
let b01 b = if b then "1" else "0"
let fres = function FInt (nz, n) -> if nz then "nz" else "int:" ^ sz n | FBits b -> "bits:" ^ sz b
let fres_opt = function None -> "none" | Some r -> fres r

let p_optz = function "N" -> None | v -> Some (zs v)
let p_cop s =
  match split_on ':' s with
  | ["d"; k; p; sc; v] -> OpDec (p_kind k, zs p, zs sc, p_optz v)
  | ["i"; sg; w; v] -> OpInt (p_sgn sg, zs w, p_optz v)
  | ["f"; b] -> OpF64 (p_optz b)
  | _ -> failwith ("operand " ^ s)
let out_cmp = function
  | Ok (Some Lt) -> "lt" | Ok (Some Eq) -> "eq" | Ok (Some Gt) -> "gt" | Ok None -> "null" | Err -> "err" | Panic -> "panic"
let res8 l r = function
  | Ok c -> String.concat "" (List.map (function Some true -> "1" | Some false -> "0" | None -> "N") (cmp_results c (cop_null l) (cop_null r)))
  | _ -> "-"

let bin_line fn st m sg w a b =
  match fn with
  | "gcd" -> Printf.sprintf "%s %s" (outf (impl_gcd_src st m w a b)) (out (spec_gcd w a b))
  | "lcm" -> Printf.sprintf "%s %s" (outf (impl_lcm_src st m w a b)) (out (spec_lcm w a b))
  | "bitand" -> Printf.sprintf "%s %s" (out (impl_bitand sg w a b)) (out (spec_bitand sg w a b))
  | "bitor" -> Printf.sprintf "%s %s" (out (impl_bitor sg w a b)) (out (spec_bitor sg w a b))
  | "xor" -> Printf.sprintf "%s %s" (out (impl_xor sg w a b)) (out (spec_xor sg w a b))
  | "shl" -> Printf.sprintf "%s %s" (out (impl_shl sg w a b)) (out (spec_shl_exec sg w a b))
  | "shr" -> Printf.sprintf "%s %s" (out (impl_shr_src st sg w a b)) (out (spec_shr_exec sg w a b))
  | s -> failwith ("fn " ^ s)

let numfn () =
  (try
     while true do
       let line = input_line stdin in
       match split_ws line with
       | [("gcd" | "lcm") as fn; st; m; w; a; b] -> print_endline (bin_line fn (p_style st) (p_mode m) Signed (zs w) (zs a) (zs b))
       | [("bitand" | "bitor" | "xor" | "shl") as fn; sg; w; a; b] ->
         print_endline (bin_line fn Native Debug (p_sgn sg) (zs w) (zs a) (zs b))
       | ["shr"; st; sg; w; a; b] -> print_endline (bin_line "shr" (p_style st) Debug (p_sgn sg) (zs w) (zs a) (zs b))
       | ["bitnot"; sg; w; a] ->
         Printf.printf "%s %s\n" (out (impl_bitnot (p_sgn sg) (zs w) (zs a))) (out (spec_bitnot (p_sgn sg) (zs w) (zs a)))
       | ["factorial"; st; n] ->
         Printf.printf "%s %s\n" (outf_opt (impl_factorial_src (p_style st) (zs n))) (out_opt (spec_factorial_exec (zs n)))
       | ["all8"; fn; st; m; sg] ->
         let lo, hi = if sg = "s" then (-128, 127) else (0, 255) in
         let buf = Buffer.create (1 lsl 21) in
         for a = lo to hi do
           for b = lo to hi do
             Buffer.add_string buf (Printf.sprintf "%d %d %s\n" a b
               (bin_line fn (p_style st) (p_mode m) (p_sgn sg) (zs "8") (zs (string_of_int a)) (zs (string_of_int b))))
           done
         done;
         print_string (Buffer.contents buf)
       | ["round"; st; m; k; p; s; n; v] ->
         Printf.printf "%s %s\n" (out_pair (impl_round_src (p_style st) (p_mode m) (p_kind k) (zs p) (zs s) (zs n) (zs v)))
           (out_pair (spec_round (zs p) (zs s) (zs n) (zs v)))
       | ["intfn"; op; a] ->
         let i = impl_int_fn (p_fop op) (zs a) and s = spec_int_fn (p_fop op) (zs a) in
         Printf.printf "%s %s %s\n" (fres i) (fres s) (b01 (fres_eqb i s))
       | ["decfn"; op; v; s] ->
         let i = impl_dec_fn (p_fop op) (zs v) (zs s) and sp = spec_dec_fn (p_fop op) (zs v) (zs s) in
         let same = match i, sp with Some x, Some y -> fres_eqb x y | None, None -> true | _ -> false in
         Printf.printf "%s %s %s\n" (fres_opt i) (fres_opt sp) (b01 same)
       | ["deccmp"; i8; up; wd; m; l; r] ->
         let l = p_cop l and r = p_cop r in
         let pp = { bind_i8 = (i8 = "1"); u64_prec = zs up; wide128 = (wd = "1") } in
         let i = impl_cmp_mixed pp (p_mode m) l r and sp = spec_cmp_mixed l r in
         Printf.printf "%s %s %s %s\n" (out_cmp i) (out_cmp sp) (res8 l r i) (res8 l r sp)
       | ["cmp"; a; b] ->
         print_endline (String.concat "" (List.map (fun op -> b01 (spec_cmp op (zs a) (zs b))) [CLt; CLe; CEq; CNe; CGe; CGt]))
       | [] -> print_endline ""
       | _ -> failwith ("bad line " ^ line)
     done
   with End_of_file -> ())

let () =
  match Array.to_list Sys.argv with
  | [_; "numfn"] -> numfn ()
  | _ -> prerr_endline "usage: numfn numfn"; exit 2
