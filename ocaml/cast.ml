(* topic driver: casts, text conversions, calendar (extract/cast_model.ml).
   One request per line, one answer per line; parsing / printing only.
   tokens: int type s8|u16|..; float type f32|f64; decimal storage d64|d128; oc 0|1;
           numbers in decimal; byte strings as x<hex> (x alone = empty).
   answers: ok <value> | err | panic | none *)
let ity_of (s : string) : ity =
  { i_signed = (s.[0] = 's'); i_bits = zz_of_string (String.sub s 1 (String.length s - 1)) }
let fty_of = function "f32" -> f32 | "f64" -> f64 | s -> failwith ("bad float type " ^ s)
let dty_of = function "d64" -> d64 | "d128" -> d128 | s -> failwith ("bad decimal type " ^ s)
let oc_of s = (s = "1")
let bytes_of_x (s : string) : n list =
  if String.length s = 0 || s.[0] <> 'x' then failwith ("bad bytes " ^ s)
  else bytes_of_hex (String.sub s 1 (String.length s - 1))
let x_of_bytes bs = "x" ^ hex_of_bytes bs
let zz = zz_of_string
let out_z = function Ok v -> "ok " ^ string_of_zz v | Err -> "err" | Panic -> "panic"
let out_bytes = function Ok v -> "ok " ^ x_of_bytes v | Err -> "err" | Panic -> "panic"
let opt_z = function Some v -> "ok " ^ string_of_zz v | None -> "none"

let answer (toks : string list) : string =
  match toks with
  | ["ii"; s; d; v] -> out_z (cast_int (ity_of s) (ity_of d) (zz v))
  | ["sii"; d; v] -> out_z (int_spec (ity_of d) (zz v))
  | ["fi"; f; d; bits] -> out_z (cast_float_int (fty_of f) (ity_of d) (zz bits))
  | ["sfi"; f; d; bits] -> out_z (float_int_spec (fty_of f) (ity_of d) (zz bits))
  | ["id"; oc; s; d; p; sc; v] -> out_z (int_to_decimal (oc_of oc) (ity_of s) (dty_of d) (zz p) (zz sc) (zz v))
  | ["dd"; oc; d1; s1; d2; p2; s2; v] ->
    out_z (decimal_to_decimal (oc_of oc) (dty_of d1) (dty_of d2) (zz s1) (zz p2) (zz s2) (zz v))
  | ["sdd"; s1; p2; s2; v] -> out_z (rescale_spec (zz s1) (zz p2) (zz s2) (zz v))
  | ["fd"; oc; f; d; p; sc; bits] -> out_z (float_to_decimal (oc_of oc) (fty_of f) (dty_of d) (zz p) (zz sc) (zz bits))
  | ["sfd"; f; p; sc; bits] -> out_z (float_decimal_spec (fty_of f) (zz p) (zz sc) (zz bits))
  | ["if"; f; v] -> "ok " ^ string_of_zz (int_to_float (fty_of f) (zz v))
  | ["ff"; s; d; bits] -> "ok " ^ string_of_zz (float_to_float (fty_of s) (fty_of d) (zz bits))
  | ["pi"; t; x] -> opt_z (parse_int (ity_of t) (bytes_of_x x))
  | ["fmti"; v] -> "ok " ^ x_of_bytes (format_int (zz v))
  | ["wfi"; x] -> if wellformed_int (bytes_of_x x) then "ok 1" else "ok 0"
  | ["wfd"; x] -> if wellformed_decimal (bytes_of_x x) then "ok 1" else "ok 0"
  | ["spd"; p; sc; x] -> (match spec_parse_decimal (zz p) (zz sc) (bytes_of_x x) with Some v -> "ok " ^ string_of_zz v | None -> "err")
  | ["pd"; oc; d; p; sc; x] -> out_z (parse_decimal (oc_of oc) (dty_of d) (zz p) (zz sc) (bytes_of_x x))
  | ["fmtd"; oc; d; sc; v] -> out_bytes (format_decimal (oc_of oc) (dty_of d) (zz sc) (zz v))
  | ["pb"; x] -> (match parse_bool (bytes_of_x x) with Some true -> "ok 1" | Some false -> "ok 0" | None -> "none")
  | ["fmtb"; b] -> "ok " ^ x_of_bytes (format_bool (b = "1"))
  | ["pdate"; x] -> opt_z (parse_date (bytes_of_x x))
  | ["fmtdate"; v] -> (match format_date (zz v) with Some b -> "ok " ^ x_of_bytes b | None -> "none")
  | ["civil"; v] -> let ((y, m), d) = civil_from_days (zz v) in
    Printf.sprintf "ok %s/%s/%s" (string_of_zz y) (string_of_zz m) (string_of_zz d)
  | ["days"; y; m; d] -> if valid_ymd (zz y) (zz m) (zz d) then "ok " ^ string_of_zz (days_from_civil (zz y) (zz m) (zz d)) else "none"
  | ["fmtiv"; m; d; n] -> "ok " ^ x_of_bytes (format_interval { iv_months = zz m; iv_days = zz d; iv_nanos = zz n })
  | ["piv"; x] -> (match parse_interval qparse_int (bytes_of_x x) with
      | Some iv -> Printf.sprintf "ok %s/%s/%s" (string_of_zz iv.iv_months) (string_of_zz iv.iv_days) (string_of_zz iv.iv_nanos)
      | None -> "none")
  | _ -> failwith ("bad request: " ^ String.concat " " toks)

let eval () =
  try
    while true do
      let line = input_line stdin in
      match split_ws line with
      | [] -> print_endline ""
      | toks -> print_endline (answer toks)
    done
  with End_of_file -> ()

let () =
  match Array.to_list Sys.argv with
  | [_; "eval"] -> eval ()
  | _ -> prerr_endline "usage: cast eval"; exit 2
