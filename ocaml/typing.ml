(* topic driver: function signature resolution + set-operation type unification (extract/typing_model.ml).
   Parsing / printing only; every result is computed by the extracted model over the extracted tables. *)
let params () = match src_params with Some p -> p | None -> failwith "src_params = None (a constant is missing)"
let set_of kind idx =
  let l = if kind = "aggregate" then aggregate_sets else scalar_sets in
  List.nth l idx

(* arg: <type index> | <type index>:<literal value> *)
let parse_input (s : string) : input =
  match split_on ':' s with
  | [t] -> { i_ty = n_of_string t; i_lit = None }
  | [t; v] -> { i_ty = n_of_string t; i_lit = Some (classify_lit (zz_of_string v)) }
  | _ -> failwith ("bad arg " ^ s)
let lit_str = function L8 -> "8" | L16 -> "16" | L32 -> "32" | L64 -> "64"
let input_str (i : input) =
  string_of_n i.i_ty ^ (match i.i_lit with None -> "" | Some w -> ":L" ^ lit_str w)
let cast_str = function
  | CNo -> "n"
  | CCast (t, s) -> "c" ^ string_of_n t ^ "/" ^ string_of_n s
  | CRefined (t, s) -> "r" ^ string_of_n t ^ "/" ^ string_of_n s
let cand_str p (idx, cs) =
  string_of_n idx ^ ":" ^ string_of_n (total p cs) ^ ":" ^ String.concat "," (List.map cast_str cs)

(* resolve: "<scalar|aggregate> <set index> <arg>*"  ->
     E<sig> | X | C<maximal sig,sig..>|<sig>:<score>:<casts>;..   (candidates in signature order) *)
let resolve_cmd () =
  let p = params () in
  (try
     while true do
       let line = input_line stdin in
       match split_ws line with
       | kind :: idx :: args ->
         let f = set_of kind (int_of_string idx) in
         let have = List.map parse_input args in
         (match find_exact p (f_sigs f) (List.map (fun i -> i.i_ty) have) with
          | Some i -> print_endline ("E" ^ string_of_n i)
          | None ->
            let cands = find_candidates p have (f_sigs f) in
            if cands = [] then print_endline "X"
            else
              let mx = maximal p cands in
              print_endline ("C" ^ String.concat "," (List.map (fun c -> string_of_n (fst c)) mx) ^ "|" ^
                             String.concat ";" (List.map (cand_str p) cands)))
       | _ -> ()
     done
   with End_of_file -> ())

(* ties: for every function set, the tuples (arity <= 3) whose maximal candidates disagree ("T ..") and the
   number of tuples with more than one maximal candidate ("M ..") *)
let ties_cmd () =
  let p = params () in
  let one kind idx f =
    let ts = ties_of p f in
    List.iter (fun h -> Printf.printf "T %s %d %s\n" kind idx (String.concat " " (List.map input_str h))) ts;
    let mm = multi_max_of p f in
    List.iter (fun h -> Printf.printf "M %s %d %s\n" kind idx (String.concat " " (List.map input_str h))) mm in
  List.iteri (one "scalar") scalar_sets;
  List.iteri (one "aggregate") aggregate_sets;
  Printf.printf "inputs %d\n" (List.length (all_inputs p));
  print_endline "done"

(* union: "<id>[/m1/m2..] .. | <id>[/m..] .."  ->  "err" | "<id>[/m..]:<n|l|r> .." *)
let parse_dtype (s : string) : dtype =
  match split_on '/' s with
  | id :: ms -> { d_id = n_of_string id; d_meta = List.map zz_of_string ms }
  | [] -> failwith "bad dtype"
let dtype_str (d : dtype) = String.concat "/" (string_of_n d.d_id :: List.map string_of_zz d.d_meta)
let union_cmd () =
  let p = params () in
  (try
     while true do
       let line = input_line stdin in
       let rec split acc = function
         | "|" :: r -> (List.rev acc, r)
         | x :: r -> split (x :: acc) r
         | [] -> (List.rev acc, []) in
       let (l, r) = split [] (split_ws line) in
       match unify_cols p (List.map parse_dtype l) (List.map parse_dtype r) with
       | None -> print_endline "err"
       | Some out ->
         print_endline (String.concat " " (List.map (fun (d, sd) ->
           dtype_str d ^ ":" ^ (match sd with SNone -> "n" | SLeft -> "l" | SRight -> "r" | SBoth -> "b")) out))
     done
   with End_of_file -> ())

(* typeof: "<ctx: comma separated i8|i16|i32|i64|bool|str> <s-expression>"  ->  Null | Boolean | Int8.. | Utf8 | none
   expression syntax: (col i) (int z) (null) (true) (false) (str) (cmp op a b) (dist neg a b) (and a b) (or a b)
   (not a) (isnull neg a) (arith op a b) (neg a) (case ((c t) ..) els) (in neg a (e ..));  the width annotations
   of arith / neg are filled in by the extracted [annotate] *)
let ty_of_name = function
  | "i8" -> TInt (n_of_int 8) | "i16" -> TInt (n_of_int 16) | "i32" -> TInt (n_of_int 32) | "i64" -> TInt (n_of_int 64)
  | "bool" -> TBool | "str" -> TStr | "null" -> TNull | s -> failwith ("bad ctx type " ^ s)
let ty_name = function
  | None -> "none"
  | Some TNull -> "Null" | Some TBool -> "Boolean" | Some TStr -> "Utf8"
  | Some (TInt w) -> "Int" ^ string_of_n w
let flag s = (s = "1")
let rec expr_of (x : sexp) : expr =
  match x with
  | L [A "col"; A i] -> ECol (O, nat_of_int (int_of_string i))
  | L [A "int"; A z] -> EConst (VInt (zz_of_string z))
  | L [A "null"] -> EConst VNull
  | L [A "true"] -> EConst (VBool true)
  | L [A "false"] -> EConst (VBool false)
  | L [A "str"] -> EConst (VStr [n_of_int 97])
  | L [A "cmp"; A op; a; b] ->
    let o = (match op with "eq" -> CEq | "ne" -> CNe | "lt" -> CLt | "le" -> CLe | "gt" -> CGt | "ge" -> CGe | _ -> failwith "cmpop") in
    ECmp (o, expr_of a, expr_of b)
  | L [A "dist"; A n; a; b] -> EDistinct (flag n, expr_of a, expr_of b)
  | L [A "and"; a; b] -> EAnd (expr_of a, expr_of b)
  | L [A "or"; a; b] -> EOr (expr_of a, expr_of b)
  | L [A "not"; a] -> ENot (expr_of a)
  | L [A "isnull"; A n; a] -> EIsNull (flag n, expr_of a)
  | L [A "arith"; A op; a; b] ->
    let o = (match op with "add" -> Add | "sub" -> Sub | "mul" -> Mul | "div" -> Div | "rem" -> Rem | _ -> failwith "binop") in
    EArith (o, N0, expr_of a, expr_of b)
  | L [A "neg"; a] -> ENeg (N0, expr_of a)
  | L [A "case"; L bs; els] ->
    ECase (List.map (function L [c; t] -> (expr_of c, expr_of t) | _ -> failwith "case branch") bs, expr_of els)
  | L [A "in"; A n; a; L es] -> EInList (flag n, expr_of a, List.map expr_of es)
  | _ -> failwith "bad expression"
let typeof_cmd () =
  (try
     while true do
       let line = input_line stdin in
       if String.trim line <> "" then begin
         let sp = String.index line ' ' in
         let ctx = String.sub line 0 sp in
         let rest = String.sub line (sp + 1) (String.length line - sp - 1) in
         let te = [List.map ty_of_name (split_on ',' ctx)] in
         let e = expr_of (parse_sexp rest) in
         print_endline (ty_name (type_of te (annotate te e)))
       end
     done
   with End_of_file -> ())
(* aggtype: "<fn> <arg type>" -> result type name *)
let aggtype_cmd () =
  (try
     while true do
       match split_ws (input_line stdin) with
       | [f; t] ->
         let fn = (match f with "count_star" -> ACountStar | "count" -> ACount | "sum" -> ASum | "min" -> AMin | "max" -> AMax
                               | "bool_and" -> ABoolAnd | "bool_or" -> ABoolOr | _ -> failwith "aggfn") in
         print_endline (ty_name (agg_type fn (ty_of_name t)))
       | _ -> ()
     done
   with End_of_file -> ())

let () =
  match Sys.argv with
  | [| _; "resolve" |] -> resolve_cmd ()
  | [| _; "ties" |] -> ties_cmd ()
  | [| _; "union" |] -> union_cmd ()
  | [| _; "typeof" |] -> typeof_cmd ()
  | [| _; "aggtype" |] -> aggtype_cmd ()
  | _ -> prerr_endline "usage: typing <resolve|ties|union|typeof|aggtype>"; exit 2
