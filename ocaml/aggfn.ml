(* topic driver: aggregate state machines (extract/aggfn_model.ml).
   Parsing and printing only; every result is computed by extracted code.
   One request per line (mode argument `aggfn`), one answer line per request.
     (<fn> <tree>)
        fn   = count | regr_count | sum_i64 | sum_i128 | sum_u64 | avg_u64 | sum_f | avg_i | avg_f | avg_dec:<scale>
             | var_pop | var_samp | stddev_pop | stddev_samp | covar_pop | covar_samp | corr | regr_r2
             | regr_slope | regr_avgx | regr_avgy | min | max | bit_and | bit_or | bool_and | bool_or
             | first_i | first_s | string_agg:<sep hex>
        tree = (leaf item ..) | (node tree tree) | (more tree item ..)        node l r = l.merge(r)
        item = N | I<int> | Q<num>/<den> | B0 | B1 | X<hex> | (P item item)   (P y x: a row of a binary function)
     -> <outcome> | <spec value>
        outcome = ok <value> | err | panic | nonfinite       (the plan, run by the state machine)
        value   = N | I<int> | B0 | B1 | X<hex> | Q <num> <den> | SQRT <num> <den>
                | CORR <n> <d> <n> <d> <n> <d> | CORRSQ <..6..> | NONFINITE
        spec value: the specification applied to the non-NULL rows of the flattened plan *)
let zs = zz_of_string
let sz = string_of_zz

let q_of_string s =
  match split_on '/' s with
  | [a; b] -> { qnum = zs a; qden = pos_of_z (B.of_string b) }
  | [a] -> { qnum = zs a; qden = XH }
  | _ -> failwith ("rational " ^ s)
let sq (x : q) = let r = qred x in Printf.sprintf "%s %s" (sz r.qnum) (B.to_string (z_of_pos r.qden))

let body s = String.sub s 1 (String.length s - 1)

(* item parsers: None = NULL *)
let p_unit = function A "N" -> None | _ -> Some ()
let p_int = function A "N" -> None | A s when s.[0] = 'I' -> Some (zs (body s)) | _ -> failwith "int item"
let p_rat = function
  | A "N" -> None
  | A s when s.[0] = 'Q' -> Some (q_of_string (body s))
  | A s when s.[0] = 'I' -> Some (inject_Z (zs (body s)))
  | _ -> failwith "rational item"
let p_bool = function A "N" -> None | A "B0" -> Some false | A "B1" -> Some true | _ -> failwith "bool item"
let p_bytes = function
  | A "N" -> None
  | A s when s.[0] = 'X' -> Some (bytes_of_hex (body s))
  | _ -> failwith "bytes item"
let p_pair pi = function
  | L [A "P"; y; x] -> both (pi y, pi x)
  | _ -> failwith "pair item"

let rec p_tree pi = function
  | L (A "leaf" :: items) -> Leaf (List.map pi items)
  | L [A "node"; l; r] -> Node (p_tree pi l, p_tree pi r)
  | L (A "more" :: t :: items) -> More (p_tree pi t, List.map pi items)
  | _ -> failwith "tree"

let s_fres = function
  | FNull -> "N"
  | FRat x -> "Q " ^ sq x
  | FSqrt x -> "SQRT " ^ sq x
  | FCorr (c, x, y) -> Printf.sprintf "CORR %s %s %s" (sq c) (sq x) (sq y)
  | FCorrSq (c, x, y) -> Printf.sprintf "CORRSQ %s %s %s" (sq c) (sq x) (sq y)
  | FNonFinite -> "NONFINITE"
let s_optz = function None -> "N" | Some v -> "I" ^ sz v
let s_z v = "I" ^ sz v
let s_optb = function None -> "N" | Some true -> "B1" | Some false -> "B0"
let s_optx = function None -> "N" | Some b -> "X" ^ hex_of_bytes b

let outc show = function
  | Ok v -> "ok " ^ show v
  | Err -> "err"
  | Panic -> "panic"
  | NonFinite -> "nonfinite"

(* run the plan with the state machine, and the specification on the flattened non-NULL rows *)
let go agg spec pi show t =
  let t = p_tree pi t in
  Printf.sprintf "%s | %s" (outc show (result_tree agg t)) (show (spec (nn (flatten t))))

let starts p s = String.length s >= String.length p && String.sub s 0 (String.length p) = p
let after p s = String.sub s (String.length p) (String.length s - String.length p)

let answer (fn : string) (t : sexp) : string =
  let pq = p_pair p_rat in
  match fn with
  | "count" -> go count_agg spec_count p_unit s_z t
  | "regr_count" -> go count_agg spec_count pq s_z t
  | "sum_i64" -> go (sum_chk (zs "64")) spec_sum p_int s_optz t
  | "sum_i128" -> go (sum_chk (zs "128")) spec_sum p_int s_optz t
  | "sum_u64" -> go sum_u64 spec_sum p_int s_optz t
  | "avg_u64" -> go avg_u64 spec_avg_i p_int s_fres t
  | "sum_f" -> go sum_f spec_sum_f p_rat s_fres t
  | "avg_i" -> go avg_i spec_avg_i p_int s_fres t
  | "avg_f" -> go avg_f spec_avg_f p_rat s_fres t
  | "var_pop" -> go (var_agg VarPop) (spec_var VarPop) p_rat s_fres t
  | "var_samp" -> go (var_agg VarSamp) (spec_var VarSamp) p_rat s_fres t
  | "stddev_pop" -> go (var_agg StdPop) (spec_var StdPop) p_rat s_fres t
  | "stddev_samp" -> go (var_agg StdSamp) (spec_var StdSamp) p_rat s_fres t
  | "covar_pop" -> go (covar_agg CovPop) (spec_covar CovPop) pq s_fres t
  | "covar_samp" -> go (covar_agg CovSamp) (spec_covar CovSamp) pq s_fres t
  | "corr" -> go corr_agg (spec_corr false) pq s_fres t
  | "regr_r2" -> go regr_r2_agg (spec_corr true) pq s_fres t
  | "regr_slope" -> go regr_slope_agg spec_regr_slope pq s_fres t
  | "regr_avgx" -> go regr_avgx spec_regr_avgx pq s_fres t
  | "regr_avgy" -> go regr_avgy spec_regr_avgy pq s_fres t
  | "min" -> go min_agg spec_min p_int s_optz t
  | "max" -> go max_agg spec_max p_int s_optz t
  | "bit_and" -> go bit_and_agg (spec_bit Z.coq_land) p_int s_optz t
  | "bit_or" -> go bit_or_agg (spec_bit Z.coq_lor) p_int s_optz t
  | "bool_and" -> go bool_and_agg spec_bool_and p_bool s_optb t
  | "bool_or" -> go bool_or_agg spec_bool_or p_bool s_optb t
  | "first_i" -> go first_agg spec_first p_int s_optz t
  | "first_s" -> go first_agg spec_first p_bytes s_optx t
  | _ when starts "avg_dec:" fn ->
    let sc = zs (after "avg_dec:" fn) in go (avg_dec sc) (spec_avg_dec sc) p_int s_fres t
  | _ when starts "string_agg:" fn ->
    let sep = bytes_of_hex (after "string_agg:" fn) in
    go (string_agg sep) (spec_string_agg sep) p_bytes s_optx t
  | _ -> failwith ("function " ^ fn)

let aggfn () =
  (try
     while true do
       let line = input_line stdin in
       if String.trim line = "" then print_endline ""
       else
         match parse_sexp line with
         | L [A fn; t] -> print_endline (try answer fn t with Failure m -> "badcase " ^ m)
         | _ -> print_endline "badcase line"
     done
   with End_of_file -> ())

let () =
  match Array.to_list Sys.argv with
  | [_; "aggfn"] -> aggfn ()
  | _ -> prerr_endline "usage: aggfn aggfn"; exit 2
