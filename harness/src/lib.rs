//! Shared pieces of the verification harness: canonical value rendering and the SQL runner
//! (real threaded executor or the deterministic scheduler).  Each sub-tool is its own binary
//! under src/bin/ so that a compile error in one does not block the others.
pub mod sql;
pub mod value;
