#[path = "../sortkey.rs"]
mod sortkey;
use gverif::sql;

fn main() {
    // Quiet panics: a one-line message on stderr is enough, results carry the outcome class.
    std::panic::set_hook(Box::new(|info| {
        eprintln!("panic: {}", info.to_string().lines().next().unwrap_or(""));
    }));
    let args: Vec<String> = std::env::args().collect();
    match args.get(1).map(|s| s.as_str()) {
        Some("sql") => sql::main_sql(),
        Some("sortkey") => sortkey::main_sortkey(),
        _ => {
            eprintln!("usage: gverif <sql|sortkey> < cases.jsonl");
            std::process::exit(2);
        }
    }
}
