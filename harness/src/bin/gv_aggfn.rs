//! `gv_aggfn`: drive single states of the REAL aggregate implementations
//! (glaredb_core::functions::aggregate::builtin::*) through the planned function's vtable:
//! new_aggregate_state / update / combine / finalize, exactly as the hash aggregate operator does.
//!
//! stdin, one JSON object per line:
//!   {"id":.., "fn":"var_pop", "types":["f64"], "sep":"," (string_agg only: the constant 2nd argument),
//!    "chunks":[[cell, ..], ..]            unary functions: one tagged cell per row (see gverif::value)
//!             [[[celly, cellx], ..], ..]  binary functions: one pair per row
//!    "plan": tree }
//!   tree = i                    a fresh state updated with all rows of chunk i (one `update` call)
//!        | ["node", l, r]       l.merge(r)   (combine(src = r, dest = l); r is dropped)
//!        | ["more", t, i]       the state of t updated with the rows of chunk i
//! stdout: {"id":.., "out": "ok <cell>" | "err <first line>" | "panic <msg>", "type": result type,
//!          "text": decimal rendering of a float result}
use std::alloc::{Layout, alloc, dealloc};
use std::io::{BufRead, Write};
use std::panic::{AssertUnwindSafe, catch_unwind};

use glaredb_core::arrays::array::Array;
use glaredb_core::arrays::datatype::DataType;
use glaredb_core::arrays::scalar::{BorrowedScalarValue, ScalarValue};
use glaredb_core::buffer::buffer_manager::DefaultBufferManager;
use glaredb_core::expr::{self, Expression, bind_aggregate_function};
use glaredb_core::functions::aggregate::PlannedAggregateFunction;
use glaredb_core::functions::aggregate::builtin::BUILTIN_AGGREGATE_FUNCTION_SETS;
use gverif::value;
use serde_json::{Value, json};

struct Ctx {
    planned: PlannedAggregateFunction,
    types: Vec<DataType>,
    /// chunks[c][col][row]
    chunks: Vec<Vec<Vec<ScalarValue>>>,
    layout: Layout,
}

fn first_line(e: glaredb_error::DbError) -> String {
    e.to_string().lines().next().unwrap_or("").to_string()
}

impl Ctx {
    fn new_state(&self) -> *mut u8 {
        unsafe {
            let p = alloc(self.layout);
            assert!(!p.is_null());
            self.planned.verif_new_state(p);
            p
        }
    }

    fn feed(&self, st: *mut u8, chunk: usize) -> Result<(), String> {
        let cols = self.chunks.get(chunk).ok_or("chunk index")?;
        let n = cols.first().map(|c| c.len()).unwrap_or(0);
        if n == 0 {
            return Ok(());
        }
        let mut arrays = Vec::new();
        for (ty, col) in self.types.iter().zip(cols) {
            let mut a = Array::new(&DefaultBufferManager, ty.clone(), n).map_err(first_line)?;
            for (i, v) in col.iter().enumerate() {
                a.set_value(i, v).map_err(first_line)?;
            }
            arrays.push(a);
        }
        let mut ptrs = vec![st; n];
        unsafe { self.planned.verif_update(&arrays, n, &mut ptrs) }.map_err(|e| format!("err {}", first_line(e)))
    }

    fn eval(&self, plan: &Value) -> Result<*mut u8, String> {
        if let Some(i) = plan.as_u64() {
            let st = self.new_state();
            self.feed(st, i as usize)?;
            return Ok(st);
        }
        let arr = plan.as_array().ok_or("plan")?;
        match arr.first().and_then(|t| t.as_str()) {
            Some("node") => {
                let a = self.eval(&arr[1])?;
                let b = self.eval(&arr[2])?;
                let mut src = [b];
                let mut dest = [a];
                unsafe { self.planned.verif_combine(&mut src, &mut dest) }
                    .map_err(|e| format!("err {}", first_line(e)))?;
                // combine dropped the source state in place; release its memory
                unsafe { dealloc(b, self.layout) };
                Ok(a)
            }
            Some("more") => {
                let a = self.eval(&arr[1])?;
                self.feed(a, arr[2].as_u64().ok_or("more index")? as usize)?;
                Ok(a)
            }
            _ => Err("plan".into()),
        }
    }
}

fn run(case: &Value) -> Result<Value, String> {
    let name = case["fn"].as_str().ok_or("fn")?;
    let types: Vec<DataType> = case["types"]
        .as_array()
        .ok_or("types")?
        .iter()
        .map(|t| value::parse_type(t.as_str().unwrap_or("")).ok_or_else(|| format!("bad type {t}")))
        .collect::<Result<_, _>>()?;
    let set = BUILTIN_AGGREGATE_FUNCTION_SETS
        .iter()
        .find(|s| s.name == name || s.aliases.contains(&name))
        .ok_or_else(|| format!("no aggregate {name}"))?;
    let sep = case["sep"].as_str().map(|s| s.to_string());
    let mut inputs: Vec<Expression> = Vec::new();
    for (col, t) in types.iter().enumerate() {
        if name == "string_agg" && col == 1 {
            let s = sep.clone().ok_or("string_agg needs sep")?;
            inputs.push(Expression::Literal(expr::lit(s)));
        } else {
            inputs.push(expr::column((0, col), t.clone()));
        }
    }
    let planned = bind_aggregate_function(set, inputs).map_err(|e| format!("bind: {}", first_line(e)))?;

    let mut chunks = Vec::new();
    for ch in case["chunks"].as_array().ok_or("chunks")? {
        let rows = ch.as_array().ok_or("chunk")?;
        let mut cols: Vec<Vec<ScalarValue>> = vec![Vec::new(); types.len()];
        for row in rows {
            if types.len() == 1 && !(name == "string_agg") {
                let cell = row.as_str().ok_or("cell")?;
                cols[0].push(value::parse_cell(&types[0], cell).ok_or_else(|| format!("bad cell {cell}"))?);
            } else if name == "string_agg" {
                let cell = row.as_str().ok_or("cell")?;
                cols[0].push(value::parse_cell(&types[0], cell).ok_or_else(|| format!("bad cell {cell}"))?);
                cols[1].push(BorrowedScalarValue::Utf8(sep.clone().unwrap_or_default().into()));
            } else {
                let pair = row.as_array().ok_or("pair")?;
                for (c, cell) in pair.iter().enumerate() {
                    let cell = cell.as_str().ok_or("cell")?;
                    cols[c].push(value::parse_cell(&types[c], cell).ok_or_else(|| format!("bad cell {cell}"))?);
                }
            }
        }
        chunks.push(cols);
    }
    let info = planned.verif_state_info();
    let layout = Layout::from_size_align(info.size.max(1), info.align.max(1)).map_err(|e| e.to_string())?;
    let ret = planned.verif_return_type().clone();
    let ctx = Ctx { planned, types, chunks, layout };

    let outcome = catch_unwind(AssertUnwindSafe(|| -> Result<(String, String), String> {
        let st = ctx.eval(&case["plan"])?;
        let mut out = Array::new(&DefaultBufferManager, ret.clone(), 1).map_err(first_line)?;
        let mut states = [st];
        unsafe { ctx.planned.verif_finalize(&mut states, &mut out) }.map_err(|e| format!("err {}", first_line(e)))?;
        unsafe { dealloc(st, ctx.layout) };
        let v = out.get_value(0).map_err(first_line)?;
        let text = match &v {
            BorrowedScalarValue::Float64(f) => format!("{f:e}"),
            other => format!("{other}"),
        };
        Ok((value::render(&v), text))
    }));
    Ok(match outcome {
        Ok(Ok((cell, text))) => json!({"out": format!("ok {cell}"), "type": value::type_name(&ret), "text": text}),
        Ok(Err(e)) if e.starts_with("err ") => json!({"out": e, "type": value::type_name(&ret)}),
        Ok(Err(e)) => json!({"bad_case": e}),
        Err(p) => {
            let m = if let Some(s) = p.downcast_ref::<&str>() {
                s.to_string()
            } else if let Some(s) = p.downcast_ref::<String>() {
                s.clone()
            } else {
                "panic".to_string()
            };
            json!({"out": format!("panic {m}"), "type": value::type_name(&ret)})
        }
    })
}

fn main() {
    std::panic::set_hook(Box::new(|_| {}));
    let stdin = std::io::stdin();
    let stdout = std::io::stdout();
    for line in stdin.lock().lines() {
        let line = line.unwrap();
        if line.trim().is_empty() {
            continue;
        }
        let case: Value = match serde_json::from_str(&line) {
            Ok(v) => v,
            Err(e) => {
                println!("{}", json!({"id": null, "bad_input": e.to_string()}));
                continue;
            }
        };
        let mut out = match catch_unwind(AssertUnwindSafe(|| run(&case))) {
            Ok(Ok(v)) => v,
            Ok(Err(e)) => json!({"bad_case": e}),
            Err(_) => json!({"out": "panic outside the state functions"}),
        };
        out["id"] = case["id"].clone();
        let mut l = stdout.lock();
        writeln!(l, "{out}").unwrap();
        l.flush().unwrap();
    }
}
