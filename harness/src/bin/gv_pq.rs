//! `gv_pq`: drive the REAL single Parquet decoders of glaredb_ext_parquet (hook
//! `column::verif`) on given buffers with a given sequence of read sizes.
//!
//! stdin, one JSON object per line:
//!   {"id":..,"op":"vlq","hex":".."}
//!   {"id":..,"op":"unpack","t":"u8|i16|u32|u64|i32|i64","w":W,"hex":"..","reads":[n1,n2,..]}
//!   {"id":..,"op":"rle",   "t":..,"w":W,"hex":"..","reads":[..]}
//!   {"id":..,"op":"dbp",   "t":"i32|i64","hex":"..","reads":[..]}
//!   {"id":..,"op":"lens",  "hex":".."}     (length prefix of DELTA_LENGTH/DELTA_BYTE_ARRAY pages:
//!                                            try_new, one read of total_values, try_into_cursor)
//! stdout: {"id":..,"out":"OK a b | c d"} (values as unsigned bit patterns of T, reads separated by |)
//!         or "ERR" / "PANIC" / "OOB" (+ "msg").  OOB = the debug assertion of an unchecked cursor read.

use std::io::{BufRead, Write};
use std::panic::{AssertUnwindSafe, catch_unwind};

use glaredb_ext_parquet::column::verif::{
    BitPackEncodeable,
    BitUnpackState,
    DeltaBinaryPacked,
    ReadCursor,
    RleBitPackedDecoder,
    bit_unpack,
    read_unsigned_vlq,
};
use serde_json::{Value, json};

fn unhex(s: &str) -> Vec<u8> {
    let b = s.as_bytes();
    (0..b.len() / 2)
        .map(|i| u8::from_str_radix(std::str::from_utf8(&b[2 * i..2 * i + 2]).unwrap(), 16).unwrap())
        .collect()
}

trait Pat: BitPackEncodeable + Default {
    fn pat(self) -> u64;
}
macro_rules! pat {
    ($t:ty, $u:ty) => {
        impl Pat for $t {
            fn pat(self) -> u64 {
                (self as $u) as u64
            }
        }
    };
}
pat!(u8, u8);
pat!(u32, u32);
pat!(u64, u64);
pat!(i16, u16);
pat!(i32, u32);
pat!(i64, u64);

fn reads(case: &Value) -> Vec<usize> {
    case["reads"].as_array().map(|a| a.iter().map(|x| x.as_u64().unwrap() as usize).collect()).unwrap_or_default()
}

fn join(rs: Vec<Vec<u64>>) -> String {
    let parts: Vec<String> =
        rs.iter().map(|r| r.iter().map(|v| v.to_string()).collect::<Vec<_>>().join(" ")).collect();
    format!("OK {}", parts.join(" | "))
}

fn run_unpack<T: Pat>(w: u8, cur: &mut ReadCursor, ns: &[usize]) -> Result<String, String> {
    let mut st = BitUnpackState::new(w);
    let mut all = Vec::new();
    for &n in ns {
        let mut out = vec![T::default(); n];
        bit_unpack(&mut st, cur, &mut out).map_err(|e| e.to_string())?;
        all.push(out.into_iter().map(|v| v.pat()).collect());
    }
    Ok(join(all))
}

fn run_rle<T: Pat>(w: u8, cur: ReadCursor, ns: &[usize]) -> Result<String, String> {
    let mut dec = RleBitPackedDecoder::new(cur, w);
    let mut all = Vec::new();
    for &n in ns {
        let mut out = vec![T::default(); n];
        dec.read(&mut out).map_err(|e| e.to_string())?;
        all.push(out.into_iter().map(|v| v.pat()).collect());
    }
    Ok(join(all))
}

macro_rules! by_type {
    ($t:expr, $f:ident, $($a:expr),*) => {
        match $t {
            "u8" => $f::<u8>($($a),*),
            "i16" => $f::<i16>($($a),*),
            "u32" => $f::<u32>($($a),*),
            "u64" => $f::<u64>($($a),*),
            "i32" => $f::<i32>($($a),*),
            "i64" => $f::<i64>($($a),*),
            other => Err(format!("bad type {other}")),
        }
    };
}

macro_rules! run_dbp {
    ($t:ty, $cur:expr, $ns:expr) => {{
        (|| -> Result<String, String> {
            let mut dec = DeltaBinaryPacked::<$t>::try_new($cur).map_err(|e| e.to_string())?;
            let mut all = Vec::new();
            for &n in $ns {
                let mut out = vec![<$t>::default(); n];
                dec.read(&mut out).map_err(|e| e.to_string())?;
                all.push(out.into_iter().map(|v| v.pat()).collect());
            }
            Ok(join(all))
        })()
    }};
}

fn run_case(case: &Value) -> Result<String, String> {
    let mut buf = unhex(case["hex"].as_str().unwrap_or(""));
    let len = buf.len();
    // Slack behind the cursor so that an unchecked over-read stays inside our allocation.
    buf.extend(std::iter::repeat(0u8).take(64));
    let cur = ReadCursor::from_slice(&buf[..len]);
    let ns = reads(case);
    let w = case["w"].as_u64().unwrap_or(0) as u8;
    let t = case["t"].as_str().unwrap_or("u64");
    match case["op"].as_str().unwrap_or("") {
        "vlq" => {
            let mut cur = cur;
            let v = read_unsigned_vlq(&mut cur).map_err(|e| e.to_string())?;
            Ok(format!("OK {} {}", v, len - cur.remaining()))
        }
        "unpack" => {
            let mut cur = cur;
            by_type!(t, run_unpack, w, &mut cur, &ns)
        }
        "rle" => {
            if w > 64 {
                return Err("width".to_string());
            }
            by_type!(t, run_rle, w, cur, &ns)
        }
        "dbp" => match t {
            "i32" => run_dbp!(i32, cur, &ns),
            "i64" => run_dbp!(i64, cur, &ns),
            other => Err(format!("bad type {other}")),
        },
        "lens" => {
            let mut dec = DeltaBinaryPacked::<i32>::try_new(cur).map_err(|e| e.to_string())?;
            let n = dec.total_values();
            let mut out = vec![0i32; n];
            dec.read(&mut out).map_err(|e| e.to_string())?;
            let rem = dec.into_cursor_remaining().map_err(|e| e.to_string())?;
            let vals: Vec<String> = out.iter().map(|v| (*v as u32).to_string()).collect();
            Ok(format!("OK {} ; {}", vals.join(" "), rem))
        }
        other => Err(format!("bad op {other}")),
    }
}

fn main() {
    std::panic::set_hook(Box::new(|_| {}));
    let stdin = std::io::stdin();
    let stdout = std::io::stdout();
    for line in stdin.lock().lines() {
        let line = line.unwrap();
        if line.trim().is_empty() {
            continue;
        }
        let case: Value = match serde_json::from_str(&line) {
            Ok(v) => v,
            Err(e) => {
                println!("{}", json!({"id": null, "bad_input": e.to_string()}));
                continue;
            }
        };
        let r = catch_unwind(AssertUnwindSafe(|| run_case(&case)));
        let out = match r {
            Ok(Ok(s)) => json!({"id": case["id"], "out": s}),
            Ok(Err(e)) => json!({"id": case["id"], "out": "ERR", "msg": e.lines().next().unwrap_or("")}),
            Err(p) => {
                let msg = if let Some(s) = p.downcast_ref::<&str>() {
                    s.to_string()
                } else if let Some(s) = p.downcast_ref::<String>() {
                    s.clone()
                } else {
                    "panic".to_string()
                };
                // debug assertions of the unchecked cursor operations (read / peek / skip past the end)
                let class = if msg.starts_with("remaining:") || msg.contains("self.remaining >=") {
                    "OOB"
                } else {
                    "PANIC"
                };
                json!({"id": case["id"], "out": class, "msg": msg.lines().next().unwrap_or("")})
            }
        };
        let mut l = stdout.lock();
        writeln!(l, "{}", out).unwrap();
        l.flush().unwrap();
    }
}
