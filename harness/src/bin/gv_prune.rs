//! `gv_prune`: drive the REAL row-group pruner and the REAL glob expansion.
//!
//! stdin, one JSON object per line; numbers that may exceed 2^53 are decimal strings:
//!   {"id":..,"op":"prune","lt":"i8|i16|i32|i64|u8|u16|u32|u64","phys":"i32|i64",
//!    "min":"<int>"|null,"max":..,"min_exact":bool,"max_exact":bool,"consts":[C..]}
//!        ValueStatistics built directly; PrimitiveRowGroupPruner::<T,U>::new(filters).should_prune
//!   {"id":..,"op":"thrift","lt":..,"phys":..,"old_min":..,"old_max":..,"new_min":..,"new_max":..,
//!    "nulls":"<int>"|null,"min_exact":bool|null,"max_exact":bool|null,"consts":[C..]}
//!        format::Statistics -> statistics::from_thrift -> should_prune
//!   C = {"k":"null"} | {"k":"i8".."u64","v":"<int>"} | {"k":"date32"|"date64"|"dec64"|"ts","v":".."} | {"k":"utf8"}
//!   A filter with an Unknown filter type is added with {"k":"unknown"} (must be ignored).
//!   -> {"id":..,"out":"true|false|ERR", "stats": "<min> <max> <min_exact> <max_exact> <deprecated> <nulls>"}
//!   {"id":..,"op":"glob","pattern":"r/**/*.csv","tree":T,"chunk":n}    T = {"n":"name","c":[T..]} | {"n":"name"}
//!        an in-memory FileSystem (glob_segments = LocalFileSystem::glob_segments, hook
//!        glaredb_rt_native::verif) whose directory handle lists `chunk` entries per poll (0 = all);
//!        GlobHandle::open + poll_expand until exhaustion
//!   -> {"id":..,"root":"r","segments":[..],"paths":[..],"oracle":[[seg_idx,"name",bool]..]}
//!        oracle = what the per-segment matcher (globset, literal_separator) / literal compare says.

use std::io::{BufRead, Write};
use std::panic::{AssertUnwindSafe, catch_unwind};
use std::sync::Arc;
use std::task::{Context, Poll};

use glaredb_core::arrays::datatype::TimeUnit;
use glaredb_core::arrays::scalar::ScalarValue;
use glaredb_core::arrays::scalar::decimal::Decimal64Scalar;
use glaredb_core::arrays::scalar::timestamp::TimestampScalar;
use glaredb_core::arrays::scalar::unwrap::{
    UnwrapI8, UnwrapI16, UnwrapI32, UnwrapI64, UnwrapU8, UnwrapU16, UnwrapU32, UnwrapU64,
};
use glaredb_core::expr::physical::PhysicalScalarExpression;
use glaredb_core::expr::physical::literal_expr::PhysicalLiteralExpr;
use glaredb_core::runtime::filesystem::directory::{DirEntry, ReadDirHandle};
use glaredb_core::runtime::filesystem::glob::{GlobHandle, GlobSegments, is_glob};
use glaredb_core::runtime::filesystem::{
    FileHandle, FileOpenContext, FileStat, FileSystem, OpenFlags,
};
use glaredb_core::storage::projections::ProjectedColumn;
use glaredb_core::storage::scan_filter::{PhysicalScanFilter, PhysicalScanFilterType};
use glaredb_error::{DbError, Result};
use glaredb_ext_parquet::basic::Type;
use glaredb_ext_parquet::column::row_group_pruner::{
    PlainTypeI32, PlainTypeI64, PrimitiveRowGroupPruner, RowGroupPruner,
};
use glaredb_ext_parquet::format::Statistics as TStatistics;
use glaredb_ext_parquet::metadata::statistics::{Statistics, ValueStatistics, from_thrift};
use glaredb_rt_native::verif::LocalFileSystem;
use serde_json::{Value, json};

fn int_of(v: &Value) -> Option<i128> {
    match v {
        Value::Null => None,
        Value::String(s) => s.parse::<i128>().ok(),
        Value::Number(n) => n.as_i64().map(|x| x as i128),
        _ => None,
    }
}

fn consts_to_filters(cs: &Value) -> std::result::Result<Vec<PhysicalScanFilter>, String> {
    let mut out = Vec::new();
    for c in cs.as_array().ok_or("consts")? {
        let k = c["k"].as_str().ok_or("k")?;
        let v = int_of(&c["v"]).unwrap_or(0);
        let sv: Option<ScalarValue> = match k {
            "null" => Some(ScalarValue::Null),
            "i8" => Some(ScalarValue::Int8(v as i8)),
            "i16" => Some(ScalarValue::Int16(v as i16)),
            "i32" => Some(ScalarValue::Int32(v as i32)),
            "i64" => Some(ScalarValue::Int64(v as i64)),
            "u8" => Some(ScalarValue::UInt8(v as u8)),
            "u16" => Some(ScalarValue::UInt16(v as u16)),
            "u32" => Some(ScalarValue::UInt32(v as u32)),
            "u64" => Some(ScalarValue::UInt64(v as u64)),
            "date32" => Some(ScalarValue::Date32(v as i32)),
            "date64" => Some(ScalarValue::Date64(v as i64)),
            "dec64" => Some(ScalarValue::Decimal64(Decimal64Scalar { precision: 18, scale: 0, value: v as i64 })),
            "ts" => Some(ScalarValue::Timestamp(TimestampScalar { unit: TimeUnit::Microsecond, value: v as i64 })),
            "utf8" => Some(ScalarValue::Utf8("x".into())),
            "unknown" => None,
            other => return Err(format!("bad const kind {other}")),
        };
        let lit = PhysicalScalarExpression::Literal(PhysicalLiteralExpr { literal: ScalarValue::Boolean(true) });
        out.push(PhysicalScanFilter {
            columns: vec![ProjectedColumn::Data(0)],
            filter: lit,
            filter_type: match sv {
                Some(s) => PhysicalScanFilterType::ConstantEq(s),
                None => PhysicalScanFilterType::Unknown,
            },
        });
    }
    Ok(out)
}

fn show_stats<T: std::fmt::Display>(s: &ValueStatistics<T>) -> String {
    let o = |x: &Option<T>| x.as_ref().map(|v| v.to_string()).unwrap_or_else(|| "-".to_string());
    format!(
        "{} {} {} {} {} {}",
        o(&s.min), o(&s.max), s.is_min_value_exact as u8, s.is_max_value_exact as u8,
        s.is_min_max_deprecated as u8, s.null_count
    )
}

macro_rules! prune_with {
    ($plain:ty, $lt:expr, $stats:expr, $filters:expr) => {{
        let fs = $filters;
        let r = match $lt {
            "i8" => PrimitiveRowGroupPruner::<$plain, UnwrapI8>::new(fs.iter()).should_prune($stats),
            "i16" => PrimitiveRowGroupPruner::<$plain, UnwrapI16>::new(fs.iter()).should_prune($stats),
            "i32" => PrimitiveRowGroupPruner::<$plain, UnwrapI32>::new(fs.iter()).should_prune($stats),
            "i64" => PrimitiveRowGroupPruner::<$plain, UnwrapI64>::new(fs.iter()).should_prune($stats),
            "u8" => PrimitiveRowGroupPruner::<$plain, UnwrapU8>::new(fs.iter()).should_prune($stats),
            "u16" => PrimitiveRowGroupPruner::<$plain, UnwrapU16>::new(fs.iter()).should_prune($stats),
            "u32" => PrimitiveRowGroupPruner::<$plain, UnwrapU32>::new(fs.iter()).should_prune($stats),
            "u64" => PrimitiveRowGroupPruner::<$plain, UnwrapU64>::new(fs.iter()).should_prune($stats),
            other => Err(DbError::new(format!("bad lt {other}"))),
        };
        match r {
            Ok(b) => b.to_string(),
            Err(_) => "ERR".to_string(),
        }
    }};
}

fn run_prune(case: &Value) -> std::result::Result<Value, String> {
    let lt = case["lt"].as_str().ok_or("lt")?;
    let phys = case["phys"].as_str().ok_or("phys")?;
    let filters = consts_to_filters(&case["consts"])?;
    let mk = |min: Option<i128>, max: Option<i128>| (min, max);
    let (min, max) = mk(int_of(&case["min"]), int_of(&case["max"]));
    let me = case["min_exact"].as_bool().unwrap_or(true);
    let xe = case["max_exact"].as_bool().unwrap_or(true);
    if phys == "i32" {
        let st = ValueStatistics::<i32> {
            min: min.map(|v| v as i32), max: max.map(|v| v as i32), distinct_count: None, null_count: 0,
            is_max_value_exact: xe, is_min_value_exact: me, is_min_max_deprecated: false,
            is_min_max_backwards_compatible: false,
        };
        Ok(json!({"out": prune_with!(PlainTypeI32, lt, &st, &filters), "stats": show_stats(&st)}))
    } else {
        let st = ValueStatistics::<i64> {
            min: min.map(|v| v as i64), max: max.map(|v| v as i64), distinct_count: None, null_count: 0,
            is_max_value_exact: xe, is_min_value_exact: me, is_min_max_deprecated: false,
            is_min_max_backwards_compatible: false,
        };
        Ok(json!({"out": prune_with!(PlainTypeI64, lt, &st, &filters), "stats": show_stats(&st)}))
    }
}

fn run_thrift(case: &Value) -> std::result::Result<Value, String> {
    let lt = case["lt"].as_str().ok_or("lt")?;
    let phys = case["phys"].as_str().ok_or("phys")?;
    let filters = consts_to_filters(&case["consts"])?;
    let w = if phys == "i32" { 4 } else { 8 };
    let bytes = |v: &Value| int_of(v).map(|x| (x as i64).to_le_bytes()[..w].to_vec());
    let t = TStatistics {
        max: bytes(&case["old_max"]),
        min: bytes(&case["old_min"]),
        null_count: int_of(&case["nulls"]).map(|x| x as i64),
        distinct_count: None,
        max_value: bytes(&case["new_max"]),
        min_value: bytes(&case["new_min"]),
        is_max_value_exact: case["max_exact"].as_bool(),
        is_min_value_exact: case["min_exact"].as_bool(),
    };
    let ty = if phys == "i32" { Type::INT32 } else { Type::INT64 };
    let st = match from_thrift(ty, Some(t)) {
        Err(_) => return Ok(json!({"out": "ERR", "stats": "ERR"})),
        Ok(None) => return Ok(json!({"out": "false", "stats": "none"})),
        Ok(Some(s)) => s,
    };
    match &st {
        Statistics::Int32(s) => Ok(json!({"out": prune_with!(PlainTypeI32, lt, s, &filters), "stats": show_stats(s)})),
        Statistics::Int64(s) => Ok(json!({"out": prune_with!(PlainTypeI64, lt, s, &filters), "stats": show_stats(s)})),
        _ => Err("unexpected statistics variant".to_string()),
    }
}

// ------------------------------------------------------------------ in-memory file system
#[derive(Debug)]
struct MNode {
    name: String,
    children: Option<Vec<Arc<MNode>>>, // None = file
}

fn parse_tree(v: &Value) -> Arc<MNode> {
    Arc::new(MNode {
        name: v["n"].as_str().unwrap_or("").to_string(),
        children: v["c"].as_array().map(|a| a.iter().map(parse_tree).collect()),
    })
}

#[derive(Debug)]
struct MemFs {
    root: Arc<MNode>,
    chunk: usize,
}

#[derive(Debug)]
struct MemFile;
impl FileHandle for MemFile {
    fn path(&self) -> &str {
        ""
    }
    fn size(&self) -> u64 {
        0
    }
    fn poll_read(&mut self, _cx: &mut Context, _buf: &mut [u8]) -> Poll<Result<usize>> {
        Poll::Ready(Ok(0))
    }
    fn poll_write(&mut self, _cx: &mut Context, _buf: &[u8]) -> Poll<Result<usize>> {
        Poll::Ready(Err(DbError::new("mem file")))
    }
    fn poll_seek(&mut self, _cx: &mut Context, _seek: std::io::SeekFrom) -> Poll<Result<()>> {
        Poll::Ready(Ok(()))
    }
    fn poll_flush(&mut self, _cx: &mut Context) -> Poll<Result<()>> {
        Poll::Ready(Ok(()))
    }
}

#[derive(Debug)]
struct MemDir {
    node: Arc<MNode>,
    path: String,
    pos: usize,
    chunk: usize,
}

impl ReadDirHandle for MemDir {
    fn poll_list(&mut self, _cx: &mut Context, ents: &mut Vec<DirEntry>) -> Poll<Result<usize>> {
        let ch = self.node.children.as_ref().expect("directory");
        let end = if self.chunk == 0 { ch.len() } else { usize::min(ch.len(), self.pos + self.chunk) };
        let mut n = 0;
        for c in &ch[self.pos..end] {
            let p = format!("{}/{}", self.path, c.name);
            if c.children.is_some() {
                ents.push(DirEntry::new_dir(p));
            } else {
                ents.push(DirEntry::new_file(p));
            }
            n += 1;
        }
        self.pos = end;
        Poll::Ready(Ok(n))
    }

    fn change_dir(&mut self, relative: impl Into<String>) -> Result<Self> {
        let rel = relative.into();
        let ch = self.node.children.as_ref().expect("directory");
        for c in ch {
            if c.name == rel && c.children.is_some() {
                return Ok(MemDir { node: c.clone(), path: format!("{}/{}", self.path, rel), pos: 0, chunk: self.chunk });
            }
        }
        Err(DbError::new(format!("no such directory {rel}")))
    }
}

impl FileSystem for MemFs {
    const NAME: &str = "Mem";
    type FileHandle = MemFile;
    type ReadDirHandle = MemDir;
    type State = ();

    async fn load_state(&self, _context: FileOpenContext<'_>) -> Result<Self::State> {
        Ok(())
    }
    async fn open(&self, _flags: OpenFlags, _path: &str, _state: &()) -> Result<Self::FileHandle> {
        Err(DbError::new("mem fs: open"))
    }
    async fn stat(&self, _path: &str, _state: &()) -> Result<Option<FileStat>> {
        Ok(None)
    }
    async fn read_dir(&self, dir: &str, _state: &()) -> Result<Self::ReadDirHandle> {
        // the tree's root node is the first component of `dir`
        let mut comps = dir.split('/').filter(|s| !s.is_empty());
        let first = comps.next().unwrap_or("");
        if first != self.root.name {
            return Err(DbError::new(format!("Failed to read directory: {dir}")));
        }
        let mut node = self.root.clone();
        for c in comps {
            let next = node
                .children
                .as_ref()
                .and_then(|ch| ch.iter().find(|x| x.name == c && x.children.is_some()).cloned());
            node = match next {
                Some(n) => n,
                None => return Err(DbError::new(format!("Failed to read directory: {dir}"))),
            };
        }
        Ok(MemDir { node, path: dir.to_string(), pos: 0, chunk: self.chunk })
    }
    fn glob_segments(glob: &str) -> Result<GlobSegments> {
        LocalFileSystem::glob_segments(glob)
    }
    fn can_handle_path(&self, _path: &str) -> bool {
        true
    }
}

fn all_names(n: &MNode, out: &mut Vec<String>) {
    if !out.contains(&n.name) {
        out.push(n.name.clone());
    }
    if let Some(ch) = &n.children {
        for c in ch {
            all_names(c, out);
        }
    }
}

fn run_glob(case: &Value) -> std::result::Result<Value, String> {
    let pattern = case["pattern"].as_str().ok_or("pattern")?;
    let fs = MemFs { root: parse_tree(&case["tree"]), chunk: case["chunk"].as_u64().unwrap_or(0) as usize };
    let segs = match MemFs::glob_segments(pattern) {
        Ok(s) => s,
        Err(e) => return Ok(json!({"err": e.to_string().lines().next().unwrap_or("")})),
    };
    // the oracle: per segment, what the matcher says about every name of the tree
    let mut names = Vec::new();
    all_names(&fs.root, &mut names);
    let mut oracle = Vec::new();
    for (i, seg) in segs.segments.iter().enumerate() {
        let matcher = if is_glob(seg) {
            match globset::GlobBuilder::new(seg).literal_separator(true).build() {
                Ok(g) => Some(g.compile_matcher()),
                Err(_) => None,
            }
        } else {
            None
        };
        for n in &names {
            let ok = match &matcher {
                Some(m) => m.is_match(n),
                None => n == seg,
            };
            oracle.push(json!([i, n, ok]));
        }
    }
    let mut handle = match futures::executor::block_on(GlobHandle::open(&fs, &(), pattern)) {
        Ok(h) => h,
        Err(e) => {
            return Ok(json!({"root": segs.root_dir, "segments": segs.segments,
                             "err": e.to_string().lines().next().unwrap_or(""), "oracle": oracle}));
        }
    };
    let waker = futures::task::noop_waker();
    let mut cx = Context::from_waker(&waker);
    let mut out: Vec<String> = Vec::new();
    let mut polls = 0usize;
    loop {
        polls += 1;
        if polls > 1_000_000 {
            return Err("glob does not terminate".to_string());
        }
        match handle.poll_expand(&mut cx, &mut out) {
            Poll::Ready(Ok(0)) => break,
            Poll::Ready(Ok(_)) => continue,
            Poll::Ready(Err(e)) => {
                return Ok(json!({"root": segs.root_dir, "segments": segs.segments,
                                 "err": e.to_string().lines().next().unwrap_or(""), "oracle": oracle}));
            }
            Poll::Pending => return Err("pending".to_string()),
        }
    }
    Ok(json!({"root": segs.root_dir, "segments": segs.segments, "paths": out, "oracle": oracle, "polls": polls}))
}

fn main() {
    std::panic::set_hook(Box::new(|_| {}));
    let stdin = std::io::stdin();
    let stdout = std::io::stdout();
    for line in stdin.lock().lines() {
        let line = line.unwrap();
        if line.trim().is_empty() {
            continue;
        }
        let case: Value = match serde_json::from_str(&line) {
            Ok(v) => v,
            Err(e) => {
                println!("{}", json!({"id": null, "bad_input": e.to_string()}));
                continue;
            }
        };
        let r = catch_unwind(AssertUnwindSafe(|| match case["op"].as_str().unwrap_or("") {
            "prune" => run_prune(&case),
            "thrift" => run_thrift(&case),
            "glob" => run_glob(&case),
            other => Err(format!("bad op {other}")),
        }));
        let mut out = match r {
            Ok(Ok(v)) => v,
            Ok(Err(m)) => json!({"out": "HARNESS", "msg": m}),
            Err(_) => json!({"out": "PANIC"}),
        };
        out["id"] = case["id"].clone();
        let mut l = stdout.lock();
        let _ = writeln!(l, "{out}");
        let _ = l.flush();
    }
}
