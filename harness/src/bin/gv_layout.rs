//! `gv_layout`: dump the REAL row / aggregate / sort layouts and block arithmetic.
//!
//! stdin, one JSON object per line; stdout one JSON object per line ({"id":..,"panic":..} on a panic):
//!   {"id":..,"op":"row","types":[t..]}
//!       -> {"offsets":[..],"row_width":n,"validity_width":n,"requires_heap":b,"byte_offset_r3":[..]}
//!   {"id":..,"op":"agg","groups":[t..],"aggs":[[name,[t..]],..]}
//!       -> {"base_align":n,"row_width":n,"offsets":[..],"states":[[size,align]..],"group_width":n}
//!   {"id":..,"op":"sort","types":[t..]}
//!       -> {"offsets":[..],"widths":[..],"compare_width":n,"row_width":n,"heap_mapping":[i|null..],"heap_row_width":n,
//!           "row_index_width":n}
//!   {"id":..,"op":"append","row_width":n,"row_capacity":n,"appends":[n..]}
//!       -> {"pointers":[[[block,byte_offset]..]..],"blocks":[[capacity,reserved]..]}     (RowBlocks::prepare_append)
//!   {"id":..,"op":"strview","lens":[n..]}   -> {"inline":[b..],"max_inline_len":n,"string_ptr_size":n}
//!   {"id":..,"op":"mask","cap":n,"hashes":[n..]} -> {"offsets":[..],"next":[..]}   (hash aggregate directory helpers)
//!   {"id":..,"op":"strpred","lens":[n..]} -> {"flags":["<sv.is_inline><sv.is_reference><sp.is_inline><sp.is_reference>"..]}
//!       the REAL StringView / StringPtr predicates for values of exactly n bytes ("p" where a constructor panics)
//!   {"id":..,"op":"heapsizes","arrays":[{"values":[n|null..],"select":[i..]|null}..],"rows":[r..]}
//!       -> {"sizes":[..]}   the REAL RowLayout::compute_heap_sizes over Utf8 arrays (values = byte lengths, null =
//!       NULL; "select" puts a selection on the array) for the row selection `rows`
//!   {"id":..,"op":"rowtrip","cols":[[n|null..]..],"block_capacity":n}
//!       -> {"cols":[["<hex>"|null..]..],"sent":[..]}   append to a REAL RowCollection, scan back (round trip)
//! types: the `value::parse_type` language plus null, date64, timestamp, list_i32.
use std::io::{BufRead, Write};
use std::panic::{AssertUnwindSafe, catch_unwind};

use glaredb_core::arrays::array::Array;
use glaredb_core::arrays::batch::Batch;
use glaredb_core::arrays::datatype::{DataType, TimeUnit, TimestampTypeMeta};
use glaredb_core::arrays::row::row_collection::RowCollection;
use glaredb_core::arrays::scalar::{BorrowedScalarValue, ScalarValue};
use glaredb_core::buffer::buffer_manager::DefaultBufferManager;
use glaredb_core::arrays::row::aggregate_layout::AggregateLayout;
use glaredb_core::arrays::row::row_collection::verif_prepare_append;
use glaredb_core::arrays::row::row_layout::RowLayout;
use glaredb_core::arrays::sort::sort_layout::{SortColumn, SortLayout};
use glaredb_core::arrays::string::{MAX_INLINE_LEN, StringPtr, StringView};
use glaredb_core::execution::operators::hash_aggregate::verif_hooks::{
    verif_compute_offset_from_hash as compute_offset_from_hash,
    verif_inc_and_wrap_offset as inc_and_wrap_offset,
};
use glaredb_core::expr::physical::PhysicalAggregateExpression;
use glaredb_core::expr::{self, bind_aggregate_function};
use glaredb_core::functions::aggregate::builtin::BUILTIN_AGGREGATE_FUNCTION_SETS;
use gverif::value;
use serde_json::{Value, json};

fn parse_type(s: &str) -> Result<DataType, String> {
    Ok(match s {
        "null" => DataType::null(),
        "date64" => DataType::date64(),
        "timestamp" => DataType::timestamp(TimestampTypeMeta::new(TimeUnit::Microsecond)),
        "list_i32" => DataType::list(DataType::int32()),
        other => value::parse_type(other).ok_or_else(|| format!("bad type {other}"))?,
    })
}

fn types_of(v: &Value) -> Result<Vec<DataType>, String> {
    v.as_array()
        .ok_or("types")?
        .iter()
        .map(|t| parse_type(t.as_str().ok_or("type")?))
        .collect()
}

fn run(case: &Value) -> Result<Value, String> {
    let e = |x: glaredb_error::DbError| x.to_string().lines().next().unwrap_or("").to_string();
    #[allow(unused_variables)]
    match case["op"].as_str().unwrap_or("") {
        "row" => {
            let types = types_of(&case["types"])?;
            let n = types.len();
            let layout = match RowLayout::try_new(types) {
                Ok(l) => l,
                Err(x) => return Ok(json!({"err": e(x)})),
            };
            let (offsets, row_width, validity_width, requires_heap) = layout.verif_parts();
            let bo: Vec<usize> = (0..n).map(|c| layout.byte_offset(3, c)).collect();
            Ok(json!({"offsets": offsets, "row_width": row_width, "validity_width": validity_width,
                      "requires_heap": requires_heap, "byte_offset_r3": bo, "buffer_size_7": layout.buffer_size(7),
                      "num_columns": layout.num_columns()}))
        }
        "agg" => {
            let groups = types_of(&case["groups"])?;
            let mut aggs = Vec::new();
            let mut col = 0usize;
            for a in case["aggs"].as_array().ok_or("aggs")? {
                let name = a[0].as_str().ok_or("agg name")?;
                let args = types_of(&a[1])?;
                let set = BUILTIN_AGGREGATE_FUNCTION_SETS
                    .iter()
                    .find(|s| s.name == name)
                    .ok_or_else(|| format!("no aggregate {name}"))?;
                let mut inputs = Vec::new();
                let mut cols = Vec::new();
                for t in args {
                    inputs.push(expr::column((0, col), t.clone()));
                    cols.push((col, t));
                    col += 1;
                }
                let planned = match bind_aggregate_function(set, inputs) {
                    Ok(p) => p,
                    Err(x) => return Ok(json!({"err": e(x)})),
                };
                aggs.push(PhysicalAggregateExpression::new(planned, cols));
            }
            let layout = match AggregateLayout::try_new(groups, aggs) {
                Ok(l) => l,
                Err(x) => return Ok(json!({"err": e(x)})),
            };
            let (base_align, row_width, offsets, states, group_width) = layout.verif_parts();
            let states: Vec<Value> = states.iter().map(|(s, a)| json!([s, a])).collect();
            Ok(json!({"base_align": base_align, "row_width": row_width, "offsets": offsets, "states": states,
                      "group_width": group_width}))
        }
        "sort" => {
            let types = types_of(&case["types"])?;
            let cols: Vec<SortColumn> = types.into_iter().map(SortColumn::new_asc_nulls_last).collect();
            let layout = match SortLayout::try_new(cols) {
                Ok(l) => l,
                Err(x) => return Ok(json!({"err": e(x)})),
            };
            let (offsets, widths, heap_mapping, heap_row_width) = layout.verif_parts();
            Ok(json!({"offsets": offsets, "widths": widths, "compare_width": layout.verif_compare_width(),
                      "row_width": layout.verif_row_width(), "heap_mapping": heap_mapping, "heap_row_width": heap_row_width,
                      "row_index_width": SortLayout::ROW_INDEX_WIDTH, "buffer_size_7": layout.buffer_size(7)}))
        }
        "append" => {
            let rw = case["row_width"].as_u64().ok_or("row_width")? as usize;
            let rc = case["row_capacity"].as_u64().ok_or("row_capacity")? as usize;
            let appends: Vec<usize> = case["appends"]
                .as_array()
                .ok_or("appends")?
                .iter()
                .map(|x| x.as_u64().unwrap_or(0) as usize)
                .collect();
            match verif_prepare_append(rw, rc, &appends) {
                Ok((ptrs, blocks)) => {
                    let p: Vec<Value> = ptrs
                        .iter()
                        .map(|v| json!(v.iter().map(|(b, o)| json!([b, o])).collect::<Vec<_>>()))
                        .collect();
                    let b: Vec<Value> = blocks.iter().map(|(c, r)| json!([c, r])).collect();
                    Ok(json!({"pointers": p, "blocks": b}))
                }
                Err(x) => Ok(json!({"err": e(x)})),
            }
        }
        "strview" => {
            let lens: Vec<usize> = case["lens"]
                .as_array()
                .ok_or("lens")?
                .iter()
                .map(|x| x.as_u64().unwrap_or(0) as usize)
                .collect();
            let inline: Vec<bool> = lens
                .iter()
                .map(|&n| {
                    let data = vec![b'a'; n];
                    let v = if n <= MAX_INLINE_LEN {
                        StringView::new_inline(&data)
                    } else {
                        StringView::new_reference(&data, 0, 0)
                    };
                    assert_eq!(v.data_len() as usize, n);
                    assert_eq!(v.is_inline(), !v.is_reference());
                    v.is_inline()
                })
                .collect();
            Ok(json!({"inline": inline, "max_inline_len": MAX_INLINE_LEN,
                      "string_ptr_size": std::mem::size_of::<StringPtr>(),
                      "string_view_size": std::mem::size_of::<StringView>()}))
        }
        "strpred" => {
            let flags: Vec<String> = case["lens"]
                .as_array()
                .ok_or("lens")?
                .iter()
                .map(|x| {
                    let n = x.as_u64().unwrap_or(0) as usize;
                    let data = vec![b'a'; n];
                    let b = |v: bool| if v { '1' } else { '0' };
                    let sv = catch_unwind(AssertUnwindSafe(|| {
                        let v = if n <= MAX_INLINE_LEN {
                            StringView::new_inline(&data)
                        } else {
                            StringView::new_reference(&data, 0, 0)
                        };
                        (v.is_inline(), v.is_reference())
                    }));
                    let sp = catch_unwind(AssertUnwindSafe(|| {
                        let v = if n <= MAX_INLINE_LEN {
                            StringPtr::new_inline(&data)
                        } else {
                            StringPtr::new_reference(&data)
                        };
                        (v.is_inline(), v.is_reference())
                    }));
                    let mut out = String::new();
                    match sv {
                        Ok((i, r)) => {
                            out.push(b(i));
                            out.push(b(r))
                        }
                        Err(_) => out.push_str("pp"),
                    }
                    match sp {
                        Ok((i, r)) => {
                            out.push(b(i));
                            out.push(b(r))
                        }
                        Err(_) => out.push_str("pp"),
                    }
                    out
                })
                .collect();
            Ok(json!({"flags": flags, "max_inline_len": MAX_INLINE_LEN}))
        }
        "heapsizes" => {
            let mut arrays = Vec::new();
            for a in case["arrays"].as_array().ok_or("arrays")? {
                let vals = a["values"].as_array().ok_or("values")?;
                let mut arr = Array::new(&DefaultBufferManager, DataType::utf8(), vals.len().max(1)).map_err(e)?;
                for (i, v) in vals.iter().enumerate() {
                    match v.as_u64() {
                        Some(n) => {
                            let s = "x".repeat(n as usize);
                            arr.set_value(i, &BorrowedScalarValue::Utf8(s.as_str().into())).map_err(e)?
                        }
                        None => arr.set_value(i, &ScalarValue::Null).map_err(e)?,
                    }
                }
                if let Some(sel) = a["select"].as_array() {
                    let sel: Vec<usize> = sel.iter().map(|x| x.as_u64().unwrap_or(0) as usize).collect();
                    arr.select(&DefaultBufferManager, sel.iter().copied()).map_err(e)?;
                }
                arrays.push(arr);
            }
            let rows: Vec<usize> = case["rows"]
                .as_array()
                .ok_or("rows")?
                .iter()
                .map(|x| x.as_u64().unwrap_or(0) as usize)
                .collect();
            let layout = RowLayout::try_new(arrays.iter().map(|_| DataType::utf8())).map_err(e)?;
            let mut sizes = vec![0usize; rows.len()];
            match layout.compute_heap_sizes(&arrays, rows.iter().copied(), &mut sizes) {
                Ok(()) => Ok(json!({"sizes": sizes})),
                Err(x) => Ok(json!({"err": e(x)})),
            }
        }
        "rowtrip" => {
            let cols = case["cols"].as_array().ok_or("cols")?;
            let cap = case["block_capacity"].as_u64().unwrap_or(16) as usize;
            let mut arrays = Vec::new();
            let mut sent: Vec<Vec<Value>> = Vec::new();
            let mut nrows = 0usize;
            for (ci, c) in cols.iter().enumerate() {
                let vals = c.as_array().ok_or("col")?;
                nrows = vals.len();
                let mut arr = Array::new(&DefaultBufferManager, DataType::utf8(), vals.len().max(1)).map_err(e)?;
                let mut sv = Vec::new();
                for (i, v) in vals.iter().enumerate() {
                    match v.as_u64() {
                        Some(n) => {
                            let ch = (b'a' + ((i * 7 + ci * 3) % 26) as u8) as char;
                            let s: String = std::iter::repeat(ch).take(n as usize).collect();
                            arr.set_value(i, &BorrowedScalarValue::Utf8(s.as_str().into())).map_err(e)?;
                            sv.push(json!(s));
                        }
                        None => {
                            arr.set_value(i, &ScalarValue::Null).map_err(e)?;
                            sv.push(Value::Null);
                        }
                    }
                }
                sent.push(sv);
                arrays.push(arr);
            }
            let ncols = arrays.len();
            let batch = Batch::from_arrays(arrays).map_err(e)?;
            let layout = RowLayout::try_new((0..ncols).map(|_| DataType::utf8())).map_err(e)?;
            let mut coll = RowCollection::new(layout, cap);
            let mut st = coll.init_append();
            // two appends of the same batch: the second lands after the first in the blocks
            coll.append_batch(&mut st, &batch).map_err(e)?;
            coll.append_batch(&mut st, &batch).map_err(e)?;
            let mut scan = coll.init_full_scan();
            let mut got: Vec<Vec<Value>> = vec![Vec::new(); ncols];
            let mut out = Batch::new((0..ncols).map(|_| DataType::utf8()), (nrows.max(1)) * 2).map_err(e)?;
            loop {
                out.reset_for_write().map_err(e)?;
                let n = coll.scan(&mut scan, &mut out).map_err(e)?;
                if n == 0 {
                    break;
                }
                for (ci, a) in out.arrays().iter().enumerate() {
                    for r in 0..n {
                        match a.get_value(r).map_err(e)? {
                            BorrowedScalarValue::Null => got[ci].push(Value::Null),
                            BorrowedScalarValue::Utf8(s) => got[ci].push(json!(s.to_string())),
                            other => got[ci].push(json!(format!("?{other}"))),
                        }
                    }
                }
            }
            Ok(json!({"cols": got, "sent": sent, "row_count": coll.row_count()}))
        }
        "mask" => {
            let cap = case["cap"].as_u64().ok_or("cap")?;
            let hashes: Vec<u64> = case["hashes"]
                .as_array()
                .ok_or("hashes")?
                .iter()
                .map(|x| x.as_u64().unwrap_or(0))
                .collect();
            let offs: Vec<u64> = hashes.iter().map(|&h| compute_offset_from_hash(h, cap)).collect();
            let next: Vec<usize> = offs.iter().map(|&o| inc_and_wrap_offset(o as usize, cap as usize)).collect();
            Ok(json!({"offsets": offs, "next": next}))
        }
        other => Err(format!("bad op {other}")),
    }
}

fn main() {
    std::panic::set_hook(Box::new(|_| {}));
    let stdin = std::io::stdin();
    let stdout = std::io::stdout();
    for line in stdin.lock().lines() {
        let line = line.unwrap();
        if line.trim().is_empty() {
            continue;
        }
        let case: Value = match serde_json::from_str(&line) {
            Ok(v) => v,
            Err(e) => {
                println!("{}", json!({"id": null, "bad_input": e.to_string()}));
                continue;
            }
        };
        let mut out = match catch_unwind(AssertUnwindSafe(|| run(&case))) {
            Ok(Ok(v)) => v,
            Ok(Err(m)) => json!({"bad_case": m}),
            Err(p) => {
                let m = if let Some(s) = p.downcast_ref::<&str>() {
                    s.to_string()
                } else if let Some(s) = p.downcast_ref::<String>() {
                    s.clone()
                } else {
                    "panic".to_string()
                };
                json!({"panic": m})
            }
        };
        out["id"] = case["id"].clone();
        let mut l = stdout.lock();
        writeln!(l, "{}", out).unwrap();
        l.flush().unwrap();
    }
}
