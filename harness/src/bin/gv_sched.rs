//! `gv_sched <stack|det|threaded|tasklog>`: scheduling-related checks against the real engine.
//!
//! stdin: one JSON case per line (each with an "id"); stdout: exactly one JSON line per case.
//!
//! * `stack`    — drive the real `ExecutionStack::pop_next` with scripted `Effects` answers.
//! * `det`      — run statements on a deterministic single-threaded scheduler (`SchedRuntime`, an
//!                extended copy of `gverif::sql::DetRuntime`) under an explicit schedule; optional
//!                exhaustive enumeration of the first D scheduling choices.
//! * `threaded` — run statements on the real `ThreadedNativeExecutor`, optionally cancelling.
//! * `tasklog`  — like `threaded`, additionally returns the per-task scheduling event log
//!                (hook `glaredb_rt_native::threaded::verif_log`).

use std::collections::{BTreeMap, VecDeque};
use std::future::Future;
use std::io::{BufRead, Write};
use std::panic::{AssertUnwindSafe, catch_unwind};
use std::sync::Arc;
use std::task::{Context, Poll, Wake, Waker};
use std::time::Duration;

use glaredb_core::engine::single_user::SingleUserEngine;
use glaredb_core::execution::operators::{PollExecute, PollFinalize};
use glaredb_core::execution::partition_pipeline::ExecutablePartitionPipeline;
use glaredb_core::execution::verif_execution_stack::{Effects, ExecutionStack, StackControlFlow};
use glaredb_core::runtime::pipeline::{ErrorSink, PipelineRuntime, QueryHandle};
use glaredb_core::runtime::profile_buffer::{ProfileBuffer, ProfileSink};
use glaredb_error::DbError;
use glaredb_ext_csv::extension::CsvExtension;
use glaredb_ext_parquet::extension::ParquetExtension;
use glaredb_rt_native::runtime::{
    NativeSystemRuntime,
    ThreadedNativeExecutor,
    new_tokio_runtime_for_io,
};
use gverif::sql::{FakeInstant, batches_to_json, first_line};
use parking_lot::Mutex;
use serde_json::{Value, json};

const SCRIPTED_ERR: &str = "verif scripted operator error";

fn panic_msg(p: Box<dyn std::any::Any + Send>) -> String {
    if let Some(s) = p.downcast_ref::<&str>() {
        s.to_string()
    } else if let Some(s) = p.downcast_ref::<String>() {
        s.clone()
    } else {
        "panic".to_string()
    }
}

fn fnv64(parts: &[String]) -> String {
    let mut h: u64 = 0xcbf29ce484222325;
    for p in parts {
        for b in p.as_bytes().iter().chain(std::iter::once(&b'\n')) {
            h ^= *b as u64;
            h = h.wrapping_mul(0x100000001b3);
        }
    }
    format!("{h:016x}")
}

/// Sorted multiset of rendered rows -> (nrows, digest).
fn rows_digest(rows: &Value) -> (usize, String) {
    let mut v: Vec<String> = rows
        .as_array()
        .map(|a| a.iter().map(|r| r.to_string()).collect())
        .unwrap_or_default();
    v.sort();
    (v.len(), fnv64(&v))
}

// ---------------------------------------------------------------------------------------------
// 1. stack
// ---------------------------------------------------------------------------------------------

struct ScriptEffects {
    exec: char,
    fin: char,
    call: Option<String>,
}

impl Effects for ScriptEffects {
    fn handle_execute(&mut self, op_idx: usize) -> glaredb_error::Result<PollExecute> {
        self.call = Some(format!("e{op_idx}"));
        match self.exec {
            'R' => Ok(PollExecute::Ready),
            'P' => Ok(PollExecute::Pending),
            'N' => Ok(PollExecute::NeedsMore),
            'H' => Ok(PollExecute::HasMore),
            'X' => Ok(PollExecute::Exhausted),
            _ => Err(DbError::new(SCRIPTED_ERR)),
        }
    }

    fn handle_finalize(&mut self, op_idx: usize) -> glaredb_error::Result<PollFinalize> {
        self.call = Some(format!("f{op_idx}"));
        match self.fin {
            'F' => Ok(PollFinalize::Finalized),
            'D' => Ok(PollFinalize::NeedsDrain),
            'P' => Ok(PollFinalize::Pending),
            _ => Err(DbError::new(SCRIPTED_ERR)),
        }
    }
}

fn run_case_stack(case: &Value) -> Value {
    let nops = case["nops"].as_u64().unwrap_or(0) as usize;
    let script: Vec<char> = case["script"].as_str().unwrap_or("").chars().collect();
    let mut stack = match catch_unwind(|| ExecutionStack::new(nops)) {
        Ok(s) => s,
        Err(_) => return json!({"id": case["id"], "new_panic": true}),
    };
    let mut steps: Vec<String> = Vec::new();
    for pair in script.chunks(2) {
        let mut eff = ScriptEffects {
            exec: pair[0],
            fin: if pair.len() > 1 { pair[1] } else { 'E' },
            call: None,
        };
        let r = catch_unwind(AssertUnwindSafe(|| stack.pop_next(&mut eff)));
        let control = match r {
            Err(_) => "PANIC".to_string(),
            Ok(Ok(StackControlFlow::Continue)) => "C".to_string(),
            Ok(Ok(StackControlFlow::Finished)) => "F".to_string(),
            Ok(Ok(StackControlFlow::Pending)) => "P".to_string(),
            Ok(Err(e)) => {
                let m = first_line(&e);
                if m == SCRIPTED_ERR {
                    "!O".to_string()
                } else if m == "Last operator returned HasMore" {
                    "!H".to_string()
                } else if m == "Last operator returned Exhausted" {
                    "!X".to_string()
                } else if m == "Last operator returned NeedsDrain" {
                    "!D".to_string()
                } else {
                    format!("!?{m}")
                }
            }
        };
        let call = eff.call.unwrap_or_else(|| "-".to_string());
        steps.push(format!("{control} {call}"));
    }
    json!({"id": case["id"], "steps": steps})
}

// ---------------------------------------------------------------------------------------------
// 2. det: SchedRuntime (extended copy of gverif::sql::DetRuntime)
// ---------------------------------------------------------------------------------------------

#[derive(Debug, Default)]
struct Sched {
    tasks: Vec<TaskSlot>,
    ready: VecDeque<usize>,
    log: Vec<String>,
    want_log: bool,
    rng: u64,
    canceled: bool,
    /// Incremented by every reset; wakers/handles of an older statement are ignored.
    epoch: u64,
    /// Number of scheduling choices (non-spurious picks) made so far in this statement.
    sched_step: usize,
    /// Ready-queue length at each of the first `branch_cap` scheduling choices.
    branch: Vec<usize>,
    branch_cap: usize,
    max_branch: usize,
    /// kind=script: choice vector.
    choices: Vec<u64>,
    /// Mimic glaredb_rt_native/src/threaded/task.rs: Ready(Err) does not complete the task.
    faithful: bool,
    polls_after_done: usize,
    polls_after_error: usize,
    after_error_results: Vec<String>,
}

#[derive(Debug)]
struct TaskSlot {
    pipeline: Option<ExecutablePartitionPipeline>,
    sink: Option<ProfileSink>,
    errors: Arc<dyn ErrorSink>,
    /// Returned Ready(Ok), or (non-faithful mode) Ready(Err), or cancelled.
    done: bool,
    /// Returned Ready(Err) at least once.
    errored: bool,
    queued: bool,
}

#[derive(Debug, Clone, Default)]
struct SchedRuntime {
    sched: Arc<Mutex<Sched>>,
    parts: usize,
}

struct TaskWaker {
    sched: Arc<Mutex<Sched>>,
    id: usize,
    epoch: u64,
}

impl Wake for TaskWaker {
    fn wake(self: Arc<Self>) {
        self.wake_by_ref()
    }
    fn wake_by_ref(self: &Arc<Self>) {
        let mut s = self.sched.lock();
        let id = self.id;
        if s.epoch != self.epoch || id >= s.tasks.len() {
            return;
        }
        if s.want_log {
            s.log.push(format!("w{id}"));
        }
        // done => wake dropped. (faithful mode: an errored task is not done and is re-queued.)
        if !s.tasks[id].done && !s.tasks[id].queued {
            s.tasks[id].queued = true;
            s.ready.push_back(id);
        }
    }
}

#[derive(Debug)]
struct Handle {
    profiles: ProfileBuffer,
    sched: Arc<Mutex<Sched>>,
    epoch: u64,
}

impl QueryHandle for Handle {
    fn cancel(&self) {
        // As in sql.rs: mark cancelled, every unfinished task gets scheduled once more.
        let mut s = self.sched.lock();
        if s.epoch != self.epoch {
            return;
        }
        s.canceled = true;
        if s.want_log {
            s.log.push("CANCEL".to_string());
        }
        for id in 0..s.tasks.len() {
            if !s.tasks[id].done && !s.tasks[id].queued {
                s.tasks[id].queued = true;
                s.ready.push_back(id);
            }
        }
    }
    fn get_profile_buffer(&self) -> &ProfileBuffer {
        &self.profiles
    }
}

impl PipelineRuntime for SchedRuntime {
    fn default_partitions(&self) -> usize {
        self.parts
    }
    fn spawn_pipelines(
        &self,
        pipelines: Vec<ExecutablePartitionPipeline>,
        errors: Arc<dyn ErrorSink>,
    ) -> Arc<dyn QueryHandle> {
        let (profiles, sinks) = ProfileBuffer::new(pipelines.len());
        let mut s = self.sched.lock();
        for (p, sink) in pipelines.into_iter().zip(sinks) {
            let id = s.tasks.len();
            s.tasks.push(TaskSlot {
                pipeline: Some(p),
                sink: Some(sink),
                errors: errors.clone(),
                done: false,
                errored: false,
                queued: true,
            });
            s.ready.push_back(id);
        }
        Arc::new(Handle {
            profiles,
            sched: self.sched.clone(),
            epoch: s.epoch,
        })
    }
}

fn next_rand(state: &mut u64) -> u64 {
    // splitmix64
    *state = state.wrapping_add(0x9E3779B97F4A7C15);
    let mut z = *state;
    z = (z ^ (z >> 30)).wrapping_mul(0xBF58476D1CE4E5B9);
    z = (z ^ (z >> 27)).wrapping_mul(0x94D049BB133111EB);
    z ^ (z >> 31)
}

#[derive(Clone, Debug)]
struct RunCfg {
    kind: String,
    spurious: u64,
    seed: u64,
    choices: Vec<u64>,
    consumer_every: u64,
    cancel_after: Option<u64>,
    faithful: bool,
    want_log: bool,
    max_steps: u64,
    branch_cap: usize,
}

impl RunCfg {
    fn plain_fifo() -> Self {
        RunCfg {
            kind: "fifo".to_string(),
            spurious: 0,
            seed: 1,
            choices: Vec::new(),
            consumer_every: 1,
            cancel_after: None,
            faithful: false,
            want_log: false,
            max_steps: 2_000_000,
            branch_cap: 64,
        }
    }
}

impl SchedRuntime {
    fn reset(&self, cfg: &RunCfg) {
        let mut s = self.sched.lock();
        // Take the old tasks out and drop them outside the lock: dropping a pipeline may
        // wake other tasks (wakers lock the scheduler).
        let old = std::mem::take(&mut s.tasks);
        s.epoch += 1;
        s.ready.clear();
        s.log.clear();
        s.want_log = cfg.want_log;
        s.rng = cfg.seed;
        s.canceled = false;
        s.sched_step = 0;
        s.branch.clear();
        s.branch_cap = cfg.branch_cap;
        s.max_branch = 0;
        s.choices = cfg.choices.clone();
        s.faithful = cfg.faithful;
        s.polls_after_done = 0;
        s.polls_after_error = 0;
        s.after_error_results.clear();
        drop(s);
        drop(old);
    }

    fn ready_len(&self) -> usize {
        self.sched.lock().ready.len()
    }

    /// Run one scheduling step. Returns false if nothing is runnable.
    fn step(&self, cfg: &RunCfg) -> bool {
        let (id, mut pipeline, canceled, epoch, was_done, was_errored) = {
            let mut s = self.sched.lock();
            let n = s.ready.len();
            let mut chosen: Option<usize> = None;
            // spurious poll of a parked, unfinished (and not errored) task
            if cfg.spurious > 0 {
                let r = next_rand(&mut s.rng) % 100;
                if r < cfg.spurious {
                    let parked: Vec<usize> = (0..s.tasks.len())
                        .filter(|&i| {
                            let t = &s.tasks[i];
                            !t.done && !t.errored && !t.queued && t.pipeline.is_some()
                        })
                        .collect();
                    if !parked.is_empty() {
                        let k = (next_rand(&mut s.rng) as usize) % parked.len();
                        chosen = Some(parked[k]);
                        if s.want_log {
                            s.log.push(format!("s{}", parked[k]));
                        }
                    }
                }
            }
            let id = match chosen {
                Some(id) => id,
                None => {
                    if n == 0 {
                        return false;
                    }
                    let k = s.sched_step;
                    s.sched_step += 1;
                    if s.branch.len() < s.branch_cap {
                        s.branch.push(n);
                    }
                    if n > s.max_branch {
                        s.max_branch = n;
                    }
                    let pos = match cfg.kind.as_str() {
                        "fifo" => 0,
                        "lifo" => n - 1,
                        "random" => (next_rand(&mut s.rng) as usize) % n,
                        "script" => match s.choices.get(k) {
                            Some(c) => (*c % n as u64) as usize,
                            None => 0,
                        },
                        // Prefer the lowest task ids; the highest-numbered ready task runs
                        // only when nothing else is ready.
                        "starve_last" => {
                            let mut best = 0;
                            for i in 0..n {
                                if s.ready[i] < s.ready[best] {
                                    best = i;
                                }
                            }
                            best
                        }
                        "starve_first" => {
                            let mut best = 0;
                            for i in 0..n {
                                if s.ready[i] > s.ready[best] {
                                    best = i;
                                }
                            }
                            best
                        }
                        _ => 0,
                    };
                    let id = s.ready.remove(pos).unwrap();
                    s.tasks[id].queued = false;
                    id
                }
            };
            let p = s.tasks[id].pipeline.take().unwrap();
            (id, p, s.canceled, s.epoch, s.tasks[id].done, s.tasks[id].errored)
        };
        if canceled {
            let mut s = self.sched.lock();
            s.tasks[id]
                .errors
                .set_error(DbError::new("Query canceled"));
            s.tasks[id].done = true;
            s.tasks[id].pipeline = Some(pipeline);
            if s.want_log {
                s.log.push(format!("c{id}"));
            }
            return true;
        }
        let waker: Waker = Arc::new(TaskWaker {
            sched: self.sched.clone(),
            id,
            epoch,
        })
        .into();
        let mut cx = Context::from_waker(&waker);
        let res = pipeline.poll_execute::<FakeInstant>(&mut cx);
        let mut s = self.sched.lock();
        if was_done {
            s.polls_after_done += 1;
        }
        let what: String;
        match res {
            Poll::Ready(Ok(prof)) => {
                what = "done".to_string();
                if s.want_log {
                    s.log.push(format!("p{id}D"));
                }
                s.tasks[id].done = true;
                if let Some(k) = s.tasks[id].sink.take() {
                    k.put(prof);
                }
            }
            Poll::Ready(Err(e)) => {
                what = format!("err: {}", first_line(&e));
                if s.want_log {
                    s.log.push(format!("p{id}E"));
                }
                s.tasks[id].errors.set_error(e);
                s.tasks[id].errored = true;
                if !s.faithful {
                    s.tasks[id].done = true;
                }
            }
            Poll::Pending => {
                what = "pending".to_string();
                if s.want_log {
                    s.log.push(format!("p{id}P"));
                }
            }
        }
        // By construction a finished task is never polled again: a wake that arrived during
        // its final poll (the real runtime's `pending` flag, ignored once `completed`) is dropped.
        if s.tasks[id].done && s.tasks[id].queued {
            s.tasks[id].queued = false;
            s.ready.retain(|x| *x != id);
            if s.want_log {
                s.log.push(format!("d{id}"));
            }
        }
        if was_errored {
            s.polls_after_error += 1;
            if s.after_error_results.len() < 20 {
                s.after_error_results.push(what);
            }
        }
        s.tasks[id].pipeline = Some(pipeline);
        true
    }

    /// Tasks that neither completed nor returned an error.
    fn unfinished(&self) -> usize {
        let s = self.sched.lock();
        s.tasks.iter().filter(|t| !t.done && !t.errored).count()
    }
}

struct RunOut {
    /// {"ok":true,"schema","rows"} | {"ok":false,"err","phase"} | {"hang"} | {"panic"}
    result: Value,
    steps: u64,
    extra: u64,
    unfinished: usize,
    errored: usize,
    ntasks: usize,
    polls_after_done: usize,
    polls_after_error: usize,
    after_error_results: Vec<String>,
    branching: Vec<usize>,
    max_branch: usize,
    log: Option<String>,
}

type DetEngine = SingleUserEngine<SchedRuntime, NativeSystemRuntime>;

fn run_stmt(
    engine: &DetEngine,
    rt: &SchedRuntime,
    tokio_rt: &tokio::runtime::Runtime,
    sql: &str,
    cfg: &RunCfg,
) -> RunOut {
    rt.reset(cfg);
    let mut steps = 0u64;
    let mut extra = 0u64;
    let r = catch_unwind(AssertUnwindSafe(|| {
        let mut res = match tokio_rt.block_on(engine.session().query(sql)) {
            Ok(r) => r,
            Err(e) => return json!({"ok": false, "err": first_line(&e), "phase": "plan"}),
        };
        let noop = futures::task::noop_waker();
        let mut cx = Context::from_waker(&noop);
        let handle = res.output.query_handle();
        let schema = res.output_schema.clone();
        let out: Value;
        {
            let mut fut = Box::pin(res.output.collect());
            let k = cfg.consumer_every.max(1);
            let mut cancel_done = false;
            loop {
                let polled = steps % k == 0 || rt.ready_len() == 0;
                if polled {
                    match fut.as_mut().poll(&mut cx) {
                        Poll::Ready(Ok(bs)) => {
                            let j = batches_to_json(&schema, &bs);
                            let mut o = json!({"ok": true, "schema": j["schema"], "rows": j["rows"]});
                            if let Some(ve) = j.get("value_err") {
                                o["value_err"] = ve.clone();
                            }
                            out = o;
                            break;
                        }
                        Poll::Ready(Err(e)) => {
                            out = json!({"ok": false, "err": first_line(&e), "phase": "exec"});
                            break;
                        }
                        Poll::Pending => {}
                    }
                }
                if !cancel_done && cfg.cancel_after == Some(steps) {
                    cancel_done = true;
                    handle.cancel();
                }
                if !rt.step(cfg) {
                    if polled {
                        out = json!({"hang": format!("all tasks parked, none woken, stream unfinished after {steps} steps; unfinished tasks={}", rt.unfinished())});
                        break;
                    }
                    // ready queue empty: the next iteration polls the consumer first
                    continue;
                }
                steps += 1;
                if steps > cfg.max_steps {
                    out = json!({"hang": "step limit exceeded"});
                    break;
                }
            }
        }
        // drain leftovers: tasks still runnable after the stream finished
        while rt.step(cfg) {
            extra += 1;
            if extra >= 200_000 {
                break;
            }
        }
        drop(handle);
        out
    }));
    let result = match r {
        Ok(v) => v,
        Err(p) => json!({"panic": panic_msg(p)}),
    };
    let s = rt.sched.lock();
    RunOut {
        result,
        steps,
        extra,
        unfinished: s.tasks.iter().filter(|t| !t.done && !t.errored).count(),
        errored: s.tasks.iter().filter(|t| t.errored).count(),
        ntasks: s.tasks.len(),
        polls_after_done: s.polls_after_done,
        polls_after_error: s.polls_after_error,
        after_error_results: s.after_error_results.clone(),
        branching: s.branch.clone(),
        max_branch: s.max_branch,
        log: if cfg.want_log {
            Some(s.log.join(" "))
        } else {
            None
        },
    }
}

fn outcome_digest(result: &Value) -> String {
    if result["ok"] == json!(true) {
        let (n, d) = rows_digest(&result["rows"]);
        format!("rows:{n}:{d}")
    } else if result["ok"] == json!(false) {
        format!("err:{}", result["err"].as_str().unwrap_or(""))
    } else if result.get("hang").is_some() {
        "hang".to_string()
    } else {
        format!("panic:{}", result["panic"].as_str().unwrap_or(""))
    }
}

fn run_case_det(case: &Value, tokio_rt: &tokio::runtime::Runtime) -> Value {
    let parts = case["partitions"].as_u64().unwrap_or(4) as usize;
    let sched = &case["sched"];
    let mut cfg = RunCfg {
        kind: sched["kind"].as_str().unwrap_or("fifo").to_string(),
        spurious: sched["spurious"].as_u64().unwrap_or(0),
        seed: sched["seed"].as_u64().unwrap_or(1),
        choices: sched["choices"]
            .as_array()
            .map(|a| a.iter().map(|c| c.as_u64().unwrap_or(0)).collect())
            .unwrap_or_default(),
        consumer_every: case["consumer_every"].as_u64().unwrap_or(1).max(1),
        cancel_after: case["cancel_after"].as_u64(),
        faithful: case["faithful_errors"].as_bool().unwrap_or(false),
        want_log: case["log"].as_bool().unwrap_or(false),
        max_steps: case["max_steps"].as_u64().unwrap_or(2_000_000),
        branch_cap: 64,
    };
    let rt = SchedRuntime {
        sched: Default::default(),
        parts,
    };
    let sys = NativeSystemRuntime::new(tokio_rt.handle().clone());
    let engine = SingleUserEngine::try_new(rt.clone(), sys).unwrap();
    engine.register_extension(CsvExtension).unwrap();
    engine.register_extension(ParquetExtension).unwrap();
    let stmts: Vec<String> = case["stmts"]
        .as_array()
        .map(|a| a.iter().map(|s| s.as_str().unwrap_or("").to_string()).collect())
        .unwrap_or_default();
    if stmts.is_empty() {
        return json!({"id": case["id"], "bad_input": "no stmts"});
    }
    let mut setup: Vec<Value> = Vec::new();
    let fifo = RunCfg::plain_fifo();
    for sql in &stmts[..stmts.len() - 1] {
        let o = run_stmt(&engine, &rt, tokio_rt, sql, &fifo);
        let r = &o.result;
        if r["ok"] == json!(true) {
            setup.push(json!({"ok": true}));
        } else if r["ok"] == json!(false) {
            setup.push(json!({"ok": false, "err": r["err"]}));
        } else if let Some(h) = r.get("hang") {
            setup.push(json!({"ok": false, "err": format!("hang: {}", h.as_str().unwrap_or(""))}));
        } else {
            setup.push(json!({"ok": false, "err": format!("panic: {}", r["panic"].as_str().unwrap_or(""))}));
        }
    }
    let last = &stmts[stmts.len() - 1];

    if let Some(en) = case.get("enumerate").filter(|e| e.is_object()) {
        let max_runs = en["max_runs"].as_u64().unwrap_or(1000);
        let depth = en["depth"].as_u64().unwrap_or(6) as usize;
        cfg.kind = "script".to_string();
        cfg.spurious = 0;
        cfg.want_log = false;
        cfg.branch_cap = depth.max(64);
        let mut choices: Vec<u64> = Vec::new();
        let mut runs = 0u64;
        let mut exhausted = false;
        let mut outcomes: BTreeMap<String, u64> = BTreeMap::new();
        let mut hangs: Vec<Value> = Vec::new();
        let mut unfin: Vec<Value> = Vec::new();
        let mut n_hangs = 0u64;
        let mut n_unfin = 0u64;
        let mut max_branch = 0usize;
        let mut total_steps = 0u64;
        let mut pad = 0u64;
        let mut pae = 0u64;
        // determinism check: after changing position i, the ready-queue lengths at
        // positions 0..=i must be the same as in the previous run.
        let mut prev_lens: Vec<usize> = Vec::new();
        let mut changed_at: Option<usize> = None;
        let mut nondet = 0u64;
        while runs < max_runs {
            cfg.choices = choices.clone();
            let o = run_stmt(&engine, &rt, tokio_rt, last, &cfg);
            runs += 1;
            total_steps += o.steps + o.extra;
            pad += o.polls_after_done as u64;
            pae += o.polls_after_error as u64;
            max_branch = max_branch.max(o.max_branch);
            *outcomes.entry(outcome_digest(&o.result)).or_insert(0) += 1;
            if o.result.get("hang").is_some() {
                n_hangs += 1;
                if hangs.len() < 3 {
                    hangs.push(json!({"choices": choices, "hang": o.result["hang"]}));
                }
            }
            if o.unfinished > 0 {
                n_unfin += 1;
                if unfin.len() < 3 {
                    unfin.push(json!({"choices": choices, "unfinished": o.unfinished}));
                }
            }
            if o.result.get("panic").is_some() {
                // engine state unknown after a panic: stop here
                break;
            }
            // advance the odometer: last position < depth with an untried alternative
            let lens: &[usize] = &o.branching[..depth.min(o.branching.len())];
            if let Some(i) = changed_at {
                if lens.len() <= i || prev_lens.len() <= i || lens[..=i] != prev_lens[..=i] {
                    nondet += 1;
                }
            }
            prev_lens = lens.to_vec();
            let mut i = lens.len();
            let mut advanced = false;
            while i > 0 {
                i -= 1;
                let c = choices.get(i).copied().unwrap_or(0);
                if (c + 1) < lens[i] as u64 {
                    choices.truncate(i);
                    choices.resize(i, 0);
                    choices.push(c + 1);
                    changed_at = Some(i);
                    advanced = true;
                    break;
                }
            }
            if !advanced {
                exhausted = true;
                break;
            }
        }
        let samples: Vec<Value> = outcomes
            .iter()
            .take(3)
            .map(|(k, v)| json!({"outcome": k, "count": v}))
            .collect();
        return json!({
            "id": case["id"],
            "setup": setup,
            "enum": {
                "runs": runs,
                "exhausted": exhausted,
                "distinct_results": outcomes.len(),
                "hangs": hangs,
                "n_hangs": n_hangs,
                "unfinished": unfin,
                "n_unfinished": n_unfin,
                "outcomes": samples,
                "max_branch": max_branch,
                "total_steps": total_steps,
                "polls_after_done": pad,
                "polls_after_error": pae,
                "nondet": nondet,
            }
        });
    }

    let o = run_stmt(&engine, &rt, tokio_rt, last, &cfg);
    let mut out = json!({
        "id": case["id"],
        "setup": setup,
        "result": o.result,
        "steps": o.steps,
        "extra_steps": o.extra,
        "unfinished": o.unfinished,
        "errored": o.errored,
        "ntasks": o.ntasks,
        "polls_after_done": o.polls_after_done,
        "polls_after_error": o.polls_after_error,
        "after_error_results": o.after_error_results,
        "branching": o.branching.iter().take(64).collect::<Vec<_>>(),
    });
    if let Some(l) = o.log {
        out["log"] = json!(l);
    }
    out
}

// ---------------------------------------------------------------------------------------------
// 3. threaded / 4. tasklog
// ---------------------------------------------------------------------------------------------

fn run_case_threaded(case: &Value, tokio_rt: &tokio::runtime::Runtime, tasklog: bool) -> Value {
    let threads = case["threads"].as_u64().unwrap_or(4) as usize;
    let exec = ThreadedNativeExecutor::try_new_with_num_threads(threads).unwrap();
    let sys = NativeSystemRuntime::new(tokio_rt.handle().clone());
    let engine = SingleUserEngine::try_new(exec, sys).unwrap();
    engine.register_extension(CsvExtension).unwrap();
    engine.register_extension(ParquetExtension).unwrap();
    let stmts: Vec<String> = case["stmts"]
        .as_array()
        .map(|a| a.iter().map(|s| s.as_str().unwrap_or("").to_string()).collect())
        .unwrap_or_default();
    if stmts.is_empty() {
        return json!({"id": case["id"], "bad_input": "no stmts"});
    }
    let repeat = case["repeat"].as_u64().unwrap_or(1).max(1);
    let cancel_us = case["cancel_after_us"].as_u64();
    let jitter = case["cancel_jitter"].as_bool().unwrap_or(false);
    let timing = case["timing"].as_bool().unwrap_or(false);

    let run_one = |sql: &str, cancel: Option<u64>| -> Value {
        let r = catch_unwind(AssertUnwindSafe(|| {
            tokio_rt.block_on(async {
                match engine.session().query(sql).await {
                    Err(e) => json!({"ok": false, "err": first_line(&e), "phase": "plan"}),
                    Ok(mut res) => {
                        let canceller = cancel.map(|us| {
                            let h = res.output.query_handle();
                            std::thread::spawn(move || {
                                std::thread::sleep(Duration::from_micros(us));
                                h.cancel();
                            })
                        });
                        let out = match res.output.collect().await {
                            Err(e) => json!({"ok": false, "err": first_line(&e), "phase": "exec"}),
                            Ok(bs) => {
                                let j = batches_to_json(&res.output_schema, &bs);
                                let (n, d) = rows_digest(&j["rows"]);
                                json!({"ok": true, "nrows": n, "digest": d})
                            }
                        };
                        if let Some(c) = canceller {
                            let _ = c.join();
                        }
                        out
                    }
                }
            })
        }));
        match r {
            Ok(v) => v,
            Err(p) => json!({"panic": panic_msg(p)}),
        }
    };

    let mut setup: Vec<Value> = Vec::new();
    for sql in &stmts[..stmts.len() - 1] {
        let r = run_one(sql, None);
        if r["ok"] == json!(true) {
            setup.push(json!({"ok": true}));
        } else if r["ok"] == json!(false) {
            setup.push(json!({"ok": false, "err": r["err"]}));
        } else {
            setup.push(json!({"ok": false, "err": format!("panic: {}", r["panic"].as_str().unwrap_or(""))}));
        }
    }
    let last = &stmts[stmts.len() - 1];
    if tasklog {
        glaredb_rt_native::threaded::verif_log::verif_log_start();
    }
    let mut runs: Vec<Value> = Vec::new();
    for i in 0..repeat {
        let c = cancel_us.map(|us| if jitter { us * (i % 7) } else { us });
        let t0 = std::time::Instant::now();
        let mut r = run_one(last, c);
        if timing {
            r["ms"] = json!(t0.elapsed().as_millis() as u64);
        }
        runs.push(r);
    }
    let mut out = json!({"id": case["id"], "setup": setup, "runs": runs});
    if tasklog {
        // Wait until every worker that logged "begin" has logged the matching "end" (a
        // cancelled query's running polls are not interrupted), at most `settle_ms`.
        let settle = Duration::from_millis(case["settle_ms"].as_u64().unwrap_or(10_000));
        let t0 = std::time::Instant::now();
        let mut settled;
        loop {
            settled = {
                let g = glaredb_rt_native::threaded::verif_log::VERIF_LOG.lock();
                let mut open: BTreeMap<usize, i64> = BTreeMap::new();
                if let Some(v) = g.as_ref() {
                    for (t, e) in v {
                        if e == "begin" {
                            *open.entry(*t).or_insert(0) += 1;
                        } else if e == "end" {
                            *open.entry(*t).or_insert(0) -= 1;
                        }
                    }
                }
                open.values().all(|c| *c <= 0)
            };
            if settled || t0.elapsed() >= settle {
                break;
            }
            std::thread::sleep(Duration::from_millis(5));
        }
        out["settled"] = json!(settled);
        let evs = glaredb_rt_native::threaded::verif_log::verif_log_take();
        // A "new" event (logged in spawn_pipelines for every freshly created TaskState) starts a
        // new task: Arc addresses are reused between statements, so the key is (address, generation).
        let mut generation: BTreeMap<usize, usize> = BTreeMap::new();
        let mut by: BTreeMap<(usize, usize), Vec<String>> = BTreeMap::new();
        let mut order: Vec<(usize, usize)> = Vec::new();
        for (t, e) in evs {
            if e == "new" {
                *generation.entry(t).or_insert(0) += 1;
                continue;
            }
            let key = (t, *generation.get(&t).unwrap_or(&0));
            if !by.contains_key(&key) {
                order.push(key);
            }
            by.entry(key).or_default().push(e);
        }
        let tasks: Vec<Value> = order.iter().map(|t| json!(by[t])).collect();
        out["tasks"] = json!(tasks);
    }
    out
}

// ---------------------------------------------------------------------------------------------
// 5. mq: drive the REAL MergeQueue bookkeeping step by step (hooks verif_merge_queue, verif_state,
//    verif_hooks::IN_FLIGHT).  Script tokens (space separated):
//      f<p>:<k>   partition p finalizes with k sorted blocks (add_sorted_partition)
//      p<p>[ .. ] partition p calls poll_merge_next; if two runs were popped, the tokens in the
//                 brackets run WHILE that merge is in flight (lock released); otherwise skipped
//      t<p>       partition p calls take_sorted_run
//    One event string per executed step: "<op> <result> w=<woken partitions> | runs/remaining/running/complete".
mod mq {
    use std::cell::RefCell;
    use std::sync::Arc;
    use std::sync::atomic::{AtomicBool, Ordering};
    use std::task::{Context, Wake, Waker};

    use glaredb_core::arrays::array::Array;
    use glaredb_core::arrays::datatype::DataType;
    use glaredb_core::arrays::row::row_layout::RowLayout;
    use glaredb_core::arrays::scalar::ScalarValue;
    use glaredb_core::arrays::sort::partial_sort::PartialSortedRowCollection;
    use glaredb_core::arrays::sort::sort_layout::{SortColumn, SortLayout};
    use glaredb_core::buffer::buffer_manager::DefaultBufferManager;
    use glaredb_core::execution::operators::sort::verif_merge_queue::{MergeQueue, PollMerge, verif_hooks};
    use serde_json::{Value, json};

    #[derive(Debug, Clone)]
    pub enum Op {
        Fin(usize, usize),
        Poll(usize, Vec<Op>),
        Take(usize),
    }

    struct Flag(AtomicBool);
    impl Wake for Flag {
        fn wake(self: Arc<Self>) {
            self.0.store(true, Ordering::SeqCst);
        }
        fn wake_by_ref(self: &Arc<Self>) {
            self.0.store(true, Ordering::SeqCst);
        }
    }

    struct Ctx {
        queue: Arc<MergeQueue>,
        key_layout: SortLayout,
        data_layout: RowLayout,
        flags: Vec<Arc<Flag>>,
        out: Vec<String>,
        pending_sub: Vec<Vec<Op>>,
        counter: i32,
    }

    thread_local! {
        static CTX: RefCell<Option<Ctx>> = const { RefCell::new(None) };
    }

    fn parse(tokens: &[String], pos: &mut usize) -> Result<Vec<Op>, String> {
        let mut ops = Vec::new();
        while *pos < tokens.len() {
            let t = tokens[*pos].clone();
            if t == "]" {
                return Ok(ops);
            }
            *pos += 1;
            let kind = t.chars().next().unwrap();
            let body = &t[1..];
            match kind {
                'f' => {
                    let (a, b) = body.split_once(':').ok_or("bad f token")?;
                    ops.push(Op::Fin(a.parse().map_err(|_| "bad p")?, b.parse().map_err(|_| "bad k")?));
                }
                't' => ops.push(Op::Take(body.parse().map_err(|_| "bad p")?)),
                'p' => {
                    let p: usize = body.trim_end_matches('[').parse().map_err(|_| "bad p")?;
                    let sub = parse(tokens, pos)?;
                    if *pos >= tokens.len() || tokens[*pos] != "]" {
                        return Err("unclosed [".into());
                    }
                    *pos += 1;
                    ops.push(Op::Poll(p, sub));
                }
                _ => return Err(format!("bad token {t}")),
            }
        }
        Ok(ops)
    }

    fn state_str(q: &MergeQueue) -> String {
        let (runs, rem, running, complete) = q.verif_state();
        format!("{runs}/{rem}/{running}/{}", if complete { 1 } else { 0 })
    }

    fn woken() -> String {
        CTX.with(|c| {
            let c = c.borrow();
            let c = c.as_ref().unwrap();
            let mut w = Vec::new();
            for (i, f) in c.flags.iter().enumerate() {
                if f.0.swap(false, Ordering::SeqCst) {
                    w.push(i.to_string());
                }
            }
            w.join(",")
        })
    }

    fn emit(s: String) {
        CTX.with(|c| c.borrow_mut().as_mut().unwrap().out.push(s));
    }

    fn in_flight_cb(p: usize) {
        let (q, sub) = CTX.with(|c| {
            let mut c = c.borrow_mut();
            let c = c.as_mut().unwrap();
            (c.queue.clone(), c.pending_sub.pop().unwrap_or_default())
        });
        emit(format!("p{p} pop w={} | {}", woken(), state_str(&q)));
        exec(&sub);
    }

    fn exec(ops: &[Op]) {
        for op in ops {
            let q = CTX.with(|c| c.borrow().as_ref().unwrap().queue.clone());
            match op {
                Op::Fin(p, k) => {
                    let (kl, dl, base) = CTX.with(|c| {
                        let mut c = c.borrow_mut();
                        let c = c.as_mut().unwrap();
                        c.counter += 100;
                        (c.key_layout.clone(), c.data_layout.clone(), c.counter)
                    });
                    let before = q.verif_state().0;
                    let res = (|| -> Result<(), String> {
                        let mut coll = PartialSortedRowCollection::new(kl, dl, 16);
                        let mut st = coll.init_append_state();
                        for b in 0..*k {
                            let mut arr = Array::new(&DefaultBufferManager, DataType::int32(), 2).map_err(|e| e.to_string())?;
                            arr.set_value(0, &ScalarValue::Int32(base + 2 * b as i32 + 1)).map_err(|e| e.to_string())?;
                            arr.set_value(1, &ScalarValue::Int32(base + 2 * b as i32)).map_err(|e| e.to_string())?;
                            let arrs = [arr];
                            coll.append_unsorted_keys_and_data(&mut st, &arrs, &arrs, 2).map_err(|e| e.to_string())?;
                            coll.sort_unsorted(None).map_err(|e| e.to_string())?;
                        }
                        q.add_sorted_partition(coll).map_err(|e| e.to_string().lines().next().unwrap_or("").to_string())
                    })();
                    let after = q.verif_state().0;
                    let r = match res {
                        Ok(()) => "ok".to_string(),
                        Err(_) => "err".to_string(),
                    };
                    emit(format!("f{p} {r} k={} w={} | {}", after.saturating_sub(before), woken(), state_str(&q)));
                }
                Op::Poll(p, sub) => {
                    let waker: Waker = CTX.with(|c| {
                        let mut c = c.borrow_mut();
                        let c = c.as_mut().unwrap();
                        c.pending_sub.push(sub.clone());
                        Waker::from(c.flags[*p].clone())
                    });
                    let depth = CTX.with(|c| c.borrow().as_ref().unwrap().pending_sub.len());
                    let mut cx = Context::from_waker(&waker);
                    let r = q.poll_merge_next(&mut cx, *p);
                    // not in flight: the sub-script was not consumed
                    CTX.with(|c| {
                        let mut c = c.borrow_mut();
                        let c = c.as_mut().unwrap();
                        if c.pending_sub.len() >= depth {
                            c.pending_sub.truncate(depth - 1);
                        }
                    });
                    let r = match r {
                        Ok(PollMerge::Finished) => "finished",
                        Ok(PollMerge::Merged) => "merged",
                        Ok(PollMerge::Pending) => "pending",
                        Err(_) => "err",
                    };
                    emit(format!("p{p} {r} w={} | {}", woken(), state_str(&q)));
                }
                Op::Take(p) => {
                    let r = match q.take_sorted_run() {
                        Ok(Some(_)) => "some",
                        Ok(None) => "none",
                        Err(_) => "err",
                    };
                    emit(format!("t{p} {r} w={} | {}", woken(), state_str(&q)));
                }
            }
        }
    }

    pub fn run_case(case: &Value) -> Value {
        let parts = case["parts"].as_u64().unwrap_or(2) as usize;
        let script = case["script"].as_str().unwrap_or("");
        let tokens: Vec<String> = script.split_whitespace().map(|s| s.to_string()).collect();
        let mut pos = 0;
        let ops = match parse(&tokens, &mut pos) {
            Ok(o) if pos == tokens.len() => o,
            Ok(_) => return json!({"id": case["id"], "bad_script": "unbalanced ]"}),
            Err(e) => return json!({"id": case["id"], "bad_script": e}),
        };
        let key_layout = SortLayout::try_new([SortColumn {
            desc: false,
            nulls_first: false,
            datatype: DataType::int32(),
        }])
        .unwrap();
        let data_layout = RowLayout::try_new([DataType::int32()]).unwrap();
        let queue = Arc::new(MergeQueue::new(key_layout.clone(), data_layout.clone(), 16, None));
        queue.prepare_for_partitions(parts);
        let flags = (0..parts).map(|_| Arc::new(Flag(AtomicBool::new(false)))).collect();
        CTX.with(|c| {
            *c.borrow_mut() = Some(Ctx {
                queue: queue.clone(),
                key_layout,
                data_layout,
                flags,
                out: vec![format!("init | {}", state_str(&queue))],
                pending_sub: Vec::new(),
                counter: 0,
            })
        });
        verif_hooks::IN_FLIGHT.with(|c| c.set(Some(in_flight_cb as fn(usize))));
        exec(&ops);
        verif_hooks::IN_FLIGHT.with(|c| c.set(None));
        let out = CTX.with(|c| c.borrow_mut().take().unwrap().out);
        json!({"id": case["id"], "events": out})
    }
}

// ---------------------------------------------------------------------------------------------

fn main() {
    // Quiet panics: a one-line message on stderr is enough, results carry the outcome class.
    std::panic::set_hook(Box::new(|info| {
        eprintln!("panic: {}", info.to_string().lines().next().unwrap_or(""));
    }));
    let args: Vec<String> = std::env::args().collect();
    let sub = match args.get(1).map(|s| s.as_str()) {
        Some(s @ ("stack" | "det" | "threaded" | "tasklog" | "mq")) => s.to_string(),
        _ => {
            eprintln!("usage: gv_sched <stack|det|threaded|tasklog|mq> < cases.jsonl");
            std::process::exit(2);
        }
    };
    let tokio_rt = new_tokio_runtime_for_io().unwrap();
    let stdin = std::io::stdin();
    let stdout = std::io::stdout();
    for line in stdin.lock().lines() {
        let line = line.unwrap();
        if line.trim().is_empty() {
            continue;
        }
        let case: Value = match serde_json::from_str(&line) {
            Ok(v) => v,
            Err(e) => {
                let mut l = stdout.lock();
                writeln!(l, "{}", json!({"id": null, "bad_input": e.to_string()})).unwrap();
                l.flush().unwrap();
                continue;
            }
        };
        // Watchdog: if a case takes longer than its limit, report and exit(3); the driver
        // restarts after the offending case.
        let limit = case["timeout_s"].as_u64().unwrap_or(60);
        let done = Arc::new(std::sync::atomic::AtomicBool::new(false));
        {
            let done = done.clone();
            let id = case["id"].clone();
            std::thread::spawn(move || {
                let start = std::time::Instant::now();
                while start.elapsed() < Duration::from_secs(limit) {
                    std::thread::sleep(Duration::from_millis(20));
                    if done.load(std::sync::atomic::Ordering::SeqCst) {
                        return;
                    }
                }
                if !done.load(std::sync::atomic::Ordering::SeqCst) {
                    let so = std::io::stdout();
                    let mut l = so.lock();
                    let _ = writeln!(l, "{}", json!({"id": id, "timeout": limit}));
                    let _ = l.flush();
                    std::process::exit(3);
                }
            });
        }
        let r = catch_unwind(AssertUnwindSafe(|| match sub.as_str() {
            "stack" => run_case_stack(&case),
            "mq" => mq::run_case(&case),
            "det" => run_case_det(&case, &tokio_rt),
            "threaded" => run_case_threaded(&case, &tokio_rt, false),
            _ => run_case_threaded(&case, &tokio_rt, true),
        }));
        let out = match r {
            Ok(v) => v,
            Err(p) => json!({"id": case["id"], "panic": panic_msg(p)}),
        };
        done.store(true, std::sync::atomic::Ordering::SeqCst);
        let mut l = stdout.lock();
        writeln!(l, "{}", out).unwrap();
        l.flush().unwrap();
    }
}
