//! `gv_catalog`: statement scripts over 1..k SESSIONS of ONE engine (C14, C15).
//!
//! stdin, one JSON object per line:
//!   {"id": "...", "mode": "threaded"|"det", "threads": N, "partitions": P (det: default partitions),
//!    "sessions": K, "sched": {"kind": "fifo"|"lifo"|"random"|"starve_last"|"starve_first", "seed": u64,
//!    "spurious": 0..100}, "stmts": [[session_index, "sql"], ...], "timeout_s": n, "brief": bool}
//! stdout, one JSON object per line:
//!   {"id": "...", "results": [ per statement, as `gverif sql`:
//!        {"ok":true,"schema":[..],"rows":[..],..} | {"ok":false,"err":"first line","phase":"plan"|"exec"}
//!        | {"panic":".."} | {"hang":".."} ]}
//! One engine per case (`Engine::new`), K sessions from `Engine::new_session`; every statement goes
//! through `Session::simple` of the session it names.  With "brief": true a successful result carrying
//! more than 64 rows is reported as {"ok":true,"nrows":n} only.
use std::future::Future;
use std::io::{BufRead, Write};
use std::panic::{AssertUnwindSafe, catch_unwind};
use std::sync::Arc;
use std::task::{Context, Poll};
use std::time::Duration;

use glaredb_core::engine::Engine;
use glaredb_core::engine::session::Session;
use glaredb_core::runtime::pipeline::PipelineRuntime;
use glaredb_ext_csv::extension::CsvExtension;
use glaredb_ext_parquet::extension::ParquetExtension;
use glaredb_rt_native::runtime::{NativeSystemRuntime, ThreadedNativeExecutor, new_tokio_runtime_for_io};
use gverif::sql::{DetRuntime, Policy, batches_to_json, first_line};
use serde_json::{Value, json};

fn panic_msg(p: Box<dyn std::any::Any + Send>) -> String {
    if let Some(s) = p.downcast_ref::<&str>() {
        s.to_string()
    } else if let Some(s) = p.downcast_ref::<String>() {
        s.clone()
    } else {
        "panic".to_string()
    }
}

fn brief(mut v: Value, on: bool) -> Value {
    if on {
        let n = v["rows"].as_array().map(|a| a.len()).unwrap_or(0);
        if n > 64 {
            v["nrows"] = json!(n);
            v.as_object_mut().unwrap().remove("rows");
            v.as_object_mut().unwrap().remove("batch_sizes");
        }
    }
    v
}

fn stmts_of(case: &Value) -> Vec<(usize, String)> {
    case["stmts"]
        .as_array()
        .map(|a| {
            a.iter()
                .map(|x| {
                    (
                        x[0].as_u64().unwrap_or(0) as usize,
                        x[1].as_str().unwrap_or("").to_string(),
                    )
                })
                .collect()
        })
        .unwrap_or_default()
}

fn run_threaded(case: &Value, tokio_rt: &tokio::runtime::Runtime) -> Value {
    let threads = case["threads"].as_u64().unwrap_or(4) as usize;
    let nsess = case["sessions"].as_u64().unwrap_or(1).max(1) as usize;
    let exec = ThreadedNativeExecutor::try_new_with_num_threads(threads).unwrap();
    let sys = NativeSystemRuntime::new(tokio_rt.handle().clone());
    let engine = Engine::new(exec, sys).unwrap();
    engine.register_extension(CsvExtension).unwrap();
    engine.register_extension(ParquetExtension).unwrap();
    let mut sessions: Vec<Session<ThreadedNativeExecutor, NativeSystemRuntime>> =
        (0..nsess).map(|_| engine.new_session().unwrap()).collect();
    let want_brief = case["brief"].as_bool().unwrap_or(false);
    let mut results = Vec::new();
    for (si, sql) in stmts_of(case) {
        if si >= nsess {
            results.push(json!({"ok": false, "err": "no such session", "phase": "harness"}));
            continue;
        }
        let sess = &mut sessions[si];
        let r = catch_unwind(AssertUnwindSafe(|| {
            tokio_rt.block_on(async {
                match sess.simple(&sql).await {
                    Err(e) => json!({"ok": false, "err": first_line(&e), "phase": "plan"}),
                    Ok(mut rs) => {
                        if rs.len() != 1 {
                            return json!({"ok": false, "err": "expected one statement", "phase": "harness"});
                        }
                        let mut res = rs.pop().unwrap();
                        match res.output.collect().await {
                            Err(e) => json!({"ok": false, "err": first_line(&e), "phase": "exec"}),
                            Ok(bs) => batches_to_json(&res.output_schema, &bs),
                        }
                    }
                }
            })
        }));
        match r {
            Ok(v) => results.push(brief(v, want_brief)),
            Err(p) => {
                results.push(json!({"panic": panic_msg(p)}));
                break;
            }
        }
    }
    json!({"id": case["id"], "results": results})
}

fn run_det(case: &Value, tokio_rt: &tokio::runtime::Runtime) -> Value {
    let parts = case["partitions"].as_u64().unwrap_or(4) as usize;
    let nsess = case["sessions"].as_u64().unwrap_or(1).max(1) as usize;
    let sched = &case["sched"];
    let pol = Policy {
        kind: sched["kind"].as_str().unwrap_or("fifo").to_string(),
        spurious: sched["spurious"].as_u64().unwrap_or(0),
    };
    let seed = sched["seed"].as_u64().unwrap_or(1);
    let rt = DetRuntime {
        sched: Default::default(),
        parts,
    };
    debug_assert_eq!(rt.default_partitions(), parts);
    let sys = NativeSystemRuntime::new(tokio_rt.handle().clone());
    let engine = Engine::new(rt.clone(), sys).unwrap();
    engine.register_extension(CsvExtension).unwrap();
    engine.register_extension(ParquetExtension).unwrap();
    let mut sessions: Vec<Session<DetRuntime, NativeSystemRuntime>> =
        (0..nsess).map(|_| engine.new_session().unwrap()).collect();
    let want_brief = case["brief"].as_bool().unwrap_or(false);
    let want_log = case["log"].as_bool().unwrap_or(false);
    let mut results = Vec::new();
    for (k, (si, sql)) in stmts_of(case).into_iter().enumerate() {
        if si >= nsess {
            results.push(json!({"ok": false, "err": "no such session", "phase": "harness"}));
            continue;
        }
        rt.reset(seed.wrapping_add(k as u64));
        let sess = &mut sessions[si];
        let r = catch_unwind(AssertUnwindSafe(|| {
            let mut rs = match tokio_rt.block_on(sess.simple(&sql)) {
                Ok(r) => r,
                Err(e) => return json!({"ok": false, "err": first_line(&e), "phase": "plan"}),
            };
            if rs.len() != 1 {
                return json!({"ok": false, "err": "expected one statement", "phase": "harness"});
            }
            let mut res = rs.pop().unwrap();
            let noop = futures::task::noop_waker();
            let mut cx = Context::from_waker(&noop);
            let schema = res.output_schema.clone();
            let mut steps = 0usize;
            let mut out: Value;
            {
                let mut fut = Box::pin(res.output.collect());
                loop {
                    match fut.as_mut().poll(&mut cx) {
                        Poll::Ready(Ok(bs)) => {
                            out = batches_to_json(&schema, &bs);
                            break;
                        }
                        Poll::Ready(Err(e)) => {
                            out = json!({"ok": false, "err": first_line(&e), "phase": "exec"});
                            break;
                        }
                        Poll::Pending => {}
                    }
                    if !rt.step(&pol) {
                        out = json!({"hang": format!("all tasks parked, none woken, stream unfinished after {steps} steps; unfinished tasks={}", rt.unfinished())});
                        break;
                    }
                    steps += 1;
                    if steps > 5_000_000 {
                        out = json!({"hang": "step limit exceeded"});
                        break;
                    }
                }
            }
            // tasks still runnable after the stream finished (e.g. after an error) run to completion,
            // as they would on the threaded executor
            let mut extra = 0usize;
            while rt.step(&pol) {
                extra += 1;
                if extra > 1_000_000 {
                    break;
                }
            }
            out["steps"] = json!(steps);
            out["extra_steps"] = json!(extra);
            out
        }));
        match r {
            Ok(mut v) => {
                if want_log {
                    let s = rt.sched.lock();
                    v["log"] = json!(s.log.join(" "));
                }
                let stop = v.get("hang").is_some();
                results.push(brief(v, want_brief));
                if stop {
                    break;
                }
            }
            Err(p) => {
                results.push(json!({"panic": panic_msg(p)}));
                break;
            }
        }
    }
    json!({"id": case["id"], "results": results})
}

fn main() {
    let tokio_rt = new_tokio_runtime_for_io().unwrap();
    let stdin = std::io::stdin();
    let stdout = std::io::stdout();
    for line in stdin.lock().lines() {
        let line = line.unwrap();
        if line.trim().is_empty() {
            continue;
        }
        let case: Value = match serde_json::from_str(&line) {
            Ok(v) => v,
            Err(e) => {
                println!("{}", json!({"id": null, "bad_input": e.to_string()}));
                continue;
            }
        };
        let limit = case["timeout_s"].as_u64().unwrap_or(60);
        let done = Arc::new(std::sync::atomic::AtomicBool::new(false));
        {
            let done = done.clone();
            let id = case["id"].clone();
            std::thread::spawn(move || {
                let start = std::time::Instant::now();
                while start.elapsed() < Duration::from_secs(limit) {
                    std::thread::sleep(Duration::from_millis(50));
                    if done.load(std::sync::atomic::Ordering::SeqCst) {
                        return;
                    }
                }
                if !done.load(std::sync::atomic::Ordering::SeqCst) {
                    let so = std::io::stdout();
                    let mut l = so.lock();
                    let _ = writeln!(l, "{}", json!({"id": id, "timeout": limit}));
                    let _ = l.flush();
                    std::process::exit(3);
                }
            });
        }
        let out = if case["mode"].as_str().unwrap_or("threaded") == "det" {
            run_det(&case, &tokio_rt)
        } else {
            run_threaded(&case, &tokio_rt)
        };
        done.store(true, std::sync::atomic::Ordering::SeqCst);
        let mut l = stdout.lock();
        writeln!(l, "{}", out).unwrap();
        l.flush().unwrap();
    }
}
