//! `gv_csv <decode|infer|reader>`: drive the real CSV decoder pieces of `glaredb_ext_csv` directly.
//! JSON lines in, JSON lines out, one result per case, `catch_unwind` per evaluation.
//!
//! decode: {"id", "delim":u8, "quote":u8, "hex":bytes, "mode":"all2"|"cuts", "cuts":[[pos..]..],
//!          "flush":bool (records collected + `clear_completed` after every chunk, as the reader does when a
//!          batch is full; false = records accumulate, collected once at the end), "cap":initial buffer capacity,
//!          "final_empty":bool (feed `decode(&[])` after the last chunk = the proposed end-of-input repair)}
//!   -> {"id", "results":[distinct rendered record lists], "which":[index into results per chunking]}
//!   chunkings of mode all2 in this order: no cut; [i] for 0<i<n; [i,j] for 0<i<j<n  (no empty chunk).
//!   rendering: records "[f,f,..]" concatenated, fields lower-case hex; "PANIC:<msg>" if the evaluation panicked.
//! infer:  {"id","hex","init","max"} -> {"id","dialect":[delim,quote]|null, "schema":{"has_header":b,"cols":[[name,type]..]}|{"err":..}}
//!         (same sequence as ReadCsv::bind: eof = short read, infer_from_sample_with_eof(..).unwrap_or_default(), decode the
//!         sample (+ end-of-input signal at eof), infer_from_records)
//! reader: {"id","hex","delim","quote","has_header","types":["Boolean"|"Int64"|"Float64"|"Utf8"..],"read_buf":n,"batch":n}
//!   -> {"id","rows":[[cell..]..]} | {"id","err":..,"rows":[rows before the error]} ; the real CsvReader over a memory file.
use std::io::{BufRead, Write};
use std::panic::{AssertUnwindSafe, catch_unwind};

use glaredb_core::arrays::batch::Batch;
use glaredb_core::arrays::datatype::DataType;
use glaredb_core::buffer::buffer_manager::DefaultBufferManager;
use glaredb_core::execution::operators::PollPull;
use glaredb_core::runtime::filesystem::AnyFile;
use glaredb_core::runtime::filesystem::memory::MemoryFileHandle;
use glaredb_core::storage::projections::Projections;
use glaredb_core::util::task::noop_context;
use glaredb_ext_csv::dialect::DialectOptions;
use glaredb_ext_csv::reader::{CsvReader, CsvShape};
use glaredb_ext_csv::schema::CsvSchema;
use glaredb_ext_csv::verif::{ByteRecords, CsvDecoder};
use gverif::value;
use serde_json::{Value, json};

fn unhex(s: &str) -> Vec<u8> {
    (0..s.len() / 2)
        .map(|i| u8::from_str_radix(&s[2 * i..2 * i + 2], 16).unwrap())
        .collect()
}

fn hex(b: &[u8]) -> String {
    let mut s = String::with_capacity(b.len() * 2);
    for x in b {
        s.push_str(&format!("{x:02x}"));
    }
    s
}

fn panic_msg(p: Box<dyn std::any::Any + Send>) -> String {
    if let Some(s) = p.downcast_ref::<&str>() {
        s.to_string()
    } else if let Some(s) = p.downcast_ref::<String>() {
        s.clone()
    } else {
        "panic".to_string()
    }
}

fn render_records(out: &mut String, recs: &ByteRecords) {
    for r in recs.iter_records() {
        out.push('[');
        let mut first = true;
        for f in r.iter_fields() {
            if !first {
                out.push(',');
            }
            first = false;
            out.push_str(&hex(f));
        }
        out.push(']');
    }
}

fn decode_one(
    dialect: DialectOptions,
    data: &[u8],
    cuts: &[usize],
    flush: bool,
    cap: usize,
    final_empty: bool,
) -> String {
    let r = catch_unwind(AssertUnwindSafe(|| {
        let mut dec = CsvDecoder::new(dialect);
        let mut recs = ByteRecords::with_buffer_capacity(cap);
        let mut out = String::new();
        let mut prev = 0usize;
        let mut bounds: Vec<usize> = cuts.to_vec();
        bounds.push(data.len());
        for &b in &bounds {
            if b > prev {
                let _ = dec.decode(&data[prev..b], &mut recs);
                if flush {
                    render_records(&mut out, &recs);
                    recs.clear_completed();
                }
            }
            prev = b;
        }
        if final_empty {
            let _ = dec.decode(&[], &mut recs);
        }
        render_records(&mut out, &recs);
        out
    }));
    match r {
        Ok(s) => s,
        Err(p) => format!("PANIC:{}", panic_msg(p).lines().next().unwrap_or("")),
    }
}

fn dialect_of(case: &Value) -> DialectOptions {
    DialectOptions {
        delimiter: case["delim"].as_u64().unwrap_or(44) as u8,
        quote: case["quote"].as_u64().unwrap_or(34) as u8,
    }
}

fn run_decode(case: &Value) -> Value {
    let data = unhex(case["hex"].as_str().unwrap());
    let dialect = dialect_of(case);
    let flush = case["flush"].as_bool().unwrap_or(false);
    let cap = case["cap"].as_u64().unwrap_or(0) as usize;
    let final_empty = case["final_empty"].as_bool().unwrap_or(false);
    let mut chunkings: Vec<Vec<usize>> = Vec::new();
    if case["mode"].as_str() == Some("all2") {
        let n = data.len();
        chunkings.push(vec![]);
        for i in 1..n {
            chunkings.push(vec![i]);
        }
        for i in 1..n {
            for j in (i + 1)..n {
                chunkings.push(vec![i, j]);
            }
        }
    } else {
        for c in case["cuts"].as_array().unwrap() {
            chunkings.push(c.as_array().unwrap().iter().map(|x| x.as_u64().unwrap() as usize).collect());
        }
    }
    let mut results: Vec<String> = Vec::new();
    let mut which: Vec<usize> = Vec::new();
    for c in &chunkings {
        let s = decode_one(dialect, &data, c, flush, cap, final_empty);
        let idx = match results.iter().position(|x| *x == s) {
            Some(i) => i,
            None => {
                results.push(s);
                results.len() - 1
            }
        };
        which.push(idx);
    }
    json!({"id": case["id"], "results": results, "which": which})
}

fn run_infer(case: &Value) -> Value {
    let data = unhex(case["hex"].as_str().unwrap());
    let r = catch_unwind(AssertUnwindSafe(|| {
        // the loop of ReadCsv::bind over a memory buffer (read_fill = copy of min(len, remaining) bytes); the two sizes
        // are given by the case (read from read_csv.rs by vlib/c17.py)
        let init = case["init"].as_u64().unwrap_or(4096) as usize;
        let max = case["max"].as_u64().unwrap_or(4 * 1024 * 1024) as usize;
        let mut buf_len = init;
        let mut n = usize::min(data.len(), buf_len);
        let mut records = ByteRecords::with_buffer_capacity(init);
        let inferred = loop {
            let sample = &data[0..n];
            let eof = n < buf_len;
            let inferred = DialectOptions::infer_from_sample_with_eof(sample, eof, &mut records);
            let dialect = inferred.unwrap_or_default();
            records.clear_all();
            let mut decoder = CsvDecoder::new(dialect);
            let _ = decoder.decode(sample, &mut records);
            if eof {
                let _ = decoder.decode(&[], &mut records);
            }
            if records.num_records() >= 2 || eof || buf_len >= max {
                break inferred;
            }
            let len = buf_len;
            buf_len = len * 2;
            n += usize::min(data.len() - n, len);
        };
        let schema = match CsvSchema::infer_from_records(&records) {
            Ok(s) => {
                let cols: Vec<Value> = s
                    .schema
                    .fields
                    .iter()
                    .map(|f| json!([hex(f.name.as_bytes()), value::type_name(&f.datatype)]))
                    .collect();
                json!({"has_header": s.has_header, "cols": cols})
            }
            Err(e) => json!({"err": e.to_string().lines().next().unwrap_or("")}),
        };
        let d = match inferred {
            Some(d) => json!([d.delimiter, d.quote]),
            None => Value::Null,
        };
        json!({"id": case["id"], "dialect": d, "schema": schema, "sample_records": records.num_records()})
    }));
    match r {
        Ok(v) => v,
        Err(p) => json!({"id": case["id"], "panic": panic_msg(p)}),
    }
}

fn run_reader(case: &Value) -> Value {
    let data = unhex(case["hex"].as_str().unwrap());
    let dialect = dialect_of(case);
    let has_header = case["has_header"].as_bool().unwrap_or(false);
    let types: Vec<DataType> = case["types"]
        .as_array()
        .unwrap()
        .iter()
        .map(|t| match t.as_str().unwrap() {
            "Boolean" => DataType::boolean(),
            "Int64" => DataType::int64(),
            "Float64" => DataType::float64(),
            _ => DataType::utf8(),
        })
        .collect();
    let read_buf = case["read_buf"].as_u64().unwrap_or(4096) as usize;
    let batch_cap = case["batch"].as_u64().unwrap_or(2048) as usize;
    let cap = case["cap"].as_u64().unwrap_or(0) as usize;
    let mut rows: Vec<Value> = Vec::new();
    let r = catch_unwind(AssertUnwindSafe(|| -> Result<(), String> {
        let file = MemoryFileHandle::from_bytes(&DefaultBufferManager, &data).map_err(|e| e.to_string())?;
        let file = AnyFile::from_file(file);
        let mut reader = CsvReader::new(
            CsvShape { has_header, num_columns: types.len() },
            Projections::new(0..types.len()),
            vec![0; read_buf],
            CsvDecoder::new(dialect),
            ByteRecords::with_buffer_capacity(cap),
        );
        reader.prepare(file);
        let mut batch = Batch::new(types.clone(), batch_cap).map_err(|e| e.to_string())?;
        let mut polls = 0usize;
        loop {
            polls += 1;
            if polls > 10_000_000 {
                return Err("poll limit".to_string());
            }
            batch.reset_for_write().map_err(|e| e.to_string())?;
            let poll = reader
                .poll_pull(&mut noop_context(), &mut batch)
                .map_err(|e| e.to_string().lines().next().unwrap_or("").to_string())?;
            for r in 0..batch.num_rows() {
                let mut row = Vec::new();
                for a in batch.arrays() {
                    match a.get_value(r) {
                        Ok(v) => row.push(json!(value::render(&v))),
                        Err(e) => return Err(e.to_string()),
                    }
                }
                rows.push(json!(row));
            }
            match poll {
                PollPull::Exhausted => return Ok(()),
                PollPull::HasMore => continue,
                PollPull::Pending => return Err("pending on a memory file".to_string()),
            }
        }
    }));
    match r {
        Ok(Ok(())) => json!({"id": case["id"], "rows": rows}),
        Ok(Err(e)) => json!({"id": case["id"], "err": e, "rows": rows}),
        Err(p) => json!({"id": case["id"], "panic": panic_msg(p), "rows": rows}),
    }
}

fn main() {
    std::panic::set_hook(Box::new(|_| {}));
    let args: Vec<String> = std::env::args().collect();
    let sub = args.get(1).map(|s| s.as_str()).unwrap_or("");
    let f: fn(&Value) -> Value = match sub {
        "decode" => run_decode,
        "infer" => run_infer,
        "reader" => run_reader,
        _ => {
            eprintln!("usage: gv_csv <decode|infer|reader> < cases.jsonl");
            std::process::exit(2);
        }
    };
    let stdin = std::io::stdin();
    let stdout = std::io::stdout();
    for line in stdin.lock().lines() {
        let line = line.unwrap();
        if line.trim().is_empty() {
            continue;
        }
        let case: Value = match serde_json::from_str(&line) {
            Ok(v) => v,
            Err(e) => {
                println!("{}", json!({"id": null, "bad_input": e.to_string()}));
                continue;
            }
        };
        let out = match catch_unwind(AssertUnwindSafe(|| f(&case))) {
            Ok(v) => v,
            Err(p) => json!({"id": case["id"], "panic": panic_msg(p)}),
        };
        let mut l = stdout.lock();
        writeln!(l, "{}", out).unwrap();
        l.flush().unwrap();
    }
}
