//! `gv_cast`: direct calls of the text parsers / formatters in
//! glaredb_core::functions::cast::{parse,format} (the units the SQL casts are built from; the
//! date / bool formatters are not reachable through a SQL cast at all).
//!
//! stdin, one JSON object per line:
//!   {"id":..,"op":"parse_int"|"fmt_int","ty":"s8".."u128","items":[..]}
//!   {"id":..,"op":"parse_dec"|"fmt_dec","bits":64|128,"p":P,"s":S,"items":[..]}
//!   {"id":..,"op":"parse_date"|"fmt_date"|"parse_bool"|"fmt_bool"|"parse_iv"|"fmt_iv","items":[..]}
//! items: text inputs as "x<hex of utf8>", numbers as decimal strings, intervals "m/d/n".
//! stdout: {"id":..,"out":["ok <v>" | "none" | "panic <msg>", ..]}   (text outputs as x<hex>)
use std::io::{BufRead, Write};
use std::panic::{AssertUnwindSafe, catch_unwind};

use glaredb_core::arrays::scalar::interval::Interval;
use glaredb_core::functions::cast::format::{
    BoolFormatter, Date32Formatter, Decimal64Formatter, Decimal128Formatter, Formatter, Int8Formatter,
    Int16Formatter, Int32Formatter, Int64Formatter, Int128Formatter, IntervalFormatter, UInt8Formatter,
    UInt16Formatter, UInt32Formatter, UInt64Formatter, UInt128Formatter,
};
use glaredb_core::functions::cast::parse::{
    BoolParser, Date32Parser, Decimal64Parser, Decimal128Parser, Int8Parser, Int16Parser, Int32Parser,
    Int64Parser, Int128Parser, IntervalParser, Parser, UInt8Parser, UInt16Parser, UInt32Parser,
    UInt64Parser, UInt128Parser,
};
use serde_json::{Value, json};

fn unhex(s: &str) -> Option<String> {
    let b = s.strip_prefix('x')?.as_bytes();
    let mut out = Vec::new();
    let mut i = 0;
    while i + 1 < b.len() {
        out.push(u8::from_str_radix(std::str::from_utf8(&b[i..i + 2]).ok()?, 16).ok()?);
        i += 2;
    }
    String::from_utf8(out).ok()
}

fn hex(s: &str) -> String {
    let mut o = String::from("x");
    for b in s.bytes() {
        o.push_str(&format!("{b:02x}"));
    }
    o
}

fn guard<F: FnOnce() -> String>(f: F) -> String {
    match catch_unwind(AssertUnwindSafe(f)) {
        Ok(s) => s,
        Err(p) => {
            let m = if let Some(s) = p.downcast_ref::<&str>() {
                s.to_string()
            } else if let Some(s) = p.downcast_ref::<String>() {
                s.clone()
            } else {
                "panic".to_string()
            };
            format!("panic {m}")
        }
    }
}

fn parse_with<P: Parser>(mut p: P, item: &str, show: impl Fn(P::Type) -> String) -> String {
    let Some(s) = unhex(item) else { return "badinput".into() };
    guard(move || match p.parse(&s) {
        Some(v) => format!("ok {}", show(v)),
        None => "none".to_string(),
    })
}

fn fmt_with<F: Formatter>(f: &F, v: Option<F::Type>) -> String {
    let Some(v) = v else { return "badinput".into() };
    guard(|| {
        let mut buf = String::new();
        match f.write(&v, &mut buf) {
            Ok(()) => format!("ok {}", hex(&buf)),
            Err(_) => "none".to_string(),
        }
    })
}

fn run(case: &Value) -> Vec<String> {
    let op = case["op"].as_str().unwrap_or("");
    let ty = case["ty"].as_str().unwrap_or("");
    let bits = case["bits"].as_u64().unwrap_or(64);
    let p = case["p"].as_u64().unwrap_or(0) as u8;
    let s = case["s"].as_i64().unwrap_or(0) as i8;
    let empty = Vec::new();
    let items = case["items"].as_array().unwrap_or(&empty);
    items
        .iter()
        .map(|it| {
            let it = it.as_str().unwrap_or("");
            match (op, ty) {
                ("parse_int", "s8") => parse_with(Int8Parser::new(), it, |v| v.to_string()),
                ("parse_int", "s16") => parse_with(Int16Parser::new(), it, |v| v.to_string()),
                ("parse_int", "s32") => parse_with(Int32Parser::new(), it, |v| v.to_string()),
                ("parse_int", "s64") => parse_with(Int64Parser::new(), it, |v| v.to_string()),
                ("parse_int", "s128") => parse_with(Int128Parser::new(), it, |v| v.to_string()),
                ("parse_int", "u8") => parse_with(UInt8Parser::new(), it, |v| v.to_string()),
                ("parse_int", "u16") => parse_with(UInt16Parser::new(), it, |v| v.to_string()),
                ("parse_int", "u32") => parse_with(UInt32Parser::new(), it, |v| v.to_string()),
                ("parse_int", "u64") => parse_with(UInt64Parser::new(), it, |v| v.to_string()),
                ("parse_int", "u128") => parse_with(UInt128Parser::new(), it, |v| v.to_string()),
                ("fmt_int", "s8") => fmt_with(&Int8Formatter::default(), it.parse().ok()),
                ("fmt_int", "s16") => fmt_with(&Int16Formatter::default(), it.parse().ok()),
                ("fmt_int", "s32") => fmt_with(&Int32Formatter::default(), it.parse().ok()),
                ("fmt_int", "s64") => fmt_with(&Int64Formatter::default(), it.parse().ok()),
                ("fmt_int", "s128") => fmt_with(&Int128Formatter::default(), it.parse().ok()),
                ("fmt_int", "u8") => fmt_with(&UInt8Formatter::default(), it.parse().ok()),
                ("fmt_int", "u16") => fmt_with(&UInt16Formatter::default(), it.parse().ok()),
                ("fmt_int", "u32") => fmt_with(&UInt32Formatter::default(), it.parse().ok()),
                ("fmt_int", "u64") => fmt_with(&UInt64Formatter::default(), it.parse().ok()),
                ("fmt_int", "u128") => fmt_with(&UInt128Formatter::default(), it.parse().ok()),
                ("parse_dec", _) if bits == 64 => {
                    parse_with(Decimal64Parser::new(p, s), it, |v| v.to_string())
                }
                ("parse_dec", _) => parse_with(Decimal128Parser::new(p, s), it, |v| v.to_string()),
                ("fmt_dec", _) if bits == 64 => {
                    let v: Option<i64> = it.parse().ok();
                    guard(|| fmt_with(&Decimal64Formatter::new(p, s), v))
                }
                ("fmt_dec", _) => {
                    let v: Option<i128> = it.parse().ok();
                    guard(|| fmt_with(&Decimal128Formatter::new(p, s), v))
                }
                ("parse_date", _) => parse_with(Date32Parser, it, |v| v.to_string()),
                ("fmt_date", _) => fmt_with(&Date32Formatter, it.parse().ok()),
                ("parse_bool", _) => parse_with(BoolParser, it, |v| (v as u8).to_string()),
                ("fmt_bool", _) => fmt_with(&BoolFormatter::default(), Some(it == "1")),
                ("parse_iv", _) => parse_with(IntervalParser::default(), it, |v| {
                    format!("{}/{}/{}", v.months, v.days, v.nanos)
                }),
                ("fmt_iv", _) => {
                    let mut parts = it.split('/');
                    let iv = (|| {
                        Some(Interval {
                            months: parts.next()?.parse().ok()?,
                            days: parts.next()?.parse().ok()?,
                            nanos: parts.next()?.parse().ok()?,
                        })
                    })();
                    fmt_with(&IntervalFormatter, iv)
                }
                _ => "badop".to_string(),
            }
        })
        .collect()
}

fn main() {
    std::panic::set_hook(Box::new(|_| {}));
    let stdin = std::io::stdin();
    let stdout = std::io::stdout();
    for line in stdin.lock().lines() {
        let line = line.unwrap();
        if line.trim().is_empty() {
            continue;
        }
        let case: Value = match serde_json::from_str(&line) {
            Ok(v) => v,
            Err(e) => {
                println!("{}", json!({"id": null, "bad_input": e.to_string()}));
                continue;
            }
        };
        let out = run(&case);
        let mut l = stdout.lock();
        writeln!(l, "{}", json!({"id": case["id"], "out": out})).unwrap();
        l.flush().unwrap();
    }
}
