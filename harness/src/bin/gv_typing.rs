//! `gv_typing`: function-signature resolution of the BUILT crates.
//!
//! `gv_typing dump-tables`
//!     prints ONE JSON object: the DataTypeId enumeration (in declaration order, index = model id),
//!     every scalar and aggregate function set (name, aliases, signatures as positional ids /
//!     variadic id / return id), the full implicit cast score table `implicit_cast_score(have, want)`,
//!     NO_CAST_SCORE, REFINED_LITERAL_SCORE_BONUS and the four DEFAULT_IMPLICIT_CAST_SCORES entries the
//!     literal refinement uses.
//! `gv_typing resolve`
//!     stdin, one JSON object per line:
//!       {"id":.., "kind":"scalar"|"aggregate", "set": <index into the dumped list>,
//!        "tuples": [ [arg, ..], .. ]}       arg = <type index>  |  "<type index>:<literal value>"
//!     stdout: {"id":.., "out":[line,..]} one line per tuple:
//!       "E<sig>"                                       FunctionSet::find_exact matched (no casts)
//!       "C<first sig after the real sort>|<sig>:<score>:<cast>,<cast>..;<sig>:.."   candidates in
//!                                                      signature order; cast = n | c<to>/<score> | r<to>/<score>
//!       "X"                                            no candidate
//!       "panic <msg>"
//!     The first signature is what `bind_function_signature_from_expressions` takes
//!     (`candidates.swap_remove(0)` after `find_candidates`' `sort_unstable_by`).
use std::io::{BufRead, Write};
use std::panic::{AssertUnwindSafe, catch_unwind};

use glaredb_core::arrays::datatype::{DataType, DataTypeId};
use glaredb_core::functions::Signature;
use glaredb_core::functions::aggregate::builtin::BUILTIN_AGGREGATE_FUNCTION_SETS;
use glaredb_core::functions::candidate::{
    CandidateSignature, CastType, InputDataType, InputLiteral, REFINED_LITERAL_SCORE_BONUS, RefinedLiteral,
};
use glaredb_core::functions::cast::DEFAULT_IMPLICIT_CAST_SCORES;
use glaredb_core::functions::function_set::FunctionInfo;
use glaredb_core::functions::implicit::{NO_CAST_SCORE, implicit_cast_score};
use glaredb_core::functions::scalar::builtin::BUILTIN_SCALAR_FUNCTION_SETS;
use serde_json::{Value, json};

/// Declaration order of `DataTypeId`.  `index_of` is an exhaustive match: a new variant is a compile
/// error here, so the table cannot silently go stale.
const TYPE_IDS: [DataTypeId; 27] = [
    DataTypeId::Any,
    DataTypeId::Table,
    DataTypeId::Null,
    DataTypeId::Boolean,
    DataTypeId::Int8,
    DataTypeId::Int16,
    DataTypeId::Int32,
    DataTypeId::Int64,
    DataTypeId::Int128,
    DataTypeId::UInt8,
    DataTypeId::UInt16,
    DataTypeId::UInt32,
    DataTypeId::UInt64,
    DataTypeId::UInt128,
    DataTypeId::Float16,
    DataTypeId::Float32,
    DataTypeId::Float64,
    DataTypeId::Decimal64,
    DataTypeId::Decimal128,
    DataTypeId::Timestamp,
    DataTypeId::Date32,
    DataTypeId::Date64,
    DataTypeId::Interval,
    DataTypeId::Utf8,
    DataTypeId::Binary,
    DataTypeId::Struct,
    DataTypeId::List,
];

fn index_of(id: DataTypeId) -> usize {
    match id {
        DataTypeId::Any => 0,
        DataTypeId::Table => 1,
        DataTypeId::Null => 2,
        DataTypeId::Boolean => 3,
        DataTypeId::Int8 => 4,
        DataTypeId::Int16 => 5,
        DataTypeId::Int32 => 6,
        DataTypeId::Int64 => 7,
        DataTypeId::Int128 => 8,
        DataTypeId::UInt8 => 9,
        DataTypeId::UInt16 => 10,
        DataTypeId::UInt32 => 11,
        DataTypeId::UInt64 => 12,
        DataTypeId::UInt128 => 13,
        DataTypeId::Float16 => 14,
        DataTypeId::Float32 => 15,
        DataTypeId::Float64 => 16,
        DataTypeId::Decimal64 => 17,
        DataTypeId::Decimal128 => 18,
        DataTypeId::Timestamp => 19,
        DataTypeId::Date32 => 20,
        DataTypeId::Date64 => 21,
        DataTypeId::Interval => 22,
        DataTypeId::Utf8 => 23,
        DataTypeId::Binary => 24,
        DataTypeId::Struct => 25,
        DataTypeId::List => 26,
    }
}

/// Some DataType carrying the given id (resolution only looks at the id).  Ids without a public
/// constructor go through the type's own Deserialize impl.
fn datatype_of(id: DataTypeId) -> DataType {
    let meta = match id {
        DataTypeId::Decimal64 => json!({"Decimal": {"precision": 10, "scale": 2}}),
        DataTypeId::Decimal128 => json!({"Decimal": {"precision": 30, "scale": 5}}),
        DataTypeId::Timestamp => json!({"Timestamp": {"unit": "Microsecond"}}),
        DataTypeId::List => {
            json!({"List": {"datatype": {"id": "Int32", "metadata": "None"}}})
        }
        DataTypeId::Struct => json!({"Struct": {"fields": []}}),
        _ => json!("None"),
    };
    let v = json!({"id": serde_json::to_value(id).unwrap(), "metadata": meta});
    serde_json::from_value(v).expect("datatype from id")
}

fn sig_json(s: &Signature) -> Value {
    json!({
        "pos": s.positional_args.iter().map(|t| index_of(*t)).collect::<Vec<_>>(),
        "var": s.variadic_arg.map(index_of),
        "ret": index_of(s.return_type),
    })
}

fn dump_tables() {
    let ids: Vec<DataTypeId> = TYPE_IDS.to_vec();
    for (i, id) in ids.iter().enumerate() {
        assert_eq!(index_of(*id), i, "TYPE_IDS order");
    }
    let names: Vec<String> = ids.iter().map(|t| format!("{t}")).collect();
    let scalar: Vec<Value> = BUILTIN_SCALAR_FUNCTION_SETS
        .iter()
        .map(|fs| {
            json!({"name": fs.name, "aliases": fs.aliases,
               "sigs": fs.functions.iter().map(|f| sig_json(FunctionInfo::signature(f))).collect::<Vec<_>>()})
        })
        .collect();
    let aggregate: Vec<Value> = BUILTIN_AGGREGATE_FUNCTION_SETS
        .iter()
        .map(|fs| {
            json!({"name": fs.name, "aliases": fs.aliases,
               "sigs": fs.functions.iter().map(|f| sig_json(FunctionInfo::signature(f))).collect::<Vec<_>>()})
        })
        .collect();
    let mut scores: Vec<Vec<Value>> = Vec::new();
    for have in &ids {
        let mut row = Vec::new();
        for want in &ids {
            row.push(match implicit_cast_score(*have, *want) {
                Some(s) => json!(s),
                None => Value::Null,
            });
        }
        scores.push(row);
    }
    let out = json!({
        "type_ids": names,
        "scalar": scalar,
        "aggregate": aggregate,
        "scores": scores,
        "no_cast_score": NO_CAST_SCORE,
        "refined_literal_bonus": REFINED_LITERAL_SCORE_BONUS,
        "default_score_i8": DEFAULT_IMPLICIT_CAST_SCORES.i8,
        "default_score_i16": DEFAULT_IMPLICIT_CAST_SCORES.i16,
        "default_score_i32": DEFAULT_IMPLICIT_CAST_SCORES.i32,
        "default_score_i64": DEFAULT_IMPLICIT_CAST_SCORES.i64,
    });
    println!("{out}");
}

fn parse_arg(v: &Value, ids: &[DataTypeId]) -> Option<InputDataType> {
    if let Some(i) = v.as_u64() {
        return Some(datatype_of(*ids.get(i as usize)?).into());
    }
    let s = v.as_str()?;
    let (t, l) = s.split_once(':')?;
    let id = *ids.get(t.parse::<usize>().ok()?)?;
    let literal = match id {
        DataTypeId::Int32 => InputLiteral::Int32(l.parse().ok()?),
        DataTypeId::Int64 => InputLiteral::Int64(l.parse().ok()?),
        _ => return None,
    };
    Some(InputDataType {
        datatype: datatype_of(id),
        literal,
    })
}

fn cast_str(c: &CastType) -> String {
    match c {
        CastType::NoCastNeeded => "n".to_string(),
        CastType::Cast { to, score } => format!("c{}/{}", index_of(*to), score),
        CastType::RefinedLiteral { refined, score } => {
            let to = match refined {
                RefinedLiteral::Int8(_) => DataTypeId::Int8,
                RefinedLiteral::Int16(_) => DataTypeId::Int16,
                RefinedLiteral::Int32(_) => DataTypeId::Int32,
                RefinedLiteral::Int64(_) => DataTypeId::Int64,
            };
            format!("r{}/{}", index_of(to), score)
        }
    }
}

fn cast_score(c: &CastType) -> u32 {
    match c {
        CastType::NoCastNeeded => NO_CAST_SCORE,
        CastType::Cast { score, .. } => *score,
        CastType::RefinedLiteral { score, .. } => *score,
    }
}

fn resolve_one<F: FunctionInfo>(
    set: &glaredb_core::functions::function_set::FunctionSet<F>,
    inputs: &[InputDataType],
) -> String {
    let type_ids: Vec<DataTypeId> = inputs.iter().map(|t| t.datatype.id()).collect();
    if let Some(f) = set.find_exact(&type_ids) {
        // index of the function found (by address of its signature)
        let want = FunctionInfo::signature(f) as *const Signature;
        let idx = set
            .functions
            .iter()
            .position(|g| std::ptr::eq(FunctionInfo::signature(g) as *const Signature, want))
            .unwrap_or(usize::MAX);
        return format!("E{idx}");
    }
    let cands: Vec<CandidateSignature> = set.candidates(inputs);
    if cands.is_empty() {
        return "X".to_string();
    }
    let first = cands[0].signature_idx;
    let mut sorted: Vec<&CandidateSignature> = cands.iter().collect();
    sorted.sort_by_key(|c| c.signature_idx);
    let body: Vec<String> = sorted
        .iter()
        .map(|c| {
            let score: u32 = c.casts.iter().map(cast_score).sum();
            format!(
                "{}:{}:{}",
                c.signature_idx,
                score,
                c.casts.iter().map(cast_str).collect::<Vec<_>>().join(",")
            )
        })
        .collect();
    format!("C{}|{}", first, body.join(";"))
}

fn guard<F: FnOnce() -> String>(f: F) -> String {
    match catch_unwind(AssertUnwindSafe(f)) {
        Ok(s) => s,
        Err(p) => {
            let m = if let Some(s) = p.downcast_ref::<&str>() {
                s.to_string()
            } else if let Some(s) = p.downcast_ref::<String>() {
                s.clone()
            } else {
                "panic".to_string()
            };
            format!("panic {m}")
        }
    }
}

fn resolve_main() {
    let ids: Vec<DataTypeId> = TYPE_IDS.to_vec();
    let stdin = std::io::stdin();
    let stdout = std::io::stdout();
    for line in stdin.lock().lines() {
        let line = line.unwrap();
        if line.trim().is_empty() {
            continue;
        }
        let case: Value = match serde_json::from_str(&line) {
            Ok(v) => v,
            Err(e) => {
                println!("{}", json!({"id": null, "bad_input": e.to_string()}));
                continue;
            }
        };
        let kind = case["kind"].as_str().unwrap_or("scalar");
        let set = case["set"].as_u64().unwrap_or(u64::MAX) as usize;
        let empty = Vec::new();
        let tuples = case["tuples"].as_array().unwrap_or(&empty);
        let out: Vec<String> = tuples
            .iter()
            .map(|t| {
                guard(|| {
                    let args: Option<Vec<InputDataType>> = t
                        .as_array()
                        .map(|a| a.iter().map(|v| parse_arg(v, &ids)).collect())
                        .unwrap_or(None);
                    let Some(args) = args else {
                        return "badarg".to_string();
                    };
                    if kind == "aggregate" {
                        match BUILTIN_AGGREGATE_FUNCTION_SETS.get(set) {
                            Some(fs) => resolve_one(fs, &args),
                            None => "badset".to_string(),
                        }
                    } else {
                        match BUILTIN_SCALAR_FUNCTION_SETS.get(set) {
                            Some(fs) => resolve_one(fs, &args),
                            None => "badset".to_string(),
                        }
                    }
                })
            })
            .collect();
        let mut l = stdout.lock();
        writeln!(l, "{}", json!({"id": case["id"], "out": out})).unwrap();
        l.flush().unwrap();
    }
}

fn main() {
    std::panic::set_hook(Box::new(|_| {}));
    let args: Vec<String> = std::env::args().collect();
    match args.get(1).map(|s| s.as_str()) {
        Some("dump-tables") => dump_tables(),
        Some("resolve") => resolve_main(),
        _ => {
            eprintln!("usage: gv_typing <dump-tables|resolve>");
            std::process::exit(2);
        }
    }
}
