//! `gv_lex`: the real SQL tokenizer (glaredb_parser::tokens::Tokenizer) and parser entry
//! (glaredb_parser::parser::parse) on raw statement texts, `catch_unwind` per case.
//!
//! gv_lex classes
//!     dumps the two Unicode tables the tokenizer consults, as maximal ranges of scalar values:
//!     {"alpha":[[lo,hi],..],"numeric":[[lo,hi],..]}      (char::is_alphabetic / char::is_numeric)
//! gv_lex lex      stdin: {"id":..,"hex":"<hex of the UTF-8 bytes>"} per line
//!     stdout: {"id":..,"out":"<canonical line>"}
//!       OK <tok>;<tok>;..      tok = <kind>,<hex of text>,<start_idx>,<line>,<col>[,<keyword index | ->]
//!       ERR <code point>       ("Unhandled character: c")      ERRQ <code point of the quote>  ("Unterminated quoted string")
//!       ERR? <hex msg>   (any other error text)
//!       PANIC <hex msg>
//!     kinds: W (Word, unquoted; extra field keyword index = `Keyword as usize`) Q (Word quoted by '"')
//!            S (SingleQuotedString) N (Number) WS (Whitespace) C (Comment::SingleLine) MC (Comment::Multiline)
//!            or the Token variant name for operators / punctuation.
//! gv_lex expr     stdin as above; tokenizes, then `Expr::<Raw>::parse(&mut Parser::with_tokens(..))` (the Pratt parser of
//!     ast/expr.rs on its own); stdout {"id":..,"out":"OK <parser.idx after> <hex of {:?} of the Expr>" | "ERR <hex msg>" |
//!     "LEXERR" | "PANIC <hex msg>"}; parser.idx is read off the Debug rendering of the Parser (the field is pub(crate)).
//!     Runs on a thread with a 1 GiB stack so that deep nesting answers instead of aborting.
//! gv_lex parse    stdin as above; stdout {"id":..,"out":"OK <n statements> <hex of {:?}>" | "ERR <hex msg>" | "PANIC <hex msg>"}
use std::io::{BufRead, Write};
use std::panic::{AssertUnwindSafe, catch_unwind};

use glaredb_parser::tokens::{Comment, Token, TokenWithLocation, Tokenizer};
use serde_json::{Value, json};

fn unhex(s: &str) -> Option<String> {
    let b = s.as_bytes();
    if b.len() % 2 != 0 {
        return None;
    }
    let mut out = Vec::with_capacity(b.len() / 2);
    let mut i = 0;
    while i + 1 < b.len() {
        out.push(u8::from_str_radix(std::str::from_utf8(&b[i..i + 2]).ok()?, 16).ok()?);
        i += 2;
    }
    String::from_utf8(out).ok()
}

fn hex(s: &str) -> String {
    let mut o = String::with_capacity(2 * s.len());
    for b in s.bytes() {
        o.push_str(&format!("{b:02x}"));
    }
    o
}

fn panic_msg(p: Box<dyn std::any::Any + Send>) -> String {
    if let Some(s) = p.downcast_ref::<&str>() {
        s.to_string()
    } else if let Some(s) = p.downcast_ref::<String>() {
        s.clone()
    } else {
        "panic".to_string()
    }
}

fn render(t: &TokenWithLocation) -> String {
    let (kind, text, extra): (String, String, Option<String>) = match &t.token {
        Token::Word(w) => match w.quote {
            None => (
                "W".into(),
                hex(&w.value),
                Some(match w.keyword {
                    Some(k) => format!("{}", k as usize),
                    None => "-".into(),
                }),
            ),
            Some('"') if w.keyword.is_none() => ("Q".into(), hex(&w.value), None),
            Some(c) => (format!("Q?{}:{:?}", c as u32, w.keyword), hex(&w.value), None),
        },
        Token::SingleQuotedString(s) => ("S".into(), hex(s), None),
        Token::Number(s) => ("N".into(), hex(s), None),
        Token::Whitespace => ("WS".into(), String::new(), None),
        Token::Comment(Comment::SingleLine(s)) => ("C".into(), hex(s), None),
        Token::Comment(Comment::Multiline(s)) => ("MC".into(), hex(s), None),
        other => (format!("{other:?}"), String::new(), None),
    };
    match extra {
        Some(e) => format!("{kind},{text},{},{},{},{e}", t.start_idx, t.line, t.col),
        None => format!("{kind},{text},{},{},{}", t.start_idx, t.line, t.col),
    }
}

fn lex_one(sql: &str) -> String {
    let r = catch_unwind(AssertUnwindSafe(|| {
        let mut toks = Vec::new();
        let r = Tokenizer::new(sql).tokenize(&mut toks);
        (r, toks)
    }));
    match r {
        Ok((Ok(()), toks)) => {
            let parts: Vec<String> = toks.iter().map(render).collect();
            format!("OK {}", parts.join(";"))
        }
        Ok((Err(e), _)) => {
            let m = e.get_msg().to_string();
            let one = |rest: &str| {
                if rest.chars().count() == 1 {
                    rest.chars().next().map(|c| c as u32)
                } else {
                    None
                }
            };
            if let Some(c) = m.strip_prefix("Unhandled character: ").and_then(one) {
                format!("ERR {c}")
            } else if let Some(c) = m
                .strip_prefix("Unterminated quoted string: missing closing ")
                .and_then(one)
            {
                format!("ERRQ {c}")
            } else {
                format!("ERR? {}", hex(&m))
            }
        }
        Err(p) => format!("PANIC {}", hex(&panic_msg(p))),
    }
}

fn parse_one(sql: &str) -> String {
    let r = catch_unwind(AssertUnwindSafe(|| glaredb_parser::parser::parse(sql)));
    match r {
        Ok(Ok(stmts)) => format!("OK {} {}", stmts.len(), hex(&format!("{stmts:?}"))),
        Ok(Err(e)) => format!("ERR {}", hex(e.get_msg())),
        Err(p) => format!("PANIC {}", hex(&panic_msg(p))),
    }
}

fn expr_one(sql: &str) -> String {
    use glaredb_parser::ast::{AstParseable, Expr};
    use glaredb_parser::meta::Raw;
    use glaredb_parser::parser::Parser;
    let r = catch_unwind(AssertUnwindSafe(|| {
        let mut toks = Vec::new();
        if Tokenizer::new(sql).tokenize(&mut toks).is_err() {
            return "LEXERR".to_string();
        }
        let mut parser = Parser::with_tokens(toks, sql);
        match Expr::<Raw>::parse(&mut parser) {
            Ok(e) => {
                let d = format!("{parser:?}");
                let idx = d
                    .rsplit_once(", idx: ")
                    .map(|(_, t)| t.trim_end_matches(" }").to_string())
                    .unwrap_or_else(|| "?".into());
                format!("OK {idx} {}", hex(&format!("{e:?}")))
            }
            Err(e) => format!("ERR {}", hex(e.get_msg())),
        }
    }));
    match r {
        Ok(s) => s,
        Err(p) => format!("PANIC {}", hex(&panic_msg(p))),
    }
}

fn ranges(f: impl Fn(char) -> bool) -> Vec<[u32; 2]> {
    let mut out: Vec<[u32; 2]> = Vec::new();
    let mut cur: Option<[u32; 2]> = None;
    for u in 0u32..=0x10FFFF {
        let hit = match char::from_u32(u) {
            Some(c) => f(c),
            None => false,
        };
        match (&mut cur, hit) {
            (Some(r), true) => r[1] = u,
            (None, true) => cur = Some([u, u]),
            (Some(r), false) => {
                out.push(*r);
                cur = None;
            }
            (None, false) => {}
        }
    }
    if let Some(r) = cur {
        out.push(r);
    }
    out
}

fn main() {
    std::panic::set_hook(Box::new(|_| {}));
    let args: Vec<String> = std::env::args().collect();
    let sub = args.get(1).map(|s| s.as_str()).unwrap_or("");
    let stdout = std::io::stdout();
    let mut out = std::io::BufWriter::new(stdout.lock());
    if sub == "classes" {
        let v = json!({"alpha": ranges(|c| c.is_alphabetic()), "numeric": ranges(|c| c.is_numeric()),
                       "alnum_is_alpha_or_numeric": (0u32..=0x10FFFF).all(|u| match char::from_u32(u) {
                           Some(c) => c.is_alphanumeric() == (c.is_alphabetic() || c.is_numeric()),
                           None => true })});
        writeln!(out, "{v}").unwrap();
        return;
    }
    if sub == "expr" {
        drop(out);
        // the recursive-descent parser has no depth limit (findings/C15.json parser-stack-overflow): give it room
        let h = std::thread::Builder::new()
            .stack_size(1 << 30)
            .spawn(move || serve("expr"))
            .unwrap();
        h.join().unwrap();
        return;
    }
    if sub != "lex" && sub != "parse" {
        eprintln!("usage: gv_lex <classes|lex|expr|parse> < cases.jsonl");
        std::process::exit(2);
    }
    drop(out);
    serve(sub);
}

fn serve(sub: &str) {
    let stdout = std::io::stdout();
    let mut out = std::io::BufWriter::new(stdout.lock());
    let stdin = std::io::stdin();
    for line in stdin.lock().lines() {
        let Ok(line) = line else { break };
        if line.trim().is_empty() {
            continue;
        }
        let Ok(v) = serde_json::from_str::<Value>(&line) else { continue };
        let id = v.get("id").cloned().unwrap_or(Value::Null);
        let res = match v.get("hex").and_then(|h| h.as_str()).and_then(unhex) {
            None => "BADINPUT".to_string(),
            Some(sql) => {
                if sub == "lex" {
                    lex_one(&sql)
                } else if sub == "expr" {
                    expr_one(&sql)
                } else {
                    parse_one(&sql)
                }
            }
        };
        writeln!(out, "{}", json!({"id": id, "out": res})).unwrap();
        out.flush().unwrap();
    }
}
