//! Canonical rendering / parsing of scalar values and data types.
//!
//! Cells are rendered as tagged strings so that the python side never has to
//! interpret engine formatting:
//!   N                    NULL
//!   B0 / B1              boolean
//!   I<decimal>           any integer (width is in the column type)
//!   F<hex bits>          any float, raw bit pattern (16/32/64 bits by type)
//!   D<unscaled>/<p>/<s>  decimal
//!   T<days>              date32,  M<ms> date64, P<unit>:<v> timestamp
//!   V<months>/<days>/<nanos> interval
//!   S<utf8>              string, X<hex> binary
//!   O<display>           anything else

use glaredb_core::arrays::datatype::{DataType, DataTypeId, DecimalTypeMeta};
use glaredb_core::arrays::scalar::decimal::{Decimal64Scalar, Decimal128Scalar};
use glaredb_core::arrays::scalar::interval::Interval;
use glaredb_core::arrays::scalar::{BorrowedScalarValue, ScalarValue};
use half::f16;

pub fn render(v: &BorrowedScalarValue<'_>) -> String {
    use BorrowedScalarValue as V;
    match v {
        V::Null => "N".to_string(),
        V::Boolean(b) => format!("B{}", if *b { 1 } else { 0 }),
        V::Float16(f) => format!("F{:x}", f.to_bits()),
        V::Float32(f) => format!("F{:x}", f.to_bits()),
        V::Float64(f) => format!("F{:x}", f.to_bits()),
        V::Int8(i) => format!("I{i}"),
        V::Int16(i) => format!("I{i}"),
        V::Int32(i) => format!("I{i}"),
        V::Int64(i) => format!("I{i}"),
        V::Int128(i) => format!("I{i}"),
        V::UInt8(i) => format!("I{i}"),
        V::UInt16(i) => format!("I{i}"),
        V::UInt32(i) => format!("I{i}"),
        V::UInt64(i) => format!("I{i}"),
        V::UInt128(i) => format!("I{i}"),
        V::Decimal64(d) => format!("D{}/{}/{}", d.value, d.precision, d.scale),
        V::Decimal128(d) => format!("D{}/{}/{}", d.value, d.precision, d.scale),
        V::Date32(d) => format!("T{d}"),
        V::Date64(d) => format!("M{d}"),
        V::Timestamp(t) => format!("P{:?}:{}", t.unit, t.value),
        V::Interval(i) => format!("V{}/{}/{}", i.months, i.days, i.nanos),
        V::Utf8(s) => format!("S{s}"),
        V::Binary(b) => {
            let mut s = String::from("X");
            for x in b.iter() {
                s.push_str(&format!("{x:02x}"));
            }
            s
        }
        other => format!("O{other}"),
    }
}

pub fn type_name(dt: &DataType) -> String {
    format!("{dt}")
}

/// Parse a small type language: bool,i8..i128,u8..u128,f16,f32,f64,utf8,binary,
/// date32,interval,dec64(p,s),dec128(p,s)
pub fn parse_type(s: &str) -> Option<DataType> {
    let s = s.trim();
    Some(match s {
        "bool" => DataType::boolean(),
        "i8" => DataType::int8(),
        "i16" => DataType::int16(),
        "i32" => DataType::int32(),
        "i64" => DataType::int64(),
        "i128" => DataType::int128(),
        "u8" => DataType::uint8(),
        "u16" => DataType::uint16(),
        "u32" => DataType::uint32(),
        "u64" => DataType::uint64(),
        "u128" => DataType::uint128(),
        "f16" => DataType::float16(),
        "f32" => DataType::float32(),
        "f64" => DataType::float64(),
        "utf8" => DataType::utf8(),
        "binary" => DataType::binary(),
        "date32" => DataType::date32(),
        "interval" => DataType::interval(),
        _ => {
            let (name, rest) = s.split_once('(')?;
            let rest = rest.strip_suffix(')')?;
            let (p, sc) = rest.split_once(',')?;
            let p: u8 = p.trim().parse().ok()?;
            let sc: i8 = sc.trim().parse().ok()?;
            match name {
                "dec64" => DataType::decimal64(DecimalTypeMeta::new(p, sc)),
                "dec128" => DataType::decimal128(DecimalTypeMeta::new(p, sc)),
                _ => return None,
            }
        }
    })
}

/// Parse a tagged cell into a scalar of the given type.
pub fn parse_cell(dt: &DataType, s: &str) -> Option<ScalarValue> {
    if s == "N" {
        return Some(ScalarValue::Null);
    }
    let (tag, body) = s.split_at(1);
    Some(match (dt.id(), tag) {
        (DataTypeId::Boolean, "B") => ScalarValue::Boolean(body == "1"),
        (DataTypeId::Int8, "I") => ScalarValue::Int8(body.parse().ok()?),
        (DataTypeId::Int16, "I") => ScalarValue::Int16(body.parse().ok()?),
        (DataTypeId::Int32, "I") => ScalarValue::Int32(body.parse().ok()?),
        (DataTypeId::Int64, "I") => ScalarValue::Int64(body.parse().ok()?),
        (DataTypeId::Int128, "I") => ScalarValue::Int128(body.parse().ok()?),
        (DataTypeId::UInt8, "I") => ScalarValue::UInt8(body.parse().ok()?),
        (DataTypeId::UInt16, "I") => ScalarValue::UInt16(body.parse().ok()?),
        (DataTypeId::UInt32, "I") => ScalarValue::UInt32(body.parse().ok()?),
        (DataTypeId::UInt64, "I") => ScalarValue::UInt64(body.parse().ok()?),
        (DataTypeId::UInt128, "I") => ScalarValue::UInt128(body.parse().ok()?),
        (DataTypeId::Float16, "F") => {
            ScalarValue::Float16(f16::from_bits(u16::from_str_radix(body, 16).ok()?))
        }
        (DataTypeId::Float32, "F") => {
            ScalarValue::Float32(f32::from_bits(u32::from_str_radix(body, 16).ok()?))
        }
        (DataTypeId::Float64, "F") => {
            ScalarValue::Float64(f64::from_bits(u64::from_str_radix(body, 16).ok()?))
        }
        (DataTypeId::Date32, "T") => ScalarValue::Date32(body.parse().ok()?),
        (DataTypeId::Utf8, "S") => ScalarValue::Utf8(body.to_string().into()),
        (DataTypeId::Binary, "X") => {
            let mut out = Vec::new();
            let b = body.as_bytes();
            let mut i = 0;
            while i + 1 < b.len() {
                out.push(u8::from_str_radix(std::str::from_utf8(&b[i..i + 2]).ok()?, 16).ok()?);
                i += 2;
            }
            ScalarValue::Binary(out.into())
        }
        (DataTypeId::Interval, "V") => {
            let mut it = body.split('/');
            ScalarValue::Interval(Interval {
                months: it.next()?.parse().ok()?,
                days: it.next()?.parse().ok()?,
                nanos: it.next()?.parse().ok()?,
            })
        }
        (DataTypeId::Decimal64, "D") => {
            let mut it = body.split('/');
            ScalarValue::Decimal64(Decimal64Scalar {
                value: it.next()?.parse().ok()?,
                precision: it.next()?.parse().ok()?,
                scale: it.next()?.parse().ok()?,
            })
        }
        (DataTypeId::Decimal128, "D") => {
            let mut it = body.split('/');
            ScalarValue::Decimal128(Decimal128Scalar {
                value: it.next()?.parse().ok()?,
                precision: it.next()?.parse().ok()?,
                scale: it.next()?.parse().ok()?,
            })
        }
        _ => return None,
    })
}
