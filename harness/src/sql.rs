//! `gverif sql`: run statement scripts through the real engine.
//!
//! stdin: one JSON object per line:
//!   {"id": "...", "mode": "threaded"|"det", "threads": N, "partitions": P (det default partitions),
//!    "sched": {"kind": "fifo"|"lifo"|"random"|"starve_last", "seed": u64, "spurious": 0..100},
//!    "stmts": ["sql", ...], "cancel_after": optional step count (det only, applies to last stmt)}
//! stdout: one JSON object per line:
//!   {"id": "...", "results": [ {"ok":true,"schema":[[name,type]...],"rows":[[cell..]..],"batch_types":[..]}
//!                              | {"ok":false,"err":"first line"} | {"panic":"..."} | {"hang":"..."} ],
//!    "steps": n}
//! A fresh engine is created for every case.

use std::collections::VecDeque;
use std::future::Future;
use std::io::{BufRead, Write};
use std::panic::{AssertUnwindSafe, catch_unwind};
use std::sync::Arc;
use std::task::{Context, Poll, Wake, Waker};
use std::time::Duration;

use glaredb_core::arrays::batch::Batch;
use glaredb_core::engine::single_user::SingleUserEngine;
use glaredb_core::execution::partition_pipeline::ExecutablePartitionPipeline;
use glaredb_core::runtime::pipeline::{ErrorSink, PipelineRuntime, QueryHandle};
use glaredb_core::runtime::profile_buffer::{ProfileBuffer, ProfileSink};
use glaredb_core::runtime::time::RuntimeInstant;
use glaredb_ext_csv::extension::CsvExtension;
use glaredb_ext_parquet::extension::ParquetExtension;
use glaredb_rt_native::runtime::{
    NativeSystemRuntime,
    ThreadedNativeExecutor,
    new_tokio_runtime_for_io,
};
use parking_lot::Mutex;
use serde_json::{Value, json};

use crate::value;

#[derive(Debug, Clone, Copy)]
pub struct FakeInstant;
impl RuntimeInstant for FakeInstant {
    fn now() -> Self {
        FakeInstant
    }
    fn duration_since(&self, _e: Self) -> Duration {
        Duration::ZERO
    }
}

#[derive(Debug, Default)]
pub struct Sched {
    tasks: Vec<TaskSlot>,
    ready: VecDeque<usize>,
    pub log: Vec<String>,
    rng: u64,
    canceled: bool,
}

#[derive(Debug)]
struct TaskSlot {
    pipeline: Option<ExecutablePartitionPipeline>,
    sink: Option<ProfileSink>,
    errors: Arc<dyn ErrorSink>,
    done: bool,
    queued: bool,
    polls_after_done: usize,
}

#[derive(Debug, Clone, Default)]
pub struct DetRuntime {
    pub sched: Arc<Mutex<Sched>>,
    pub parts: usize,
}

struct TaskWaker {
    sched: Arc<Mutex<Sched>>,
    id: usize,
}

impl Wake for TaskWaker {
    fn wake(self: Arc<Self>) {
        self.wake_by_ref()
    }
    fn wake_by_ref(self: &Arc<Self>) {
        let mut s = self.sched.lock();
        let id = self.id;
        if id >= s.tasks.len() {
            return;
        }
        s.log.push(format!("w{id}"));
        if !s.tasks[id].done && !s.tasks[id].queued {
            s.tasks[id].queued = true;
            s.ready.push_back(id);
        }
    }
}

#[derive(Debug)]
struct Handle {
    profiles: ProfileBuffer,
    sched: Arc<Mutex<Sched>>,
}

impl QueryHandle for Handle {
    fn cancel(&self) {
        // Mirror the native runtime: mark cancelled, every task gets scheduled once more.
        let mut s = self.sched.lock();
        s.canceled = true;
        for id in 0..s.tasks.len() {
            if !s.tasks[id].done && !s.tasks[id].queued {
                s.tasks[id].queued = true;
                s.ready.push_back(id);
            }
        }
    }
    fn get_profile_buffer(&self) -> &ProfileBuffer {
        &self.profiles
    }
}

impl PipelineRuntime for DetRuntime {
    fn default_partitions(&self) -> usize {
        self.parts
    }
    fn spawn_pipelines(
        &self,
        pipelines: Vec<ExecutablePartitionPipeline>,
        errors: Arc<dyn ErrorSink>,
    ) -> Arc<dyn QueryHandle> {
        let (profiles, sinks) = ProfileBuffer::new(pipelines.len());
        let mut s = self.sched.lock();
        for (p, sink) in pipelines.into_iter().zip(sinks) {
            let id = s.tasks.len();
            s.tasks.push(TaskSlot {
                pipeline: Some(p),
                sink: Some(sink),
                errors: errors.clone(),
                done: false,
                queued: true,
                polls_after_done: 0,
            });
            s.ready.push_back(id);
        }
        Arc::new(Handle {
            profiles,
            sched: self.sched.clone(),
        })
    }
}

fn next_rand(state: &mut u64) -> u64 {
    // splitmix64
    *state = state.wrapping_add(0x9E3779B97F4A7C15);
    let mut z = *state;
    z = (z ^ (z >> 30)).wrapping_mul(0xBF58476D1CE4E5B9);
    z = (z ^ (z >> 27)).wrapping_mul(0x94D049BB133111EB);
    z ^ (z >> 31)
}

#[derive(Clone, Debug)]
pub struct Policy {
    pub kind: String,
    pub spurious: u64,
}

impl DetRuntime {
    pub fn reset(&self, seed: u64) {
        let mut s = self.sched.lock();
        s.tasks.clear();
        s.ready.clear();
        s.log.clear();
        s.rng = seed;
        s.canceled = false;
    }

    /// Run one scheduling step. Returns false if nothing is runnable.
    pub fn step(&self, pol: &Policy) -> bool {
        let (id, mut pipeline, canceled) = {
            let mut s = self.sched.lock();
            let n = s.ready.len();
            let mut chosen: Option<usize> = None;
            // spurious poll of a parked, unfinished task
            if pol.spurious > 0 {
                let r = next_rand(&mut s.rng) % 100;
                if r < pol.spurious {
                    let parked: Vec<usize> = (0..s.tasks.len())
                        .filter(|&i| {
                            !s.tasks[i].done && !s.tasks[i].queued && s.tasks[i].pipeline.is_some()
                        })
                        .collect();
                    if !parked.is_empty() {
                        let k = (next_rand(&mut s.rng) as usize) % parked.len();
                        chosen = Some(parked[k]);
                        s.log.push(format!("s{}", parked[k]));
                    }
                }
            }
            let id = match chosen {
                Some(id) => id,
                None => {
                    if n == 0 {
                        return false;
                    }
                    let pos = match pol.kind.as_str() {
                        "fifo" => 0,
                        "lifo" => n - 1,
                        "random" => (next_rand(&mut s.rng) as usize) % n,
                        // Prefer the lowest task ids; the highest-numbered ready task runs
                        // only when nothing else is ready.
                        "starve_last" => {
                            let mut best = 0;
                            for i in 0..n {
                                if s.ready[i] < s.ready[best] {
                                    best = i;
                                }
                            }
                            best
                        }
                        "starve_first" => {
                            let mut best = 0;
                            for i in 0..n {
                                if s.ready[i] > s.ready[best] {
                                    best = i;
                                }
                            }
                            best
                        }
                        _ => 0,
                    };
                    let id = s.ready.remove(pos).unwrap();
                    s.tasks[id].queued = false;
                    id
                }
            };
            let p = s.tasks[id].pipeline.take().unwrap();
            (id, p, s.canceled)
        };
        if canceled {
            let mut s = self.sched.lock();
            s.tasks[id]
                .errors
                .set_error(glaredb_error::DbError::new("Query canceled"));
            s.tasks[id].done = true;
            s.tasks[id].pipeline = Some(pipeline);
            s.log.push(format!("c{id}"));
            return true;
        }
        let waker: Waker = Arc::new(TaskWaker {
            sched: self.sched.clone(),
            id,
        })
        .into();
        let mut cx = Context::from_waker(&waker);
        let res = pipeline.poll_execute::<FakeInstant>(&mut cx);
        let mut s = self.sched.lock();
        match res {
            Poll::Ready(Ok(prof)) => {
                s.log.push(format!("p{id}D"));
                s.tasks[id].done = true;
                if let Some(k) = s.tasks[id].sink.take() {
                    k.put(prof);
                }
            }
            Poll::Ready(Err(e)) => {
                s.log.push(format!("p{id}E"));
                s.tasks[id].errors.set_error(e);
                s.tasks[id].done = true;
            }
            Poll::Pending => {
                s.log.push(format!("p{id}P"));
            }
        }
        s.tasks[id].pipeline = Some(pipeline);
        true
    }

    pub fn unfinished(&self) -> usize {
        let s = self.sched.lock();
        s.tasks.iter().filter(|t| !t.done).count()
    }
}

fn full_err(e: &glaredb_error::DbError) -> String {
    let s = e.to_string();
    let mut t: String = s.chars().take(600).collect();
    t = t.replace('\n', " | ");
    t
}

pub fn first_line(e: &dyn std::fmt::Display) -> String {
    let s = e.to_string();
    s.lines().next().unwrap_or("").to_string()
}

pub fn batches_to_json(schema: &glaredb_core::arrays::field::ColumnSchema, batches: &[Batch]) -> Value {
    let sch: Vec<Value> = schema
        .fields
        .iter()
        .map(|f| json!([f.name, value::type_name(&f.datatype)]))
        .collect();
    let mut rows: Vec<Value> = Vec::new();
    let mut batch_types: Vec<Value> = Vec::new();
    let mut batch_sizes: Vec<Value> = Vec::new();
    let mut err: Option<String> = None;
    for b in batches {
        let tys: Vec<String> = b.arrays().iter().map(|a| value::type_name(a.datatype())).collect();
        let tv = json!(tys);
        if !batch_types.contains(&tv) {
            batch_types.push(tv);
        }
        batch_sizes.push(json!(b.num_rows()));
        for r in 0..b.num_rows() {
            let mut row: Vec<Value> = Vec::with_capacity(b.arrays().len());
            for a in b.arrays() {
                match a.get_value(r) {
                    Ok(v) => {
                        // value variant must agree with the array datatype
                        let vt = v.datatype();
                        if !matches!(v, glaredb_core::arrays::scalar::BorrowedScalarValue::Null)
                            && &vt != a.datatype()
                        {
                            err = Some(format!(
                                "value type {} differs from array type {}",
                                vt,
                                a.datatype()
                            ));
                        }
                        row.push(json!(value::render(&v)))
                    }
                    Err(e) => {
                        err = Some(first_line(&e));
                        row.push(json!("N"))
                    }
                }
            }
            rows.push(json!(row));
        }
    }
    let mut out = json!({"ok": true, "schema": sch, "rows": rows, "batch_types": batch_types, "batch_sizes": batch_sizes});
    if let Some(e) = err {
        out["value_err"] = json!(e);
    }
    out
}

fn panic_msg(p: Box<dyn std::any::Any + Send>) -> String {
    if let Some(s) = p.downcast_ref::<&str>() {
        s.to_string()
    } else if let Some(s) = p.downcast_ref::<String>() {
        s.clone()
    } else {
        "panic".to_string()
    }
}

fn run_case_threaded(case: &Value, tokio_rt: &tokio::runtime::Runtime) -> Value {
    let threads = case["threads"].as_u64().unwrap_or(4) as usize;
    let exec = ThreadedNativeExecutor::try_new_with_num_threads(threads).unwrap();
    let sys = NativeSystemRuntime::new(tokio_rt.handle().clone());
    let engine = SingleUserEngine::try_new(exec, sys).unwrap();
    engine.register_extension(CsvExtension).unwrap();
    engine.register_extension(ParquetExtension).unwrap();
    let mut results = Vec::new();
    for stmt in case["stmts"].as_array().unwrap() {
        let sql = stmt.as_str().unwrap();
        let r = catch_unwind(AssertUnwindSafe(|| {
            tokio_rt.block_on(async {
                match engine.session().query(sql).await {
                    Err(e) => json!({"ok": false, "err": first_line(&e), "err_full": full_err(&e), "phase": "plan"}),
                    Ok(mut res) => match res.output.collect().await {
                        Err(e) => json!({"ok": false, "err": first_line(&e), "err_full": full_err(&e), "phase": "exec"}),
                        Ok(bs) => batches_to_json(&res.output_schema, &bs),
                    },
                }
            })
        }));
        match r {
            Ok(v) => results.push(v),
            Err(p) => {
                results.push(json!({"panic": panic_msg(p)}));
                break;
            }
        }
    }
    json!({"id": case["id"], "results": results})
}

fn run_case_det(case: &Value, tokio_rt: &tokio::runtime::Runtime) -> Value {
    let parts = case["partitions"].as_u64().unwrap_or(4) as usize;
    let sched = &case["sched"];
    let pol = Policy {
        kind: sched["kind"].as_str().unwrap_or("fifo").to_string(),
        spurious: sched["spurious"].as_u64().unwrap_or(0),
    };
    let seed = sched["seed"].as_u64().unwrap_or(1);
    let want_log = case["log"].as_bool().unwrap_or(false);
    let rt = DetRuntime {
        sched: Default::default(),
        parts,
    };
    let sys = NativeSystemRuntime::new(tokio_rt.handle().clone());
    let engine = SingleUserEngine::try_new(rt.clone(), sys).unwrap();
    engine.register_extension(CsvExtension).unwrap();
    engine.register_extension(ParquetExtension).unwrap();
    let stmts = case["stmts"].as_array().unwrap();
    let cancel_after = case["cancel_after"].as_u64();
    let mut results = Vec::new();
    let mut total_steps = 0usize;
    for (si, stmt) in stmts.iter().enumerate() {
        let sql = stmt.as_str().unwrap();
        rt.reset(seed.wrapping_add(si as u64));
        let is_last = si + 1 == stmts.len();
        let r = catch_unwind(AssertUnwindSafe(|| {
            let mut res = match tokio_rt.block_on(engine.session().query(sql)) {
                Ok(r) => r,
                Err(e) => return json!({"ok": false, "err": first_line(&e), "err_full": full_err(&e), "phase": "plan"}),
            };
            let noop = futures::task::noop_waker();
            let mut cx = Context::from_waker(&noop);
            let handle = res.output.query_handle();
            let schema = res.output_schema.clone();
            let mut steps = 0usize;
            let mut out: Value;
            {
                let mut fut = Box::pin(res.output.collect());
                loop {
                    match fut.as_mut().poll(&mut cx) {
                        Poll::Ready(Ok(bs)) => {
                            out = batches_to_json(&schema, &bs);
                            break;
                        }
                        Poll::Ready(Err(e)) => {
                            out = json!({"ok": false, "err": first_line(&e), "err_full": full_err(&e), "phase": "exec"});
                            break;
                        }
                        Poll::Pending => {}
                    }
                    if is_last && cancel_after == Some(steps as u64) {
                        handle.cancel();
                    }
                    if !rt.step(&pol) {
                        out = json!({"hang": format!("all tasks parked, none woken, stream unfinished after {steps} steps; unfinished tasks={}", rt.unfinished())});
                        break;
                    }
                    steps += 1;
                    if steps > 5_000_000 {
                        out = json!({"hang": "step limit exceeded"});
                        break;
                    }
                }
            }
            // drain leftovers: tasks still runnable after the stream finished
            let mut extra = 0usize;
            while rt.step(&pol) {
                extra += 1;
                if extra > 1_000_000 {
                    break;
                }
            }
            out["steps"] = json!(steps);
            out["extra_steps"] = json!(extra);
            out["unfinished"] = json!(rt.unfinished());
            out
        }));
        match r {
            Ok(mut v) => {
                total_steps += v["steps"].as_u64().unwrap_or(0) as usize;
                if want_log && is_last {
                    let s = rt.sched.lock();
                    v["log"] = json!(s.log.join(" "));
                }
                let stop = v.get("hang").is_some();
                results.push(v);
                if stop {
                    break;
                }
            }
            Err(p) => {
                results.push(json!({"panic": panic_msg(p)}));
                break;
            }
        }
    }
    json!({"id": case["id"], "results": results, "steps": total_steps})
}

pub fn main_sql() {
    let tokio_rt = new_tokio_runtime_for_io().unwrap();
    let stdin = std::io::stdin();
    let stdout = std::io::stdout();
    for line in stdin.lock().lines() {
        let line = line.unwrap();
        if line.trim().is_empty() {
            continue;
        }
        let case: Value = match serde_json::from_str(&line) {
            Ok(v) => v,
            Err(e) => {
                println!("{}", json!({"id": null, "bad_input": e.to_string()}));
                continue;
            }
        };
        // Watchdog: if a case takes longer than its limit, report and exit(3); the driver
        // restarts after the offending case.
        let limit = case["timeout_s"].as_u64().unwrap_or(60);
        let done = Arc::new(std::sync::atomic::AtomicBool::new(false));
        {
            let done = done.clone();
            let id = case["id"].clone();
            std::thread::spawn(move || {
                let start = std::time::Instant::now();
                while start.elapsed() < Duration::from_secs(limit) {
                    std::thread::sleep(Duration::from_millis(50));
                    if done.load(std::sync::atomic::Ordering::SeqCst) {
                        return;
                    }
                }
                if !done.load(std::sync::atomic::Ordering::SeqCst) {
                    let so = std::io::stdout();
                    let mut l = so.lock();
                    let _ = writeln!(l, "{}", json!({"id": id, "timeout": limit}));
                    let _ = l.flush();
                    std::process::exit(3);
                }
            });
        }
        let mode = case["mode"].as_str().unwrap_or("threaded");
        let out = if mode == "det" {
            run_case_det(&case, &tokio_rt)
        } else {
            run_case_threaded(&case, &tokio_rt)
        };
        done.store(true, std::sync::atomic::Ordering::SeqCst);
        let mut l = stdout.lock();
        writeln!(l, "{}", out).unwrap();
        l.flush().unwrap();
    }
}
