//! `gverif sortkey`: encode sort keys with the real `SortLayout` (hook `verif_encode_keys`).
//!
//! stdin lines: {"id":..,"cols":[{"type":"i16","desc":bool,"nulls_first":bool,
//!                                  "values":[cell,..] | "all16": true}]}
//! ("all16": every 16-bit pattern 0..65535 interpreted in the column type, only for 16-bit types,
//!  or 8-bit types with "all8")
//! stdout lines: {"id":..,"row_width":n,"compare_width":m,"rows":["hex of compare bytes",...]}

use std::io::{BufRead, Write};

use glaredb_core::arrays::array::Array;
use glaredb_core::arrays::datatype::DataTypeId;
use glaredb_core::arrays::scalar::ScalarValue;
use glaredb_core::arrays::sort::sort_layout::{SortColumn, SortLayout};
use glaredb_core::buffer::buffer_manager::DefaultBufferManager;
use half::f16;
use serde_json::{Value, json};

use gverif::value;

fn all_values(id: DataTypeId, bits: u32) -> Option<Vec<ScalarValue>> {
    let n: u32 = 1 << bits;
    let mut out = Vec::with_capacity(n as usize);
    for i in 0..n {
        let v = match (id, bits) {
            (DataTypeId::Int16, 16) => ScalarValue::Int16(i as u16 as i16),
            (DataTypeId::UInt16, 16) => ScalarValue::UInt16(i as u16),
            (DataTypeId::Float16, 16) => ScalarValue::Float16(f16::from_bits(i as u16)),
            (DataTypeId::Int8, 8) => ScalarValue::Int8(i as u8 as i8),
            (DataTypeId::UInt8, 8) => ScalarValue::UInt8(i as u8),
            _ => return None,
        };
        out.push(v);
    }
    Some(out)
}

fn run(case: &Value) -> Result<Value, String> {
    let cols = case["cols"].as_array().ok_or("cols")?;
    let mut sort_cols = Vec::new();
    let mut arrays = Vec::new();
    let mut num_rows: Option<usize> = None;
    for c in cols {
        let dt = value::parse_type(c["type"].as_str().ok_or("type")?).ok_or("bad type")?;
        let vals: Vec<ScalarValue> = if c["all16"].as_bool().unwrap_or(false) {
            all_values(dt.id(), 16).ok_or("all16 unsupported for type")?
        } else if c["all8"].as_bool().unwrap_or(false) {
            all_values(dt.id(), 8).ok_or("all8 unsupported for type")?
        } else {
            let mut v = Vec::new();
            for cell in c["values"].as_array().ok_or("values")? {
                v.push(value::parse_cell(&dt, cell.as_str().ok_or("cell")?).ok_or_else(|| format!("bad cell {cell}"))?);
            }
            v
        };
        match num_rows {
            None => num_rows = Some(vals.len()),
            Some(n) if n != vals.len() => return Err("ragged columns".into()),
            _ => {}
        }
        let mut arr = Array::new(&DefaultBufferManager, dt.clone(), vals.len().max(1)).map_err(|e| e.to_string())?;
        for (i, v) in vals.iter().enumerate() {
            arr.set_value(i, v).map_err(|e| e.to_string())?;
        }
        arrays.push(arr);
        sort_cols.push(SortColumn {
            desc: c["desc"].as_bool().unwrap_or(false),
            nulls_first: c["nulls_first"].as_bool().unwrap_or(false),
            datatype: dt,
        });
    }
    let n = num_rows.unwrap_or(0);
    let layout = SortLayout::try_new(sort_cols).map_err(|e| e.to_string())?;
    let buf = layout.verif_encode_keys(&arrays, n).map_err(|e| e.to_string())?;
    let rw = layout.verif_row_width();
    let cw = layout.verif_compare_width();
    let mut rows = Vec::with_capacity(n);
    for r in 0..n {
        let mut s = String::with_capacity(cw * 2);
        for b in &buf[r * rw..r * rw + cw] {
            s.push_str(&format!("{b:02x}"));
        }
        rows.push(s);
    }
    Ok(json!({"id": case["id"], "row_width": rw, "compare_width": cw, "rows": rows}))
}

pub fn main_sortkey() {
    let stdin = std::io::stdin();
    let stdout = std::io::stdout();
    for line in stdin.lock().lines() {
        let line = line.unwrap();
        if line.trim().is_empty() {
            continue;
        }
        let case: Value = serde_json::from_str(&line).unwrap();
        let out = match std::panic::catch_unwind(|| run(&case)) {
            Ok(Ok(v)) => v,
            Ok(Err(e)) => json!({"id": case["id"], "err": e}),
            Err(_) => json!({"id": case["id"], "panic": true}),
        };
        let mut l = stdout.lock();
        writeln!(l, "{}", out).unwrap();
        l.flush().unwrap();
    }
}
