(* C12 — Integer and decimal arithmetic is exact or fails; never wraps or crashes.
   Property statements only: each is closed by `exact <lemma>` from proofs/ and pinned with
   Print Assumptions.  Source constants come from gen/TablesArith.v (regenerated on every run).
   model/Arith.v, model/Decimal.v transcribe what the source computes; `style` Native = the native
   Rust operator (what every operator file uses today), Checked = a checked_* implementation. *)
From Coq Require Import ZArith List Bool.
From GV Require Import model.Arith model.Decimal proofs.ArithProofs proofs.DecimalProofs gen.TablesArith.
Import ListNotations.
Open Scope Z_scope.

(* ---- 0. HEADLINE, about the current source (every operator file uses checked arithmetic: scanned flags
        *_native = Some 0; a revert to the native operators makes these stop checking):
        impl = spec for EVERY build mode, width, signedness, operator and operand pair: the exact value
        when it is representable, an error otherwise (overflow, division by zero, MIN / -1); MIN % -1 = 0.
        Never a wrapped value, never a panic. *)
Theorem C12_never_wraps_never_panics :
  add_native = Some 0 /\ sub_native = Some 0 /\ mul_native = Some 0 /\ div_native = Some 0 /\ rem_native = Some 0 /\
  rem_checked_min_neg1_is_zero = Some 1 /\
  forall m sg w op a b, 0 < w -> in_range sg w a = true -> in_range sg w b = true ->
  impl_bin Checked m sg w op a b = spec_bin sg w op a b.
Proof. exact src_never_wraps_never_panics. Qed.
Print Assumptions C12_never_wraps_never_panics.

Theorem C12_neg_never_wraps_never_panics :
  neg_native = Some 0 /\ forall m w a, impl_neg Checked m w a = spec_neg w a.
Proof. exact src_neg_never_wraps_never_panics. Qed.
Print Assumptions C12_neg_never_wraps_never_panics.

Theorem C12_checked_min_rem_neg1 : forall m w, 0 < w -> impl_bin Checked m Signed w Rem (lo Signed w) (-1) = Ok 0.
Proof. exact checked_min_rem_neg1. Qed.
Print Assumptions C12_checked_min_rem_neg1.

(* ---- 1. exact whenever the mathematical result is representable: every operator, width,
        signedness, style and build mode; values unbounded (the wrap is `mod 2^w`).
        Full statement (without the last hypothesis) is refuted by MIN % -1, see 2. *)
Theorem C12_impl_exact_when_representable_partial : forall st m sg w op a b x, 0 < w ->
  exact_bin op a b = Some x -> representable sg w x -> ~ rem_min_neg1 sg w op a b ->
  impl_bin st m sg w op a b = Ok x.
Proof. exact impl_exact_when_representable_partial. Qed.
Print Assumptions C12_impl_exact_when_representable_partial.

Theorem C12_impl_exact_when_representable_refuted : exists st m sg w op a b x, 0 < w /\
  in_range sg w a = true /\ in_range sg w b = true /\
  exact_bin op a b = Some x /\ representable sg w x /\ impl_bin st m sg w op a b <> Ok x.
Proof. exact impl_exact_when_representable_refuted. Qed.
Print Assumptions C12_impl_exact_when_representable_refuted.

Theorem C12_impl_neg_exact_when_representable : forall st m w a, 0 < w -> representable Signed w (- a) ->
  impl_neg st m w a = Ok (- a).
Proof. exact impl_neg_exact_when_representable. Qed.
Print Assumptions C12_impl_neg_exact_when_representable.

(* ---- 2. the Native variant (the source before "fix: integer and decimal arithmetic must fail with an error
        instead of panicking or wrapping"): what a regression looks like.  never_wraps_never_panics is
        REFUTED for it; the witnesses: *)
Theorem C12_never_wraps_never_panics_refuted_add_debug :
  in_range Signed 8 127 = true /\ in_range Signed 8 1 = true /\
  impl_bin Native Debug Signed 8 Add 127 1 = Panic /\ spec_bin Signed 8 Add 127 1 = Err.
Proof. exact never_wraps_never_panics_refuted_add_debug. Qed.
Print Assumptions C12_never_wraps_never_panics_refuted_add_debug.

Theorem C12_never_wraps_never_panics_refuted_add_release :
  impl_bin Native Release Signed 8 Add 127 1 = Ok (-128) /\ spec_bin Signed 8 Add 127 1 = Err.
Proof. exact never_wraps_never_panics_refuted_add_release. Qed.
Print Assumptions C12_never_wraps_never_panics_refuted_add_release.

Theorem C12_never_wraps_never_panics_refuted_div0 : forall m,
  impl_bin Native m Signed 32 Div 5 0 = Panic /\ spec_bin Signed 32 Div 5 0 = Err /\
  impl_bin Native m Signed 32 Rem 5 0 = Panic /\ spec_bin Signed 32 Rem 5 0 = Err.
Proof. exact never_wraps_never_panics_refuted_div0. Qed.
Print Assumptions C12_never_wraps_never_panics_refuted_div0.

Theorem C12_never_wraps_never_panics_refuted_min_div_neg1 : forall m,
  impl_bin Native m Signed 64 Div (- 2 ^ 63) (-1) = Panic /\ spec_bin Signed 64 Div (- 2 ^ 63) (-1) = Err.
Proof. exact never_wraps_never_panics_refuted_min_div_neg1. Qed.
Print Assumptions C12_never_wraps_never_panics_refuted_min_div_neg1.

Theorem C12_never_wraps_never_panics_refuted_min_rem_neg1 : forall m,
  impl_bin Native m Signed 64 Rem (- 2 ^ 63) (-1) = Panic /\ spec_bin Signed 64 Rem (- 2 ^ 63) (-1) = Ok 0.
Proof. exact never_wraps_never_panics_refuted_min_rem_neg1. Qed.
Print Assumptions C12_never_wraps_never_panics_refuted_min_rem_neg1.

Theorem C12_never_wraps_never_panics_refuted_neg_min :
  impl_neg Native Debug 8 (-128) = Panic /\ impl_neg Native Release 8 (-128) = Ok (-128) /\
  spec_neg 8 (-128) = Err.
Proof. exact never_wraps_never_panics_refuted_neg_min. Qed.
Print Assumptions C12_never_wraps_never_panics_refuted_neg_min.

Theorem C12_never_wraps_never_panics_refuted_unsigned_sub :
  impl_bin Native Debug Unsigned 8 Sub 0 1 = Panic /\ impl_bin Native Release Unsigned 8 Sub 0 1 = Ok 255 /\
  spec_bin Unsigned 8 Sub 0 1 = Err.
Proof. exact never_wraps_never_panics_refuted_unsigned_sub. Qed.
Print Assumptions C12_never_wraps_never_panics_refuted_unsigned_sub.

(* ... proved outside KnownClass_C12 := (result unrepresentable \/ divisor 0) \/ MIN % -1 *)
Theorem C12_never_wraps_never_panics_outside_class : forall st m sg w op a b, 0 < w ->
  ~ KnownClass_C12 sg w op a b -> impl_bin st m sg w op a b = spec_bin sg w op a b.
Proof. exact never_wraps_never_panics_outside_class. Qed.
Print Assumptions C12_never_wraps_never_panics_outside_class.

(* ... and inside the class the native operators deviate on EVERY pair (the class is exact) *)
Theorem C12_native_deviates_inside_class : forall m sg w op a b, 0 < w ->
  in_range sg w a = true -> in_range sg w b = true ->
  unrepresentable_or_div0 sg w op a b -> impl_bin Native m sg w op a b <> spec_bin sg w op a b.
Proof. exact native_deviates_inside_class. Qed.
Print Assumptions C12_native_deviates_inside_class.

(* a wrapped value is never the right value *)
Theorem C12_wrap_wrong_when_unrepresentable : forall sg w x, 0 < w -> in_range sg w x = false -> wrap sg w x <> x.
Proof. exact wrap_wrong_when_unrepresentable. Qed.
Print Assumptions C12_wrap_wrong_when_unrepresentable.

(* ---- 3. decimal result types: for EVERY (p1,s1),(p2,s2) the unclamped type holds the result *)
Theorem C12_add_sub_type_fits : forall P k p1 s1 p2 s2 p' s' a b (sub : bool),
  0 <= s1 <= p1 -> 0 <= s2 <= p2 ->
  add_sub_type P k p1 s1 p2 s2 = (p', s', false) ->
  Z.abs a < 10 ^ p1 -> Z.abs b < 10 ^ p2 ->
  s1 <= s' /\ s2 <= s' /\
  Z.abs (if sub then a * 10 ^ (s' - s1) - b * 10 ^ (s' - s2) else a * 10 ^ (s' - s1) + b * 10 ^ (s' - s2)) < 10 ^ p'.
Proof. exact add_sub_type_fits. Qed.
Print Assumptions C12_add_sub_type_fits.

Theorem C12_mul_type_fits : forall P k p1 s1 p2 s2 p' s' a b,
  0 <= p1 -> 0 <= p2 ->
  mul_type P k p1 s1 p2 s2 = Some (p', s', false) ->
  Z.abs a < 10 ^ p1 -> Z.abs b < 10 ^ p2 ->
  s' = s1 + s2 /\ Z.abs (a * b) < 10 ^ p'.
Proof. exact mul_type_fits. Qed.
Print Assumptions C12_mul_type_fits.

(* with the MAX_PRECISION constants of the current source (10^18 < 2^63, 10^38 < 2^127): decimal +,-,*
   are exact in every style and mode whenever the precision was not clamped *)
Theorem C12_src_max_precision_fits_primitive : exists k64 k128,
  d64_max_precision = Some k64 /\ d128_max_precision = Some k128 /\
  forall pw dv rv, params_ok {| max64 := k64; max128 := k128; pow_i32 := pw; d2d_validates := dv; res_validates := rv |}.
Proof. exact src_params_ok. Qed.
Print Assumptions C12_src_max_precision_fits_primitive.

Theorem C12_dec_addsub_exact_when_not_clamped : exists k64 k128,
  d64_max_precision = Some k64 /\ d128_max_precision = Some k128 /\
  forall pw dv rv st m k sub p1 s1 a p2 s2 b p' s',
  let P := {| max64 := k64; max128 := k128; pow_i32 := pw; d2d_validates := dv; res_validates := rv |} in
  0 <= s1 <= p1 -> 0 <= s2 <= p2 -> Z.abs a < 10 ^ p1 -> Z.abs b < 10 ^ p2 ->
  add_sub_type P k p1 s1 p2 s2 = (p', s', false) ->
  dec_addsub P st m k sub (ODec p1 s1 a) (ODec p2 s2 b)
  = ((p', s', false), Ok (exact_addsub s' sub (ODec p1 s1 a) (ODec p2 s2 b)))
  /\ spec_addsub P k sub (ODec p1 s1 a) (ODec p2 s2 b) = Ok (exact_addsub s' sub (ODec p1 s1 a) (ODec p2 s2 b)).
Proof. exact src_dec_addsub_exact. Qed.
Print Assumptions C12_dec_addsub_exact_when_not_clamped.

Theorem C12_dec_mul_exact_when_not_clamped : exists k64 k128,
  d64_max_precision = Some k64 /\ d128_max_precision = Some k128 /\
  forall pw dv rv st m k p1 s1 a p2 s2 b p' s',
  let P := {| max64 := k64; max128 := k128; pow_i32 := pw; d2d_validates := dv; res_validates := rv |} in
  0 <= p1 -> 0 <= p2 -> Z.abs a < 10 ^ p1 -> Z.abs b < 10 ^ p2 ->
  mul_type P k p1 s1 p2 s2 = Some (p', s', false) ->
  dec_mul P st m k (ODec p1 s1 a) (ODec p2 s2 b) = Some ((p', s', false), Ok (a * b))
  /\ spec_mul P k (ODec p1 s1 a) (ODec p2 s2 b) = Some (Ok (a * b)).
Proof. exact src_dec_mul_exact. Qed.
Print Assumptions C12_dec_mul_exact_when_not_clamped.

Theorem C12_src_int_decimal_meta :
  int8_dec_precision = Some (int_meta_prec 8) /\ int16_dec_precision = Some (int_meta_prec 16) /\
  int32_dec_precision = Some (int_meta_prec 32) /\ int64_dec_precision = Some (int_meta_prec 64).
Proof. exact src_int_meta. Qed.
Print Assumptions C12_src_int_decimal_meta.

Theorem C12_int_meta_covers : forall w v, In w [8; 16; 32; 64] -> in_range Signed w v = true ->
  Z.abs v < 10 ^ int_meta_prec w.
Proof. exact int_meta_covers. Qed.
Print Assumptions C12_int_meta_covers.

(* FULL strength about the current source, for EVERY (p1,s1),(p2,s2) -- clamped or not -- every style and
   mode: decimal + / - gives exactly the spec's outcome (the exact value when it has at most p' digits,
   else an error), or -- only when the precision was clamped -- an error because an operand does not fit
   the common type.  Never a wrong value, never too many digits, never a panic. *)
Theorem C12_dec_addsub_meets_spec_or_cast_error : exists k64 k128,
  d64_max_precision = Some k64 /\ d128_max_precision = Some k128 /\
  decimal_to_decimal_validates = Some 1 /\ dec_add_validates = Some 1 /\ dec_sub_validates = Some 1 /\
  forall pw st m k sub p1 s1 a p2 s2 b ty r,
  let P := {| max64 := k64; max128 := k128; pow_i32 := pw; d2d_validates := true; res_validates := true |} in
  0 <= s1 <= p1 -> 0 <= s2 <= p2 -> Z.abs a < 10 ^ p1 -> Z.abs b < 10 ^ p2 ->
  dec_addsub P st m k sub (ODec p1 s1 a) (ODec p2 s2 b) = (ty, r) ->
  r = spec_addsub P k sub (ODec p1 s1 a) (ODec p2 s2 b) \/ (r = Err /\ snd ty = true).
Proof. exact src_dec_addsub_meets_spec. Qed.
Print Assumptions C12_dec_addsub_meets_spec_or_cast_error.

(* decimal *: exactly the spec, every precision pair *)
Theorem C12_dec_mul_meets_spec : exists k64 k128,
  d64_max_precision = Some k64 /\ d128_max_precision = Some k128 /\ dec_mul_validates = Some 1 /\
  forall pw dv st m k p1 s1 a p2 s2 b ty r,
  let P := {| max64 := k64; max128 := k128; pow_i32 := pw; d2d_validates := dv; res_validates := true |} in
  0 <= p1 -> 0 <= p2 ->
  dec_mul P st m k (ODec p1 s1 a) (ODec p2 s2 b) = Some (ty, r) ->
  spec_mul P k (ODec p1 s1 a) (ODec p2 s2 b) = Some r.
Proof. exact src_dec_mul_meets_spec. Qed.
Print Assumptions C12_dec_mul_meets_spec.

(* the strict statement (r = spec always) is refuted only on the error side and only for clamped
   precisions: the exact 0.5 fits decimal(18,18) but the operand 1 does not *)
Theorem C12_dec_add_clamped_cast_error_though_representable : forall m,
  dec_addsub P0 Checked m D64 false (ODec 18 0 1) (ODec 18 18 (-500000000000000000)) = ((18, 18, true), Err)
  /\ spec_addsub P0 D64 false (ODec 18 0 1) (ODec 18 18 (-500000000000000000)) = Ok 500000000000000000.
Proof. exact dec_add_clamped_cast_error_though_representable. Qed.
Print Assumptions C12_dec_add_clamped_cast_error_though_representable.

(* the former witnesses (19 digits in decimal(18,0); product panicking / wrapping; i32 scale factor) *)
Theorem C12_dec_clamped_now_error : forall m,
  dec_addsub P0 Checked m D64 false (ODec 18 0 999999999999999999) (ODec 18 0 1) = ((18, 0, true), Err)
  /\ spec_addsub P0 D64 false (ODec 18 0 999999999999999999) (ODec 18 0 1) = Err
  /\ dec_mul P0 Checked m D64 (ODec 9 0 500000000) (ODec 10 0 9999999999) = Some ((18, 0, true), Err)
  /\ dec_mul P0 Checked m D64 (ODec 10 0 9999999999) (ODec 10 0 9999999999) = Some ((18, 0, true), Err)
  /\ spec_mul P0 D64 (ODec 10 0 9999999999) (ODec 10 0 9999999999) = Some Err.
Proof. exact dec_clamped_now_error. Qed.
Print Assumptions C12_dec_clamped_now_error.

Theorem C12_int_to_decimal_scale_exact_now : forall m,
  dec_addsub P0 Checked m D64 false (ODec 12 10 15000000000) (OInt 8 1) = ((14, 10, false), Ok 25000000000)
  /\ spec_addsub P0 D64 false (ODec 12 10 15000000000) (OInt 8 1) = Ok 25000000000.
Proof. exact int_to_decimal_scale_exact_now. Qed.
Print Assumptions C12_int_to_decimal_scale_exact_now.

Theorem C12_refutation_params_are_source : d64_max_precision = Some (max64 P0) /\ d128_max_precision = Some (max128 P0) /\
  int_to_decimal_pow_i32 = Some (if pow_i32 P0 then 1 else 0) /\
  decimal_to_decimal_validates = Some (if d2d_validates P0 then 1 else 0) /\
  dec_add_validates = Some (if res_validates P0 then 1 else 0).
Proof. exact src_P0. Qed.
Print Assumptions C12_refutation_params_are_source.

(* round(decimal, n): nearest, ties away from zero *)
Theorem C12_dec_round_half_away : forall kd v k q, 0 < k -> dec_round kd v k = Ok q ->
  2 * Z.abs (q * 10 ^ k - v) <= 10 ^ k /\
  (2 * Z.abs (q * 10 ^ k - v) = 10 ^ k -> Z.abs v < Z.abs (q * 10 ^ k)).
Proof. exact dec_round_half_away. Qed.
Print Assumptions C12_dec_round_half_away.

(* ---- 4. SUM / AVG *)
(* the source as repaired: an overflowing checked_add fails the statement *)
Theorem C12_src_sum_fails_on_overflow : sum_resets_on_overflow = Some 0.
Proof. exact src_sum_fails_on_overflow. Qed.
Print Assumptions C12_src_sum_fails_on_overflow.

(* sum_int_exact_or_error, full strength: for EVERY split of the rows into partitions (any merge
   order is again such a split) SUM is an error or exactly the spec's answer -- the exact total, then
   representable, or NULL without rows.  Never a wrong value, never a panic. *)
Theorem C12_sum_exact_or_error_never_wrong : forall w parts, 0 < w ->
  sum_impl w parts = Err \/
  (sum_impl w parts = sum_spec w parts /\
   sum_impl w parts = Ok (if all_empty parts then None else Some (sum_exact parts))).
Proof. exact sum_exact_or_error_never_wrong. Qed.
Print Assumptions C12_sum_exact_or_error_never_wrong.

Theorem C12_sum_unrepresentable_is_error : forall w parts, 0 < w -> sum_spec w parts = Err -> sum_impl w parts = Err.
Proof. exact sum_unrepresentable_is_error. Qed.
Print Assumptions C12_sum_unrepresentable_is_error.

(* no error and exact under EVERY split when no order of additions can overflow ... *)
Theorem C12_sum_exact_when_no_overflow_possible : forall w parts, 0 < w ->
  abs_total (concat parts) <= hi Signed w ->
  sum_impl w parts = Ok (if all_empty parts then None else Some (sum_exact parts)).
Proof. exact sum_exact_when_no_overflow_possible. Qed.
Print Assumptions C12_sum_exact_when_no_overflow_possible.

(* ... so an error needs operands whose absolute values add up to more than MAX *)
Theorem C12_sum_error_only_when_overflow_possible : forall w parts, 0 < w ->
  sum_impl w parts = Err -> hi Signed w < abs_total (concat parts).
Proof. exact sum_error_only_when_overflow_possible. Qed.
Print Assumptions C12_sum_error_only_when_overflow_possible.

(* the strict reading (error ONLY for an unrepresentable total: sum_impl = sum_spec) is refuted:
   an intermediate overflow fails the statement, depending on row order / partitioning *)
Theorem C12_sum_error_though_total_representable :
  sum_impl 64 [[2 ^ 63 - 1; 1; -1]] = Err /\ sum_spec 64 [[2 ^ 63 - 1; 1; -1]] = Ok (Some (2 ^ 63 - 1)) /\
  sum_impl 64 [[2 ^ 63 - 1; -1]; [1]] = Ok (Some (2 ^ 63 - 1)) /\
  sum_impl 64 [[2 ^ 63 - 1; -1; 1]] = Ok (Some (2 ^ 63 - 1)).
Proof. exact sum_error_though_total_representable. Qed.
Print Assumptions C12_sum_error_though_total_representable.

Theorem C12_sum_overflow_is_error_now :
  sum_impl 64 [[2 ^ 63 - 1; 1; 5]] = Err /\ sum_spec 64 [[2 ^ 63 - 1; 1; 5]] = Err /\
  sum_impl 64 [[2 ^ 63 - 1]; [1; 5]] = Err /\ sum_impl 64 [[1; 5]; [2 ^ 63 - 1]] = Err.
Proof. exact sum_overflow_is_error_now. Qed.
Print Assumptions C12_sum_overflow_is_error_now.

(* SUM(decimal): exact or error too, but 39 digits can come back in a Decimal128(38,_) *)
Theorem C12_sum_dec_exact_or_error : forall parts,
  sum_dec_impl parts = Err \/ sum_dec_impl parts = Ok (if all_empty parts then None else Some (sum_exact parts)).
Proof. exact sum_dec_exact_or_error. Qed.
Print Assumptions C12_sum_dec_exact_or_error.

Theorem C12_sum_dec_exceeds_precision_refuted :
  sum_dec_impl [[10 ^ 38 - 1; 1]] = Ok (Some (10 ^ 38)) /\ sum_dec_spec P0 [[10 ^ 38 - 1; 1]] = Err /\
  sum_dec_impl [[10 ^ 38 - 1; 10 ^ 38 - 1]] = Err /\ sum_dec_spec P0 [[10 ^ 38 - 1; 10 ^ 38 - 1]] = Err.
Proof. exact sum_dec_exceeds_precision_refuted. Qed.
Print Assumptions C12_sum_dec_exceeds_precision_refuted.

(* AVG(decimal) (checked i128 accumulator since 2f7b0a8b9): exact total or an error, never another value,
   in every build profile *)
Theorem C12_avg_dec_exact_or_error : forall m xs,
  avg_dec_acc m xs = Ok (fold_left Z.add xs 0) \/ avg_dec_acc m xs = Err.
Proof. exact avg_dec_exact_or_error. Qed.
Print Assumptions C12_avg_dec_exact_or_error.

Theorem C12_avg_dec_overflow_is_error : forall m,
  avg_dec_acc m [10 ^ 38 - 1; 10 ^ 38 - 1] = Err /\
  avg_dec_acc m [10 ^ 38 - 1; 1] = Ok (10 ^ 38).
Proof. exact avg_dec_overflow_is_error. Qed.
Print Assumptions C12_avg_dec_overflow_is_error.

(* AVG(bigint): the i128 accumulator never overflows (fewer than 2^64 rows) *)
Theorem C12_avg_acc_no_overflow : forall xs, Forall (fun x => in_range Signed 64 x = true) xs ->
  Z.of_nat (length xs) <= 2 ^ 64 ->
  forall pre, (exists suf, xs = pre ++ suf) -> in_range Signed 128 (fold_left Z.add pre 0) = true.
Proof. exact avg_acc_no_overflow. Qed.
Print Assumptions C12_avg_acc_no_overflow.
