(* C09 — Correlated subqueries mean what nested evaluation means; a CTE is interchangeable with its
   defining query.  Property statements only.  The dependent join `pdep T sub` / `rdep T sub` of model/Rel.v
   IS nested evaluation (the subquery once per outer row, with that row); the theorems are the identities the
   decorrelation of logical/planner/plan_subquery.rs relies on, the refutations are the rewrites that do not
   preserve the meaning (two of them are the known engine deviations of findings/SQL.json). *)
From Coq Require Import NArith ZArith List Bool Permutation.
From GV Require Import lib.Bytes model.Sql model.Rel proofs.RelProofs proofs.DecorrelateProofs.
Import ListNotations.

(* 7. the magic-set identity, join-back with the null-safe comparison (IS NOT DISTINCT FROM: the current source) *)
Theorem C09_magic_set_identity :
  forall cs la ra (T : list (list value)) (sub sub' : list value -> list (list value)),
  arity la T -> (forall x, In x T -> sub x = sub' (cols cs x)) ->
  pdep T sub ≡b magic_rhs row_same cs la ra T sub'.
Proof. exact magic_set_identity. Qed.
Print Assumptions C09_magic_set_identity.

Theorem C09_magic_set_identity_res :
  forall cs la ra (T : list (list value)) (sub sub' : list value -> res (list (list value))),
  arity la T -> (forall x, In x T -> sub x = sub' (cols cs x)) -> total_on sub T ->
  rdep T sub ≡r
  (do R <- rdep (rdistinct (pproject (cols cs) T)) sub';
   do j <- rjoin JInner T R la ra (fun x => Ok (on_corr row_same cs la x));
   Ok (pproject (drop_corr la (length cs)) j)).
Proof. exact magic_set_identity_res. Qed.
Print Assumptions C09_magic_set_identity_res.

(* the OLD rule (join-back with plain =, before repair 2fbd06326) loses outer rows with a NULL correlated value *)
Theorem C09_magic_set_identity_plain_eq_refuted :
  exists cs la ra (T : list (list value)) (sub' : list value -> list (list value)),
  arity la T /\ ~ (pdep T (fun x => sub' (cols cs x)) ≡b magic_rhs row_eq_true cs la ra T sub').
Proof. exact magic_set_identity_plain_eq_refuted. Qed.
Print Assumptions C09_magic_set_identity_plain_eq_refuted.

Theorem C09_magic_set_identity_plain_eq_nonnull :
  forall cs la ra (T : list (list value)) (sub sub' : list value -> list (list value)),
  arity la T -> (forall x, In x T -> sub x = sub' (cols cs x)) ->
  (forall t, In t T -> Forall (fun v => v <> VNull) (cols cs t)) ->
  pdep T sub ≡b magic_rhs row_eq_true cs la ra T sub'.
Proof. exact magic_set_identity_plain_eq_nonnull. Qed.
Print Assumptions C09_magic_set_identity_plain_eq_nonnull.

(* 8. pushing the dependent join through operators *)
Theorem C09_dep_uncorrelated_is_cross :
  forall (D S : list (list value)), pdep D (fun _ => S) = rcross D S.
Proof. exact dep_uncorrelated_is_cross. Qed.
Print Assumptions C09_dep_uncorrelated_is_cross.

Theorem C09_dep_push_filter :
  forall la (T : list (list value)) (sub : list value -> list (list value)) (p : list value -> list value -> bool),
  arity la T ->
  pdep T (fun x => pfilter (p x) (sub x)) ≡b pfilter (fun xs => p (firstn la xs) (skipn la xs)) (pdep T sub).
Proof. exact dep_push_filter. Qed.
Print Assumptions C09_dep_push_filter.

Theorem C09_dep_push_project :
  forall la (T : list (list value)) (sub : list value -> list (list value)) (f : list value -> list value -> list value),
  arity la T ->
  pdep T (fun x => pproject (f x) (sub x))
  ≡b pproject (fun xs => firstn la xs ++ f (firstn la xs) (skipn la xs)) (pdep T sub).
Proof. exact dep_push_project. Qed.
Print Assumptions C09_dep_push_project.

Theorem C09_dep_push_cross :
  forall (T : list (list value)) (s1 : list value -> list (list value)) (S2 : list (list value)), pdep T (fun x => rcross (s1 x) S2) ≡b rcross (pdep T s1) S2.
Proof. exact dep_push_cross. Qed.
Print Assumptions C09_dep_push_cross.

Theorem C09_dep_push_distinct :
  forall (D : list (list value)) (sub : list value -> list (list value)),
  NoDup D -> (forall k k', In k D -> In k' D -> length k = length k') ->
  pdep D (fun k => rdistinct (sub k)) ≡b rdistinct (pdep D sub).
Proof. exact dep_push_distinct. Qed.
Print Assumptions C09_dep_push_distinct.

(* 9. EXISTS / NOT EXISTS / scalar aggregate / IN *)
Theorem C09_exists_as_semi_join :
  forall la ra (T R : list (list value)) on,
  pdep_semi T (fun x => pfilter (fun r => on (x ++ r)) R) ≡b pjoin JSemi T R la ra on.
Proof. exact exists_as_semi_join. Qed.
Print Assumptions C09_exists_as_semi_join.

Theorem C09_not_exists_as_anti_join :
  forall la ra (T R : list (list value)) on,
  pdep_anti T (fun x => pfilter (fun r => on (x ++ r)) R) ≡b pjoin JAnti T R la ra on.
Proof. exact not_exists_as_anti_join. Qed.
Print Assumptions C09_not_exists_as_anti_join.

Theorem C09_exists_as_mark_join :
  forall (T R : list (list value)) on, pdep_mark T (fun x => pfilter (fun r => on (x ++ r)) R) ≡b pmark T R on.
Proof. exact exists_as_mark_join. Qed.
Print Assumptions C09_exists_as_mark_join.

Theorem C09_exists_as_semi_join_res :
  forall la ra (T R : list (list value)) (on : list value -> res bool), pairs_total on T R ->
  rdep_semi T (fun x => rfilter (fun r => on (x ++ r)) R) ≡r rjoin JSemi T R la ra on.
Proof. exact exists_as_semi_join_res. Qed.
Print Assumptions C09_exists_as_semi_join_res.

(* the LEFT-join rewrite of a correlated scalar aggregate: right for sum/min/max/bool_and/bool_or *)
Theorem C09_scalar_agg_decorrelation :
  forall fn T R on arg, null_on_empty fn = true ->
  scalar_agg_leftjoin fn T R on arg = scalar_agg_nested fn T R on arg.
Proof. exact scalar_agg_decorrelation. Qed.
Print Assumptions C09_scalar_agg_decorrelation.

(* ... wrong for count: known engine deviation correlated-scalar-aggregate-null-on-empty *)
Theorem C09_scalar_agg_decorrelation_count_refuted :
  exists fn T R on arg,
  scalar_agg_nested fn T R on arg = Ok [[VInt 1; VInt 0]] /\
  scalar_agg_leftjoin fn T R on arg = Ok [[VInt 1; VNull]].
Proof. exact scalar_agg_decorrelation_count_refuted. Qed.
Print Assumptions C09_scalar_agg_decorrelation_count_refuted.

Theorem C09_scalar_agg_decorrelation_count_col_refuted :
  exists T R on arg,
  scalar_agg_nested ACount T R on arg = Ok [[VInt 1; VInt 0]] /\
  scalar_agg_leftjoin ACount T R on arg = Ok [[VInt 1; VNull]].
Proof. exact scalar_agg_decorrelation_count_col_refuted. Qed.
Print Assumptions C09_scalar_agg_decorrelation_count_col_refuted.

(* a IN (sub) as a two-valued mark join: right when no NULL is involved *)
Theorem C09_in_subquery_3vl :
  forall a vs r, a <> VNull -> Forall (fun v => v <> VNull) vs -> in_set a vs = Ok r -> r = in_mark a vs.
Proof. exact in_subquery_3vl. Qed.
Print Assumptions C09_in_subquery_3vl.

(* ... wrong otherwise: known engine deviation in-subquery-two-valued *)
Theorem C09_in_subquery_null_lhs_refuted :
  exists a vs, in_set a vs = Ok VNull /\ in_mark a vs = VBool false /\
  (do r <- in_set a vs; do n <- not3 r; collapse3 n) = Ok false /\
  (do n <- not3 (in_mark a vs); collapse3 n) = Ok true.
Proof. exact in_subquery_null_lhs_refuted. Qed.
Print Assumptions C09_in_subquery_null_lhs_refuted.

Theorem C09_in_subquery_null_in_set_refuted :
  exists a vs, in_set a vs = Ok VNull /\ in_mark a vs = VBool false /\
  (do r <- in_set a vs; do n <- not3 r; collapse3 n) = Ok false /\
  (do n <- not3 (in_mark a vs); collapse3 n) = Ok true.
Proof. exact in_subquery_null_in_set_refuted. Qed.
Print Assumptions C09_in_subquery_null_in_set_refuted.

(* 10. CTEs and materializations *)
Theorem C09_materialization_scans_agree :
  forall batches,
  (forall k : nat, mat_scan (materialize batches) = Some (concat batches)) /\
  mat_scan (fold_left mat_push batches mat_empty) = None.
Proof. exact materialization_scans_agree. Qed.
Print Assumptions C09_materialization_scans_agree.

Theorem C09_materialization_readers :
  forall batches (readers : list (list (list value) -> list (list value))),
  map (fun f => option_map f (mat_scan (materialize batches))) readers
  = map (fun f => Some (f (concat batches))) readers.
Proof. exact materialization_readers. Qed.
Print Assumptions C09_materialization_readers.

Theorem C09_cte_inline :
  forall d en q1 c, eval_query d en q1 = Ok c ->
  forall en', eval_query (d ++ [c]) en' (QTable (length d)) = eval_query d en q1.
Proof. exact cte_inline. Qed.
Print Assumptions C09_cte_inline.

Theorem C09_cte_self_join :
  forall d en q1 c k on la ra, eval_query d en q1 = Ok c ->
  eval_from (d ++ [c]) en (FJoin k (FQuery (QTable (length d))) (FQuery (QTable (length d))) on la ra)
  = join_rows k c c la ra (fun row => opt_pred (eval_expr (d ++ [c]) (row :: en)) on).
Proof. exact cte_self_join. Qed.
Print Assumptions C09_cte_self_join.
