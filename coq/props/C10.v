(* C10 — Reading a valid Parquet file returns exactly the rows it encodes.
   Property statements only; each is closed by `exact <lemma>` from proofs/ and pinned with
   Print Assumptions.  Models: model/PqBits.v, PqDelta.v (faithful decoders with resumable state,
   spec encoders), PqThrift.v, PqWrite.v (the spec file writer). *)
From Coq Require Import NArith ZArith List Bool.
From GV Require Import model.PqBits model.PqDelta model.PqDeltaOld proofs.PqBitsProofs proofs.PqDeltaProofs proofs.PqPlainProofs
  proofs.PqDbpSplit proofs.PqDbpRoundtrip proofs.PqDbpAnySplit.
Import ListNotations.
Open Scope N_scope.

(* ---- the defects repaired by ec3835a3f, as closed statements: the decoder before the repair
   (model/PqDeltaOld.v) fails on the witness, the current decoder (model/PqDelta.v) does not ---- *)
Theorem C10_dbp_resume_witness :
  Old.dbp_decode_split 32 witness_page [2%nat; 2%nat] = Ok [[1; 2]; [2; 3]] /\
  dbp_decode_split 32 witness_page [2%nat; 2%nat] = Ok [[1; 2]; [3; 4]].
Proof. exact (conj old_witness_split_read witness_split_read). Qed.
Print Assumptions C10_dbp_resume_witness.

Theorem C10_dbp_single_value_witness :
  Old.dbp_decode_split 32 (dbp_encode 32 128 4 [7]) [1%nat] = OOB /\
  dbp_decode_split 32 (dbp_encode 32 128 4 [7]) [1%nat] = Ok [[7]].
Proof. exact (conj old_single_value_page_oob witness_single_value_page). Qed.
Print Assumptions C10_dbp_single_value_witness.

Theorem C10_delta_lengths_full_block_witness :
  Old.dbp_read_lengths (dbp_encode 32 128 4 (repeat 1 129)) = Panic /\
  dbp_read_lengths (dbp_encode 32 128 4 (repeat 1 129) ++ [9; 9]) = Ok (repeat 1 129, [9; 9]).
Proof. exact (conj old_delta_lengths_full_block_panics witness_lengths_full_block). Qed.
Print Assumptions C10_delta_lengths_full_block_witness.

(* ---- codecs: decode (encode x) = x ---- *)
Theorem C10_vlq_roundtrip : forall n rest, n < 2 ^ 64 -> vlq_decode (vlq_encode n ++ rest) = Ok (n, rest).
Proof. exact vlq_roundtrip. Qed.
Print Assumptions C10_vlq_roundtrip.

Theorem C10_zigzag_roundtrip : forall z, (- 2 ^ 63 <= z < 2 ^ 63)%Z ->
  to_signed 64 (zigzag_decode (zigzag_encode z)) = z.
Proof. exact zigzag_roundtrip. Qed.
Print Assumptions C10_zigzag_roundtrip.

Theorem C10_from_i64_roundtrip : forall bits z, 0 < bits <= 64 ->
  (- 2 ^ (Z.of_N bits - 1) <= z < 2 ^ (Z.of_N bits - 1))%Z ->
  from_i64 bits (zigzag_decode (zigzag_encode z)) = Some (of_signed bits z).
Proof. exact from_i64_roundtrip. Qed.
Print Assumptions C10_from_i64_roundtrip.

(* ---- resumption: a batch boundary inside a bit-packed run (any width, any bit position) ---- *)
Theorem C10_bit_unpack_read_split : forall tw w n1 n2 buf pos,
  bit_unpack tw w (n1 + n2) buf pos =
  ('(v1, b1, p1) <- bit_unpack tw w n1 buf pos ;;
   '(v2, b2, p2) <- bit_unpack tw w n2 b1 p1 ;; Ok (v1 ++ v2, b2, p2)).
Proof. exact bit_unpack_split. Qed.
Print Assumptions C10_bit_unpack_read_split.

(* ---- definition levels: NULL positions and value order, and a batch boundary between them ---- *)
Theorem C10_levels_assemble : forall (rows : list (option pval)) (rest : list pval),
  assemble 1 (map def_level rows) (present rows ++ rest) = Ok (rows, rest).
Proof. exact levels_assemble. Qed.
Print Assumptions C10_levels_assemble.

Theorem C10_assemble_split : forall max (l1 l2 : list N) (vals : list pval),
  assemble max (l1 ++ l2) vals =
  ('(r1, v1) <- assemble max l1 vals ;; '(r2, v2) <- assemble max l2 v1 ;; Ok (r1 ++ r2, v2)).
Proof. exact assemble_split. Qed.
Print Assumptions C10_assemble_split.

(* ---- bit packing, every width 1..64, lists of any length ---- *)
Theorem C10_bitpack_roundtrip : forall tw w vals rest,
  0 < w <= 64 -> w <= tw -> Forall (fun v => v < 2 ^ w) vals -> Forall (fun b => b < 256) rest ->
  (w * N.of_nat (length vals)) mod 8 = 0 ->
  bit_unpack tw w (length vals) (bitpack w vals ++ rest) 0 = Ok (vals, rest, 0).
Proof. exact bitpack_roundtrip. Qed.
Print Assumptions C10_bitpack_roundtrip.

(* any prefix of a packed (possibly padded) group: the read may stop at any bit position *)
Theorem C10_bitpack_prefix : forall tw w vals n rest,
  0 < w <= 64 -> w <= tw -> Forall (fun v => v < 2 ^ w) vals -> Forall (fun b => b < 256) rest ->
  (n <= length vals)%nat ->
  exists buf' pos', bit_unpack tw w n (bitpack w vals ++ rest) 0 = Ok (firstn n vals, buf', pos').
Proof. exact bitpack_prefix. Qed.
Print Assumptions C10_bitpack_prefix.

(* ---- RLE / bit-packed hybrid (definition levels, dictionary indices, RLE booleans) ---- *)
(* RESUMPTION, full strength: every decoder state, every outcome; the boundary may fall inside an
   RLE run or inside a literal group at a non-zero bit position *)
Theorem C10_rle_read_split : forall tw n1 n2 s,
  rle_read tw (n1 + n2) s =
  ('(v1, s1) <- rle_read tw n1 s ;; '(v2, s2) <- rle_read tw n2 s1 ;; Ok (v1 ++ v2, s2)).
Proof. exact rle_read_split. Qed.
Print Assumptions C10_rle_read_split.

(* every well-formed hybrid stream (any mix of RLE runs and literal groups, padding included)
   decodes to its values, for every prefix length *)
Theorem C10_rle_decode_runs : forall tw w rs rest n,
  0 < w <= 64 -> w <= tw -> Forall (run_wf w) rs -> Forall (fun b => b < 256) rest ->
  (n <= length (runs_values rs))%nat ->
  exists s', rle_read tw n (rle_new (runs_bytes w rs ++ rest) w) = Ok (firstn n (runs_values rs), s').
Proof. exact rle_decode_runs. Qed.
Print Assumptions C10_rle_decode_runs.

Definition sample_runs : list run := [RunRle 5 6; RunLit [1;2;3;4;5;6;7;0]; RunRle 2 1].
Example C10_rle_decode_runs_satisfiable :
  Forall (run_wf 3) sample_runs /\ (12 <= length (runs_values sample_runs))%nat.
Proof.
  split; [|vm_compute; repeat constructor].
  unfold sample_runs. repeat constructor; try (vm_compute; reflexivity); try (exists 1%nat; reflexivity).
Qed.

(* ---- PLAIN (every physical type) and BYTE_STREAM_SPLIT: round trip and resumption ---- *)
Theorem C10_plain_num_roundtrip : forall t vals rest,
  fixed_width t -> Forall (fun v => v < 256 ^ N.of_nat (num_bytes t)) vals ->
  plain_decode_num (num_bytes t) (length vals) (plain_encode t (map VNum vals) ++ rest) = Ok (vals, rest).
Proof. exact plain_encode_num_roundtrip. Qed.
Print Assumptions C10_plain_num_roundtrip.

Theorem C10_plain_num_read_split : forall w n1 n2 buf,
  plain_decode_num w (n1 + n2) buf =
  ('(v1, b1) <- plain_decode_num w n1 buf ;; '(v2, b2) <- plain_decode_num w n2 b1 ;; Ok (v1 ++ v2, b2)).
Proof. exact plain_decode_num_split. Qed.
Print Assumptions C10_plain_num_read_split.

Theorem C10_plain_bytes_roundtrip : forall vals rest,
  Forall (fun v => N.of_nat (length v) < 2 ^ 32) vals ->
  plain_decode_bytes (length vals) (plain_encode PByteArray (map VBytes vals) ++ rest) = Ok (vals, rest).
Proof. exact plain_bytes_roundtrip. Qed.
Print Assumptions C10_plain_bytes_roundtrip.

Theorem C10_plain_bytes_read_split : forall n1 n2 buf,
  plain_decode_bytes (n1 + n2) buf =
  ('(v1, b1) <- plain_decode_bytes n1 buf ;; '(v2, b2) <- plain_decode_bytes n2 b1 ;; Ok (v1 ++ v2, b2)).
Proof. exact plain_decode_bytes_split. Qed.
Print Assumptions C10_plain_bytes_read_split.

Theorem C10_plain_bool_roundtrip : forall vals rest n,
  Forall (fun v => v < 2) vals -> Forall (fun b => b < 256) rest -> (n <= length vals)%nat ->
  exists buf' pos', plain_decode_bool n (plain_encode PBool (map VNum vals) ++ rest) 0 = Ok (firstn n vals, buf', pos').
Proof. exact plain_bool_roundtrip. Qed.
Print Assumptions C10_plain_bool_roundtrip.

Theorem C10_plain_bool_read_split : forall n1 n2 buf pos,
  plain_decode_bool (n1 + n2) buf pos =
  ('(v1, b1, p1) <- plain_decode_bool n1 buf pos ;; '(v2, b2, p2) <- plain_decode_bool n2 b1 p1 ;; Ok (v1 ++ v2, b2, p2)).
Proof. exact plain_decode_bool_split. Qed.
Print Assumptions C10_plain_bool_read_split.

Theorem C10_bss_roundtrip : forall k vals,
  (0 < k)%nat -> Forall (fun v => v < 256 ^ N.of_nat k) vals ->
  exists st', bss_new k (bss_encode k vals) = Ok (bss_streams k (length vals) (bss_encode k vals)) /\
    bss_read (length vals) (bss_streams k (length vals) (bss_encode k vals)) = Ok (vals, st').
Proof. exact bss_roundtrip. Qed.
Print Assumptions C10_bss_roundtrip.

Theorem C10_bss_read_split : forall n1 n2 st,
  bss_read (n1 + n2) st = ('(v1, s1) <- bss_read n1 st ;; '(v2, s2) <- bss_read n2 s1 ;; Ok (v1 ++ v2, s2)).
Proof. exact bss_read_split. Qed.
Print Assumptions C10_bss_read_split.

(* ---- DELTA_BINARY_PACKED on the current decoder (after ec3835a3f) ---- *)
(* RESUMPTION: every decoder state with a positive miniblock size, every outcome; n1 + n2 must not
   exceed the values still available (beyond that the single call underflows values_remaining:
   PqDbpSplit.dbp_read_split_needs_avail), dbp_avail s = (if d_first s then 1 else 0) + d_rem s *)
Theorem C10_dbp_read_split : forall bits n1 n2 s,
  0 < d_per s -> N.of_nat (n1 + n2) <= dbp_avail s ->
  dbp_read bits (n1 + n2) s =
  ('(v1, s1) <- dbp_read bits n1 s ;; '(v2, s2) <- dbp_read bits n2 s1 ;; Ok (v1 ++ v2, s2)).
Proof. exact dbp_read_split. Qed.
Print Assumptions C10_dbp_read_split.

(* single read round trip: any value list (empty and single-value pages included), 32 and 64 bit,
   any block geometry allowed by the format, wrap-around deltas; the cursor ends exactly behind the page *)
Theorem C10_dbp_roundtrip : forall bits block mbc vals rest, dbp_params_ok bits block mbc ->
  Forall (fun v => v < 2 ^ bits) vals -> N.of_nat (length vals) < 2 ^ 32 -> Forall (fun b => b < 256) rest ->
  exists s s', dbp_new bits (dbp_encode bits block mbc vals ++ rest) = Ok s /\
               dbp_read bits (length vals) s = Ok (vals, s') /\
               d_rem s' = 0 /\ d_first s' = false /\ dbp_into_cursor s' = Ok rest /\
               d_total s = N.of_nat (length vals).
Proof. exact dbp_roundtrip. Qed.
Print Assumptions C10_dbp_roundtrip.

Example C10_dbp_params_satisfiable :
  dbp_params_ok 32 128 4 /\ dbp_params_ok 64 128 4 /\ dbp_params_ok 64 256 8 /\ dbp_params_ok 32 128 1.
Proof. exact params_ok_examples. Qed.

(* EVERY read split (batch boundaries anywhere in the page) returns exactly the encoded values *)
Theorem C10_dbp_decode_every_split : forall bits block mbc vals ns, dbp_params_ok bits block mbc ->
  Forall (fun v => v < 2 ^ bits) vals -> N.of_nat (length vals) < 2 ^ 32 ->
  sum_nat ns = length vals ->
  exists out, dbp_decode_split bits (dbp_encode bits block mbc vals) ns = Ok out /\ concat out = vals.
Proof. exact dbp_decode_every_split. Qed.
Print Assumptions C10_dbp_decode_every_split.

Theorem C10_dbp_decode_any_split : forall bits block mbc vals ns out, dbp_params_ok bits block mbc ->
  Forall (fun v => v < 2 ^ bits) vals -> N.of_nat (length vals) < 2 ^ 32 ->
  sum_nat ns = length vals ->
  dbp_decode_split bits (dbp_encode bits block mbc vals) ns = Ok out -> concat out = vals.
Proof. exact dbp_decode_any_split. Qed.
Print Assumptions C10_dbp_decode_any_split.

Theorem C10_dbp_single_value : forall bits block mbc v, dbp_params_ok bits block mbc -> v < 2 ^ bits ->
  dbp_decode_split bits (dbp_encode bits block mbc [v]) [1%nat] = Ok [[v]].
Proof. exact dbp_single_value. Qed.
Print Assumptions C10_dbp_single_value.

(* the length prefix of DELTA_LENGTH_BYTE_ARRAY / DELTA_BYTE_ARRAY never fails (every length list, block
   boundaries included) and leaves the data cursor exactly behind the padded last miniblock *)
Theorem C10_dbp_read_lengths_roundtrip : forall block mbc lens rest, dbp_params_ok 32 block mbc ->
  Forall (fun v => v < 2 ^ 32) lens -> N.of_nat (length lens) < 2 ^ 32 -> Forall (fun b => b < 256) rest ->
  dbp_read_lengths (dbp_encode 32 block mbc lens ++ rest) = Ok (lens, rest).
Proof. exact dbp_read_lengths_roundtrip. Qed.
Print Assumptions C10_dbp_read_lengths_roundtrip.

Theorem C10_dlba_roundtrip : forall block mbc vals, dbp_params_ok 32 block mbc ->
  Forall (Forall (fun b => b < 256)) vals -> N.of_nat (length vals) < 2 ^ 32 -> N.of_nat (length (concat vals)) < 2 ^ 32 ->
  dlba_decode (dlba_encode block mbc vals) = Ok vals.
Proof. exact dlba_roundtrip_ok. Qed.
Print Assumptions C10_dlba_roundtrip.

Theorem C10_dba_roundtrip : forall block mbc vals, dbp_params_ok 32 block mbc ->
  Forall (Forall (fun b => b < 256)) vals -> Forall (fun v => N.of_nat (length v) < 2 ^ 32) vals -> N.of_nat (length vals) < 2 ^ 32 ->
  dba_decode (dba_encode block mbc vals) = Ok vals.
Proof. exact dba_roundtrip_ok. Qed.
Print Assumptions C10_dba_roundtrip.

(* NOT proved (the targets of the next revision):
   - thrift_roundtrip and the file-level statement  read_file (write_file t lay) = Ok t  (needs a reader model of
     page_reader.rs / column_reader.rs / reader.rs / thrift.rs and of the dictionary page); these layers are covered by
     the correspondence stage K1 only.  The per-page ingredients are all above: levels (RLE hybrid) -> assemble,
     values by PLAIN / dictionary indices (RLE hybrid) / DELTA_* / BYTE_STREAM_SPLIT, each with its read split. *)
