(* C15 (front end) — the SQL tokenizer is total.  Topic `lexer`, merged into C15 by vlib/c15lex.py.
   model/Lexer.v transcribes crates/glaredb_parser/src/tokens.rs as written, with an explicit Panic outcome
   for every slice off a character boundary / out of range and for every usize overflow, and with fuel for
   the one loop whose termination is not structural.  For EVERY input text (list of code points; the str
   type invariant) shorter than 2^64 bytes and for EVERY pair of Unicode tables is_alphabetic / is_numeric:
   the tokenizer answers with tokens or with one of its two errors (unhandled character, unterminated quoted
   string), never panics, needs at most
   one iteration per character (+1), takes only in-bounds slices on character boundaries, and its tokens
   tile the input. *)
From Coq Require Import NArith List Bool.
From GV Require Import model.Utf8 gen.TablesLexer model.Lexer proofs.LexerProofs model.ParserSkel proofs.ParserSkelProofs.
Import ListNotations.
Open Scope N_scope.

(* never Panic, never out of Fuel with fuel = number of characters + 1 (the fuel inside `tokenize`) *)
Theorem C15lex_lexer_total : forall is_alpha is_numeric q,
  blen q < USIZE ->
  (exists toks st, tokenize is_alpha is_numeric q = Ok (toks, st)) \/
  (exists e, tokenize is_alpha is_numeric q = Err e).
Proof. exact lexer_total. Qed.
Print Assumptions C15lex_lexer_total.

(* the only errors are "Unhandled character: c" for a character of the input that starts no token, and
   "Unterminated quoted string" for an opening single or double quote (code point 39 or 34) whose content
   (doubled quotes are escapes) runs to the end of the input *)
Theorem C15lex_lexer_errors_characterised : forall is_alpha is_numeric q e,
  blen q < USIZE -> tokenize is_alpha is_numeric q = Err e ->
  exists pre c r, q = pre ++ c :: r /\
    ((e = Unhandled c /\ arm_of is_alpha c = AUnhandled) \/
     (exists body, e = Unterminated c /\ (c = 39 \/ c = 34) /\ r = escape c body)).
Proof. exact lexer_errors_characterised. Qed.
Print Assumptions C15lex_lexer_errors_characterised.

(* every &self.query[a..b] evaluated on the way (ghost log `slog`) has a <= b <= len, both on char boundaries *)
Theorem C15lex_lexer_slices_in_bounds : forall is_alpha is_numeric q toks st,
  blen q < USIZE -> tokenize is_alpha is_numeric q = Ok (toks, st) -> Forall (slice_ok q) (slog st).
Proof. exact lexer_slices_in_bounds. Qed.
Print Assumptions C15lex_lexer_slices_in_bounds.

(* ... and that is exactly the condition under which the slicing primitive of the model does not panic *)
Theorem C15lex_slice_panics_iff_out_of_bounds : forall q a b,
  slice_ok q (a, b) <-> str_slice q a b <> Panic.
Proof. exact str_slice_ok_iff. Qed.
Print Assumptions C15lex_slice_panics_iff_out_of_bounds.

(* the tokens tile the input: consecutive NON-EMPTY source texts (each iteration consumes >= 1 character),
   start_idx = byte offset of the source text, each token spells its source text (`spells`: the text of a string /
   quoted identifier token is the source between the quotes with doubled quotes collapsed, `escape`) *)
Theorem C15lex_lexer_tokens_cover_input : forall is_alpha is_numeric q toks st,
  blen q < USIZE -> tokenize is_alpha is_numeric q = Ok (toks, st) -> tiles is_alpha is_numeric 0 q toks.
Proof. exact lexer_tokens_cover_input. Qed.
Print Assumptions C15lex_lexer_tokens_cover_input.

Theorem C15lex_lexer_concat_sources : forall is_alpha is_numeric q toks st,
  blen q < USIZE -> tokenize is_alpha is_numeric q = Ok (toks, st) ->
  exists srcs, concat srcs = q /\
    Forall2 (fun t src => src <> [] /\ exists after, spells is_alpha is_numeric (tok t) src after) toks srcs.
Proof. exact lexer_concat_sources. Qed.
Print Assumptions C15lex_lexer_concat_sources.

Theorem C15lex_lexer_token_count : forall is_alpha is_numeric q toks st,
  blen q < USIZE -> tokenize is_alpha is_numeric q = Ok (toks, st) -> (length toks <= length q)%nat.
Proof. exact lexer_token_count. Qed.
Print Assumptions C15lex_lexer_token_count.

(* keyword_from_str uses binary_search: the table of keywords.rs is non-empty and strictly sorted under the
   order of unicase::Ascii *)
Theorem C15lex_keywords_strictly_sorted : keywords <> [] /\ sortedb keywords = true.
Proof. exact keywords_strictly_sorted. Qed.
Print Assumptions C15lex_keywords_strictly_sorted.

(* the hypotheses are satisfiable and both outcomes occur (ASCII letters as the alphabetic table) *)
Definition ascii_alpha (c : N) : bool := ((65 <=? c) && (c <=? 90)) || ((97 <=? c) && (c <=? 122)).
Definition no_numeric (c : N) : bool := false.
Example C15lex_example_ok :   (* a<='it''s' *)
  blen [97; 60; 61; 39; 105; 116; 39; 39; 115; 39] < USIZE /\
  exists st, tokenize ascii_alpha no_numeric [97; 60; 61; 39; 105; 116; 39; 39; 115; 39] =
    Ok ([mk_twl (TWord [97] None None) 0 0 0; mk_twl (TOp OLtEq) 1 0 2; mk_twl (TString [105; 116; 39; 115]) 3 0 6], st).
Proof. split; [reflexivity | eexists; vm_compute; reflexivity]. Qed.
Example C15lex_example_err : tokenize ascii_alpha no_numeric [97; 123] = Err (Unhandled 123).
Proof. vm_compute. reflexivity. Qed.
Example C15lex_example_unterminated :   (* 'it'' *)
  tokenize ascii_alpha no_numeric [39; 105; 116; 39; 39] = Err (Unterminated 39).
Proof. vm_compute. reflexivity. Qed.

(* ---- the parser skeleton (model/ParserSkel.v: Parser::next / peek_nth / ... and the Pratt expression parser of
   ast/expr.rs on the token list; PUnsup where the Rust leaves the expression grammar for QueryNode::parse) ---- *)

(* for EVERY token list: `self.toks[self.idx]` is never out of range (no PPanic) and all loops / recursion end
   within 3 * tokens + 2 calls (the fuel inside parse_expr): the answer is an AST, an error or PUnsup *)
Theorem C15lex_parser_total : forall toks,
  out (parse_expr toks) <> PPanic /\ out (parse_expr toks) <> PFuel.
Proof. exact parser_total. Qed.
Print Assumptions C15lex_parser_total.

(* a successful Expr::parse consumes at least one token and leaves the index inside the token list *)
Theorem C15lex_parser_progress : forall toks e i,
  out (parse_expr toks) = POk (e, i) -> (1 <= i /\ i <= length toks)%nat.
Proof. exact parser_progress. Qed.
Print Assumptions C15lex_parser_progress.

(* native recursion depth (nested active Expr::parse_subexpr frames), whatever the outcome: at most tokens + 1 *)
Theorem C15lex_parser_depth_le_tokens : forall toks, (dep (parse_expr toks) <= length toks + 1)%nat.
Proof. exact parser_depth_le_tokens. Qed.
Print Assumptions C15lex_parser_depth_le_tokens.

(* ... and the bound is reached: n tokens "- - ... -" nest n + 1 frames (the stack use is Theta(tokens): no
   constant bound exists; findings/C15.json parser-stack-overflow) *)
Theorem C15lex_parser_depth_tight : forall n,
  length (repeat (TOp OMinus) n) = n /\
  out (parse_expr (repeat (TOp OMinus) n)) = PErr /\ dep (parse_expr (repeat (TOp OMinus) n)) = (n + 1)%nat.
Proof. exact parser_depth_tight. Qed.
Print Assumptions C15lex_parser_depth_tight.

(* the successful family of the known finding: 300 nested parentheses around 1 parse and nest 301 frames *)
Theorem C15lex_parser_depth_parens :
  length (nested_parens 300) = 601%nat /\ dep (parse_expr (nested_parens 300)) = 301%nat /\
  exists e, out (parse_expr (nested_parens 300)) = POk (e, 601%nat).
Proof. exact parens_300. Qed.
Print Assumptions C15lex_parser_depth_parens.

(* tokenizer and expression parser composed, for EVERY text and EVERY pair of Unicode tables *)
Theorem C15lex_front_end_total : forall is_alpha is_numeric q,
  (blen q < USIZE)%N ->
  (exists r, front_end is_alpha is_numeric q = Ok r /\ out r <> PPanic /\ out r <> PFuel) \/
  (exists c, front_end is_alpha is_numeric q = Err c).
Proof. exact front_end_total. Qed.
Print Assumptions C15lex_front_end_total.

(* the precedences the skeleton reads from ast/expr.rs were all found *)
Theorem C15lex_precedences_present :
  Forall (fun p : option N => p <> None)
    [prec_or; prec_and; prec_not; prec_is; prec_comparison; prec_containment; prec_everything_else;
     prec_add_sub; prec_mul_div_mod; prec_exponentiation; prec_unary_minus; prec_array_elem; prec_cast].
Proof. exact precedences_present. Qed.
Print Assumptions C15lex_precedences_present.

Example C15lex_example_parse :   (* 1 +2 *)
  parse_expr [TNumber [49]; TWhitespace; TOp OPlus; TNumber [50]] =
  mk_res (POk (SN "BinaryExpr"%tag [SN "Literal"%tag [SN "Number"%tag [SS [49]]]; SN "Plus"%tag [];
                                    SN "Literal"%tag [SN "Number"%tag [SS [50]]]], 4%nat)) 2.
Proof. exact example_1_plus_2. Qed.
