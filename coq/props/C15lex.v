(* C15 (front end) — the SQL tokenizer is total.  Topic `lexer`, merged into C15 by vlib/c15lex.py.
   model/Lexer.v transcribes crates/glaredb_parser/src/tokens.rs as written, with an explicit Panic outcome
   for every slice off a character boundary / out of range and for every usize overflow, and with fuel for
   the one loop whose termination is not structural.  For EVERY input text (list of code points; the str
   type invariant) shorter than 2^64 bytes and for EVERY pair of Unicode tables is_alphabetic / is_numeric:
   the tokenizer answers with tokens or with the error "Unhandled character", never panics, needs at most
   one iteration per character (+1), takes only in-bounds slices on character boundaries, and its tokens
   tile the input. *)
From Coq Require Import NArith List Bool.
From GV Require Import model.Utf8 gen.TablesLexer model.Lexer proofs.LexerProofs.
Import ListNotations.
Open Scope N_scope.

(* never Panic, never out of Fuel with fuel = number of characters + 1 (the fuel inside `tokenize`) *)
Theorem C15lex_lexer_total : forall is_alpha is_numeric q,
  blen q < USIZE ->
  (exists toks st, tokenize is_alpha is_numeric q = Ok (toks, st)) \/
  (exists c, tokenize is_alpha is_numeric q = Err c).
Proof. exact lexer_total. Qed.
Print Assumptions C15lex_lexer_total.

(* the only error is "Unhandled character: c" for a character of the input that starts no token *)
Theorem C15lex_lexer_error_only_unhandled : forall is_alpha is_numeric q c,
  blen q < USIZE -> tokenize is_alpha is_numeric q = Err c -> In c q /\ arm_of is_alpha c = AUnhandled.
Proof. exact lexer_error_only_unhandled. Qed.
Print Assumptions C15lex_lexer_error_only_unhandled.

(* every &self.query[a..b] evaluated on the way (ghost log `slog`) has a <= b <= len, both on char boundaries *)
Theorem C15lex_lexer_slices_in_bounds : forall is_alpha is_numeric q toks st,
  blen q < USIZE -> tokenize is_alpha is_numeric q = Ok (toks, st) -> Forall (slice_ok q) (slog st).
Proof. exact lexer_slices_in_bounds. Qed.
Print Assumptions C15lex_lexer_slices_in_bounds.

(* ... and that is exactly the condition under which the slicing primitive of the model does not panic *)
Theorem C15lex_slice_panics_iff_out_of_bounds : forall q a b,
  slice_ok q (a, b) <-> str_slice q a b <> Panic.
Proof. exact str_slice_ok_iff. Qed.
Print Assumptions C15lex_slice_panics_iff_out_of_bounds.

(* the tokens tile the input: consecutive NON-EMPTY source texts (each iteration consumes >= 1 character),
   start_idx = byte offset of the source text, each token spells its source text (`spells`) *)
Theorem C15lex_lexer_tokens_cover_input : forall is_alpha is_numeric q toks st,
  blen q < USIZE -> tokenize is_alpha is_numeric q = Ok (toks, st) -> tiles is_alpha is_numeric 0 q toks.
Proof. exact lexer_tokens_cover_input. Qed.
Print Assumptions C15lex_lexer_tokens_cover_input.

Theorem C15lex_lexer_concat_sources : forall is_alpha is_numeric q toks st,
  blen q < USIZE -> tokenize is_alpha is_numeric q = Ok (toks, st) ->
  exists srcs, concat srcs = q /\
    Forall2 (fun t src => src <> [] /\ exists after, spells is_alpha is_numeric (tok t) src after) toks srcs.
Proof. exact lexer_concat_sources. Qed.
Print Assumptions C15lex_lexer_concat_sources.

Theorem C15lex_lexer_token_count : forall is_alpha is_numeric q toks st,
  blen q < USIZE -> tokenize is_alpha is_numeric q = Ok (toks, st) -> (length toks <= length q)%nat.
Proof. exact lexer_token_count. Qed.
Print Assumptions C15lex_lexer_token_count.

(* keyword_from_str uses binary_search: the table of keywords.rs is non-empty and strictly sorted under the
   order of unicase::Ascii *)
Theorem C15lex_keywords_strictly_sorted : keywords <> [] /\ sortedb keywords = true.
Proof. exact keywords_strictly_sorted. Qed.
Print Assumptions C15lex_keywords_strictly_sorted.

(* the hypotheses are satisfiable and both outcomes occur (ASCII letters as the alphabetic table) *)
Definition ascii_alpha (c : N) : bool := ((65 <=? c) && (c <=? 90)) || ((97 <=? c) && (c <=? 122)).
Definition no_numeric (c : N) : bool := false.
Example C15lex_example_ok :   (* a<='x *)
  blen [97; 60; 61; 39; 120] < USIZE /\
  exists st, tokenize ascii_alpha no_numeric [97; 60; 61; 39; 120] =
    Ok ([mk_twl (TWord [97] None None) 0 0 0; mk_twl (TOp OLtEq) 1 0 2; mk_twl (TString [120]) 3 0 3], st).
Proof. split; [reflexivity | eexists; vm_compute; reflexivity]. Qed.
Example C15lex_example_err : tokenize ascii_alpha no_numeric [97; 123] = Err 123.
Proof. vm_compute. reflexivity. Qed.
