(* C17 — Reading a CSV file returns the RFC-4180 records with inferred types.
   Property statements only: each is closed by `exact <lemma>` from proofs/, and pinned with Print Assumptions.
   Models: model/Csv.v (RFC-4180 spec, csv_core DFA, ByteRecords, CsvDecoder::decode, CsvReader loop),
   model/CsvInfer.v (dialect / schema inference, NULL-for-empty typing). *)
From Coq Require Import NArith List Bool Arith Permutation.
From GV Require Import model.Csv model.CsvInfer proofs.CsvProofs proofs.CsvFlushProofs proofs.CsvRfcProofs
  proofs.CsvInferProofs proofs.CsvInferLattice.
Import ListNotations.

(* ---- chunking ---- *)
(* 1. THE READER: for every batch capacity, every sequence of non-empty reads, with or without header skipping, the
   rows are those of one read of the whole file followed by the end-of-input signal: they do not depend on where
   read-buffer or batch boundaries fall (inside a quoted field, between the two quotes of an escape, between CR and LF,
   after the delimiter of an empty leading field). *)
Theorem C17_reader_chunking_irrelevant : forall d out_cap skip chunks,
  1 <= out_cap ->
  Forall (fun ch => ch <> []) chunks ->
  (chunks = [] \/ 3 <= length (hd [] chunks) \/ strip_bom rdr_init (concat chunks) = concat chunks) ->
  reader_loop d out_cap skip st_init chunks
    = option_map (fun rs => if skip then tl rs else rs) (run_reader d (concat chunks)).
Proof. exact reader_chunking_irrelevant. Qed.
Print Assumptions C17_reader_chunking_irrelevant.

(* 2. the decoder with records read and clear_completed (as written, after 0abcb062b) applied after EVERY read *)
Theorem C17_chunking_irrelevant_flush : forall d chunks,
  Forall (fun ch => ch <> []) chunks -> chunks <> [] ->
  (3 <= length (hd [] chunks) \/ strip_bom rdr_init (concat chunks) = concat chunks) ->
  decode_flush d chunks = run_dfa d (concat chunks).
Proof. exact chunking_irrelevant_flush. Qed.
Print Assumptions C17_chunking_irrelevant_flush.

(* 3. records accumulating: the complete decoder state (csv_core state, output position, buf, ends, record
   boundaries) after any sequence of non-empty reads is the state after one read of the whole input *)
Theorem C17_chunking_irrelevant_noflush : forall d c1 rest,
  c1 <> [] -> Forall (fun ch => ch <> []) rest ->
  strip_bom rdr_init (c1 ++ concat rest) = strip_bom rdr_init c1 ++ concat rest ->
  decode_chunks d (c1 :: rest) = decode d st_init (c1 ++ concat rest).
Proof. exact chunking_irrelevant_noflush. Qed.
Print Assumptions C17_chunking_irrelevant_noflush.

(* 4. The BOM side condition is genuinely needed (known finding bom-split-across-first-read: csv_core strips a BOM
   only if the first read holds all three bytes; not reachable with local files). *)
Theorem C17_bom_split_refuted :
  exists d c1 rest, c1 <> [] /\ Forall (fun ch => ch <> []) rest /\
    records_of (snd (decode_chunks d (c1 :: rest))) <> records_of (snd (decode d st_init (c1 ++ concat rest))).
Proof. exact bom_split_refuted. Qed.
Print Assumptions C17_bom_split_refuted.

(* 5. regression witnesses about the OLD definitions (the code before /repo ddfbbbc21 and 0abcb062b): the old reader
   lost the unterminated last record and depended on the cut; the current one does not on the same inputs *)
Theorem C17_reader_old_unterminated_refuted :
  exists d bs, reader_loop_old d 2048 false st_init [bs] <> Some (rfc4180 d bs) /\
               reader_loop d 2048 false st_init [bs] = Some (rfc4180 d bs).
Proof. exact reader_old_unterminated_refuted. Qed.
Print Assumptions C17_reader_old_unterminated_refuted.

Theorem C17_reader_old_flush_refuted :
  exists d c1 c2, reader_loop_old d 1 false st_init [c1; c2] <> reader_loop_old d 1 false st_init [c1 ++ c2] /\
                  reader_loop d 1 false st_init [c1; c2] = reader_loop d 1 false st_init [c1 ++ c2].
Proof. exact reader_old_flush_refuted. Qed.
Print Assumptions C17_reader_old_flush_refuted.

(* ---- RFC 4180 ---- *)
(* 6. The reader returns exactly the field contents of every RFC-4180 encoding, the last record with OR WITHOUT line
   terminator: any per-field choice quoted/bare (quoted fields with embedded delimiter, doubled quote, CR, LF), any
   per-record choice LF/CRLF, any bytes (Unicode) in fields; blank records (one bare empty field) excluded, no BOM. *)
Theorem C17_reader_decodes_encoding : forall d recs last,
  dialect_ok d = true ->
  forallb (fun r => record_ok d (snd r) && negb (blank (snd r))) recs = true ->
  match last with Some fs => record_ok d fs && negb (blank fs) = true | None => True end ->
  strip_bom rdr_init (enc_file_open d recs last) = enc_file_open d recs last ->
  run_reader d (enc_file_open d recs last) = Some (contents_open recs last).
Proof. exact reader_decodes_encoding. Qed.
Print Assumptions C17_reader_decodes_encoding.

(* 6a. the reference parser reads back every encoding (blank records included): the spec is not vacuous *)
Theorem C17_rfc4180_decodes_encoding : forall d recs, dialect_ok d = true ->
  forallb (fun r => record_ok d (snd r)) recs = true ->
  rfc4180 d (enc_file d recs) = contents recs.
Proof. exact rfc4180_decodes_encoding. Qed.
Print Assumptions C17_rfc4180_decodes_encoding.

(* 6b. "the reader refines the reference parser on well-formed input", no ends-with-terminator hypothesis *)
Theorem C17_reader_refines_rfc4180 : forall d bs,
  dialect_ok d = true -> well_formed_open d bs -> strip_bom rdr_init bs = bs ->
  run_reader d bs = Some (rfc4180 d bs).
Proof. exact reader_refines_rfc4180. Qed.
Print Assumptions C17_reader_refines_rfc4180.

(* 6c. the decoder WITHOUT the end-of-input signal (what ReadCsv::bind does with the inference sample) on terminated
   encodings, and its refutation on "a,b\n1,2" (known finding inference-sample-without-end-of-input) *)
Theorem C17_dfa_refines_rfc4180 : forall d bs,
  dialect_ok d = true -> well_formed d bs -> strip_bom rdr_init bs = bs ->
  run_dfa d bs = Some (rfc4180 d bs).
Proof. exact dfa_refines_rfc4180. Qed.
Print Assumptions C17_dfa_refines_rfc4180.

Theorem C17_sample_unterminated_last_record_refuted :
  exists d bs, ends_with_terminator bs = false /\
    run_dfa d bs = Some [[[97];[98]]]%N /\ rfc4180 d bs = [[[97];[98]]; [[49];[50]]]%N /\
    run_reader d bs = Some (rfc4180 d bs).
Proof. exact sample_unterminated_last_record_refuted. Qed.
Print Assumptions C17_sample_unterminated_last_record_refuted.

(* 7. REFUTED for blank lines (known finding blank-line-skipped): csv_core skips them, RFC 4180 reads a record of one
   empty field. *)
Theorem C17_blank_line_refuted :
  exists d bs, ends_with_terminator bs = true /\
    run_dfa d bs = Some [[[97]]; [[98]]]%N /\ rfc4180 d bs = [[[97]]; [[]]; [[98]]]%N.
Proof. exact blank_line_refuted. Qed.
Print Assumptions C17_blank_line_refuted.

(* ---- inferred types ---- *)
(* 8. FULL STATEMENT "the column type is the narrowest candidate accepting every sampled value, independent of the row
   order" is REFUTED: Boolean words are not valid Int64, "t","1" gives Int64 (rejecting "t"), "1","t" gives Utf8. *)
Theorem C17_candidate_order_irrelevant_refuted :
  exists vs1 vs2, Permutation vs1 vs2 /\ CsvInferProofs.col_cand vs1 <> CsvInferProofs.col_cand vs2.
Proof. exact candidate_order_irrelevant_refuted. Qed.
Print Assumptions C17_candidate_order_irrelevant_refuted.

Theorem C17_candidate_is_narrowest_refuted :
  exists vs v, In v vs /\ v <> [] /\ is_valid (CsvInferProofs.col_cand vs) v = false.
Proof. exact candidate_is_narrowest_refuted. Qed.
Print Assumptions C17_candidate_is_narrowest_refuted.

(* 8a. both hold when no sampled value is a boolean word (and a column of boolean words / empties is Boolean) *)
Theorem C17_candidate_is_narrowest_partial : forall vs, Forall (fun v => is_bool v = false) vs ->
  let c := CsvInferLattice.col_cand vs in
  c <> CTimestamp /\
  (forall v, In v vs -> v <> [] -> is_valid c v = true) /\
  (forall c', (cand_rank c' < cand_rank c)%nat -> c' <> CTimestamp ->
     exists v, In v vs /\ v <> [] /\ is_valid c' v = false).
Proof. exact candidate_is_narrowest_strong. Qed.
Print Assumptions C17_candidate_is_narrowest_partial.

Theorem C17_candidate_all_bool : forall vs, Forall (fun v => v = [] \/ is_bool v = true) vs ->
  CsvInferLattice.col_cand vs = CBool.
Proof. exact candidate_all_bool. Qed.
Print Assumptions C17_candidate_all_bool.

Theorem C17_candidate_order_irrelevant_partial : forall vs1 vs2, Permutation vs1 vs2 ->
  Forall (fun v => is_bool v = false) vs1 -> CsvInferLattice.col_cand vs1 = CsvInferLattice.col_cand vs2.
Proof. exact candidate_order_irrelevant_partial. Qed.
Print Assumptions C17_candidate_order_irrelevant_partial.

(* 9. header decision as implemented: row 0 is a header iff some field of it — EMPTY ones included — fails its column's
   candidate; the refutation: a headerless file with a NULL in the first row of an Int64 column gets a header. *)
Theorem C17_header_decision_spec : forall first rest s,
  infer_schema (first :: rest) = Some s ->
  col_types s = fold_left update_row rest (repeat CBool (length first)) /\
  (has_header s = true <-> exists f c, In (f, c) (combine first (col_types s)) /\ is_valid c f = false).
Proof. exact header_decision_spec. Qed.
Print Assumptions C17_header_decision_spec.

Theorem C17_header_null_first_row_refuted :
  exists recs s, infer_schema recs = Some s /\ has_header s = true /\
    Forall (fun r => Forall (fun f => f = [] \/ is_int f = true) r) recs.
Proof. exact header_null_first_row_refuted. Qed.
Print Assumptions C17_header_null_first_row_refuted.

(* 10. dialect choice: the chosen dialect is the first in source order that maximises the field count among the
   dialects decoding >= 2 records of equal width >= 2 *)
Theorem C17_dialect_choice_spec : forall sample d, infer_dialect sample = Some (Some d) ->
  exists n l1 l2, dialects = l1 ++ d :: l2 /\ qualifies sample d n /\
    (forall d' n', In d' dialects -> qualifies sample d' n' -> n' <= n) /\
    (forall d' n', In d' l1 -> qualifies sample d' n' -> n' < n).
Proof. exact dialect_choice_spec. Qed.
Print Assumptions C17_dialect_choice_spec.
