(* C17 — Reading a CSV file returns the RFC-4180 records with inferred types.
   Property statements only: each is closed by `exact <lemma>` from proofs/, and pinned with Print Assumptions.
   Models: model/Csv.v (RFC-4180 spec, csv_core DFA, ByteRecords, CsvDecoder::decode_inner = `decode`,
   CsvDecoder::decode = `decode_h` (BOM held back), CsvReader loop = `reader_loop_h`),
   model/CsvInfer.v (dialect / schema inference, NULL-for-empty typing). *)
From Coq Require Import NArith List Bool Arith Permutation.
From GV Require Import model.Csv model.CsvInfer proofs.CsvProofs proofs.CsvFlushProofs proofs.CsvBomProofs
  proofs.CsvQueueProofs proofs.CsvRfcProofs proofs.CsvInferProofs proofs.CsvInferLattice.
Import ListNotations.

(* ---- chunking ---- *)
(* 1. THE READER, FULL STATEMENT: for every batch capacity, every sequence of non-empty reads, with or without header
   skipping, the rows are those of one read of the whole file followed by the end-of-input signal: they do not depend
   on where read-buffer or batch boundaries fall (inside a quoted field, between the two quotes of an escape, between
   CR and LF, after the delimiter of an empty leading field, inside a leading UTF-8 BOM). *)
Theorem C17_reader_chunking_irrelevant : forall d out_cap skip chunks,
  1 <= out_cap ->
  Forall (fun ch => ch <> []) chunks ->
  reader_loop_h d out_cap skip h_init chunks
    = option_map (fun rs => if skip then tl rs else rs) (run_reader d (concat chunks)).
Proof. exact reader_h_chunking_irrelevant. Qed.
Print Assumptions C17_reader_chunking_irrelevant.

(* 2. THE DECODER, FULL STATEMENT, records accumulating: the complete state of CsvDecoder (started flag, held bytes,
   csv_core state, output position, buf, ends, record boundaries) after any sequence of non-empty reads is the state
   after one read of the whole input *)
Theorem C17_decoder_chunking_irrelevant : forall d c1 rest,
  c1 <> [] -> Forall (fun ch => ch <> []) rest ->
  decode_chunks_h d (c1 :: rest) = decode_h d h_init (c1 ++ concat rest).
Proof. exact decoder_h_chunking_irrelevant. Qed.
Print Assumptions C17_decoder_chunking_irrelevant.

(* 2a. what one call of CsvDecoder::decode does while the start of the stream may still be a BOM *)
Theorem C17_decode_h_spec : forall d p ch, undecided p = true -> ch <> [] ->
  decode_h d (held p) ch
  = if undecided (p ++ ch) then held (p ++ ch) else h_run (decode d st_init (p ++ ch)).
Proof. exact decode_h_spec. Qed.
Print Assumptions C17_decode_h_spec.

(* 3. the layer below (decode_inner = csv_core + ByteRecords): records read and clear_completed (as written, after
   0abcb062b) applied after EVERY read, and records accumulating; csv_core strips a BOM only from a first input of
   >= 3 bytes, hence the side condition at this layer (CsvDecoder::decode establishes it: 2a) *)
Theorem C17_chunking_irrelevant_flush : forall d chunks,
  Forall (fun ch => ch <> []) chunks -> chunks <> [] ->
  (3 <= length (hd [] chunks) \/ strip_bom rdr_init (concat chunks) = concat chunks) ->
  decode_flush d chunks = run_dfa d (concat chunks).
Proof. exact chunking_irrelevant_flush. Qed.
Print Assumptions C17_chunking_irrelevant_flush.

Theorem C17_chunking_irrelevant_noflush : forall d c1 rest,
  c1 <> [] -> Forall (fun ch => ch <> []) rest ->
  strip_bom rdr_init (c1 ++ concat rest) = strip_bom rdr_init c1 ++ concat rest ->
  decode_chunks d (c1 :: rest) = decode d st_init (c1 ++ concat rest).
Proof. exact chunking_irrelevant_noflush. Qed.
Print Assumptions C17_chunking_irrelevant_noflush.

(* 4. regression witness about the decoder BEFORE the BOM repair (decode_inner driven directly): a first read of 2
   bytes left the BOM in the first field; CsvDecoder::decode gives the records of the unsplit stream *)
Theorem C17_bom_split_old_refuted :
  exists d c1 rest, c1 <> [] /\ Forall (fun ch => ch <> []) rest /\
    records_of (snd (decode_chunks d (c1 :: rest))) <> records_of (snd (decode d st_init (c1 ++ concat rest))) /\
    decode_chunks_h d (c1 :: rest) = decode_h d h_init (c1 ++ concat rest) /\
    records_of (snd (h_st (decode_chunks_h d (c1 :: rest)))) = Some [[[97]]]%N.
Proof. exact bom_split_old_refuted. Qed.
Print Assumptions C17_bom_split_old_refuted.

(* 4a. THE FILE QUEUE OF A PARTITION, FULL STATEMENT (ReadCsv::poll_pull + CsvReader::prepare = clear_all +
   decoder.reset()): whatever state the previous files left the reader in, the rows are those of the files read one by
   one from a fresh reader - the rows of file i depend on file i only - and per file they are those of one read of the
   whole file, for every sequence of non-empty reads and every batch capacity. *)
Theorem C17_read_queue_independent : forall d cap hdr files h,
  read_queue prepare d cap hdr h files = opt_concat (map (reader_loop_h d cap hdr h_init) files).
Proof. exact read_queue_independent. Qed.
Print Assumptions C17_read_queue_independent.

Theorem C17_read_queue_rows : forall d cap hdr files h,
  1 <= cap -> Forall (fun f => Forall (fun ch => ch <> []) f) files ->
  read_queue prepare d cap hdr h files
  = opt_concat (map (fun f => option_map (fun rs => if hdr then tl rs else rs) (run_reader d (concat f))) files).
Proof. exact read_queue_rows. Qed.
Print Assumptions C17_read_queue_rows.

(* 4b. regression witness about prepare BEFORE decoder.reset() was added: "1,2\n" then BOM "7,8\n" in one partition
   kept the BOM of the second file in its first field *)
Theorem C17_read_queue_old_refuted :
  exists d files,
    Forall (fun f => Forall (fun ch => ch <> []) f) files /\
    read_queue prepare_old d 2048 false h_init files = Some [[[49];[50]]; [[239;187;191;55];[56]]]%N /\
    read_queue prepare d 2048 false h_init files = Some [[[49];[50]]; [[55];[56]]]%N.
Proof. exact read_queue_old_refuted. Qed.
Print Assumptions C17_read_queue_old_refuted.

(* 5. regression witnesses about the OLD definitions (the code before /repo ddfbbbc21 and 0abcb062b): the old reader
   lost the unterminated last record and depended on the cut; the current one does not on the same inputs *)
Theorem C17_reader_old_unterminated_refuted :
  exists d bs, reader_loop_old d 2048 false st_init [bs] <> Some (rfc4180 d bs) /\
               reader_loop d 2048 false st_init [bs] = Some (rfc4180 d bs).
Proof. exact reader_old_unterminated_refuted. Qed.
Print Assumptions C17_reader_old_unterminated_refuted.

Theorem C17_reader_old_flush_refuted :
  exists d c1 c2, reader_loop_old d 1 false st_init [c1; c2] <> reader_loop_old d 1 false st_init [c1 ++ c2] /\
                  reader_loop d 1 false st_init [c1; c2] = reader_loop d 1 false st_init [c1 ++ c2].
Proof. exact reader_old_flush_refuted. Qed.
Print Assumptions C17_reader_old_flush_refuted.

(* ---- RFC 4180 ---- *)
(* Blank lines (a line without any byte) are not records: RFC 4180 does not mention them, GlareDB's documentation is
   silent, csv_core documents that it ignores them; the spec (model/Csv.v rfc4180, nonblank) follows that. *)
(* 6. The reader returns exactly the field contents of every RFC-4180 encoding, the last record with OR WITHOUT line
   terminator: any per-field choice quoted/bare (quoted fields with embedded delimiter, doubled quote, CR, LF), any
   per-record choice LF/CRLF, any bytes (Unicode) in fields, blank lines anywhere (skipped); no BOM. *)
Theorem C17_reader_decodes_encoding : forall d recs last,
  dialect_ok d = true ->
  forallb (fun r => record_ok d (snd r)) recs = true ->
  match last with Some fs => record_ok d fs && negb (blank fs) = true | None => True end ->
  strip_bom rdr_init (enc_file_open d recs last) = enc_file_open d recs last ->
  run_reader d (enc_file_open d recs last) = Some (contents_open (nonblank recs) last).
Proof. exact reader_decodes_encoding. Qed.
Print Assumptions C17_reader_decodes_encoding.

(* 6a. the reference parser reads back every encoding: the spec is not vacuous *)
Theorem C17_rfc4180_decodes_encoding : forall d recs, dialect_ok d = true ->
  forallb (fun r => record_ok d (snd r)) recs = true ->
  rfc4180 d (enc_file d recs) = contents (nonblank recs).
Proof. exact rfc4180_decodes_encoding. Qed.
Print Assumptions C17_rfc4180_decodes_encoding.

(* 6b. "the reader refines the reference parser on well-formed input", no ends-with-terminator hypothesis *)
Theorem C17_reader_refines_rfc4180 : forall d bs,
  dialect_ok d = true -> well_formed_open d bs -> strip_bom rdr_init bs = bs ->
  run_reader d bs = Some (rfc4180 d bs).
Proof. exact reader_refines_rfc4180. Qed.
Print Assumptions C17_reader_refines_rfc4180.

(* 6c. the inference sample (ReadCsv::bind, DialectOptions::infer_from_sample_with_eof): when the sample reached the
   end of the file it is decoded exactly like the reader decodes the file (so 6, 6b hold for it); when it is a proper
   prefix of the file, it is the decoder without end-of-input signal, which returns the RFC-4180 records of
   terminated encodings.  Regression witness "a,b\n1,2": without the signal (the code before the repair) the last
   record was not sampled. *)
Theorem C17_sample_at_eof_is_reader : forall d bs, run_sample d true bs = run_reader d bs.
Proof. exact run_sample_eof_reader. Qed.
Print Assumptions C17_sample_at_eof_is_reader.

Theorem C17_sample_prefix_is_dfa : forall d bs, undecided bs = false -> run_sample d false bs = run_dfa d bs.
Proof. exact run_sample_noeof_dfa. Qed.
Print Assumptions C17_sample_prefix_is_dfa.

Theorem C17_dfa_refines_rfc4180 : forall d bs,
  dialect_ok d = true -> well_formed d bs -> strip_bom rdr_init bs = bs ->
  run_dfa d bs = Some (rfc4180 d bs).
Proof. exact dfa_refines_rfc4180. Qed.
Print Assumptions C17_dfa_refines_rfc4180.

Theorem C17_sample_unterminated_last_record :
  exists d bs, ends_with_terminator bs = false /\
    run_dfa d bs = Some [[[97];[98]]]%N /\ rfc4180 d bs = [[[97];[98]]; [[49];[50]]]%N /\
    run_reader d bs = Some (rfc4180 d bs) /\ run_sample d true bs = Some (rfc4180 d bs).
Proof. exact sample_unterminated_last_record. Qed.
Print Assumptions C17_sample_unterminated_last_record.

(* 6d. the sample bind infers from (the buffer is doubled and refilled while it holds fewer than two complete records):
   it holds two complete records, or reaches the end of the file, or has reached MAX_INFER_BUF_SIZE; a first read that
   is enough is used as it is.  Regression witness (first read 8 bytes, limit 64): header a,s and one data row ending
   beyond the first read gave two Boolean columns and a failing scan. *)
Theorem C17_bind_sample_enough : forall fuel max buflen acc rest eof r,
  bind_sample fuel max buflen acc rest eof = Some r ->
  2 <= length (bs_recs r) \/ bs_eof r = true \/ (max <= bs_len r)%N.
Proof. exact bind_sample_enough. Qed.
Print Assumptions C17_bind_sample_enough.

Theorem C17_bind_sample_first_enough : forall fuel max buflen acc rest eof od recs,
  infer_dialect acc eof = Some od ->
  run_sample match od with Some d => d | None => default_dialect end eof acc = Some recs ->
  2 <= length recs \/ eof = true ->
  bind_sample fuel max buflen acc rest eof
  = Some {| bs_dialect := od; bs_recs := recs; bs_eof := eof; bs_len := buflen |}.
Proof. exact bind_sample_first_enough. Qed.
Print Assumptions C17_bind_sample_first_enough.

Theorem C17_sample_grows_old_refuted :
  read_csv_old 8 grow_file 2048 [grow_file]
  = ScanOk None {| has_header := true; col_types := [CBool; CBool]; col_names := [Some [97]; Some [115]] |}%N None /\
  read_csv 8 64 grow_file 2048 [grow_file]
  = ScanOk (Some comma_dq) {| has_header := true; col_types := [CInt; CUtf8]; col_names := [Some [97]; Some [115]] |}%N
      (Some [[Some [49]; Some [120;120;120;120;120;120;120;120;120;120]]])%N /\
  option_map (fun r => (bs_eof r, bs_len r)) (bind_sample_file 8 64 grow_file) = Some (true, 32%N).
Proof. exact sample_grows_old_refuted. Qed.
Print Assumptions C17_sample_grows_old_refuted.

(* 7. blank lines: "a\n\nb\n" has two records for the reader and for the spec; a quoted empty field on a line of its
   own ("a\n\"\"\nb\n") is a record of one empty field for both *)
Theorem C17_blank_line_skipped :
  exists d bs bs', ends_with_terminator bs = true /\
    run_reader d bs = Some [[[97]]; [[98]]]%N /\ rfc4180 d bs = [[[97]]; [[98]]]%N /\
    run_reader d bs' = Some [[[97]]; [[]]; [[98]]]%N /\ rfc4180 d bs' = [[[97]]; [[]]; [[98]]]%N.
Proof. exact blank_line_skipped. Qed.
Print Assumptions C17_blank_line_skipped.

(* ---- inferred types ---- *)
(* 8. FULL STATEMENT: the type inferred for a column (col_type: widen along Boolean < Int64 < Float64 < Utf8, then
   re-validate) accepts every sampled non-empty value, every narrower type rejects one of them, and the row order is
   irrelevant. *)
Theorem C17_candidate_is_narrowest : forall vs,
  let c := col_type vs in
  c <> CTimestamp /\
  (forall v, In v vs -> v <> [] -> is_valid c v = true) /\
  (forall c', (cand_rank c' < cand_rank c)%nat -> c' <> CTimestamp ->
     exists v, In v vs /\ v <> [] /\ is_valid c' v = false).
Proof. exact candidate_is_narrowest. Qed.
Print Assumptions C17_candidate_is_narrowest.

Theorem C17_candidate_order_irrelevant : forall vs1 vs2, Permutation vs1 vs2 -> col_type vs1 = col_type vs2.
Proof. exact candidate_order_irrelevant. Qed.
Print Assumptions C17_candidate_order_irrelevant.

Theorem C17_candidate_all_bool : forall vs, Forall (fun v => v = [] \/ is_bool v = true) vs ->
  col_type vs = CBool.
Proof. exact candidate_all_bool. Qed.
Print Assumptions C17_candidate_all_bool.

(* 8a. col_type is what infer_schema computes per column (rectangular sample; ragged rows fail the scan anyway) *)
Theorem C17_schema_column_type : forall first rest s j,
  infer_schema (first :: rest) = Some s ->
  Forall (fun r => length r = length first) rest -> (j < length first)%nat ->
  nth j (col_types s) CUtf8 = col_type (map (fun r => nth j r []) rest).
Proof. exact schema_column_type. Qed.
Print Assumptions C17_schema_column_type.

(* 8b. regression witness about the OLD definition (the chain without the re-validation pass): "t","1" gave Int64
   (rejecting the sampled "t"), "1","t" gave Utf8; now Utf8 both ways *)
Theorem C17_candidate_old_refuted :
  exists vs1 vs2, Permutation vs1 vs2 /\ col_type_old vs1 <> col_type_old vs2 /\
    (exists v, In v vs1 /\ v <> [] /\ is_valid (col_type_old vs1) v = false) /\
    col_type vs1 = CUtf8 /\ col_type vs2 = CUtf8.
Proof. exact candidate_old_refuted. Qed.
Print Assumptions C17_candidate_old_refuted.

(* 9. header decision, the documented rule (reader.rs: "trying to parse the first record into the inferred types ... If
   it differs, assume a header"): row 0 is a header iff some field of it is not valid for its column's type.  The empty
   string is valid for Utf8 only, so an empty header name over a typed column marks a header (the engine's own
   slt/csv/infer/empty_header_names.slt pins that); a first row whose fields all parse is never a header. *)
Theorem C17_header_decision_spec : forall first rest s,
  infer_schema (first :: rest) = Some s ->
  col_types s = fold_left revalidate_row rest (fold_left update_row rest (repeat CBool (length first))) /\
  (has_header s = true <-> exists f c, In (f, c) (combine first (col_types s)) /\ is_valid c f = false).
Proof. exact header_decision_spec. Qed.
Print Assumptions C17_header_decision_spec.

Theorem C17_valid_first_row_not_header : forall first rest s,
  infer_schema (first :: rest) = Some s ->
  (forall f c, In (f, c) (combine first (col_types s)) -> is_valid c f = true) ->
  has_header s = false.
Proof. exact valid_first_row_not_header. Qed.
Print Assumptions C17_valid_first_row_not_header.

(* 10. dialect choice: the chosen dialect is the first in source order that maximises the field count among the
   dialects decoding >= 2 records of equal width >= 2 from the sample *)
Theorem C17_dialect_choice_spec : forall sample eof d, infer_dialect sample eof = Some (Some d) ->
  exists n l1 l2, dialects = l1 ++ d :: l2 /\ qualifies sample eof d n /\
    (forall d' n', In d' dialects -> qualifies sample eof d' n' -> n' <= n) /\
    (forall d' n', In d' l1 -> qualifies sample eof d' n' -> n' < n).
Proof. exact dialect_choice_spec. Qed.
Print Assumptions C17_dialect_choice_spec.
