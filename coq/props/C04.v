(* C04 — Every schedule terminates with the same result; no wake-up is lost.
   Property statements only: each is closed by `exact <lemma>` from proofs/ and pinned with
   Print Assumptions.  Four groups of transition systems (models in model/):
     ExecStack.v   — ExecutionStack::pop_next and the poll_execute loop (any number of operators)
     TaskSched.v   — the thread-pool task state machine (any interleaving of wake / worker / cancel)
     BarrierMergeQueue.v — MergeQueue / GlobalSort (any number of partitions, any block counts)
     BarrierStream.v     — ResultStream single-slot hand-off (any number of partitions / batches)
     BarrierHashJoin.v   — hash-join build / insert / probe / drain / abandon phases (any numbers of build and probe partitions)
     BarrierNestedLoopJoin.v — nested-loop join: build / probe / left-drain barrier order (any numbers of partitions)
   `_refuted` theorems are counter-examples on the faithful model (reported as findings);
   `_partial` theorems are the strongest proved variant of a statement that does not hold in full. *)
From Coq Require Import List Arith Bool.
From GV Require Import lib.Lts model.ExecStack model.TaskSched model.BarrierMergeQueue model.BarrierStream model.BarrierHashJoin model.BarrierNestedLoopJoin
  proofs.ExecStackProofs proofs.TaskSchedProofs proofs.BarrierMQProofs proofs.BarrierStreamProofs proofs.BarrierHJProofs proofs.BarrierHJThms proofs.BarrierNLJProofs.
Import ListNotations.

(* ---- proofs/ExecStackProofs.v ---- *)
Theorem C04_stack_replays_after_pending :
  forall s p s' c,
  pop_next s p = (s', Pending, c) ->
  s' = s /\ (exists op, c = CExec op \/ c = CFin op) /\
  forall p', cl s' p' = c.
Proof. exact stack_replays_after_pending. Qed.
Print Assumptions C04_stack_replays_after_pending.

Theorem C04_stack_delivers_each_batch_once :
  forall n s0 script,
  new n = Some s0 -> mon_run s0 (fun _ => false) script = true.
Proof. exact stack_delivers_each_batch_once. Qed.
Print Assumptions C04_stack_delivers_each_batch_once.

Theorem C04_stack_delivers_each_batch_once_without_discipline_refuted :
  exists s0 script, new 3 = Some s0 /\ mon_run_nodisc s0 (fun _ => false) script = false.
Proof. exact stack_delivers_each_batch_once_without_discipline_refuted. Qed.
Print Assumptions C04_stack_delivers_each_batch_once_without_discipline_refuted.

Theorem C04_stack_exhausted_ops_never_run_again :
  forall n s h,
  reach n s h ->
  forall post i pre j a, h = post ++ EvExec i (ROk XExhausted) :: pre -> In (EvExec j a) post -> i < j.
Proof. exact stack_exhausted_ops_never_run_again. Qed.
Print Assumptions C04_stack_exhausted_ops_never_run_again.

Theorem C04_stack_finalize_once_in_order :
  forall n s h,
  reach n s h ->
  (forall post k b mid j a pre,
     h = post ++ EvFin k b :: mid ++ EvFin j a :: pre -> fin_completes a = true -> j < k) /\
  (forall post j a pre,
     h = post ++ EvFin j a :: pre ->
     1 <= j /\ (In (EvExec (j - 1) (ROk XExhausted)) pre \/ In (EvFin (j - 1) (ROk FFinalized)) pre \/
                exists k, j < k /\ In (EvExec k (ROk XExhausted)) pre)).
Proof. exact stack_finalize_once_in_order. Qed.
Print Assumptions C04_stack_finalize_once_in_order.

Theorem C04_stack_exhausted_finalizes_all_upstream :
  forall n s h,
  reachD n s h ->
  (forall j, 1 <= j < ntf s -> fin_done h j = true \/ exhausted h j = true) /\
  (forall k, In (EvExec k (ROk XExhausted)) h -> k <> n - 1 ->
     forall j, ntf s <= j < k -> In (IAbandon j) (instrs s)) /\
  (instrs s = [] -> forall k j, In (EvExec k (ROk XExhausted)) h -> k <> n - 1 -> 1 <= j < k ->
     fin_done h j = true \/ exhausted h j = true).
Proof. exact stack_exhausted_finalizes_all_upstream. Qed.
Print Assumptions C04_stack_exhausted_finalizes_all_upstream.

Theorem C04_stack_exhausted_op_itself_finalized_only_by_later_exhaust :
  (exists script s h p, run_h (mk 5) [] script = (s, h) /\ ctl s p = Finished /\ cl s p = CFin 4 /\
     exhausted h 2 = true /\ exhausted h 3 = true /\
     fin_done h 1 = true /\ fin_done h 2 = true /\ fin_done h 3 = false) /\
  (exists script s h p, run_h (mk 5) [] script = (s, h) /\ ctl s p = Finished /\ cl s p = CFin 4 /\
     exhausted h 2 = true /\ exhausted h 3 = false /\
     fin_done h 1 = true /\ fin_done h 2 = false /\ fin_done h 3 = true).
Proof. exact stack_exhausted_op_itself_finalized_only_by_later_exhaust. Qed.
Print Assumptions C04_stack_exhausted_op_itself_finalized_only_by_later_exhaust.

Theorem C04_no_error_step_ok :
  forall s p,
  (forall e, ctl s p <> Error e) -> ab_step_ok s p = true.
Proof. exact no_error_step_ok. Qed.
Print Assumptions C04_no_error_step_ok.

Theorem C04_stack_terminates :
  forall n s h p,
  reach n s h -> ctl s p = Continue -> pushes_work s p = false ->
  M1 (nx s p) < M1 s \/ (M1 (nx s p) = M1 s /\ M2 (nx s p) < M2 s).
Proof. exact stack_terminates. Qed.
Print Assumptions C04_stack_terminates.

Theorem C04_stack_work_step_bounded :
  forall n s h p,
  reach n s h -> ctl s p = Continue -> pushes_work s p = true ->
  M1 (nx s p) = M1 s /\ M2 (nx s p) <= M2 s + n.
Proof. exact stack_work_step_bounded. Qed.
Print Assumptions C04_stack_work_step_bounded.

Theorem C04_stack_M1_bounded :
  forall n s h,
  reach n s h -> M1 s <= 2 * n.
Proof. exact stack_M1_bounded. Qed.
Print Assumptions C04_stack_M1_bounded.

Theorem C04_stack_finished_is_final :
  forall n s h p s' j,
  reach n s h -> pop_next s p = (s', Finished, CFin j) ->
  is_last s j = true /\ on_fin p = ROk FFinalized /\ instrs s' = [] /\
  forall p', pop_next s' p' = (s', Finished, CNone).
Proof. exact stack_finished_is_final. Qed.
Print Assumptions C04_stack_finished_is_final.

Theorem C04_stack_finished_implies_sink_finalized_refuted :
  exists s0 script s h p, new 2 = Some s0 /\ run_h s0 [] script = (s, h) /\
    Forall (fun q => on_exec q <> RErr /\ on_fin q <> RErr) script /\
    ctl s p = Finished /\ has_fin h = false.
Proof. exact stack_finished_implies_sink_finalized_refuted. Qed.
Print Assumptions C04_stack_finished_implies_sink_finalized_refuted.

Theorem C04_stack_finished_only_by_sink_finalize_partial :
  forall n script,
  forall s h,
  reach n s h -> bottom_ok (instrs s) ->
  forall p, let s' := fst (run_h s h script) in
  (forall pre q post, script = pre ++ q :: post ->
     let sq := fst (run_h s h pre) in quiet (ctl sq q) = true /\ start_needs_more sq q = false) ->
  ctl s' p = Finished -> exists j, cl s' p = CFin j /\ is_last s' j = true /\ on_fin p = ROk FFinalized.
Proof. exact stack_finished_only_by_sink_finalize_partial. Qed.
Print Assumptions C04_stack_finished_only_by_sink_finalize_partial.

Theorem C04_pipe_completed_stays_completed :
  forall pl answers pl' rest evs,
  pipe_poll pl answers = (pl', PDone, rest, evs) ->
  forall answers', pipe_poll pl' answers' = (pl', PErrCompleted, answers', []).
Proof. exact pipe_completed_stays_completed. Qed.
Print Assumptions C04_pipe_completed_stays_completed.

Theorem C04_pipe_repoll_after_error_continues :
  exists s0 answers pl' e rest evs,
    new 2 = Some s0 /\
    pipe_poll {| pstack := s0; profile_taken := false |} answers = (pl', PErr e, rest, evs) /\
    exists answers2 pl'' r rest2 evs2,
      pipe_poll pl' answers2 = (pl'', r, rest2, evs2) /\ evs2 <> [].
Proof. exact pipe_repoll_after_error_continues. Qed.
Print Assumptions C04_pipe_repoll_after_error_continues.

Theorem C04_pipe_repoll_after_error_can_report_done :
  exists s0 answers pl' e rest evs,
    new 2 = Some s0 /\
    pipe_poll {| pstack := s0; profile_taken := false |} answers = (pl', PErr e, rest, evs) /\
    exists pl'' rest2, pipe_poll pl' [] = (pl'', PDone, rest2, []).
Proof. exact pipe_repoll_after_error_can_report_done. Qed.
Print Assumptions C04_pipe_repoll_after_error_can_report_done.


(* ---- proofs/TaskSchedProofs.v ---- *)
Theorem C04_sched_single_worker :
  forall s,
  reachable s -> n_alive s <= 1 /\ (n_alive s = 1 -> running s = true).
Proof. exact sched_single_worker. Qed.
Print Assumptions C04_sched_single_worker.

Theorem C04_sched_no_concurrent_execute :
  forall s,
  reachable s -> n_in_execute s <= 1.
Proof. exact sched_no_concurrent_execute. Qed.
Print Assumptions C04_sched_no_concurrent_execute.

Theorem C04_sched_no_lost_wake :
  forall s,
  reachable s -> n_alive s = 0 -> owed s = true -> completed s = true.
Proof. exact sched_no_lost_wake. Qed.
Print Assumptions C04_sched_no_lost_wake.

Theorem C04_sched_owed_wake_is_served :
  forall s,
  reachable s -> owed s = true -> completed s = false ->
  exists w, forall r, exists tr s',
    length tr <= 3 /\ Forall (is_worker_ev w) tr /\ (forall r', In (EExecDone w r') tr -> r' = r) /\
    run s tr = Some s' /\ (owed s' = false \/ completed s' = true).
Proof. exact sched_owed_wake_is_served. Qed.
Print Assumptions C04_sched_owed_wake_is_served.

Theorem C04_sched_completed_never_runs :
  forall s,
  reachable s -> completed s = true ->
  n_alive s = 0 /\
  forall tr s', run s tr = Some s' ->
    completed s' = true /\ n_in_execute s' = 0 /\ execs_after_done s' = execs_after_done s.
Proof. exact sched_completed_never_runs. Qed.
Print Assumptions C04_sched_completed_never_runs.

Theorem C04_sched_done_never_reexecuted :
  forall s,
  reachable s -> execs_after_done s = 0.
Proof. exact sched_done_never_reexecuted. Qed.
Print Assumptions C04_sched_done_never_reexecuted.

Theorem C04_sched_errored_task_never_reruns :
  forall s,
  reachable s -> execs_after_err s = 0.
Proof. exact sched_errored_task_never_reruns. Qed.
Print Assumptions C04_sched_errored_task_never_reruns.

Theorem C04_sched_errored_implies_completed_at_end :
  forall s,
  reachable s -> errored s = true ->
  (n_alive s = 0 -> completed s = true) /\
  (forall w s', nth_error (workers s) w = Some (WGot XErr) -> step s (EEnd w) = Some s' -> completed s' = true).
Proof. exact sched_errored_implies_completed_at_end. Qed.
Print Assumptions C04_sched_errored_implies_completed_at_end.

Theorem C04_sched_cancel_reports :
  forall s,
  reachable s -> canceled s = true -> completed s = false ->
  cancel_reports (do_wake s) = S (cancel_reports s).
Proof. exact sched_cancel_reports. Qed.
Print Assumptions C04_sched_cancel_reports.

Theorem C04_sched_cancel_reports_trace :
  forall tr1 tr2 s,
  run init (tr1 ++ ECancelSet :: tr2 ++ [EWake]) = Some s ->
  completed s = true \/ cancel_reports s >= 1.
Proof. exact sched_cancel_reports_trace. Qed.
Print Assumptions C04_sched_cancel_reports_trace.

Theorem C04_sched_cancel_does_not_stop_worker :
  exists s, reachable s /\ canceled s = true /\
    exists s', run s [EBegin 0; EExecDone 0 XPend; EEnd 0; EBegin 0] = Some s' /\
               canceled s' = true /\ n_in_execute s' = 1 /\ cancel_reports s' = 0.
Proof. exact sched_cancel_does_not_stop_worker. Qed.
Print Assumptions C04_sched_cancel_does_not_stop_worker.


(* ---- proofs/BarrierMQProofs.v ---- *)
Theorem C04_mq_no_error_path :
  forall ks s,
  mreach ks s -> count is_err (mps s) = 0.
Proof. exact mq_no_error_path. Qed.
Print Assumptions C04_mq_no_error_path.

Theorem C04_mq_take_never_errors :
  forall ks s i,
  mreach ks s -> nth_error (mps s) i = Some MTake -> complete s = true.
Proof. exact mq_take_never_errors. Qed.
Print Assumptions C04_mq_take_never_errors.

Theorem C04_mq_parked_implies_waker_pending :
  forall ks s,
  mreach ks s -> 0 < count is_parked (mps s) ->
  0 < count is_coll (mps s) + count is_merge (mps s) + count is_busy (mps s) + count is_take (mps s).
Proof. exact mq_parked_implies_waker_pending. Qed.
Print Assumptions C04_mq_parked_implies_waker_pending.

Theorem C04_mq_parked_with_work_available_refuted :
  exists ks s, mreach ks s /\ 0 < count is_parked (mps s) /\ 2 <= runs s.
Proof. exact mq_parked_with_work_available_refuted. Qed.
Print Assumptions C04_mq_parked_with_work_available_refuted.

Theorem C04_mq_no_deadlock :
  forall ks s,
  mreach ks s -> ~ mall_done s -> exists s', mstep s s' /\ s' <> s.
Proof. exact mq_no_deadlock. Qed.
Print Assumptions C04_mq_no_deadlock.

Theorem C04_mq_spurious_poll_stutters :
  forall s i,
  nth_error (mps s) i = Some MParked -> complete s = false -> runs s < 2 ->
  {| mps := upd (mps s) i MParked; runs := runs s; remaining := remaining s;
     merging := merging s; taken := taken s |} = s.
Proof. exact mq_spurious_poll_stutters. Qed.
Print Assumptions C04_mq_spurious_poll_stutters.

Theorem C04_mq_progress_measure_decreases :
  forall ks s s',
  mreach ks s -> mstep s s' -> s' <> s -> mmeasure s' < mmeasure s.
Proof. exact mq_progress_measure_decreases. Qed.
Print Assumptions C04_mq_progress_measure_decreases.

Theorem C04_mq_exactly_one_drainer :
  forall ks s,
  mreach ks s -> taken s <= 1 /\
  (mall_done s -> taken s = (if total_blocks ks =? 0 then 0 else 1) /\ runs s = 0).
Proof. exact mq_exactly_one_drainer. Qed.
Print Assumptions C04_mq_exactly_one_drainer.

Theorem C04_mq_complete_means_quiescent :
  forall s,
  complete s = true <-> remaining s = 0 /\ merging s = 0 /\ runs s <= 1.
Proof. exact mq_complete_means_quiescent. Qed.
Print Assumptions C04_mq_complete_means_quiescent.

Theorem C04_mq_complete_is_stable :
  forall ks s s',
  mreach ks s -> mstep s s' -> complete s = true -> complete s' = true.
Proof. exact mq_complete_is_stable. Qed.
Print Assumptions C04_mq_complete_is_stable.

Theorem C04_mq_finished_only_when_complete :
  forall ks s,
  mreach ks s -> 0 < count is_take (mps s) + count is_drain (mps s) + count is_done (mps s) -> complete s = true.
Proof. exact mq_finished_only_when_complete. Qed.
Print Assumptions C04_mq_finished_only_when_complete.

Theorem C04_mq_model_steps_are_queue_ops :
  forall ks s s' q,
  mreach ks s -> mstep s s' -> q_sim s q ->
  exists q', q_sim s' q' /\
    ((exists k, q' = fst (q_add q k)) \/ (exists p, q' = fst (q_poll q p)) \/
     q' = fst (q_merge_done q) \/ q' = fst (fst (q_take q)) \/ q' = q).
Proof. exact mq_model_steps_are_queue_ops. Qed.
Print Assumptions C04_mq_model_steps_are_queue_ops.


(* ---- proofs/BarrierStreamProofs.v ---- *)
Theorem C04_stream_inv_parked_implies_flag_unset :
  forall qs s,
  sreach qs s ->
  (0 < count is_sparked (sps s) -> slot s <> None) /\
  (cons s = CParked -> slot s = None /\ serr s = false /\ 0 < srem s).
Proof. exact stream_inv_parked_implies_flag_unset. Qed.
Print Assumptions C04_stream_inv_parked_implies_flag_unset.

Theorem C04_stream_no_underflow :
  forall qs s,
  sreach qs s -> count is_spanic (sps s) = 0.
Proof. exact stream_no_underflow. Qed.
Print Assumptions C04_stream_no_underflow.

Theorem C04_stream_no_loss_no_dup :
  forall qs s,
  sreach qs s -> cons s = CEnded ->
  (forall b, occ b (delivered s) = occ b (concat qs)) /\
  count is_sdone (sps s) = length (sps s) /\ slot s = None.
Proof. exact stream_no_loss_no_dup. Qed.
Print Assumptions C04_stream_no_loss_no_dup.

Theorem C04_stream_ends_only_when_all_finalized :
  forall qs s,
  sreach qs s -> cons s = CEnded -> count is_sdone (sps s) = length (sps s).
Proof. exact stream_ends_only_when_all_finalized. Qed.
Print Assumptions C04_stream_ends_only_when_all_finalized.

Theorem C04_stream_error_reaches_consumer :
  forall qs s,
  sreach qs s ->
  (serr s = true -> cons s <> CParked /\ cons (c_poll s) = CErr) /\
  (0 < count is_sfailed (sps s) -> cons s <> CEnded /\ (serr s = true \/ cons s = CErr)).
Proof. exact stream_error_reaches_consumer. Qed.
Print Assumptions C04_stream_error_reaches_consumer.

Theorem C04_stream_no_deadlock :
  forall qs s,
  sreach qs s -> ~ consumer_finished s -> exists s', sstep s s' /\ s' <> s.
Proof. exact stream_no_deadlock. Qed.
Print Assumptions C04_stream_no_deadlock.

Theorem C04_stream_spurious_poll_stutters :
  forall s,
  (forall i b q x, nth_error (sps s) i = Some (SParked b q) -> slot s = Some x -> cons s <> CParked ->
     {| sps := upd (sps s) i (SParked b q); slot := slot s; serr := serr s; srem := srem s;
        cons := wake_pull (cons s); delivered := delivered s; dropped := dropped s |} = s) /\
  (cons s = CParked -> serr s = false -> slot s = None -> srem s <> 0 -> c_poll s = s).
Proof. exact stream_spurious_poll_stutters. Qed.
Print Assumptions C04_stream_spurious_poll_stutters.

Theorem C04_stream_progress_measure_decreases :
  forall qs s s',
  sreach qs s -> sstep s s' -> s' <> s -> smeasure s' < smeasure s.
Proof. exact stream_progress_measure_decreases. Qed.
Print Assumptions C04_stream_progress_measure_decreases.


(* ---- proofs/BarrierHJThms.v ---- *)
Theorem C04_hj_inv_parked_implies_flag_unset :
  forall ab nb n s,
  hreach ab false true nb n s ->
  (0 < count is_bparked (bps s) -> hready s = false) /\
  (0 < count is_hpscan (hps s) -> sready s = false) /\
  (0 < count is_hpdrain (hps s) -> dready s && sready s = false).
Proof. exact hj_inv_parked_implies_flag_unset. Qed.
Print Assumptions C04_hj_inv_parked_implies_flag_unset.

Theorem C04_hj_no_error_path :
  forall ab nb n s,
  hreach ab false true nb n s -> count is_berr (bps s) = 0 /\ count is_herr (hps s) = 0.
Proof. exact hj_no_error_path. Qed.
Print Assumptions C04_hj_no_error_path.

Theorem C04_hj_no_deadlock_with_limit :
  forall ab nb n s,
  0 < nb -> hreach ab false true nb n s -> ~ hall_done s -> exists s', hstep ab false true s s' /\ s' <> s.
Proof. exact hj_no_deadlock_with_limit. Qed.
Print Assumptions C04_hj_no_deadlock_with_limit.

Theorem C04_hj_no_deadlock_nested_limit :
  forall nb n s,
  0 < nb -> hreach true false true nb n s -> ~ hall_done s -> exists s', hstep true false true s s' /\ s' <> s.
Proof. exact hj_no_deadlock_nested_limit. Qed.
Print Assumptions C04_hj_no_deadlock_nested_limit.

Theorem C04_hj_no_deadlock :
  forall nb n s,
  0 < nb -> hreach false false true nb n s -> ~ hall_done s -> exists s', hstep false false true s s' /\ s' <> s.
Proof. exact hj_no_deadlock. Qed.
Print Assumptions C04_hj_no_deadlock.

Theorem C04_hj_lost_wakeup_without_drainer_wake_refuted :
  hreach false false false 1 1 hj_lost_wakeup_state /\
  count is_hpdrain (hps hj_lost_wakeup_state) = 1 /\
  dready hj_lost_wakeup_state && sready hj_lost_wakeup_state = true /\
  count is_bdone (bps hj_lost_wakeup_state) = length (bps hj_lost_wakeup_state) /\
  forall s', hstep false false false hj_lost_wakeup_state s' -> s' = hmk [BDone] 0 true 0 [HDraining] true true 0.
Proof. exact hj_lost_wakeup_without_drainer_wake_refuted. Qed.
Print Assumptions C04_hj_lost_wakeup_without_drainer_wake_refuted.

Theorem C04_hj_drain_deadlock_when_abandon_lost_refuted :
  hreach true true true 1 2 hj_deadlock_state /\ ~ hall_done hj_deadlock_state /\
  forall s', hstep true true true hj_deadlock_state s' -> s' = hj_deadlock_state.
Proof. exact hj_drain_deadlock_when_abandon_lost_refuted. Qed.
Print Assumptions C04_hj_drain_deadlock_when_abandon_lost_refuted.


(* ---- proofs/BarrierNLJProofs.v ---- *)
Theorem C04_nlj_drain_only_after_all_probed :
  forall nb np s,
  nreach false nb np s -> 0 < drain_started s -> rem_probe s = 0 /\ can_still_match s = 0.
Proof. exact nlj_drain_only_after_all_probed. Qed.
Print Assumptions C04_nlj_drain_only_after_all_probed.

Theorem C04_nlj_probe_only_after_build :
  forall nb np s,
  nreach false nb np s -> 0 < count is_nscan (nps s) -> rem_build s = 0 /\ count is_ncoll (nbs s) = 0.
Proof. exact nlj_probe_only_after_build. Qed.
Print Assumptions C04_nlj_probe_only_after_build.

Theorem C04_nlj_inv_parked_implies_flag_unset :
  forall nb np s,
  nreach false nb np s ->
  (0 < count is_nparkb0 (nps s) + count is_nparkb1 (nps s) -> 0 < rem_build s) /\
  (0 < count is_nparkd (nps s) -> 0 < rem_probe s).
Proof. exact nlj_inv_parked_implies_flag_unset. Qed.
Print Assumptions C04_nlj_inv_parked_implies_flag_unset.

Theorem C04_nlj_no_error_path :
  forall nb np s,
  nreach false nb np s -> count is_nberr (nbs s) = 0 /\ count is_nperr (nps s) = 0.
Proof. exact nlj_no_error_path. Qed.
Print Assumptions C04_nlj_no_error_path.

Theorem C04_nlj_no_deadlock :
  forall nb np s,
  nreach false nb np s -> ~ nall_done s -> exists s', nstep false s s' /\ s' <> s.
Proof. exact nlj_no_deadlock. Qed.
Print Assumptions C04_nlj_no_deadlock.

Theorem C04_nlj_drain_before_all_probed_refuted :
  exists s, nreach true 1 2 s /\ 0 < drain_started s /\ 0 < can_still_match s /\ rem_probe s = 1.
Proof. exact nlj_drain_before_all_probed_refuted. Qed.
Print Assumptions C04_nlj_drain_before_all_probed_refuted.
