(* C08 — ORDER BY yields a correctly sorted permutation; LIMIT/OFFSET the exact slice.
   Property statements only: each is closed by `exact <lemma>` from proofs/, and
   pinned with Print Assumptions.  The constants of the key encoding come from
   gen/Tables.v, which is regenerated from /repo's source on every run. *)
From Coq Require Import NArith ZArith List Bool.
From Coq Require Import Sorting.Permutation Sorting.Sorted.
From GV Require Import lib.Bytes model.SortKey proofs.SortKeyProofs proofs.SortKeySrc gen.Tables.
From GV Require Import model.SortSpec model.Merge proofs.SortSpecProofs proofs.MergeProofs.
Import ListNotations.
Open Scope N_scope.

(* The key types as the *current source* encodes them. *)
Definition src_f (w : nat) (shift : option N) : option kty := option_map (KF w) shift.
Definition src_bool : option kty :=
  match bool_true_key, bool_false_key with Some t, Some f => Some (KBool t f) | _, _ => None end.
Definition src_str : option kty := option_map (fun w => KStr (N.to_nat w)) string_prefix_width.

(* 1. integers of every width: byte order of the key = numeric order *)
Theorem C08_unsigned_key_order : forall w a b, (0 < w)%nat -> a < 2 ^ bitsw w -> b < 2 ^ bitsw w ->
  lex_cmp (encode_val (KU w) (KBits a)) (encode_val (KU w) (KBits b)) = N.compare a b.
Proof. exact unsigned_key_order. Qed.
Print Assumptions C08_unsigned_key_order.

Theorem C08_signed_key_order : forall w a b, (0 < w)%nat -> a < 2 ^ bitsw w -> b < 2 ^ bitsw w ->
  lex_cmp (encode_val (KS w) (KBits a)) (encode_val (KS w) (KBits b)) = Z.compare (sint w a) (sint w b).
Proof. exact enc_signed_order. Qed.
Print Assumptions C08_signed_key_order.

(* 2. floats, with the shift constants of the current source: key order = IEEE total order,
   all 2^16 / 2^32 / 2^64 bit patterns (NaN above every number, -0 below +0) *)
Theorem C08_float_keys_order :
  forall w sh, In (w, sh) [(2%nat, f16_shift); (4%nat, f32_shift); (8%nat, f64_shift)] ->
  exists k, sh = Some k /\ forall a b, a < 2 ^ bitsw w -> b < 2 ^ bitsw w ->
    lex_cmp (encode_val (KF w k) (KBits a)) (encode_val (KF w k) (KBits b))
    = Z.compare (float_rank w a) (float_rank w b).
Proof. exact src_float_keys_order. Qed.
Print Assumptions C08_float_keys_order.

(* 3. booleans: FALSE sorts before TRUE with the bytes the current source writes *)
Theorem C08_bool_key_order : exists t, src_bool = Some t /\ kty_ok t.
Proof. exact src_bool_ok. Qed.
Print Assumptions C08_bool_key_order.

(* 4. every fixed-width column: validity byte, NULL placement, DESC inversion *)
Theorem C08_column_key_order : forall c a b, kty_ok (k_ty c) -> is_str (k_ty c) = false ->
  val_wf (k_ty c) a -> val_wf (k_ty c) b ->
  lex_cmp (encode_col c a) (encode_col c b) = col_cmp c a b.
Proof. exact encode_col_order. Qed.
Print Assumptions C08_column_key_order.

(* 5. strings: the zero-padded prefix never misorders (0x00 / 0xFF bytes, shared long prefixes);
   a tie on the prefix defers to the full value *)
Theorem C08_string_prefix_sound : forall c a b, kty_ok (k_ty c) ->
  val_wf (k_ty c) a -> val_wf (k_ty c) b ->
  forall x, x <> Eq -> lex_cmp (encode_col c a) (encode_col c b) = x -> col_cmp c a b = x.
Proof. exact encode_col_sound. Qed.
Print Assumptions C08_string_prefix_sound.

(* 6. any number of keys, mixed directions and null placements *)
Theorem C08_row_key_order : forall cs r1 r2,
  Forall (fun c => kty_ok (k_ty c) /\ is_str (k_ty c) = false) cs ->
  Forall2 (fun c v => val_wf (k_ty c) v) cs r1 ->
  Forall2 (fun c v => val_wf (k_ty c) v) cs r2 ->
  lex_cmp (encode_row cs r1) (encode_row cs r2) = row_cmp cs r1 r2.
Proof. exact encode_row_order. Qed.
Print Assumptions C08_row_key_order.

(* 7. sorting: a sorted permutation for every input (the declared order is total) *)
Theorem C08_sort_is_sorted_permutation : forall cs l,
  Permutation (isort cs l) l /\ sortedb cs (isort cs l) = true.
Proof. intros cs l. split; [exact (isort_perm cs l)|exact (isort_sorted cs l)]. Qed.
Print Assumptions C08_sort_is_sorted_permutation.

(* 8. any binary merge tree over any sorted runs (any pairing order of the merge queue, any number of
   partitions and blocks) yields a sorted permutation of all rows *)
Theorem C08_merge_any_pairing : forall cs t,
  all_runs (Sorted (fun a b => sle cs a b = true)) t ->
  Sorted (fun a b => sle cs a b = true) (merge_tree cs t) /\ Permutation (merge_tree cs t) (runs t).
Proof. exact merge_tree_sorted_perm. Qed.
Print Assumptions C08_merge_any_pairing.

(* 9. a sort that knows the limit (every run and every merge truncated to k = limit + offset) returns the
   first k rows of a full sort *)
Theorem C08_topk_hint_equiv : forall cs k t,
  all_runs (Sorted (fun a b => sle cs a b = true)) t ->
  exists p, Permutation p (runs t) /\ Sorted (fun a b => sle cs a b = true) p /\
            merge_tree_hint cs k t = firstn k p.
Proof. exact merge_tree_hint_topk. Qed.
Print Assumptions C08_topk_hint_equiv.

(* 10. the checker applied to the engine's answers is sound: an accepted answer is exactly the
   requested slice of SOME correctly sorted arrangement of the input *)
Theorem C08_order_slice_checker_sound : forall cs inp off lim out,
  Forall (srow_wf cs) inp ->
  check_order_slice cs inp off lim out = true ->
  exists p, Permutation p inp /\ Sorted (fun a b => sle cs a b = true) p /\
            out = match lim with Some n => slice off n p | None => skipn off p end.
Proof. exact check_order_slice_sound. Qed.
Print Assumptions C08_order_slice_checker_sound.
