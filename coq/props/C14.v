(* C14 — Catalog and table contents equal the sequential effect of DDL/DML.
   Property statements only: each is closed by `exact <lemma>` from proofs/ and pinned with
   Print Assumptions.  Catalog side: model/Catalog.v (`step` = sequential specification, `step_impl` = what the
   implementation does given what the storage layer leaves visible).  Storage side: model/Storage.v (the
   ConcurrentColumnCollection transition system, any number of appender and scanner partitions, any
   interleaving of their lock regions). *)
From Coq Require Import List NArith ZArith Bool Permutation.
From GV Require Import model.Catalog model.Storage proofs.CatalogProofs proofs.StorageProofs.
Import ListNotations.

(* ---------------------------------------------------------------- catalog *)

(* a statement that fails changes nothing (catalog map, settings), in every session *)
Theorem C14_step_error_atomic : forall st u s e, snd (Catalog.step st u s) = Err e -> fst (Catalog.step st u s) = st.
Proof. exact step_error_atomic_proof. Qed.
Print Assumptions C14_step_error_atomic.

(* ... but the implementation's INSERT / CTAS is not atomic once the storage layer has made rows (or the new
   table) visible before the failure: REFUTED for step_impl (witness: a failing CTAS leaves its table) *)
Theorem C14_step_impl_error_atomic_refuted :
  exists o st u s e, snd (step_impl o st u s) = Err e /\ fst (step_impl o st u s) <> st.
Proof. exact step_impl_error_not_atomic_proof. Qed.
Print Assumptions C14_step_impl_error_atomic_refuted.

(* the implementation agrees with the specification on every statement that does not fail during execution
   (an INSERT reading its own target included, since commit 2e9960218) *)
Theorem C14_step_impl_agrees : forall o st u s,
  fails_at_runtime s = false ->
  step_impl o st u s = Catalog.step st u s.
Proof. exact step_impl_agrees_proof. Qed.
Print Assumptions C14_step_impl_agrees.

Theorem C14_create_if_not_exists_idempotent : forall st u s r1,
  ine_stmt s = true -> snd (Catalog.step st u s) = Ok r1 ->
  let st1 := fst (Catalog.step st u s) in
  fst (Catalog.step st1 u s) = st1 /\ exists r2, snd (Catalog.step st1 u s) = Ok r2.
Proof. exact create_if_not_exists_idempotent_proof. Qed.
Print Assumptions C14_create_if_not_exists_idempotent.

(* DROP TABLE removes the named object and only it: every other (schema, name), the schema list and the
   settings are unchanged *)
Theorem C14_drop_removes_exactly : forall st u r ie res0 se se',
  snd (Catalog.step st u (DropTable r ie false)) = Ok res0 ->
  nth_error st u = Some se -> nth_error (fst (Catalog.step st u (DropTable r ie false))) u = Some se' ->
  lookup (schemas se') (fst (resolve_ref r)) (snd (resolve_ref r)) = None /\
  (forall s' n', (s', n') <> resolve_ref r -> lookup (schemas se') s' n' = lookup (schemas se) s' n') /\
  keys (schemas se') = keys (schemas se) /\ conf se' = conf se.
Proof. exact drop_removes_exactly_proof. Qed.
Print Assumptions C14_drop_removes_exactly.

(* schema names and object names stay unique, whatever the storage layer leaks *)
Theorem C14_names_unique_inv : forall o st u s, wf st -> wf (fst (step_impl o st u s)).
Proof. exact names_unique_inv_proof. Qed.
Print Assumptions C14_names_unique_inv.

(* temporary objects and settings of one session are invisible to, and untouched by, the others *)
Theorem C14_session_isolation : forall o st u u' s,
  u <> u' -> view u' (fst (step_impl o st u s)) = view u' st.
Proof. exact session_isolation_proof. Qed.
Print Assumptions C14_session_isolation.

(* a view yields whatever its target yields in the catalog of the querying statement *)
Theorem C14_view_sees_current_base : forall scs vs vn t f x,
  lookup scs vs vn = Some (View t) -> read_ref f scs t = Some x ->
  forall g, f < g -> read_ref g scs (Some vs, vn) = Some x.
Proof. exact view_sees_current_base_proof. Qed.
Print Assumptions C14_view_sees_current_base.

(* ---------------------------------------------------------------- storage *)

(* n appender partitions in any interleaving (flushes under the mutex whenever a local segment reaches
   segment_size chunks, and at finalize), all finalized; then a COLLECTION-level parallel scan (no segment
   limit) with any p >= 1 scan states in any interleaving, run until every state is exhausted: the scan returns
   the previous rows and every appended row exactly once.  (Segments are never empty: `flush` drops a segment
   of zero rows — Lemma run_nonempty — so the hypothesis on sg holds for every reachable table.) *)
Theorem C14_append_scan_exactly_once : forall k sg n ls1 c1 p ls2 c2,
  0 < cap k -> 0 < ocap k -> Forall (fun g => g <> []) sg ->
  run k (writers sg n) ls1 = Some c1 -> all_finalized c1 = true ->
  1 <= p -> run k (start_scan p c1) ls2 = Some c2 -> all_done c2 = true ->
  Permutation (scan_output c2) (concat sg ++ appended ls1).
Proof. exact append_scan_exactly_once_proof. Qed.
Print Assumptions C14_append_scan_exactly_once.

(* the sum of the per-partition `rows_inserted` counters is the number of rows appended *)
Theorem C14_insert_count_is_rows_appended : forall k sg n ls c,
  run k (writers sg n) ls = Some c -> insert_count c = length (appended ls).
Proof. exact insert_count_proof. Qed.
Print Assumptions C14_insert_count_is_rows_appended.

(* TABLE scan (DataTable::init_parallel_scan_states, limit = number of segments at creation): for ANY label
   sequence ls — scan calls of the p states interleaved with appends, flushes and finalizes of any appender,
   of the same statement or not — once every scan state is exhausted the scan has returned exactly the rows
   the table held when the scan states were created, each once *)
Theorem C14_table_scan_snapshot : forall k c p ls c',
  0 < cap k -> 0 < ocap k -> Forall (fun g => g <> []) (segs c) -> 1 <= p ->
  run k (start_table_scan p c) ls = Some c' -> all_done c' = true ->
  Permutation (scan_output c') (all_rows c).
Proof. exact table_scan_snapshot_proof. Qed.
Print Assumptions C14_table_scan_snapshot.

(* `INSERT INTO t SELECT * FROM t` reads the table as of statement start: with any number p >= 1 of partitions
   and any interleaving of the partitions' actions, a completed statement has added exactly the rows present at
   its start *)
Theorem C14_insert_select_snapshot : forall k sg p ls c,
  0 < cap k -> 0 < ocap k -> Forall (fun g => g <> []) sg -> 1 <= p ->
  forallb is_stmt_label ls = true ->
  run k (self_insert sg p) ls = Some c -> complete c = true ->
  Permutation (added (length sg) c) (concat sg).
Proof. exact insert_select_snapshot_proof. Qed.
Print Assumptions C14_insert_select_snapshot.

(* termination measure: measure R L c = (R+1) * (p + L - counter) + rows of the current segments not yet emitted
   + scan states not exhausted + appenders not finalized (R rows in L segments at statement start); every action
   of the statement strictly decreases it *)
Theorem C14_stmt_step_decreases : forall k SG c l c',
  0 < cap k -> 0 < ocap k -> Forall (fun g => g <> []) SG -> scan_inv k SG c ->
  is_stmt_label l = true -> step k c l = Some c' ->
  measure (length (concat SG)) (length SG) c' < measure (length (concat SG)) (length SG) c.
Proof. exact stmt_step_decreases_proof. Qed.
Print Assumptions C14_stmt_step_decreases.

(* hence the self-reading INSERT terminates: no run of the statement has more than (R+1)*L + 2p steps *)
Theorem C14_self_insert_terminates : forall k sg p ls c,
  0 < cap k -> 0 < ocap k -> Forall (fun g => g <> []) sg ->
  forallb is_stmt_label ls = true -> run k (self_insert sg p) ls = Some c ->
  length ls <= S (length (concat sg)) * length sg + 2 * p.
Proof. exact self_insert_terminates_proof. Qed.
Print Assumptions C14_self_insert_terminates.

(* ---- the table scan as it was before commit 2e9960218 (`Old.self_insert`: no segment limit).  Kept as
   lemmas about the old definition: the witness schedules of the two repaired defects *)
Theorem C14_old_insert_select_snapshot_refuted :
  exists k sg p ls c, run k (Old.self_insert sg p) ls = Some c /\ complete c = true /\
    ~ Permutation (added (length sg) c) (concat sg).
Proof. exact old_insert_select_snapshot_refuted_proof. Qed.
Print Assumptions C14_old_insert_select_snapshot_refuted.

Theorem C14_old_insert_select_schedule_dependent :
  exists k sg p ls1 ls2 c1 c2,
    run k (Old.self_insert sg p) ls1 = Some c1 /\ complete c1 = true /\
    run k (Old.self_insert sg p) ls2 = Some c2 /\ complete c2 = true /\
    length (added (length sg) c1) = 4 /\ length (added (length sg) c2) = 2 /\ length (concat sg) = 2.
Proof. exact old_insert_select_schedule_dependent_proof. Qed.
Print Assumptions C14_old_insert_select_schedule_dependent.

(* bounded non-termination witness of the old definition: one partition, a table of one full segment; after
   200 scan calls the statement is still running and the table has grown 50-fold *)
Theorem C14_old_self_insert_growth_witness :
  exists c, run kw (Old.self_insert [[1%N; 2%N]] 1) (repeat (LPipe 0) 200) = Some c /\ complete c = false /\
            100 <= length (all_rows c).
Proof. exact old_self_insert_growth_witness_proof. Qed.
Print Assumptions C14_old_self_insert_growth_witness.

(* ---- not repaired: a statement that stops before finalize (fails) after a flush leaves the flushed rows
   visible:
     forall k sg n ls c, run k (writers sg n) ls = Some c -> all_finalized c = false -> all_rows c = concat sg
   REFUTED *)
Theorem C14_storage_error_atomic_refuted :
  exists k sg n ls c, run k (writers sg n) ls = Some c /\ all_finalized c = false /\ all_rows c <> concat sg.
Proof. exact storage_error_atomic_refuted_proof. Qed.
Print Assumptions C14_storage_error_atomic_refuted.

(* what holds instead: an append that keeps the local segment below segment_size chunks publishes nothing *)
Theorem C14_no_flush_below_threshold_partial : forall k c i b c',
  do_append k c i b = Some c' ->
  (forall a, nth_error (apps c) i = Some a -> nchunks (cap k) true (length (a_buf a ++ b)) < segsz k) ->
  segs c' = segs c.
Proof. exact no_flush_below_threshold. Qed.
Print Assumptions C14_no_flush_below_threshold_partial.

(* ---------------------------------------------------------------- chunk level: ColumnCollectionSegment::append_batch
   as written (segment.rs): the loop that splits one appended batch over storage chunks *)

(* after ANY sequence of append_batch calls, with batches of any sizes (larger than, equal to, smaller than the chunk
   capacity, empty) and any chunk capacity > 0: the chunks, read in order, are exactly the appended batches in order
   — no row lost, duplicated or reordered — and every chunk except the current (last) one is full *)
Theorem C14_append_batch_chunks_exact : forall cp batches rchs, 0 < cp -> wfc cp rchs ->
  exists rchs', seg_appends true cp rchs batches = Some rchs' /\
    chunk_rows rchs' = chunk_rows rchs ++ concat batches /\ wfc cp rchs'.
Proof. exact seg_appends_exact_proof. Qed.
Print Assumptions C14_append_batch_chunks_exact.

(* the chunk count of a local segment is the closed form used by the collection model's flush threshold *)
Theorem C14_chunk_count_is_nchunks : forall cp rchs, 0 < cp -> wfc cp rchs -> rchs <> [] ->
  length rchs = nchunks cp true (length (chunk_rows rchs)).
Proof. exact chunk_count_is_nchunks_proof. Qed.
Print Assumptions C14_chunk_count_is_nchunks.

(* one appender partition (append_batch, flush at segment_size chunks, flush at the end): the table then holds its
   previous rows followed by the batches *)
Theorem C14_bulk_append_content : forall cp sz batches sg rchs, 0 < cp -> wfc cp rchs ->
  exists sg', bulk true cp sz sg rchs batches = Some sg' /\ concat sg' = concat sg ++ chunk_rows rchs ++ concat batches.
Proof. exact bulk_content_proof. Qed.
Print Assumptions C14_bulk_append_content.

(* the variant `input_offset = copy_count` (instead of `+=`) is distinguished by the statement above: REFUTED for it
   with a batch spanning three chunks — same count, rows duplicated and lost *)
Theorem C14_append_batch_eq_variant_refuted :
  exists cp batch rchs', seg_append false cp [] batch = Some rchs' /\
    length (chunk_rows rchs') = length batch /\ chunk_rows rchs' <> batch /\
    seg_append true cp [] batch = Some (rev [[1; 2]; [3; 4]; [5; 6]])%N.
Proof. exact seg_append_eq_variant_refuted_proof. Qed.
Print Assumptions C14_append_batch_eq_variant_refuted.
