(* C05 / C12, topic numfn — integer / decimal numeric and bitwise scalar functions equal their
   mathematical definition or fail.  Property statements only: each is closed by `exact <lemma>`
   from proofs/NumFnProofs.v and pinned with Print Assumptions.  model/NumFn.v transcribes
   numeric/{gcd,lcm,factorial,round,abs,sign,ceil,floor,trunc}.rs and binary/{bitand,bitor,xor,bitnot,shl,shr}.rs
   of /repo as they are; widths w are universally quantified (8..128 are instances).
   Naming: `_partial` = proved under the stated hypothesis, the full statement is in the comment and
   is refuted by the `_refuted` / `_deviates` theorem that follows. *)
From Coq Require Import ZArith List Bool.
From GV Require Import model.Arith model.Decimal model.NumFn proofs.NumFnProofs gen.TablesNumfn.
Import ListNotations.
Open Scope Z_scope.

(* ---- 1. gcd *)
(* the loop computes the gcd of non-negative operands whenever it returns *)
Theorem C05num_euclid_is_gcd : forall fuel w a b r, 0 < w -> 0 <= a -> 0 <= b ->
  euclid fuel w a b = Some r -> r = Ok (Z.gcd a b).
Proof. exact euclid_gcd. Qed.
Print Assumptions C05num_euclid_is_gcd.

(* termination argument: |b| at least halves every two iterations, so 2w + 1 iterations suffice for
   w-bit operands -- for every input, including the type minimum in release builds *)
Theorem C05num_gcd_terminates : forall m w a b, 0 < w -> in_range Signed w a = true -> in_range Signed w b = true ->
  impl_gcd m w a b <> None.
Proof. exact gcd_terminates. Qed.
Print Assumptions C05num_gcd_terminates.

(* full statement (refuted at the type minimum, C05num_gcd_refuted):
     forall m w a b, 0 < w -> in_range Signed w a = true -> in_range Signed w b = true ->
       impl_gcd m w a b = Some (spec_gcd w a b) *)
Theorem C05num_gcd_correct_partial : forall m w a b, 0 < w ->
  in_range Signed w a = true -> in_range Signed w b = true -> a <> lo Signed w -> b <> lo Signed w ->
  impl_gcd m w a b = Some (spec_gcd w a b).
Proof. exact gcd_correct_partial. Qed.
Print Assumptions C05num_gcd_correct_partial.

Theorem C05num_gcd_min_panics_debug : forall w b, 0 < w ->
  impl_gcd Debug w (lo Signed w) b = Some Panic /\ impl_gcd Debug w b (lo Signed w) <> Some (spec_gcd w b (lo Signed w)).
Proof. exact gcd_min_panics_debug. Qed.
Print Assumptions C05num_gcd_min_panics_debug.

Theorem C05num_gcd_refuted :
  impl_gcd Debug 8 (-128) 6 = Some Panic /\ impl_gcd Release 8 (-128) 6 = Some (Ok (-2)) /\ spec_gcd 8 (-128) 6 = Ok 2 /\
  impl_gcd Release 8 (-128) (-128) = Some (Ok (-128)) /\ spec_gcd 8 (-128) (-128) = Err /\
  impl_gcd Release 64 (- 2 ^ 63) 0 = Some (Ok (- 2 ^ 63)) /\ spec_gcd 64 (- 2 ^ 63) 0 = Err.
Proof. exact gcd_refuted. Qed.
Print Assumptions C05num_gcd_refuted.

(* ---- 2. lcm *)
Theorem C05num_lcm_terminates : forall m w a b, 0 < w -> in_range Signed w a = true -> in_range Signed w b = true ->
  impl_lcm m w a b <> None.
Proof. exact lcm_terminates. Qed.
Print Assumptions C05num_lcm_terminates.

(* full statement (refuted: C05num_lcm_unrepresentable_deviates, C05num_lcm_refuted):
     forall m w a b, 0 < w -> in_range Signed w a = true -> in_range Signed w b = true ->
       impl_lcm m w a b = Some (spec_lcm w a b) *)
Theorem C05num_lcm_correct_partial : forall m w a b, 0 < w ->
  in_range Signed w a = true -> in_range Signed w b = true -> a <> lo Signed w -> b <> lo Signed w ->
  in_range Signed w (Z.lcm a b) = true ->
  impl_lcm m w a b = Some (spec_lcm w a b).
Proof. exact lcm_correct_partial. Qed.
Print Assumptions C05num_lcm_correct_partial.

(* every unrepresentable least common multiple: a panic (overflow checks) or a wrapped, wrong value *)
Theorem C05num_lcm_unrepresentable_deviates : forall m w a b, 0 < w ->
  in_range Signed w a = true -> in_range Signed w b = true -> a <> lo Signed w -> b <> lo Signed w ->
  in_range Signed w (Z.lcm a b) = false ->
  spec_lcm w a b = Err /\
  impl_lcm m w a b = Some (match m with Debug => Panic | Release => Ok (wrap Signed w (Z.lcm a b)) end) /\
  wrap Signed w (Z.lcm a b) <> Z.lcm a b.
Proof. exact lcm_unrepresentable_deviates. Qed.
Print Assumptions C05num_lcm_unrepresentable_deviates.

Theorem C05num_lcm_refuted :
  impl_lcm Debug 8 127 126 = Some Panic /\ impl_lcm Release 8 127 126 = Some (Ok (-126)) /\ spec_lcm 8 127 126 = Err /\
  impl_lcm Debug 8 (-128) 1 = Some Panic /\ impl_lcm Release 8 (-128) 1 = Some (Ok (-128)) /\ spec_lcm 8 (-128) 1 = Err /\
  impl_lcm Release 8 (-128) 127 = Some Panic /\
  impl_lcm Release 64 (2 ^ 62) 3 = Some (Ok (- 2 ^ 62)) /\ spec_lcm 64 (2 ^ 62) 3 = Err.
Proof. exact lcm_refuted. Qed.
Print Assumptions C05num_lcm_refuted.

(* ---- 3. factorial (Int64 -> Int128) *)
Theorem C05num_factorial_characterised : forall n,
  impl_factorial n = Some (Ok (if (0 <=? n) && in_range Signed 128 (zf n) then Some (zf n) else None)).
Proof. exact factorial_characterised. Qed.
Print Assumptions C05num_factorial_characterised.

(* full statement (refuted: C05num_factorial_null_where_undefined):
     forall n, impl_factorial n = Some (spec_factorial n) *)
Theorem C05num_factorial_correct_partial : forall n v, spec_factorial n = Ok v -> impl_factorial n = Some (Ok v).
Proof. exact factorial_correct_partial. Qed.
Print Assumptions C05num_factorial_correct_partial.

Theorem C05num_factorial_null_where_undefined : forall n, spec_factorial n = Err -> impl_factorial n = Some (Ok None).
Proof. exact factorial_null_where_undefined. Qed.
Print Assumptions C05num_factorial_null_where_undefined.

Theorem C05num_factorial_refuted :
  impl_factorial (-1) = Some (Ok None) /\ spec_factorial (-1) = Err /\
  impl_factorial 34 = Some (Ok None) /\ spec_factorial 34 = Err /\
  impl_factorial 33 = Some (Ok (Some 8683317618811886495518194401280000000)).
Proof. exact factorial_refuted. Qed.
Print Assumptions C05num_factorial_refuted.

(* the definition evaluated by the driver is the definition *)
Theorem C05num_factorial_spec_exec : forall n, spec_factorial_exec n = spec_factorial n.
Proof. exact spec_factorial_exec_eq. Qed.
Print Assumptions C05num_factorial_spec_exec.

(* ---- 4. & | xor ~ : the operation on the w-bit two's-complement patterns is Z.land / Z.lor / Z.lxor /
   Z.lnot on the values, for every width and both signednesses *)
Theorem C05num_bitand_correct : forall sg w a b, 0 < w -> in_range sg w a = true -> in_range sg w b = true ->
  impl_bitand sg w a b = spec_bitand sg w a b /\ in_range sg w (Z.land a b) = true.
Proof. exact bitand_correct. Qed.
Print Assumptions C05num_bitand_correct.

Theorem C05num_bitor_correct : forall sg w a b, 0 < w -> in_range sg w a = true -> in_range sg w b = true ->
  impl_bitor sg w a b = spec_bitor sg w a b /\ in_range sg w (Z.lor a b) = true.
Proof. exact bitor_correct. Qed.
Print Assumptions C05num_bitor_correct.

Theorem C05num_xor_correct : forall sg w a b, 0 < w -> in_range sg w a = true -> in_range sg w b = true ->
  impl_xor sg w a b = spec_xor sg w a b /\ in_range sg w (Z.lxor a b) = true.
Proof. exact xor_correct. Qed.
Print Assumptions C05num_xor_correct.

Theorem C05num_bitnot_correct : forall sg w a, 0 < w -> in_range sg w a = true ->
  impl_bitnot sg w a = spec_bitnot sg w a /\
  spec_bitnot sg w a = Ok (match sg with Signed => - a - 1 | Unsigned => 2 ^ w - 1 - a end) /\
  in_range sg w (match sg with Signed => - a - 1 | Unsigned => 2 ^ w - 1 - a end) = true.
Proof. exact bitnot_correct. Qed.
Print Assumptions C05num_bitnot_correct.

(* ---- 5. shifts (count: Int32) *)
Theorem C05num_shl_correct : forall sg w a b, 0 < w <= 2 ^ 31 -> in_range Signed 32 b = true ->
  impl_shl sg w a b = spec_shl sg w a b.
Proof. exact shl_correct. Qed.
Print Assumptions C05num_shl_correct.

Theorem C05num_shl_in_range : forall sg w a b v, 0 < w -> impl_shl sg w a b = Ok v -> in_range sg w v = true.
Proof. exact shl_in_range. Qed.
Print Assumptions C05num_shl_in_range.

(* full statement (refuted: C05num_shr_overshift_negative):
     forall sg w a b, 0 < w <= 2 ^ 31 -> in_range Signed 32 b = true -> in_range sg w a = true ->
       impl_shr sg w a b = spec_shr sg w a b *)
Theorem C05num_shr_correct_partial : forall sg w a b, 0 < w <= 2 ^ 31 -> in_range Signed 32 b = true ->
  in_range sg w a = true -> (b < w \/ 0 <= a) ->
  impl_shr sg w a b = spec_shr sg w a b.
Proof. exact shr_correct_partial. Qed.
Print Assumptions C05num_shr_correct_partial.

Theorem C05num_shr_overshift_negative : forall w a b, 0 < w <= 2 ^ 31 -> in_range Signed 32 b = true ->
  in_range Signed w a = true -> a < 0 -> w <= b ->
  impl_shr Signed w a b = Ok 0 /\ spec_shr Signed w a b = Ok (-1).
Proof. exact shr_overshift_negative. Qed.
Print Assumptions C05num_shr_overshift_negative.

Theorem C05num_shr_in_range : forall sg w a b v, 0 < w -> in_range sg w a = true -> impl_shr sg w a b = Ok v ->
  in_range sg w v = true.
Proof. exact shr_in_range. Qed.
Print Assumptions C05num_shr_in_range.

(* the definitions evaluated by the driver are the definitions *)
Theorem C05num_shl_spec_exec : forall sg w a b, 0 < w -> spec_shl_exec sg w a b = spec_shl sg w a b.
Proof. exact spec_shl_exec_eq. Qed.
Print Assumptions C05num_shl_spec_exec.

Theorem C05num_shr_spec_exec : forall sg w a b, 0 < w -> in_range sg w a = true -> spec_shr_exec sg w a b = spec_shr sg w a b.
Proof. exact spec_shr_exec_eq. Qed.
Print Assumptions C05num_shr_spec_exec.

Theorem C05num_shift_witnesses :
  impl_shr Signed 8 (-1) 8 = Ok 0 /\ spec_shr Signed 8 (-1) 8 = Ok (-1) /\ impl_shr Signed 8 (-1) 7 = Ok (-1) /\
  impl_shl Signed 8 1 7 = Ok (-128) /\ impl_shl Signed 8 1 8 = Ok 0 /\ impl_shl Signed 32 1 (-1) = Ok 0 /\
  impl_shr Signed 32 (-8) (-1) = Ok 0.
Proof. exact shift_witnesses. Qed.
Print Assumptions C05num_shift_witnesses.

(* ---- 6. round(decimal(p,s), n) *)
(* the definition: a nearest multiple of 10^(s - min n s), ties away from zero *)
Theorem C05num_round_spec_is_nearest_half_away : forall v d, 0 < d ->
  2 * Z.abs (rha v d * d - v) <= d /\ (2 * Z.abs (rha v d * d - v) = d -> Z.abs v < Z.abs (rha v d * d)).
Proof. exact rha_nearest. Qed.
Print Assumptions C05num_round_spec_is_nearest_half_away.

(* full statement (refuted: C05num_round_refuted):
     forall m kd p s n v, 0 <= p <= maxp kd -> -128 <= s <= 127 -> Z.abs v < 10 ^ p ->
       impl_round m kd p s n v = spec_round p s n v *)
Theorem C05num_round_correct_partial : forall m kd p s n v, 0 <= p <= maxp kd -> -128 <= s ->
  in_range Signed 8 n = true -> s - Z.min n s <= maxp kd -> Z.abs v < 10 ^ p ->
  impl_round m kd p s n v = spec_round p s n v.
Proof. exact round_correct_partial. Qed.
Print Assumptions C05num_round_correct_partial.

Theorem C05num_round_refuted :
  impl_round Debug D64 10 4 (-128) 1 = Panic /\ impl_round Release D64 10 4 (-128) 1 = Err /\
  spec_round 10 4 (-128) 1 = Ok (-128, 0) /\
  impl_round Debug D64 18 18 (-1) 5 = Err /\ spec_round 18 18 (-1) 5 = Ok (-1, 0) /\
  impl_round Debug D64 10 4 128 1 = Err /\ spec_round 10 4 128 1 = Ok (4, 1).
Proof. exact round_refuted. Qed.
Print Assumptions C05num_round_refuted.

(* ---- 7. abs sign ceil floor trunc round on integers / decimals go through Float64 *)
(* full statement (refuted: C05num_int_fn_refuted):  forall op a, impl_int_fn op a = spec_int_fn op a *)
Theorem C05num_int_fn_exact_partial : forall op a, Z.abs a <= 2 ^ 53 -> impl_int_fn op a = spec_int_fn op a.
Proof. exact int_fn_exact_partial. Qed.
Print Assumptions C05num_int_fn_exact_partial.

(* in particular for every integer type of at most 53 bits (8, 16, 32) *)
Theorem C05num_int_fn_exact_narrow : forall op sg w a, 0 < w <= 53 -> in_range sg w a = true ->
  impl_int_fn op a = spec_int_fn op a.
Proof. exact int_fn_exact_narrow. Qed.
Print Assumptions C05num_int_fn_exact_narrow.

Theorem C05num_int_fn_refuted :
  in_range Signed 64 (- (2 ^ 53 + 1)) = true /\
  impl_int_fn FAbs (- (2 ^ 53 + 1)) = FInt false (2 ^ 53) /\ spec_int_fn FAbs (- (2 ^ 53 + 1)) = FInt false (2 ^ 53 + 1) /\
  impl_int_fn FCeil (2 ^ 63 - 1) = FInt false (2 ^ 63) /\ spec_int_fn FCeil (2 ^ 63 - 1) = FInt false (2 ^ 63 - 1).
Proof. exact int_fn_refuted. Qed.
Print Assumptions C05num_int_fn_refuted.

Theorem C05num_dec_fn_refuted :
  impl_dec_fn FCeil (10 ^ 19 + 1) 19 = Some (FInt false 1) /\ spec_dec_fn FCeil (10 ^ 19 + 1) 19 = Some (FInt false 2) /\
  impl_dec_fn FFloor 9007199254740993 0 = Some (FInt false 9007199254740992) /\
  spec_dec_fn FFloor 9007199254740993 0 = Some (FInt false 9007199254740993).
Proof. exact dec_fn_refuted. Qed.
Print Assumptions C05num_dec_fn_refuted.

Theorem C05num_dec_fn_abs_refuted :
  impl_dec_fn FAbs (-975) 38 = Some (FBits 4083053478943854748) /\ spec_dec_fn FAbs (-975) 38 = Some (FBits 4083053478943854747).
Proof. exact dec_fn_abs_refuted. Qed.
Print Assumptions C05num_dec_fn_abs_refuted.

(* ---- 8. comparisons across integer types: the definition the engine is compared with *)
Theorem C05num_cmp_spec_reflects : forall a b,
  (spec_cmp CLt a b = true <-> a < b) /\ (spec_cmp CLe a b = true <-> a <= b) /\ (spec_cmp CEq a b = true <-> a = b) /\
  (spec_cmp CNe a b = true <-> a <> b) /\ (spec_cmp CGe a b = true <-> a >= b) /\ (spec_cmp CGt a b = true <-> a > b).
Proof. exact spec_cmp_reflects. Qed.
Print Assumptions C05num_cmp_spec_reflects.

(* ---- 9. the repaired variants (model/NumFn.v impl_*_c: checked operations, an unrepresentable result is an
   error, an over-long right shift keeps the sign): the full statements hold, for every width and every input *)
Theorem C05num_gcd_repaired_correct : forall w a b, 0 < w -> in_range Signed w a = true -> in_range Signed w b = true ->
  impl_gcd_c w a b = Some (spec_gcd w a b).
Proof. exact gcd_c_correct. Qed.
Print Assumptions C05num_gcd_repaired_correct.

Theorem C05num_lcm_repaired_correct : forall w a b, 0 < w -> in_range Signed w a = true -> in_range Signed w b = true ->
  impl_lcm_c w a b = Some (spec_lcm w a b).
Proof. exact lcm_c_correct. Qed.
Print Assumptions C05num_lcm_repaired_correct.

Theorem C05num_factorial_repaired_correct : forall n, impl_factorial_c n = Some (spec_factorial n).
Proof. exact factorial_c_correct. Qed.
Print Assumptions C05num_factorial_repaired_correct.

Theorem C05num_shr_repaired_correct : forall sg w a b, 0 < w <= 2 ^ 31 -> in_range Signed 32 b = true ->
  in_range sg w a = true -> impl_shr_c sg w a b = spec_shr sg w a b.
Proof. exact shr_c_correct. Qed.
Print Assumptions C05num_shr_repaired_correct.

Theorem C05num_round_repaired_never_panics : forall kd p s n v, impl_round_c kd p s n v <> Panic.
Proof. exact round_c_never_panics. Qed.
Print Assumptions C05num_round_repaired_never_panics.

Theorem C05num_round_repaired_correct_partial : forall kd p s n v, 0 <= p <= maxp kd -> -128 <= s ->
  in_range Signed 8 n = true -> s - Z.min n s <= maxp kd -> Z.abs v < 10 ^ p ->
  impl_round_c kd p s n v = spec_round p s n v.
Proof. exact round_c_correct_partial. Qed.
Print Assumptions C05num_round_repaired_correct_partial.

(* the source has, for each of the five files, one of the two transcribed variants (vlib/tables_numfn.py);
   the driver compares the engine with that one *)
Theorem C05num_src_variants_known : exists g l f s r,
  gcd_native = Some g /\ lcm_native = Some l /\ factorial_null = Some f /\ shr_zero_fill = Some s /\
  d2d_scale_sub_native = Some r /\ In g [0; 1] /\ In l [0; 1] /\ In f [0; 1] /\ In s [0; 1] /\ In r [0; 1].
Proof. exact src_variants_known. Qed.
Print Assumptions C05num_src_variants_known.
