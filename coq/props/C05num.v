(* C05 / C12, topic numfn — integer / decimal numeric and bitwise scalar functions equal their
   mathematical definition or fail.  Property statements only: each is closed by `exact <lemma>`
   from proofs/NumFnProofs.v and pinned with Print Assumptions.  model/NumFn.v transcribes
   numeric/{gcd,lcm,factorial,round,abs,sign,ceil,floor,trunc}.rs and binary/{bitand,bitor,xor,bitnot,shl,shr}.rs
   of /repo after the fixes 9b10c8448 (gcd, lcm), e09e186b9 (factorial), eb21ac26a (shr), 36f5e65a8
   (DecimalToDecimal::bind), 3e3b1e8ef / 2085adc17 / 2b7187fb9 (decimal comparisons); widths w are universally quantified
   (8..128 are instances).
   The statements that were refuted before those fixes are proved at full strength; the definitions the source had
   before live on with the prefix old_ (model) with their witnesses (section 10) so that a regression is recognised.
   Naming: `_partial` = proved under the stated hypothesis, the full statement is in the comment and
   is refuted by the `_refuted` theorem that follows. *)
From Coq Require Import ZArith List Bool.
From GV Require Import model.Arith model.Decimal model.NumFn proofs.NumFnProofs gen.TablesNumfn.
Import ListNotations.
Open Scope Z_scope.

(* ---- 0. the theorems about impl_gcd, impl_lcm, impl_factorial, impl_shr, impl_round speak about the current
   source: vlib/tables_numfn.py finds the repaired variant in all five files *)
Theorem C05num_src_is_repaired :
  gcd_native = Some 0 /\ lcm_native = Some 0 /\ factorial_null = Some 0 /\ shr_zero_fill = Some 0 /\ d2d_scale_sub_native = Some 0.
Proof. exact src_is_repaired. Qed.
Print Assumptions C05num_src_is_repaired.

(* ---- 1. gcd, lcm: the greatest common divisor / least common multiple, or an error when it is 2^(w-1) or more;
   Euclid runs on fuel 2w + 1 (|b| at least halves every two iterations), which always suffices: the result is Some *)
Theorem C05num_gcd_correct : forall w a b, 0 < w -> in_range Signed w a = true -> in_range Signed w b = true ->
  impl_gcd w a b = Some (spec_gcd w a b).
Proof. exact gcd_correct. Qed.
Print Assumptions C05num_gcd_correct.

Theorem C05num_lcm_correct : forall w a b, 0 < w -> in_range Signed w a = true -> in_range Signed w b = true ->
  impl_lcm w a b = Some (spec_lcm w a b).
Proof. exact lcm_correct. Qed.
Print Assumptions C05num_lcm_correct.

(* ---- 2. factorial (Int64 -> Int128): n!, an error for n < 0 and when n! does not fit *)
Theorem C05num_factorial_correct : forall n, impl_factorial n = Some (spec_factorial n).
Proof. exact factorial_correct. Qed.
Print Assumptions C05num_factorial_correct.

(* the definition evaluated by the driver is the definition *)
Theorem C05num_factorial_spec_exec : forall n, spec_factorial_exec n = spec_factorial n.
Proof. exact spec_factorial_exec_eq. Qed.
Print Assumptions C05num_factorial_spec_exec.

(* ---- 3. & | xor ~ : the operation on the w-bit two's-complement patterns is Z.land / Z.lor / Z.lxor /
   Z.lnot on the values, for every width and both signednesses *)
Theorem C05num_bitand_correct : forall sg w a b, 0 < w -> in_range sg w a = true -> in_range sg w b = true ->
  impl_bitand sg w a b = spec_bitand sg w a b /\ in_range sg w (Z.land a b) = true.
Proof. exact bitand_correct. Qed.
Print Assumptions C05num_bitand_correct.

Theorem C05num_bitor_correct : forall sg w a b, 0 < w -> in_range sg w a = true -> in_range sg w b = true ->
  impl_bitor sg w a b = spec_bitor sg w a b /\ in_range sg w (Z.lor a b) = true.
Proof. exact bitor_correct. Qed.
Print Assumptions C05num_bitor_correct.

Theorem C05num_xor_correct : forall sg w a b, 0 < w -> in_range sg w a = true -> in_range sg w b = true ->
  impl_xor sg w a b = spec_xor sg w a b /\ in_range sg w (Z.lxor a b) = true.
Proof. exact xor_correct. Qed.
Print Assumptions C05num_xor_correct.

Theorem C05num_bitnot_correct : forall sg w a, 0 < w -> in_range sg w a = true ->
  impl_bitnot sg w a = spec_bitnot sg w a /\
  spec_bitnot sg w a = Ok (match sg with Signed => - a - 1 | Unsigned => 2 ^ w - 1 - a end) /\
  in_range sg w (match sg with Signed => - a - 1 | Unsigned => 2 ^ w - 1 - a end) = true.
Proof. exact bitnot_correct. Qed.
Print Assumptions C05num_bitnot_correct.

(* ---- 4. shifts (count: Int32): a << b = the low w bits of a * 2^b, a >> b = floor (a / 2^b) for every b >= 0;
   a negative count gives 0 (definitional choice, docs silent) *)
Theorem C05num_shl_correct : forall sg w a b, 0 < w <= 2 ^ 31 -> in_range Signed 32 b = true ->
  impl_shl sg w a b = spec_shl sg w a b.
Proof. exact shl_correct. Qed.
Print Assumptions C05num_shl_correct.

Theorem C05num_shl_in_range : forall sg w a b v, 0 < w -> impl_shl sg w a b = Ok v -> in_range sg w v = true.
Proof. exact shl_in_range. Qed.
Print Assumptions C05num_shl_in_range.

Theorem C05num_shr_correct : forall sg w a b, 0 < w <= 2 ^ 31 -> in_range Signed 32 b = true ->
  in_range sg w a = true -> impl_shr sg w a b = spec_shr sg w a b.
Proof. exact shr_correct. Qed.
Print Assumptions C05num_shr_correct.

Theorem C05num_shr_in_range : forall sg w a b v, 0 < w -> in_range sg w a = true -> impl_shr sg w a b = Ok v ->
  in_range sg w v = true.
Proof. exact shr_in_range. Qed.
Print Assumptions C05num_shr_in_range.

(* the definitions evaluated by the driver are the definitions *)
Theorem C05num_shl_spec_exec : forall sg w a b, 0 < w -> spec_shl_exec sg w a b = spec_shl sg w a b.
Proof. exact spec_shl_exec_eq. Qed.
Print Assumptions C05num_shl_spec_exec.

Theorem C05num_shr_spec_exec : forall sg w a b, 0 < w -> in_range sg w a = true -> spec_shr_exec sg w a b = spec_shr sg w a b.
Proof. exact spec_shr_exec_eq. Qed.
Print Assumptions C05num_shr_spec_exec.

(* ---- 5. round(decimal(p,s), n) *)
(* ---- 6. round(decimal(p,s), n) *)
(* the definition: a nearest multiple of 10^(s - min n s), ties away from zero *)
Theorem C05num_round_spec_is_nearest_half_away : forall v d, 0 < d ->
  2 * Z.abs (rha v d * d - v) <= d /\ (2 * Z.abs (rha v d * d - v) = d -> Z.abs v < Z.abs (rha v d * d)).
Proof. exact rha_nearest. Qed.
Print Assumptions C05num_round_spec_is_nearest_half_away.

Theorem C05num_round_never_panics : forall kd p s n v, impl_round kd p s n v <> Panic.
Proof. exact round_never_panics. Qed.
Print Assumptions C05num_round_never_panics.

(* full statement (refuted: C05num_round_refuted -- an error although the rounded value is representable):
     forall kd p s n v, 0 <= p <= maxp kd -> -128 <= s <= 127 -> Z.abs v < 10 ^ p ->
       impl_round kd p s n v = spec_round p s n v *)
Theorem C05num_round_correct_partial : forall kd p s n v, 0 <= p <= maxp kd -> -128 <= s ->
  in_range Signed 8 n = true -> s - Z.min n s <= maxp kd -> Z.abs v < 10 ^ p ->
  impl_round kd p s n v = spec_round p s n v.
Proof. exact round_correct_partial. Qed.
Print Assumptions C05num_round_correct_partial.

Theorem C05num_round_refuted :
  impl_round D64 18 18 (-1) 5 = Err /\ spec_round 18 18 (-1) 5 = Ok (-1, 0) /\
  impl_round D64 10 4 128 1 = Err /\ spec_round 10 4 128 1 = Ok (4, 1) /\
  impl_round D64 10 4 (-128) 1 = Err /\ spec_round 10 4 (-128) 1 = Ok (-128, 0).
Proof. exact round_refuted. Qed.
Print Assumptions C05num_round_refuted.

(* ---- 6. abs sign ceil floor trunc round on integers / decimals go through Float64 *)
(* ---- 7. abs sign ceil floor trunc round on integers / decimals go through Float64 *)
(* full statement (refuted: C05num_int_fn_refuted):  forall op a, impl_int_fn op a = spec_int_fn op a *)
Theorem C05num_int_fn_exact_partial : forall op a, Z.abs a <= 2 ^ 53 -> impl_int_fn op a = spec_int_fn op a.
Proof. exact int_fn_exact_partial. Qed.
Print Assumptions C05num_int_fn_exact_partial.

(* in particular for every integer type of at most 53 bits (8, 16, 32) *)
Theorem C05num_int_fn_exact_narrow : forall op sg w a, 0 < w <= 53 -> in_range sg w a = true ->
  impl_int_fn op a = spec_int_fn op a.
Proof. exact int_fn_exact_narrow. Qed.
Print Assumptions C05num_int_fn_exact_narrow.

Theorem C05num_int_fn_refuted :
  in_range Signed 64 (- (2 ^ 53 + 1)) = true /\
  impl_int_fn FAbs (- (2 ^ 53 + 1)) = FInt false (2 ^ 53) /\ spec_int_fn FAbs (- (2 ^ 53 + 1)) = FInt false (2 ^ 53 + 1) /\
  impl_int_fn FCeil (2 ^ 63 - 1) = FInt false (2 ^ 63) /\ spec_int_fn FCeil (2 ^ 63 - 1) = FInt false (2 ^ 63 - 1).
Proof. exact int_fn_refuted. Qed.
Print Assumptions C05num_int_fn_refuted.

Theorem C05num_dec_fn_refuted :
  impl_dec_fn FCeil (10 ^ 19 + 1) 19 = Some (FInt false 1) /\ spec_dec_fn FCeil (10 ^ 19 + 1) 19 = Some (FInt false 2) /\
  impl_dec_fn FFloor 9007199254740993 0 = Some (FInt false 9007199254740992) /\
  spec_dec_fn FFloor 9007199254740993 0 = Some (FInt false 9007199254740993).
Proof. exact dec_fn_refuted. Qed.
Print Assumptions C05num_dec_fn_refuted.

Theorem C05num_dec_fn_abs_refuted :
  impl_dec_fn FAbs (-975) 38 = Some (FBits 4083053478943854748) /\ spec_dec_fn FAbs (-975) 38 = Some (FBits 4083053478943854747).
Proof. exact dec_fn_abs_refuted. Qed.
Print Assumptions C05num_dec_fn_abs_refuted.

(* ---- 8. comparisons across integer types: the definition the engine is compared with *)
Theorem C05num_cmp_spec_reflects : forall a b,
  (spec_cmp CLt a b = true <-> a < b) /\ (spec_cmp CLe a b = true <-> a <= b) /\ (spec_cmp CEq a b = true <-> a = b) /\
  (spec_cmp CNe a b = true <-> a <> b) /\ (spec_cmp CGe a b = true <-> a >= b) /\ (spec_cmp CGt a b = true <-> a > b).
Proof. exact spec_cmp_reflects. Qed.
Print Assumptions C05num_cmp_spec_reflects.

(* ---- 7b. comparisons with a decimal operand (decimal_bind: common (precision, scale), the side(s) whose type differs
   are rescaled, the unscaled integers are compared; other operand types as the binder resolves them) against the
   order of the rationals v1/10^s1, v2/10^s2.  P_current = the source after 3e3b1e8ef (digit counts in i16),
   2085adc17 (UInt64 has 20 digits), 2b7187fb9 (Int64 / UInt64 / Decimal64 -> Decimal128 preferred over Float64) *)
Theorem C05num_src_cmp_is_repaired : decbind_i8 = Some 0 /\ u64_dec_precision = Some 20 /\ wide_dec128 = Some 1.
Proof. exact src_cmp_is_repaired. Qed.
Print Assumptions C05num_src_cmp_is_repaired.

(* the definition is the order of the rationals (cross-multiplication) *)
Theorem C05num_dec_cmp_spec_is_rational_order : forall s1 v1 s2 v2, 0 <= s1 -> 0 <= s2 ->
  spec_dec_cmp s1 v1 s2 v2 = (v1 * 10 ^ s2 ?= v2 * 10 ^ s1).
Proof. exact spec_dec_cmp_cross. Qed.
Print Assumptions C05num_dec_cmp_spec_is_rational_order.

(* never a wrong answer, for every pair of types and values, whichever side is rescaled, clamped or not (in every
   variant P of the source, in particular P_current) *)
Theorem C05num_dec_cmp_sound : forall P m kd p1 s1 v1 p2 s2 v2 c,
  dec_cmp_core P m kd p1 s1 (Some v1) p2 s2 (Some v2) = Ok (Some c) -> c = spec_dec_cmp s1 v1 s2 v2.
Proof. exact dec_cmp_sound. Qed.
Print Assumptions C05num_dec_cmp_sound.

Theorem C05num_dec_cmp_null : forall P m kd p1 s1 v1 p2 s2 v2 c,
  dec_cmp_core P m kd p1 s1 v1 p2 s2 v2 = Ok c -> (v1 = None \/ v2 = None) -> c = None.
Proof. exact dec_cmp_null. Qed.
Print Assumptions C05num_dec_cmp_null.

(* never a panic, for every pair of types (any scale) and values *)
Theorem C05num_dec_cmp_never_panics : forall P m kd p1 s1 v1 p2 s2 v2, bind_i8 P = false ->
  dec_cmp_core P m kd p1 s1 v1 p2 s2 v2 <> Panic.
Proof. exact dec_cmp_never_panics. Qed.
Print Assumptions C05num_dec_cmp_never_panics.

(* full statement (refuted: C05num_dec_cmp_refuted -- the common precision is clamped at MAX_PRECISION and the rescaled
   value does not fit: an error):
     forall m kd p1 s1 v1 p2 s2 v2, 1 <= p1 <= maxprec kd -> 1 <= p2 <= maxprec kd -> s1 <= p1 -> s2 <= p2 ->
       Z.abs v1 < 10 ^ p1 -> Z.abs v2 < 10 ^ p2 ->
       dec_cmp_core P_current m kd p1 s1 (Some v1) p2 s2 (Some v2) = Ok (Some (spec_dec_cmp s1 v1 s2 v2)) *)
Theorem C05num_dec_cmp_correct_partial : forall m kd p1 s1 v1 p2 s2 v2,
  1 <= p1 <= maxprec kd -> 1 <= p2 <= maxprec kd -> s1 <= p1 -> s2 <= p2 ->
  Z.max (p1 - s1) (p2 - s2) + Z.max s1 s2 <= maxprec kd ->
  Z.abs v1 < 10 ^ p1 -> Z.abs v2 < 10 ^ p2 ->
  dec_cmp_core P_current m kd p1 s1 (Some v1) p2 s2 (Some v2) = Ok (Some (spec_dec_cmp s1 v1 s2 v2)).
Proof. exact dec_cmp_current_correct_partial. Qed.
Print Assumptions C05num_dec_cmp_correct_partial.

Theorem C05num_dec_cmp_refuted :
  dec_cmp_core P_current Debug D64 18 0 (Some 1) 18 18 (Some (5 * 10 ^ 17)) = Err /\ spec_dec_cmp 0 1 18 (5 * 10 ^ 17) = Gt /\
  dec_cmp_core P_current Debug D128 38 0 (Some 1) 38 38 (Some (5 * 10 ^ 37)) = Err /\
  dec_cmp_core P_current Debug D128 18 0 (Some 1) 19 18 (Some (5 * 10 ^ 17)) = Ok (Some Gt) /\
  dec_cmp_core P_current Debug D128 38 (-100) None 5 2 (Some 50) = Err.
Proof. exact dec_cmp_current_refuted. Qed.
Print Assumptions C05num_dec_cmp_refuted.

(* a decimal against a decimal of either width or an integer of any width, either operand order: exact *)
Theorem C05num_cmp_mixed_sound : forall m l r c, no_float l r = true ->
  impl_cmp_mixed P_current m l r = Ok (Some c) -> spec_cmp_mixed l r = Ok (Some c).
Proof. exact cmp_mixed_current_sound. Qed.
Print Assumptions C05num_cmp_mixed_sound.

(* the six operators and IS [NOT] DISTINCT FROM read off the three-way result *)
Theorem C05num_cmp_results : forall c,
  cmp_results (Some c) false false =
  map Some [match c with Lt => true | _ => false end; match c with Gt => false | _ => true end;
            match c with Eq => true | _ => false end; match c with Eq => false | _ => true end;
            match c with Lt => false | _ => true end; match c with Gt => true | _ => false end;
            match c with Eq => false | _ => true end; match c with Eq => true | _ => false end].
Proof. exact cmp_results_spec. Qed.
Print Assumptions C05num_cmp_results.

(* ---- 8. the repaired functions on the former witnesses *)
Theorem C05num_current_witnesses :
  impl_gcd 8 (-128) 6 = Some (Ok 2) /\ impl_gcd 8 (-128) (-128) = Some Err /\ impl_gcd 64 (- 2 ^ 63) 0 = Some Err /\
  impl_lcm 8 127 126 = Some Err /\ impl_lcm 8 (-128) 127 = Some Err /\ impl_lcm 8 (-64) (-1) = Some (Ok 64) /\
  impl_factorial (-1) = Some Err /\ impl_factorial 34 = Some Err /\
  impl_shr Signed 8 (-1) 8 = Ok (-1) /\ impl_shr Unsigned 8 200 8 = Ok 0 /\ impl_shr Signed 32 (-8) (-1) = Ok 0.
Proof. exact current_witnesses. Qed.
Print Assumptions C05num_current_witnesses.

(* the source has, for each of the five files, one of the two transcribed variants (vlib/tables_numfn.py);
   the driver compares the engine with that one *)
Theorem C05num_src_variants_known : exists g l f s r,
  gcd_native = Some g /\ lcm_native = Some l /\ factorial_null = Some f /\ shr_zero_fill = Some s /\
  d2d_scale_sub_native = Some r /\ In g [0; 1] /\ In l [0; 1] /\ In f [0; 1] /\ In s [0; 1] /\ In r [0; 1].
Proof. exact src_variants_known. Qed.
Print Assumptions C05num_src_variants_known.

(* the three variable places of the decimal comparison path are in one of their transcribed variants *)
Theorem C05num_src_cmp_params_known : exists b u w,
  decbind_i8 = Some b /\ u64_dec_precision = Some u /\ wide_dec128 = Some w /\ In b [0; 1] /\ In u [19; 20] /\ In w [0; 1].
Proof. exact src_cmp_params_known. Qed.
Print Assumptions C05num_src_cmp_params_known.

(* the general statements hold for every variant P, under the variant's own hypotheses *)
Theorem C05num_dec_cmp_correct_partial_any_variant : forall P m kd p1 s1 v1 p2 s2 v2,
  1 <= p1 <= maxprec kd -> 1 <= p2 <= maxprec kd -> s1 <= p1 -> s2 <= p2 ->
  (bind_i8 P = true -> -64 <= s1 /\ -64 <= s2) ->
  Z.max (p1 - s1) (p2 - s2) + Z.max s1 s2 <= maxprec kd ->
  Z.abs v1 < 10 ^ p1 -> Z.abs v2 < 10 ^ p2 ->
  dec_cmp_core P m kd p1 s1 (Some v1) p2 s2 (Some v2) = Ok (Some (spec_dec_cmp s1 v1 s2 v2)).
Proof. exact dec_cmp_correct_partial. Qed.
Print Assumptions C05num_dec_cmp_correct_partial_any_variant.

Theorem C05num_cmp_mixed_sound_any_variant : forall P m l r c, exact_path P l r = true ->
  impl_cmp_mixed P m l r = Ok (Some c) -> spec_cmp_mixed l r = Ok (Some c).
Proof. exact cmp_mixed_sound. Qed.
Print Assumptions C05num_cmp_mixed_sound_any_variant.

(* ---- 10. regression witnesses: what the definitions the source had before those fixes (prefix old_) did *)
Theorem C05num_old_gcd_min_panics_debug : forall w b, 0 < w ->
  old_impl_gcd Debug w (lo Signed w) b = Some Panic /\ old_impl_gcd Debug w b (lo Signed w) <> Some (spec_gcd w b (lo Signed w)).
Proof. exact old_gcd_min_panics_debug. Qed.
Print Assumptions C05num_old_gcd_min_panics_debug.

Theorem C05num_old_gcd_refuted :
  old_impl_gcd Debug 8 (-128) 6 = Some Panic /\ old_impl_gcd Release 8 (-128) 6 = Some (Ok (-2)) /\ spec_gcd 8 (-128) 6 = Ok 2 /\
  old_impl_gcd Release 8 (-128) (-128) = Some (Ok (-128)) /\ spec_gcd 8 (-128) (-128) = Err /\
  old_impl_gcd Release 64 (- 2 ^ 63) 0 = Some (Ok (- 2 ^ 63)) /\ spec_gcd 64 (- 2 ^ 63) 0 = Err.
Proof. exact old_gcd_refuted. Qed.
Print Assumptions C05num_old_gcd_refuted.

Theorem C05num_old_lcm_unrepresentable_deviates : forall m w a b, 0 < w ->
  in_range Signed w a = true -> in_range Signed w b = true -> a <> lo Signed w -> b <> lo Signed w ->
  in_range Signed w (Z.lcm a b) = false ->
  spec_lcm w a b = Err /\
  old_impl_lcm m w a b = Some (match m with Debug => Panic | Release => Ok (wrap Signed w (Z.lcm a b)) end) /\
  wrap Signed w (Z.lcm a b) <> Z.lcm a b.
Proof. exact old_lcm_unrepresentable_deviates. Qed.
Print Assumptions C05num_old_lcm_unrepresentable_deviates.

Theorem C05num_old_lcm_refuted :
  old_impl_lcm Debug 8 127 126 = Some Panic /\ old_impl_lcm Release 8 127 126 = Some (Ok (-126)) /\ spec_lcm 8 127 126 = Err /\
  old_impl_lcm Debug 8 (-128) 1 = Some Panic /\ old_impl_lcm Release 8 (-128) 1 = Some (Ok (-128)) /\ spec_lcm 8 (-128) 1 = Err /\
  old_impl_lcm Release 8 (-128) 127 = Some Panic /\
  old_impl_lcm Release 64 (2 ^ 62) 3 = Some (Ok (- 2 ^ 62)) /\ spec_lcm 64 (2 ^ 62) 3 = Err.
Proof. exact old_lcm_refuted. Qed.
Print Assumptions C05num_old_lcm_refuted.

Theorem C05num_old_factorial_null_where_undefined : forall n, spec_factorial n = Err -> old_impl_factorial n = Some (Ok None).
Proof. exact old_factorial_null_where_undefined. Qed.
Print Assumptions C05num_old_factorial_null_where_undefined.

Theorem C05num_old_factorial_refuted :
  old_impl_factorial (-1) = Some (Ok None) /\ spec_factorial (-1) = Err /\
  old_impl_factorial 34 = Some (Ok None) /\ spec_factorial 34 = Err /\
  old_impl_factorial 33 = Some (Ok (Some 8683317618811886495518194401280000000)).
Proof. exact old_factorial_refuted. Qed.
Print Assumptions C05num_old_factorial_refuted.

Theorem C05num_old_shr_overshift_negative : forall w a b, 0 < w <= 2 ^ 31 -> in_range Signed 32 b = true ->
  in_range Signed w a = true -> a < 0 -> w <= b ->
  old_impl_shr Signed w a b = Ok 0 /\ spec_shr Signed w a b = Ok (-1).
Proof. exact old_shr_overshift_negative. Qed.
Print Assumptions C05num_old_shr_overshift_negative.

Theorem C05num_old_round_refuted :
  old_impl_round Debug D64 10 4 (-128) 1 = Panic /\ old_impl_round Release D64 10 4 (-128) 1 = Err /\
  spec_round 10 4 (-128) 1 = Ok (-128, 0) /\
  old_impl_round Debug D64 18 18 (-1) 5 = Err /\ spec_round 18 18 (-1) 5 = Ok (-1, 0) /\
  old_impl_round Debug D64 10 4 128 1 = Err /\ spec_round 10 4 128 1 = Ok (4, 1).
Proof. exact old_round_refuted. Qed.
Print Assumptions C05num_old_round_refuted.


(* decimal comparisons before 3e3b1e8ef / 2085adc17 / 2b7187fb9 (P_old): bigint ~ decimal(<=18) through Float64,
   ubigint ~ decimal failing, precision - scale in i8 *)
Theorem C05num_old_dec_cmp_refuted :
  dec_cmp_core P_old Debug D64 18 0 (Some 1) 18 18 (Some (5 * 10 ^ 17)) = Err /\ spec_dec_cmp 0 1 18 (5 * 10 ^ 17) = Gt /\
  dec_cmp_core P_old Debug D128 38 0 (Some 1) 38 38 (Some (5 * 10 ^ 37)) = Err /\
  dec_cmp_core P_old Debug D128 38 (-100) None 5 2 (Some 50) = Panic /\ dec_cmp_core P_old Release D128 38 (-100) None 5 2 (Some 50) = Err /\
  dec_cmp_core P_old Debug D128 18 0 (Some 1) 19 18 (Some (5 * 10 ^ 17)) = Ok (Some Gt).
Proof. exact dec_cmp_refuted. Qed.
Print Assumptions C05num_old_dec_cmp_refuted.

Theorem C05num_old_cmp_mixed_refuted :
  impl_cmp_mixed P_old Debug (OpInt Signed 64 (Some 9007199254740993)) (OpDec D64 18 0 (Some 9007199254740992)) = Ok (Some Eq) /\
  spec_cmp_mixed (OpInt Signed 64 (Some 9007199254740993)) (OpDec D64 18 0 (Some 9007199254740992)) = Ok (Some Gt) /\
  impl_cmp_mixed P_old Debug (OpDec D128 20 2 (Some 150)) (OpInt Unsigned 64 (Some 18446744073709551615)) = Err /\
  spec_cmp_mixed (OpDec D128 20 2 (Some 150)) (OpInt Unsigned 64 (Some 18446744073709551615)) = Ok (Some Lt) /\
  impl_cmp_mixed P_old Debug (OpInt Unsigned 64 (Some 5)) (OpDec D64 10 2 (Some 500)) = Err /\
  (* the same operands with the current source *)
  impl_cmp_mixed P_current Debug (OpInt Signed 64 (Some 9007199254740993)) (OpDec D64 18 0 (Some 9007199254740992)) = Ok (Some Gt) /\
  impl_cmp_mixed P_current Debug (OpDec D128 20 2 (Some 150)) (OpInt Unsigned 64 (Some 18446744073709551615)) = Ok (Some Lt) /\
  impl_cmp_mixed P_current Debug (OpInt Unsigned 64 (Some 5)) (OpDec D64 10 2 (Some 500)) = Ok (Some Eq) /\
  dec_cmp_core P_current Debug D128 38 (-100) None 5 2 (Some 50) = Err.
Proof. exact cmp_mixed_refuted. Qed.
Print Assumptions C05num_old_cmp_mixed_refuted.
