(* C15 — Every statement text yields a result or an error; the session survives.   Level: PARTIAL.
   The universally quantified part (no statement text panics, aborts or hangs the process) is about the Rust runtime and
   is SEARCHED (vlib/c15.py), not proved.  Proved here: error atomicity of the session state machine (model/Session.v)
   and the unboundedness of the parser's native recursion (the refutation of "bounded resources per statement"). *)
From Coq Require Import NArith List Bool.
From GV Require Import model.Session proofs.SessionProofs.
Import ListNotations.
Open Scope N_scope.

Theorem C15_failed_stmt_state_unchanged : forall s id st f s',
  exec s id st f = (s', false) -> visible s' = visible s.
Proof. exact failed_stmt_state_unchanged. Qed.
Print Assumptions C15_failed_stmt_state_unchanged.
Example C15_failed_stmt_state_unchanged_sat :
  exec (mk_state [1] [(7, 77)] None None) 5 (StCreate 2) (Some FExecBefore) = (mk_state [1] [(7, 77)] (Some 5) None, false).
Proof. exact failed_stmt_ex. Qed.

Theorem C15_failing_statements_invisible : forall script s,
  (forall id st f, In (id, st, Some f) script -> True) ->
  Forall (fun x => exists p, snd x = Some p) script ->
  visible (run s script) = visible s.
Proof. exact run_failing_visible. Qed.
Print Assumptions C15_failing_statements_invisible.

Theorem C15_prepared_portal_replaced_cleanly : forall s script,
  s_portal s = None -> s_portal (run s script) = None.
Proof. exact prepared_portal_replaced_cleanly. Qed.
Print Assumptions C15_prepared_portal_replaced_cleanly.

(* no bound on native stack use: for every n a statement of 2n+3 tokens needs recursion depth n (DESIGN 5-10) *)
Theorem C15_depth_unbounded : forall n, exists toks, length toks = (2 * n + 3)%nat /\ (depth_needed toks >= n)%nat.
Proof. exact depth_unbounded. Qed.
Print Assumptions C15_depth_unbounded.

Theorem C15_depth_witness : depth_needed (nested 3000) = 3000%nat.
Proof. exact depth_unbounded_ex. Qed.
Print Assumptions C15_depth_witness.
