(* C01 — the judge: `check_answer` of model/Sql.v only says VOk for admissible engine answers.
   Property statements only: each is closed by `exact <lemma>` from proofs/SqlJudgeProofs.v and
   pinned with Print Assumptions. *)
From Coq Require Import NArith ZArith List Bool.
From Coq Require Import Sorting.Permutation Sorting.Sorted.
From GV Require Import lib.Bytes model.Sql proofs.SqlJudgeProofs.
Import ListNotations.
Local Open Scope nat_scope.

(* 1. row_same (NULL = NULL) is equality of rows, for all values; bag_eqb decides Permutation *)
Theorem C01_row_same_iff : forall a b, row_same a b = true <-> a = b.
Proof. exact row_same_iff. Qed.
Print Assumptions C01_row_same_iff.

Theorem C01_bag_eqb_sound : forall a b, bag_eqb a b = true -> Permutation a b.
Proof. exact bag_eqb_sound. Qed.
Print Assumptions C01_bag_eqb_sound.

Theorem C01_bag_eqb_sound_same : forall a b, bag_eqb a b = true ->
  exists b', Permutation b b' /\ Forall2 (fun x y => row_same x y = true) a b'.
Proof. exact bag_eqb_sound_same. Qed.
Print Assumptions C01_bag_eqb_sound_same.

Theorem C01_bag_eqb_complete : forall a b, Permutation a b -> bag_eqb a b = true.
Proof. exact bag_eqb_complete. Qed.
Print Assumptions C01_bag_eqb_complete.

Theorem C01_sub_bagb_sound : forall a b, sub_bagb a b = true -> exists rest, Permutation b (a ++ rest).
Proof. exact sub_bagb_sound. Qed.
Print Assumptions C01_sub_bagb_sound.

(* 2. no ORDER BY at the top: VOk iff the engine's rows are a permutation of the specified rows *)
Theorem C01_check_answer_sound_unordered : forall d q got,
  is_order_limit q = false -> check_answer d q got = VOk ->
  exists want, eval_query d [] q = Ok want /\ Permutation want got
               /\ exists got', Permutation got got' /\ Forall2 (fun x y => row_same x y = true) want got'.
Proof. exact check_answer_sound_unordered. Qed.
Print Assumptions C01_check_answer_sound_unordered.

Theorem C01_check_answer_complete_unordered : forall d q got want,
  is_order_limit q = false -> eval_query d [] q = Ok want -> Permutation want got ->
  check_answer d q got = VOk.
Proof. exact check_answer_complete_unordered. Qed.
Print Assumptions C01_check_answer_complete_unordered.

Theorem C01_check_answer_spec_error_unordered : forall d q got e,
  is_order_limit q = false -> (check_answer d q got = VSpecError e <-> eval_query d [] q = Err e).
Proof. exact check_answer_spec_error_unordered. Qed.
Print Assumptions C01_check_answer_spec_error_unordered.

(* 3. the reference sort: a sorted permutation, stable; the declared order is a total preorder on
      rows whose key columns hold one kind of value *)
Theorem C01_sort_by_sorted_perm : forall keys l,
  Permutation (sort_by keys l) l /\ sorted_by keys (sort_by keys l) = true.
Proof. exact sort_by_sorted_perm. Qed.
Print Assumptions C01_sort_by_sorted_perm.

Theorem C01_sorted_by_Sorted : forall keys l,
  sorted_by keys l = true <-> Sorted (fun a b => keys_le keys a b = true) l.
Proof. exact sorted_by_Sorted. Qed.
Print Assumptions C01_sorted_by_Sorted.

Theorem C01_sort_by_stable : forall ty keys r l,
  row_typed ty keys r -> Forall (row_typed ty keys) l ->
  filter (keys_eqb keys r) (sort_by keys l) = filter (keys_eqb keys r) l.
Proof. exact sort_by_stable. Qed.
Print Assumptions C01_sort_by_stable.

Theorem C01_keys_cmp_antisym : forall keys a b, keys_cmp keys b a = CompOpp (keys_cmp keys a b).
Proof. exact keys_cmp_antisym. Qed.
Print Assumptions C01_keys_cmp_antisym.

Theorem C01_keys_le_total : forall keys a b, keys_le keys a b = true \/ keys_le keys b a = true.
Proof. exact keys_le_total. Qed.
Print Assumptions C01_keys_le_total.

Theorem C01_keys_le_trans : forall ty keys a b c,
  row_typed ty keys a -> row_typed ty keys b -> row_typed ty keys c ->
  keys_le keys a b = true -> keys_le keys b c = true -> keys_le keys a c = true.
Proof. exact keys_le_trans. Qed.
Print Assumptions C01_keys_le_trans.

(* 4. ORDER BY [LIMIT/OFFSET] at the top *)
Theorem C01_check_answer_sound_ordered_components : forall d q' keys lim off got,
  check_answer d (QOrderLimit q' keys lim off) got = VOk ->
  exists inp, eval_query d [] q' = Ok inp /\
    (exists rest, Permutation inp (got ++ rest)) /\
    sorted_by keys got = true /\
    Forall2 (keys_eq keys) (slice_rows off lim (sort_by keys inp)) got.
Proof. exact check_answer_sound_ordered_components. Qed.
Print Assumptions C01_check_answer_sound_ordered_components.

Theorem C01_check_answer_sound_ordered : forall d q' keys lim off got,
  check_answer d (QOrderLimit q' keys lim off) got = VOk ->
  exists inp, eval_query d [] q' = Ok inp /\
    forall ty, Forall (row_typed ty keys) inp ->
    exists p, Permutation p inp /\ sorted_by keys p = true /\ got = slice_rows off lim p.
Proof. exact check_answer_sound_ordered. Qed.
Print Assumptions C01_check_answer_sound_ordered.

Theorem C01_check_answer_accepts_reference_ordered : forall d q' keys lim off want,
  eval_query d [] (QOrderLimit q' keys lim off) = Ok want ->
  check_answer d (QOrderLimit q' keys lim off) want = VOk.
Proof. exact check_answer_accepts_reference_ordered. Qed.
Print Assumptions C01_check_answer_accepts_reference_ordered.
