(* C03 (part) — Results independent of partitions and batch size: the shared-state operators.
   Property statements only; each is closed by `exact <lemma>` from proofs/LimitOpProofs.v and pinned
   with Print Assumptions.  Models: model/LimitOp.v (limit.rs, series.rs + single_row.rs, union.rs). *)
From Coq Require Import NArith ZArith List Bool Arith Permutation.
From GV Require Import model.LimitOp proofs.LimitOpProofs.
Import ListNotations.

(* LIMIT/OFFSET: for ANY sequence of batches (the interleaving of all partitions' batch streams in
   the order in which the operator's lock is taken) no call underflows a counter and the emitted
   slices concatenate to the exact window of THAT arrangement of the input. *)
Theorem C03_limit_slice_exact : forall (A : Type) (lim : nat) (off : option nat) (bs : list (list A)),
  exists st outs ps,
    limit_run (limit_init lim off) bs = Some (st, outs, ps) /\
    concat outs = firstn lim (skipn (match off with Some o => o | None => 0 end) (concat bs)).
Proof. exact limit_slice_exact. Qed.
Print Assumptions C03_limit_slice_exact.

Theorem C03_limit_any_interleaving : forall (A : Type) (lim : nat) (off : option nat)
    (parts : list (list (list A))) (sched : list nat),
  exists st outs ps,
    limit_run (limit_init lim off) (interleave sched parts) = Some (st, outs, ps) /\
    concat outs = firstn lim (skipn (match off with Some o => o | None => 0 end)
                                    (concat (interleave sched parts))).
Proof. exact limit_any_interleaving. Qed.
Print Assumptions C03_limit_any_interleaving.

Theorem C03_limit_no_underflow : forall (A : Type) (st : lstate) (bs : list (list A)),
  limit_run st bs <> None.
Proof. exact limit_no_underflow. Qed.
Print Assumptions C03_limit_no_underflow.

Theorem C03_limit_exhausted_final :
  forall (A : Type) (st st1 : lstate) (b : list A) sk (later : list (list A)) st2 outs ps,
  limit_step st (length b) = Some (st1, sk, LExhausted) ->
  limit_run st1 later = Some (st2, outs, ps) ->
  concat outs = [] /\ snd st2 = 0.
Proof. exact limit_exhausted_final. Qed.
Print Assumptions C03_limit_exhausted_final.

(* generate_series: one parameter row, ascending / descending; every value exactly once, in
   batches of at most `cap` rows, none empty — as long as `curr + step` stays inside i64 *)
Theorem C03_series_row_exact_up : forall (start stop step : Z) (cap fuel n : nat),
  (0 < cap)%nat -> (0 < step)%Z ->
  (n = 0%nat -> (stop < start)%Z) -> (0 < n)%nat \/ n = 0%nat ->
  ((0 < n)%nat -> (start + (Z.of_nat n - 1) * step <= stop)%Z) ->
  (stop < start + Z.of_nat n * step)%Z ->
  (- 2 ^ 63 <= start)%Z -> (start + Z.of_nat n * step < 2 ^ 63)%Z ->
  (n < fuel)%nat ->
  exists bs, series_row start stop step cap fuel = Some bs /\
             concat bs = series_vals start step 0 n /\
             Forall (fun b => b <> [] /\ (length b <= cap)%nat) bs.
Proof. exact series_row_exact_up. Qed.
Print Assumptions C03_series_row_exact_up.

Theorem C03_series_row_exact_down : forall (start stop step : Z) (cap fuel n : nat),
  (0 < cap)%nat -> (step < 0)%Z ->
  (n = 0%nat -> (start < stop)%Z) ->
  ((0 < n)%nat -> (stop <= start + (Z.of_nat n - 1) * step)%Z) ->
  (start + Z.of_nat n * step < stop)%Z ->
  (start < 2 ^ 63)%Z -> (- 2 ^ 63 <= start + Z.of_nat n * step)%Z ->
  (n < fuel)%nat ->
  exists bs, series_row start stop step cap fuel = Some bs /\
             concat bs = series_vals start step 0 n /\
             Forall (fun b => b <> [] /\ (length b <= cap)%nat) bs.
Proof. exact series_row_exact_down. Qed.
Print Assumptions C03_series_row_exact_down.

(* however the parameter rows are dealt to partitions (any partition count, empty partitions
   included) the values produced by all partitions are those of the rows, each row once *)
Theorem C03_series_partition_exact : forall (deal : list (list (Z * Z * Z))) (cap fuel : nat) outs,
  series_exec deal cap fuel = Some outs ->
  exists per_row,
    mapM_opt (fun r => match r with (a, b, c) => series_row a b c cap fuel end) (concat deal) = Some per_row /\
    concat (concat outs) = concat (concat per_row) /\
    length outs = length deal.
Proof. exact series_partition_exact. Qed.
Print Assumptions C03_series_partition_exact.

Theorem C03_series_single_row_exact : forall (a b c : Z) (cap fuel partitions : nat) bs,
  (0 < partitions)%nat -> c <> 0%Z ->
  series_row a b c cap fuel = Some bs ->
  exists outs, series_exec (single_row_deal (a, b, c) partitions) cap fuel = Some outs /\
               length outs = partitions /\
               concat (concat outs) = concat bs /\
               (forall i, (0 < i)%nat -> nth i outs [] = []).
Proof. exact series_single_row_exact. Qed.
Print Assumptions C03_series_single_row_exact.

(* deviation witness: a series ending at i64::MAX overflows `curr += step` *)
Theorem C03_series_overflow_at_i64_max :
  generate_next 9223372036854775806 9223372036854775807 1 4
  = GOverflow [9223372036854775806; 9223372036854775807]%Z /\
  series_spec 9223372036854775806 9223372036854775807 1 = [9223372036854775806; 9223372036854775807]%Z.
Proof. exact series_overflow_at_i64_max. Qed.
Print Assumptions C03_series_overflow_at_i64_max.

(* UNION ALL *)
Theorem C03_union_concat : forall (A : Type) (l r : list (list A)) (sched : list uevent),
  let s := union_run sched (union_init l r) in
  (exists rest, concat r ++ concat l = union_output s ++ rest) /\
  (u_done s = true -> union_output s = concat r ++ concat l).
Proof. exact union_concat. Qed.
Print Assumptions C03_union_concat.

Theorem C03_union_all_partitions_bag :
  forall (A : Type) (ls rs : list (list (list A))) (scheds : list (list uevent)),
  length ls = length rs -> length scheds = length rs ->
  Forall (fun x => u_done x = true)
         (map (fun p => union_run (snd p) (union_init (fst (fst p)) (snd (fst p)))) (combine (combine ls rs) scheds)) ->
  Permutation
    (concat (map (fun p => union_output (union_run (snd p) (union_init (fst (fst p)) (snd (fst p)))))
                 (combine (combine ls rs) scheds)))
    (concat (map (@concat A) rs) ++ concat (map (@concat A) ls)).
Proof. exact union_all_partitions_bag. Qed.
Print Assumptions C03_union_all_partitions_bag.
