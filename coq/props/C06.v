(* C06 — Joins return exactly the defined pairs and unmatched rows.
   Property statements only: each is closed by `exact <lemma>` from proofs/ and pinned with
   Print Assumptions.

   Specification: `Sql.join_rows k L R la ra on` (model/Sql.v).  `on_total on p L R` (JoinSpecProofs)
   says that every evaluation of the condition on a pair is Ok with value `p l r`.
   Implementation models: model/HashJoin.v (hash join: build = LEFT input, probe = RIGHT input;
   kinds INNER, LEFT, RIGHT, LEFT SEMI, LEFT MARK — LEFT ANTI / FULL are `not_implemented` in the
   source and ANTI is planned as LEFT MARK + Filter(NOT mark)) and model/NlJoin.v (nested loop join,
   also the only operator for CROSS and for conditions without an equality).
   The hash function is a parameter; the one hypothesis on it is `hash_ok` (equal keys hash equally),
   the interface expected from arrays/compute/hash.rs. *)
From Coq Require Import NArith ZArith List Bool.
From Coq Require Import Sorting.Permutation.
From GV Require Import model.Sql model.HashJoin model.NlJoin proofs.JoinSpecProofs proofs.HashJoinProofs.
Import ListNotations.

(* ---------------------------------------------------------------- 1. the specification itself *)

Theorem C06_inner_is_filtered_cross : forall L R la ra on p,
  on_total on p L R ->
  join_rows JInner L R la ra on
  = Ok (map (fun lr => fst lr ++ snd lr) (filter (fun lr => p (fst lr) (snd lr)) (list_prod L R))).
Proof. exact inner_is_filtered_cross. Qed.
Print Assumptions C06_inner_is_filtered_cross.

Theorem C06_cross_is_product : forall L R la ra,
  join_rows JCross L R la ra (fun _ => Ok true) = Ok (map (fun lr => fst lr ++ snd lr) (list_prod L R)).
Proof. exact cross_is_product. Qed.
Print Assumptions C06_cross_is_product.

Theorem C06_left_join_preserves_left : forall L R la ra on p,
  on_total on p L R ->
  join_rows JLeft L R la ra on
  = Ok (flat_map (fun l => if existsb (p l) R
                           then map (fun r => l ++ r) (filter (p l) R)
                           else [l ++ nulls ra]) L).
Proof. exact left_join_preserves_left. Qed.
Print Assumptions C06_left_join_preserves_left.

Theorem C06_unmatched_preserved_exactly_once : forall L1 l L2 R la ra on p,
  on_total on p (L1 ++ l :: L2) R ->
  existsb (p l) R = false ->
  exists o1 o2,
    join_rows JLeft L1 R la ra on = Ok o1 /\ join_rows JLeft L2 R la ra on = Ok o2 /\
    join_rows JLeft (L1 ++ l :: L2) R la ra on = Ok (o1 ++ [l ++ nulls ra] ++ o2) /\
    join_rows JInner [l] R la ra on = Ok [].
Proof. exact unmatched_preserved_exactly_once. Qed.
Print Assumptions C06_unmatched_preserved_exactly_once.

Theorem C06_right_is_mirrored_left : forall L R la ra on p,
  on_total on p L R ->
  Forall (fun r => length r = ra) R ->
  exists o1 o2,
    join_rows JRight L R la ra on = Ok o1 /\
    join_rows JLeft R L ra la (fun x => on (swap_cols ra x)) = Ok o2 /\
    o1 = map (swap_cols ra) o2 /\ Permutation o1 (map (swap_cols ra) o2).
Proof. exact right_is_mirrored_left. Qed.
Print Assumptions C06_right_is_mirrored_left.

Theorem C06_semi_anti_partition : forall L R la ra on p,
  on_total on p L R ->
  exists s a, join_rows JSemi L R la ra on = Ok s /\ join_rows JAnti L R la ra on = Ok a /\
              Permutation (s ++ a) L.
Proof. exact semi_anti_partition. Qed.
Print Assumptions C06_semi_anti_partition.

Theorem C06_null_key_matches_nothing : forall (lk rk : row -> list value) (extra : row -> row -> bool)
    l R la ra on,
  on_total on (fun l r => keys_match (lk l) (rk r) && extra l r) [l] R ->
  In VNull (lk l) ->
  join_rows JInner [l] R la ra on = Ok [] /\
  join_rows JLeft [l] R la ra on = Ok [l ++ nulls ra] /\
  join_rows JSemi [l] R la ra on = Ok [] /\
  join_rows JAnti [l] R la ra on = Ok [l].
Proof. exact null_key_matches_nothing. Qed.
Print Assumptions C06_null_key_matches_nothing.

Theorem C06_null_key_matches_nothing_right : forall (lk rk : row -> list value) (extra : row -> row -> bool)
    L r la ra on,
  on_total on (fun l r => keys_match (lk l) (rk r) && extra l r) L [r] ->
  In VNull (rk r) ->
  join_rows JInner L [r] la ra on = Ok [] /\
  join_rows JRight L [r] la ra on = Ok [nulls la ++ r].
Proof. exact null_key_matches_nothing_right. Qed.
Print Assumptions C06_null_key_matches_nothing_right.

Theorem C06_join_perm_invariant : forall k L L' R R' la ra on p,
  on_total on p L R -> Permutation L L' -> Permutation R R' ->
  exists o o', join_rows k L R la ra on = Ok o /\ join_rows k L' R' la ra on = Ok o' /\ Permutation o o'.
Proof. exact join_perm_invariant. Qed.
Print Assumptions C06_join_perm_invariant.

Theorem C06_join_split_left : forall k L1 L2 R la ra on, k <> JRight ->
  join_rows k (L1 ++ L2) R la ra on
  = app_res (join_rows k L1 R la ra on) (join_rows k L2 R la ra on).
Proof. exact join_split_left. Qed.
Print Assumptions C06_join_split_left.

Theorem C06_empty_side_behaviour : forall (R L : list row) la ra (p : row -> row -> bool),
  pure_join JInner [] R la ra p = [] /\ pure_join JLeft [] R la ra p = [] /\
  pure_join JSemi [] R la ra p = [] /\ pure_join JAnti [] R la ra p = [] /\
  pure_join JRight [] R la ra p = map (fun r => nulls la ++ r) R /\
  pure_join JLeft L [] la ra p = map (fun l => l ++ nulls ra) L /\
  pure_join JAnti L [] la ra p = L /\ pure_join JSemi L [] la ra p = [].
Proof. exact empty_side_behaviour. Qed.
Print Assumptions C06_empty_side_behaviour.

(* ---------------------------------------------------------------- 2. hash join *)

Theorem C06_bucket_complete :
  forall hash, hash_ok hash ->
  forall ops bkeys pkeys kbits (ins : list bptr) (x : bptr) (r : row),
  In x ins -> matcher ops bkeys pkeys (snd x) r = true ->
  In x (build_dir hash ops bkeys kbits ins (slot kbits (phash hash ops pkeys r))).
Proof. exact bucket_complete. Qed.
Print Assumptions C06_bucket_complete.

Theorem C06_hash_join_refines_spec :
  forall hash, hash_ok hash ->
  forall ops bkeys pkeys kbits k la ra P Lparts ins Rparts on,
  k <> HMark -> (1 <= P)%nat ->
  Permutation ins (stored_rows Lparts) ->
  on_total on (fun l r => conds_match ops (bkeys l) (pkeys r))
           (concat (concat Lparts)) (concat (concat Rparts)) ->
  exists out,
    join_rows (spec_kind k) (concat (concat Lparts)) (concat (concat Rparts)) la ra on = Ok out /\
    Permutation (hash_join hash ops bkeys pkeys kbits k la ra P Lparts ins Rparts) out.
Proof. exact hash_join_refines_spec. Qed.
Print Assumptions C06_hash_join_refines_spec.

Theorem C06_hash_mark_refines_spec :
  forall hash, hash_ok hash ->
  forall ops bkeys pkeys kbits la ra P Lparts ins Rparts on,
  (1 <= P)%nat ->
  Permutation ins (stored_rows Lparts) ->
  on_total on (fun l r => conds_match ops (bkeys l) (pkeys r))
           (concat (concat Lparts)) (concat (concat Rparts)) ->
  let out := hash_join hash ops bkeys pkeys kbits HMark la ra P Lparts ins Rparts in
  Permutation out (map (fun l => l ++ [VBool (existsb (fun r => conds_match ops (bkeys l) (pkeys r))
                                                      (concat (concat Rparts)))])
                       (concat (concat Lparts))) /\
  exists s a,
    join_rows JSemi (concat (concat Lparts)) (concat (concat Rparts)) la ra on = Ok s /\
    join_rows JAnti (concat (concat Lparts)) (concat (concat Rparts)) la ra on = Ok a /\
    Permutation (mark_filter true out) s /\ Permutation (mark_filter false out) a.
Proof. exact hash_mark_refines_spec. Qed.
Print Assumptions C06_hash_mark_refines_spec.

(* the hash join's condition = equality keys match AND the remaining comparisons *)
Theorem C06_conds_match_split : forall ops k1 k2,
  conds_match ops k1 k2 = keys_match (eq_cols ops k1) (eq_cols ops k2) && extra_match ops k1 k2.
Proof. exact conds_match_split. Qed.
Print Assumptions C06_conds_match_split.

Theorem C06_hash_null_key_matches_nothing : forall ops k1 k2,
  In VNull (eq_cols ops k1) \/ In VNull (eq_cols ops k2) -> conds_match ops k1 k2 = false.
Proof. exact conds_match_null_key. Qed.
Print Assumptions C06_hash_null_key_matches_nothing.

Theorem C06_drain_partitions_disjoint_cover : forall (blocks : list (list row)) (P : nat), (1 <= P)%nat ->
  let nb := number_blocks 0 blocks in
  let read := concat (flat_map (fun p => strided P p nb) (seq 0 P)) in
  Permutation read (concat nb) /\ NoDup (map fst read) /\
  forall k ra marked, needs_drain k = true ->
    Permutation (drain_all k ra marked nb P) (flat_map (drain_row k ra marked) (concat nb)).
Proof. exact drain_partitions_disjoint_cover. Qed.
Print Assumptions C06_drain_partitions_disjoint_cover.

(* ---------------------------------------------------------------- 3. nested-loop join *)

Theorem C06_nl_join_refines_spec :
  forall f k la ra Lparts dr Rparts on,
  k <> NMark ->
  Permutation dr (collected Lparts) ->
  on_total on f (concat (concat Lparts)) (concat (concat Rparts)) ->
  exists out,
    join_rows (nspec_kind k) (concat (concat Lparts)) (concat (concat Rparts)) la ra on = Ok out /\
    Permutation (nl_join (Some f) k la ra Lparts dr Rparts) out.
Proof. exact nl_join_refines_spec. Qed.
Print Assumptions C06_nl_join_refines_spec.

Theorem C06_nl_cross_refines_spec : forall la ra Lparts dr Rparts,
  exists out,
    join_rows JCross (concat (concat Lparts)) (concat (concat Rparts)) la ra (fun _ => Ok true) = Ok out /\
    Permutation (nl_join None NInner la ra Lparts dr Rparts) out.
Proof. exact nl_cross_refines_spec. Qed.
Print Assumptions C06_nl_cross_refines_spec.

Theorem C06_nl_mark_refines_spec :
  forall f la ra Lparts dr Rparts on,
  Permutation dr (collected Lparts) ->
  on_total on f (concat (concat Lparts)) (concat (concat Rparts)) ->
  let out := nl_join (Some f) NMark la ra Lparts dr Rparts in
  Permutation out (mark_rows_g f (concat (concat Lparts)) (concat (concat Rparts))) /\
  exists s a,
    join_rows JSemi (concat (concat Lparts)) (concat (concat Rparts)) la ra on = Ok s /\
    join_rows JAnti (concat (concat Lparts)) (concat (concat Rparts)) la ra on = Ok a /\
    Permutation (mark_filter true out) s /\ Permutation (mark_filter false out) a.
Proof. exact nl_mark_refines_spec. Qed.
Print Assumptions C06_nl_mark_refines_spec.

(* ---------------------------------------------------------------- 4. the algorithm does not matter *)

Theorem C06_join_algo_irrelevant :
  forall hash, hash_ok hash ->
  forall ops bkeys pkeys kbits k la ra P Lparts ins dr Rparts,
  (1 <= P)%nat -> Permutation ins (stored_rows Lparts) -> Permutation dr (collected Lparts) ->
  Permutation (hash_join hash ops bkeys pkeys kbits (kind_of_n k) la ra P Lparts ins Rparts)
              (nl_join (Some (fun l r => conds_match ops (bkeys l) (pkeys r))) k la ra Lparts dr Rparts).
Proof. exact join_algo_irrelevant. Qed.
Print Assumptions C06_join_algo_irrelevant.
