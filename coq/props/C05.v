(* C05 — AND/OR/NOT follow three-valued logic, WHERE keeps exactly the rows whose predicate is TRUE,
   and the value of an expression does not depend on where it is evaluated.
   Property statements only, about the reference semantics model/Sql.v: each is closed by
   `exact <lemma>` from proofs/SqlLogicProofs.v and pinned with Print Assumptions.
   The Kleene tables kand/kor/knot (min / max / reflection on F < U < T) are defined in the proofs
   file independently of Sql.v's and3/or3/not3. *)
From Coq Require Import NArith ZArith List Bool.
From GV Require Import lib.Bytes model.Sql proofs.SqlLogicProofs.
Import ListNotations.
Local Open Scope nat_scope.

(* 1. and3 / or3 / not3 are Kleene's tables on {TRUE, FALSE, NULL}, a type error elsewhere *)
Theorem C05_and3_is_kleene : forall a b,
  and3 a b = match tv_of a, tv_of b with
             | Some x, Some y => Ok (val_of_tv (kand x y))
             | _, _ => Err EType
             end.
Proof. exact and3_is_kleene. Qed.
Print Assumptions C05_and3_is_kleene.

Theorem C05_or3_is_kleene : forall a b,
  or3 a b = match tv_of a, tv_of b with
            | Some x, Some y => Ok (val_of_tv (kor x y))
            | _, _ => Err EType
            end.
Proof. exact or3_is_kleene. Qed.
Print Assumptions C05_or3_is_kleene.

Theorem C05_not3_is_kleene : forall a,
  not3 a = match tv_of a with
           | Some x => Ok (val_of_tv (knot x))
           | None => Err EType
           end.
Proof. exact not3_is_kleene. Qed.
Print Assumptions C05_not3_is_kleene.

Theorem C05_and3_err_iff : forall a b e,
  and3 a b = Err e <-> e = EType /\ (is_b3 a = false \/ is_b3 b = false).
Proof. exact and3_err_iff. Qed.
Print Assumptions C05_and3_err_iff.

Theorem C05_or3_err_iff : forall a b e,
  or3 a b = Err e <-> e = EType /\ (is_b3 a = false \/ is_b3 b = false).
Proof. exact or3_err_iff. Qed.
Print Assumptions C05_or3_err_iff.

Theorem C05_not3_err_iff : forall a e, not3 a = Err e <-> e = EType /\ is_b3 a = false.
Proof. exact not3_err_iff. Qed.
Print Assumptions C05_not3_err_iff.

(* 2. algebraic laws, in the res monad, for ALL values *)
Theorem C05_and3_comm : forall a b, and3 a b = and3 b a.
Proof. exact and3_comm. Qed.
Print Assumptions C05_and3_comm.

Theorem C05_or3_comm : forall a b, or3 a b = or3 b a.
Proof. exact or3_comm. Qed.
Print Assumptions C05_or3_comm.

Theorem C05_and3_assoc : forall a b c,
  (do x <- and3 a b; and3 x c) = (do y <- and3 b c; and3 a y).
Proof. exact and3_assoc. Qed.
Print Assumptions C05_and3_assoc.

Theorem C05_or3_assoc : forall a b c,
  (do x <- or3 a b; or3 x c) = (do y <- or3 b c; or3 a y).
Proof. exact or3_assoc. Qed.
Print Assumptions C05_or3_assoc.

Theorem C05_de_morgan_and : forall a b,
  (do x <- and3 a b; not3 x) = (do x <- not3 a; do y <- not3 b; or3 x y).
Proof. exact de_morgan_and. Qed.
Print Assumptions C05_de_morgan_and.

Theorem C05_de_morgan_or : forall a b,
  (do x <- or3 a b; not3 x) = (do x <- not3 a; do y <- not3 b; and3 x y).
Proof. exact de_morgan_or. Qed.
Print Assumptions C05_de_morgan_or.

Theorem C05_or3_distr_and : forall a b c,
  (do x <- and3 b c; or3 a x) = (do x <- or3 a b; do y <- or3 a c; and3 x y).
Proof. exact or3_distr_and. Qed.
Print Assumptions C05_or3_distr_and.

Theorem C05_and3_distr_or : forall a b c,
  (do x <- or3 b c; and3 a x) = (do x <- and3 a b; do y <- and3 a c; or3 x y).
Proof. exact and3_distr_or. Qed.
Print Assumptions C05_and3_distr_or.

Theorem C05_and3_false_dominates : forall x, is_b3 x = true ->
  and3 (VBool false) x = Ok (VBool false) /\ and3 x (VBool false) = Ok (VBool false).
Proof. exact and3_false_dominates. Qed.
Print Assumptions C05_and3_false_dominates.

Theorem C05_or3_true_dominates : forall x, is_b3 x = true ->
  or3 (VBool true) x = Ok (VBool true) /\ or3 x (VBool true) = Ok (VBool true).
Proof. exact or3_true_dominates. Qed.
Print Assumptions C05_or3_true_dominates.

Theorem C05_not3_involutive : forall x, is_b3 x = true -> (do y <- not3 x; not3 y) = Ok x.
Proof. exact not3_involutive. Qed.
Print Assumptions C05_not3_involutive.

(* the optimizer's distributive rewrite (a AND b) OR (a AND c) ==> a AND (b OR c) *)
Theorem C05_distributive_or_rewrite_sound : forall d en a b c x y z,
  eval_expr d en a = Ok x -> eval_expr d en b = Ok y -> eval_expr d en c = Ok z ->
  eval_expr d en (EOr (EAnd a b) (EAnd a c)) = eval_expr d en (EAnd a (EOr b c)).
Proof. exact distributive_or_rewrite_sound. Qed.
Print Assumptions C05_distributive_or_rewrite_sound.

(* 3. WHERE keeps exactly the rows on which the predicate is TRUE, in source order *)
Theorem C05_where_keeps_true_only :
  forall d en f w sel src (pred : row -> value) (proj : row -> row),
  eval_from d en f = Ok src ->
  (forall r, In r src -> eval_expr d (r :: en) w = Ok (pred r)) ->
  (forall r, In r src -> is_b3 (pred r) = true) ->
  (forall r, In r src -> pred r = VBool true -> mapM (eval_expr d (r :: en)) sel = Ok (proj r)) ->
  eval_query d en (QSelect (Some f) (Some w) None None sel false)
  = Ok (map proj (filter (fun r => is_true (pred r)) src)).
Proof. exact where_keeps_true_only. Qed.
Print Assumptions C05_where_keeps_true_only.

Theorem C05_where_row_kept_iff :
  forall d en f w sel src (pred : row -> value) (proj : row -> row),
  eval_from d en f = Ok src ->
  (forall r, In r src -> eval_expr d (r :: en) w = Ok (pred r)) ->
  (forall r, In r src -> is_b3 (pred r) = true) ->
  (forall r, In r src -> pred r = VBool true -> mapM (eval_expr d (r :: en)) sel = Ok (proj r)) ->
  exists out,
    eval_query d en (QSelect (Some f) (Some w) None None sel false) = Ok out /\
    forall o, In o out <->
              exists r, In r src /\ eval_expr d (r :: en) w = Ok (VBool true) /\ o = proj r.
Proof. exact where_row_kept_iff. Qed.
Print Assumptions C05_where_row_kept_iff.

Theorem C05_where_error_aborts :
  forall d en f w sel s1 r s2 (pred : row -> value) e,
  eval_from d en f = Ok (s1 ++ r :: s2) ->
  (forall r', In r' s1 -> eval_expr d (r' :: en) w = Ok (pred r') /\ is_b3 (pred r') = true) ->
  eval_expr d (r :: en) w = Err e ->
  eval_query d en (QSelect (Some f) (Some w) None None sel false) = Err e.
Proof. exact where_error_aborts. Qed.
Print Assumptions C05_where_error_aborts.

Theorem C05_where_non_boolean_is_type_error :
  forall d en f w sel s1 r s2 (pred : row -> value) v,
  eval_from d en f = Ok (s1 ++ r :: s2) ->
  (forall r', In r' s1 -> eval_expr d (r' :: en) w = Ok (pred r') /\ is_b3 (pred r') = true) ->
  eval_expr d (r :: en) w = Ok v -> is_b3 v = false ->
  eval_query d en (QSelect (Some f) (Some w) None None sel false) = Err EType.
Proof. exact where_non_boolean_is_type_error. Qed.
Print Assumptions C05_where_non_boolean_is_type_error.

(* 4. IN lists are OR chains of equalities *)
Theorem C05_in_set_is_or_chain : forall x vs, in_set x vs = or_chain x vs.
Proof. exact in_set_is_or_chain. Qed.
Print Assumptions C05_in_set_is_or_chain.

Theorem C05_inlist_is_or_chain : forall d en a es x vs,
  eval_expr d en a = Ok x -> mapM (eval_expr d en) es = Ok vs ->
  eval_expr d en (EInList false a es) = eval_expr d en (or_chain_expr a es)
  /\ eval_expr d en (EInList false a es) = or_chain x vs.
Proof. exact inlist_is_or_chain. Qed.
Print Assumptions C05_inlist_is_or_chain.

Theorem C05_not_inlist_is_not_or_chain : forall d en a es x vs,
  eval_expr d en a = Ok x -> mapM (eval_expr d en) es = Ok vs ->
  eval_expr d en (EInList true a es) = eval_expr d en (ENot (or_chain_expr a es))
  /\ eval_expr d en (EInList true a es) = (do r <- or_chain x vs; not3 r).
Proof. exact not_inlist_is_not_or_chain. Qed.
Print Assumptions C05_not_inlist_is_not_or_chain.

(* 5. CASE: first TRUE branch wins, nothing after it is evaluated *)
Theorem C05_case_first_true_branch : forall d en pre c t post els,
  Forall (when_not_true d en) pre ->
  eval_expr d en c = Ok (VBool true) ->
  eval_expr d en (ECase (pre ++ (c, t) :: post) els) = eval_expr d en t.
Proof. exact case_first_true_branch. Qed.
Print Assumptions C05_case_first_true_branch.

Theorem C05_case_else_branch : forall d en bs els,
  Forall (when_not_true d en) bs ->
  eval_expr d en (ECase bs els) = eval_expr d en els.
Proof. exact case_else_branch. Qed.
Print Assumptions C05_case_else_branch.

Theorem C05_case_when_error : forall d en pre c t post els e,
  Forall (when_not_true d en) pre ->
  eval_expr d en c = Err e ->
  eval_expr d en (ECase (pre ++ (c, t) :: post) els) = Err e.
Proof. exact case_when_error. Qed.
Print Assumptions C05_case_when_error.

(* 6. closed expressions (no column, no subquery) evaluate the same everywhere *)
Theorem C05_closed_expr_eval_indep : forall e, closed_expr e = true ->
  forall d en d' en', eval_expr d en e = eval_expr d' en' e.
Proof. exact closed_expr_eval_indep. Qed.
Print Assumptions C05_closed_expr_eval_indep.
