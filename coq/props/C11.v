(* C11 — Scan pushdown and multi-file scans only skip work, never change rows.
   Property statements only; each is closed by `exact <lemma>` from proofs/ and pinned with
   Print Assumptions.  Models: model/Pruner.v (PrimitiveRowGroupPruner, StructReader::should_prune,
   Reader::poll_pull row-group skipping, projections), model/Glob.v (GlobHandle::poll_expand),
   model/MultiFile.v (files / row groups dealt to partitions). *)
From Coq Require Import ZArith NArith List Bool Permutation.
From GV Require Import model.Pruner model.Glob model.MultiFile
  proofs.PrunerProofs proofs.GlobProofs proofs.MultiFileProofs.
Import ListNotations.
Close Scope N_scope.
Close Scope Z_scope.

(* ---- statistics-based pruning ---- *)
(* A pruned row group holds no value that passes the pushed conjunction `col = c1 AND col = c2 ..`,
   provided the statistics are valid for the format in the order `o` they were written in AND the
   reader's `as` conversion is monotone between the bounds.  (The statement "no row equals ANY
   constant" is false for two or more constants — the group is pruned as soon as ONE constant is
   out of range — and is the corollary C11_prune_sound_single for one constant.) *)
Theorem C11_prune_sound : forall lt o st cs vs,
  should_prune lt st cs = Ok true ->
  stats_describe o st vs ->
  conv_monotone_on lt o st ->
  forall cell, In cell vs -> ~ passes lt cell cs.
Proof. exact prune_sound. Qed.
Print Assumptions C11_prune_sound.

Theorem C11_prune_sound_single : forall lt o st k c vs,
  should_prune lt st [CVal k c] = Ok true ->
  stats_describe o st vs -> conv_monotone_on lt o st ->
  forall v, In (Some v) vs -> conv lt v <> c.
Proof. exact prune_sound_single. Qed.
Print Assumptions C11_prune_sound_single.

Theorem C11_prune_sound_forall_consts_refuted :
  exists lt o st cs vs v k c,
    should_prune lt st cs = Ok true /\ stats_describe o st vs /\ conv_monotone_on lt o st /\
    In (Some v) vs /\ In (CVal k c) cs /\ conv lt v = c.
Proof. exact prune_sound_forall_consts_refuted. Qed.
Print Assumptions C11_prune_sound_forall_consts_refuted.

Theorem C11_prune_sound_hyps_sat :
  should_prune i32 st_ex [CVal (KInt i32) 7] = Ok true /\
  stats_describe OSigned st_ex [Some 20%Z; None; Some 25%Z; Some 30%Z].
Proof. exact prune_sound_hyps_sat. Qed.
Print Assumptions C11_prune_sound_hyps_sat.

(* the side condition holds for signed logical types with in-range bounds, for unsigned logical
   types with statistics in unsigned (type-defined) order, and for signed-order statistics on an
   unsigned type while the bounds are non-negative *)
Theorem C11_conv_monotone_signed : forall bits st, (0 < bits)%Z ->
  (forall mn, st_min st = Some mn -> (- 2 ^ (bits - 1) <= mn)%Z) ->
  (forall mx, st_max st = Some mx -> (mx < 2 ^ (bits - 1))%Z) ->
  conv_monotone_on (mk_lt bits true) OSigned st.
Proof. exact conv_monotone_signed. Qed.
Print Assumptions C11_conv_monotone_signed.

Theorem C11_conv_monotone_unsigned : forall bits st,
  conv_monotone_on (mk_lt bits false) (OUnsigned bits) st.
Proof. exact conv_monotone_unsigned. Qed.
Print Assumptions C11_conv_monotone_unsigned.

Theorem C11_conv_monotone_signed_on_unsigned_nonneg : forall bits st, (0 < bits)%Z ->
  (forall mn, st_min st = Some mn -> (0 <= mn)%Z) ->
  (forall mx, st_max st = Some mx -> (mx < 2 ^ bits)%Z) ->
  conv_monotone_on (mk_lt bits false) OSigned st.
Proof. exact conv_monotone_signed_on_unsigned_nonneg. Qed.
Print Assumptions C11_conv_monotone_signed_on_unsigned_nonneg.

(* ---- after the repair f11c5d40d (`if min > max { return Ok(false) }` on the converted bounds) ---- *)
(* same-width conversions (Int32/UInt32 in INT32, Int64/UInt64 in INT64), statistics in the signed OR the
   unsigned order of that width (deprecated fields / min_value,max_value), bounds and values native
   i32 / i64 numbers: NO side condition about the conversion is left *)
Theorem C11_prune_sound_same_width : forall lt pb o st cs vs,
  (0 < pb)%Z -> lt_bits lt = pb -> order_of_width pb o ->
  stats_native pb st -> (forall w, In (Some w) vs -> native pb w) ->
  should_prune lt st cs = Ok true ->
  stats_describe o st vs ->
  forall cell, In cell vs -> ~ passes lt cell cs.
Proof. exact prune_sound_same_width. Qed.
Print Assumptions C11_prune_sound_same_width.

Theorem C11_prune_sound_same_width_hyps_sat :
  should_prune u32 st_ex_u [CVal (KInt u32) 7] = Ok true /\ stats_native 32 st_ex_u /\
  stats_describe OSigned st_ex_u [Some (-1294967296)%Z; Some (-5)%Z].
Proof. exact prune_sound_same_width_hyps_sat. Qed.
Print Assumptions C11_prune_sound_same_width_hyps_sat.

(* narrowing conversions (INT32 physical -> Int8/Int16/UInt8/UInt16): the one remaining hypothesis is
   that the statistics' bounds lie in the range of the logical type (stats_in_lrange) ... *)
Theorem C11_prune_sound_bounds_in_lrange : forall lt st cs vs,
  (0 < lt_bits lt)%Z -> stats_in_lrange lt st ->
  should_prune lt st cs = Ok true ->
  stats_describe OSigned st vs ->
  forall cell, In cell vs -> ~ passes lt cell cs.
Proof. exact prune_sound_bounds_in_lrange. Qed.
Print Assumptions C11_prune_sound_bounds_in_lrange.

(* ... and it is needed: INT_8 in INT32 with the (widened) bounds 0 / 300: 300 as i8 is 44, the guard
   passes, `a = 100` prunes the group that holds 100 *)
Theorem C11_prune_sound_narrowing_needs_range_refuted :
  exists lt pb o st cs vs cell,
    (0 < pb)%Z /\ order_of_width pb o /\ stats_native pb st /\ (forall w, In (Some w) vs -> native pb w) /\
    should_prune lt st cs = Ok true /\ stats_describe o st vs /\ In cell vs /\ passes lt cell cs.
Proof. exact prune_sound_narrowing_needs_range_refuted. Qed.
Print Assumptions C11_prune_sound_narrowing_needs_range_refuted.

(* the repaired defect (DESIGN §5-29) as a statement about the definition BEFORE f11c5d40d (Pruner.Old):
   deprecated, signed-order statistics of a UINT_32 row group {1, 3000000000, 7}: valid statistics, the
   group was pruned for `a = 1`, and it contains 1; the current definition never prunes on them *)
Theorem C11_old_prune_sound_unconditional_refuted :
  exists lt o st cs vs cell,
    Old.should_prune lt st cs = Ok true /\ stats_describe o st vs /\ In cell vs /\ passes lt cell cs.
Proof. exact old_prune_sound_unconditional_refuted. Qed.
Print Assumptions C11_old_prune_sound_unconditional_refuted.

Theorem C11_w29_now :
  from_thrift (mk_ts (Some 7%Z) (Some (-1294967296)%Z) (Some 0%Z) None None) = Ok st_w29 /\
  ~ conv_monotone_on u32 OSigned st_w29 /\
  (forall cs, should_prune u32 st_w29 cs = Ok false).
Proof. exact (conj st_w29_from_thrift (conj w29_not_monotone w29_not_pruned_now)). Qed.
Print Assumptions C11_w29_now.

Theorem C11_should_prune_implies_old : forall lt st cs,
  should_prune lt st cs = Ok true -> Old.should_prune lt st cs = Ok true.
Proof. exact should_prune_implies_old. Qed.
Print Assumptions C11_should_prune_implies_old.

Theorem C11_null_constant_order_dependent :
  should_prune i32 st_ex [CVal (KInt i32) 7; CNull] = Ok true /\
  should_prune i32 st_ex [CNull; CVal (KInt i32) 7] = Ok false.
Proof. exact null_constant_order_dependent. Qed.
Print Assumptions C11_null_constant_order_dependent.

Theorem C11_should_prune_no_err : forall lt st cs,
  (forall k v, In (CVal k v) cs -> accepts lt k = true) -> should_prune lt st cs <> Err.
Proof. exact should_prune_no_err. Qed.
Print Assumptions C11_should_prune_no_err.

(* ---- pushdown only skips: the Filter node stays above the scan; if the predicate implies every
   pushed hint, filtering the hinted scan gives the same list (hence bag) as filtering the full scan ---- *)
Theorem C11_pushdown_only_skips : forall prj pr ord fs (p : list (option Z) -> bool) f rows,
  scan_hinted prj pr fs f = Ok rows ->
  (forall g, In g f -> rg_valid pr ord g) ->
  (forall r flt, p (project prj r) = true -> In flt fs -> hint_holds pr flt r) ->
  filter p (map (project prj) rows) = filter p (map (project prj) (scan_all f)).
Proof. exact pushdown_only_skips. Qed.
Print Assumptions C11_pushdown_only_skips.

(* ---- projections: any list of column indices (subset, reordering, repetition) ---- *)
Theorem C11_projection_commutes : forall prj pr f,
  (exists rows, scan_hinted prj pr [] f = Ok rows /\
     map (project prj) rows = map (project prj) (scan_all f)) /\
  (forall prj2 r, (forall i, In i prj2 -> (i < length prj)%nat) ->
     project prj2 (project prj r) = project (map (fun i => nth i prj 0%nat) prj2) r).
Proof. exact projection_commutes. Qed.
Print Assumptions C11_projection_commutes.

(* ---- glob expansion ---- *)
(* the loop of poll_expand as written (model `run`: a stack of directory handles, one unit of fuel per
   iteration) terminates and returns exactly `expand`, the function the theorems below speak about *)
Theorem C11_expand_stack_is_expand : forall m root segs,
  exists fuel, forall k, expand_stack m (fuel + S k) root segs = Some (expand m root segs).
Proof. exact expand_stack_is_expand. Qed.
Print Assumptions C11_expand_stack_is_expand.

(* exact for patterns without `**`: every matching file exactly once, nothing else *)
Theorem C11_glob_exact_nodstar : forall m root segs, nodstar segs -> wf root ->
  NoDup (expand m root segs) /\ (forall p, In p (expand m root segs) <-> matches m root segs p).
Proof. exact glob_exact_nodstar. Qed.
Print Assumptions C11_glob_exact_nodstar.

Theorem C11_glob_exact_hyps_sat :
  nodstar [star_csv] /\ wf tree_w /\ expand m_w tree_w [star_csv] = [[1%N]].
Proof. exact glob_exact_hyps_sat. Qed.
Print Assumptions C11_glob_exact_hyps_sat.

(* also exact when the only `**` is the LAST segment (okp: every segment but the last is not `**`):
   together with the refutations below, the walk is exact precisely outside the class
   "`**` followed by another segment" *)
Theorem C11_glob_exact_dstar_last : forall m root segs, okp segs -> wf root ->
  NoDup (expand m root segs) /\ (forall p, In p (expand m root segs) <-> matches m root segs p).
Proof. exact glob_exact_dstar_last. Qed.
Print Assumptions C11_glob_exact_dstar_last.

Theorem C11_glob_dstar_last_hyps_sat : okp [star_csv; dd] /\ okp [dd] /\ wf tree_w /\
  expand m_w tree_w [dd] = [[1]; [2; 3]; [2; 4; 5]; [2; 4; 6; 7]]%N.
Proof. exact glob_dstar_last_hyps_sat. Qed.
Print Assumptions C11_glob_dstar_last_hyps_sat.

(* for EVERY pattern, `**` anywhere included, only matching files are returned (the refuted
   patterns below omit or repeat files, they never return a wrong one) *)
Theorem C11_glob_sound_all : forall m root segs p, In p (expand m root segs) -> matches m root segs p.
Proof. exact glob_sound_all. Qed.
Print Assumptions C11_glob_sound_all.

(* REFUTED for `**` followed by another segment (DESIGN §5-12): `d/**/*.csv` omits d/a.csv ... *)
Theorem C11_glob_exact_refuted_missing :
  exists m root segs p, wf root /\ matches m root segs p /\ ~ In p (expand m root segs).
Proof. exact glob_exact_refuted_missing. Qed.
Print Assumptions C11_glob_exact_refuted_missing.

(* ... and `d/**/**/*.csv` returns d/s1/s2/s3/d.csv twice *)
Theorem C11_glob_exact_refuted_nodup :
  exists m root segs, wf root /\ ~ NoDup (expand m root segs).
Proof. exact glob_exact_refuted_nodup. Qed.
Print Assumptions C11_glob_exact_refuted_nodup.

(* ---- multi-file scans ---- *)
Theorem C11_multifile_union : forall (F R : Type) (scan : F -> list R) p files, 1 <= p ->
  Permutation (multi_scan F R scan p files) (flat_map scan files).
Proof. exact multifile_union. Qed.
Print Assumptions C11_multifile_union.

Theorem C11_pq_multifile_union : forall (F R G : Type) (rgs : F -> list G) (rg_scan : G -> list R) p files,
  1 <= p ->
  Permutation (pq_multi_scan F R G rgs rg_scan p files) (flat_map (fun f => flat_map rg_scan (rgs f)) files).
Proof. exact pq_multifile_union. Qed.
Print Assumptions C11_pq_multifile_union.

Theorem C11_multifile_exactly_once : forall (A : Type) p (files : list A) f, 1 <= p -> NoDup files -> In f files ->
  exists k, k < p /\ In f (deal p k files) /\ forall k', k' < p -> In f (deal p k' files) -> k' = k.
Proof. exact @multifile_exactly_once. Qed.
Print Assumptions C11_multifile_exactly_once.

Theorem C11_multifile_hyps_sat : 1 <= 4 /\ NoDup [10; 11; 12; 13; 14; 15] /\
  map (fun k => deal 4 k [10; 11; 12; 13; 14; 15]) (seq 0 4) = [[10; 14]; [11; 15]; [12]; [13]] /\
  map (fun k => deal_mod 4 k [10; 11; 12; 13; 14; 15]) (seq 0 4) = [[10; 14]; [11; 15]; [12]; [13]].
Proof. exact multifile_hyps_sat. Qed.
Print Assumptions C11_multifile_hyps_sat.

(* ---- reusable per-partition state (read_text: one buffer for all the files of a partition) ---- *)
(* the row emitted for a file is that file, whatever the buffer holds from files read earlier *)
Theorem C11_text_reader_no_carry_over : forall buf files, text_reader true buf files = map Some files.
Proof. exact text_reader_no_carry_over. Qed.
Print Assumptions C11_text_reader_no_carry_over.

Theorem C11_text_reader_row_local : forall buf1 buf2 files1 files2 i f,
  nth_error files1 i = Some f -> nth_error files2 i = Some f ->
  nth_error (text_reader true buf1 files1) i = nth_error (text_reader true buf2 files2) i.
Proof. exact text_reader_row_local. Qed.
Print Assumptions C11_text_reader_row_local.

Theorem C11_text_reader_no_content : forall files, text_reader false [] files = map (fun _ => None) files.
Proof. exact text_reader_no_content. Qed.
Print Assumptions C11_text_reader_no_content.

Theorem C11_text_multifile_union : forall p files, 1 <= p ->
  Permutation (text_multi true p files) (map Some files).
Proof. exact text_multifile_union. Qed.
Print Assumptions C11_text_multifile_union.

(* REFUTED for a buffer that is only grown, never shrunk: the smaller later file gets the tail of the
   earlier larger one *)
Theorem C11_text_reader_grow_refuted :
  exists files, text_reader_grow [] files <> map Some files /\
                text_reader_grow [] files = [Some [1; 2; 3]; Some [9; 2; 3]]%N.
Proof. exact text_reader_grow_refuted. Qed.
Print Assumptions C11_text_reader_grow_refuted.

(* ---- the glob() table function: per-partition path list, emit up to the batch capacity per poll, truncate ---- *)
Theorem C11_glob_pull_is_rev : forall (A : Type) caps (l : list A),
  Forall (fun c => 1 <= c) caps -> length l <= length caps -> glob_pull caps l = rev l.
Proof. exact @glob_pull_is_rev. Qed.
Print Assumptions C11_glob_pull_is_rev.

Theorem C11_glob_table_function_exact : forall (A : Type) (caps : nat -> list nat) p (paths : list A), 1 <= p ->
  (forall k, k < p -> Forall (fun c => 1 <= c) (caps k) /\ length (deal p k paths) <= length (caps k)) ->
  Permutation (glob_multi caps p paths) paths.
Proof. exact @glob_table_function_exact. Qed.
Print Assumptions C11_glob_table_function_exact.

Theorem C11_glob_pull_hyps_sat :
  glob_pull [2; 2; 2] [1; 2; 3; 4; 5] = [5; 4; 3; 2; 1] /\ Forall (fun c => 1 <= c) [2; 2; 2].
Proof. exact glob_pull_hyps_sat. Qed.
Print Assumptions C11_glob_pull_hyps_sat.

Theorem C11_glob_pull_norev_refuted :
  exists caps (l : list nat), Forall (fun c => 1 <= c) caps /\ length l <= length caps /\
    glob_pull_norev caps l = [1; 2; 1; 2; 1] /\ length (glob_pull_norev caps l) = length l /\
    ~ Permutation (glob_pull_norev caps l) l.
Proof. exact glob_pull_norev_refuted. Qed.
Print Assumptions C11_glob_pull_norev_refuted.
