(* C18 — The announced schema is the schema of the rows produced.
   Property statements only.  The signature tables, the implicit-cast score table and the score constants
   come from gen/TablesTyping.v, which is regenerated from the built crates on every run
   (`gv_typing dump-tables`); `src_params = Some P` fails when a constant is missing. *)
From Coq Require Import NArith ZArith List Bool.
From GV Require Import model.Resolve gen.TablesTyping model.ResolveSrc proofs.ResolveProofs.
Import ListNotations.
Open Scope N_scope.

(* 1. Type resolution is deterministic.  BOUND: every scalar and aggregate function set of the current build,
   every argument tuple of length <= 3 over all 27 type ids plus the 7 integer-literal width classes.
   `find_candidates` ends in `sort_unstable_by` on the total score and the binder takes element 0: every
   candidate of maximal score has the same cast vector and the same return type id, so the order the unstable
   sort leaves equal scores in cannot change what the binder does.  If an edit of a signature or a score
   creates a genuine tie, this theorem stops checking and the check reports the tied tuple. *)
Theorem C18_resolution_deterministic :
  exists P, src_params = Some P /\
  forall f, In f (scalar_sets ++ aggregate_sets) ->
  forall have, (List.length have <= 3)%nat -> Forall (wf_input P) have ->
  forall c1 c2, In c1 (maximal P (find_candidates P have (f_sigs f))) ->
                In c2 (maximal P (find_candidates P have (f_sigs f))) ->
                snd c1 = snd c2 /\ sig_ret f (fst c1) = sig_ret f (fst c2).
Proof. exact resolution_deterministic. Qed.
Print Assumptions C18_resolution_deterministic.

(* 2. An exact signature match is chosen, and with no casts (any parameters, any function set). *)
Theorem C18_resolve_exact_wins : forall P f have i,
  find_exact P (f_sigs f) (map i_ty have) = Some i ->
  resolve P f have = RExact i /\
  exists s, nth_error (f_sigs f) (N.to_nat i) = Some s /\ exact_match P s (map i_ty have) = true /\
            compare_and_fill P have s = Some (repeat CNo (List.length have)).
Proof. exact resolve_exact_wins. Qed.
Print Assumptions C18_resolve_exact_wins.

(* 3. UNION / EXCEPT / INTERSECT: every output column gets ONE type; it is the type of one branch, and the
   other branch either already has it or has an implicit cast to it (any score table). *)
Theorem C18_union_types_unified : forall P ls rs out,
  unify_cols P ls rs = Some out ->
  List.length out = Nat.min (List.length ls) (List.length rs) /\
  forall k l r o, nth_error ls k = Some l -> nth_error rs k = Some r -> nth_error out k = Some o ->
    match snd o with
    | SNone => fst o = l /\ l = r
    | SRight => fst o = l /\ (exists s, score P (d_id r) (d_id l) = Some s)
    | SLeft => fst o = r /\ (exists s, score P (d_id l) (d_id r) = Some s)
    end.
Proof. exact union_types_unified. Qed.
Print Assumptions C18_union_types_unified.

(* 4. REFUTED part of the full-strength statement: the set-operation binder does not require the branches to
   have the same number of columns (it zips the two lists).  Witness: one Int32 column UNION two Int32 columns;
   on the engine: `SELECT 1 UNION ALL SELECT 2, 3` is accepted by the binder (findings/C18.json). *)
Theorem C18_union_arity_checked_refuted :
  exists P ls rs out, src_params = Some P /\ List.length ls <> List.length rs /\ unify_cols P ls rs = Some out.
Proof. exact union_arity_checked_refuted. Qed.
Print Assumptions C18_union_arity_checked_refuted.
