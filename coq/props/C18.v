(* C18 — The announced schema is the schema of the rows produced.
   Property statements only.  The signature tables, the implicit-cast score table and the score constants
   come from gen/TablesTyping.v, which is regenerated from the built crates on every run
   (`gv_typing dump-tables`); `src_params = Some P` fails when a constant is missing. *)
From Coq Require Import NArith ZArith List Bool.
From GV Require Import model.Resolve gen.TablesTyping model.ResolveSrc proofs.ResolveProofs.
Import ListNotations.
Open Scope N_scope.

(* 1. Type resolution is deterministic.  BOUND: every scalar and aggregate function set of the current build,
   every argument tuple of length <= 3 over all 27 type ids plus the 7 integer-literal width classes.
   `find_candidates` ends in `sort_unstable_by` on the total score and the binder takes element 0: every
   candidate of maximal score has the same cast vector and the same return type id, so the order the unstable
   sort leaves equal scores in cannot change what the binder does.  If an edit of a signature or a score
   creates a genuine tie, this theorem stops checking and the check reports the tied tuple. *)
Theorem C18_resolution_deterministic :
  exists P, src_params = Some P /\
  forall f, In f (scalar_sets ++ aggregate_sets) ->
  forall have, (List.length have <= 3)%nat -> Forall (wf_input P) have ->
  forall c1 c2, In c1 (maximal P (find_candidates P have (f_sigs f))) ->
                In c2 (maximal P (find_candidates P have (f_sigs f))) ->
                snd c1 = snd c2 /\ sig_ret f (fst c1) = sig_ret f (fst c2).
Proof. exact resolution_deterministic. Qed.
Print Assumptions C18_resolution_deterministic.

(* 2. An exact signature match is chosen, and with no casts (any parameters, any function set). *)
Theorem C18_resolve_exact_wins : forall P f have i,
  find_exact P (f_sigs f) (map i_ty have) = Some i ->
  resolve P f have = RExact i /\
  exists s, nth_error (f_sigs f) (N.to_nat i) = Some s /\ exact_match P s (map i_ty have) = true /\
            compare_and_fill P have s = Some (repeat CNo (List.length have)).
Proof. exact resolve_exact_wins. Qed.
Print Assumptions C18_resolve_exact_wins.

(* 3. UNION / EXCEPT / INTERSECT: accepted only for equal column counts; every output column gets ONE type; it is
   the type of one branch, and the other branch either already has it or has an implicit cast to it (any table). *)
Theorem C18_union_arity_checked : forall P ls rs out,
  unify_cols P ls rs = Some out ->
  List.length ls = List.length rs /\ List.length out = List.length ls.
Proof. exact union_arity_checked. Qed.
Print Assumptions C18_union_arity_checked.

Theorem C18_union_types_unified : forall P ls rs out,
  unify_cols P ls rs = Some out ->
  List.length ls = List.length rs /\ List.length out = List.length ls /\
  forall k l r o, nth_error ls k = Some l -> nth_error rs k = Some r -> nth_error out k = Some o ->
    match snd o with
    | SNone => fst o = l /\ l = r
    | SRight => fst o = l /\ ((exists s, score P (d_id r) (d_id l) = Some s) \/ (is_dec P l /\ is_dec P r))
    | SLeft => fst o = r /\ ((exists s, score P (d_id l) (d_id r) = Some s) \/ (is_dec P l /\ is_dec P r))
    | SBoth => is_dec P l /\ is_dec P r /\ is_dec P (fst o) /\ dec_unify P l r = Some o
    end.
Proof. exact union_types_unified. Qed.
Print Assumptions C18_union_types_unified.

(* 3b. accepted => after the casts the binder requests (a branch that needs a cast for any column is projected to
   the output types, SetOpPlanner::wrap_cast) BOTH branches have exactly the announced FULL data types - ids and
   parameters (decimal precision/scale, timestamp unit, list element type; [dtype] = id + metadata) - and every
   cast inserted either has an implicit-cast score or is decimal -> the unified decimal.  Tied to the source:
   the column comparison is `left == right` on DataType values, the length test and the decimal rule are present
   as transcribed, and the two MAX_PRECISION constants are 18 and 38 (scanned on every run). *)
Theorem C18_union_branches_one_type :
  TablesTyping.setop_full_type_equality = Some 1 /\ TablesTyping.setop_arity_check = Some 1 /\
  TablesTyping.setop_decimal_rule = Some 1 /\
  option_map Z.of_N TablesTyping.src_dec64_max_precision = Some dec64_max_precision /\
  option_map Z.of_N TablesTyping.src_dec128_max_precision = Some dec128_max_precision /\
  forall P ls rs out,
  unify_cols P ls rs = Some out ->
  branch_after ls out (needs_cast SLeft out) = map fst out /\
  branch_after rs out (needs_cast SRight out) = map fst out /\
  (forall f t, In (f, t) (casts_inserted ls out (needs_cast SLeft out)) ->
     (exists s, score P (d_id f) (d_id t) = Some s) \/ (is_dec P f /\ is_dec P t)) /\
  (forall f t, In (f, t) (casts_inserted rs out (needs_cast SRight out)) ->
     (exists s, score P (d_id f) (d_id t) = Some s) \/ (is_dec P f /\ is_dec P t)).
Proof. repeat (split; [reflexivity|]). exact union_branches_one_type. Qed.
Print Assumptions C18_union_branches_one_type.

(* 3c. two decimals of different (precision, scale): the unified decimal type holds every value of both branch types
   exactly - its scale is the larger scale (nothing is rounded) and it has at least as many integer digits as
   either side - UNLESS integer digits + scale exceeds 38: then the precision is clamped to 38, the scale is still
   the larger one, and a value with more than 38 - scale integer digits fails its cast at run time (it is never
   rounded) *)
Theorem C18_union_decimal_exact : forall P l r o lp ls rp rs,
  unify1 P l r = Some o -> dec_meta P l = Some (lp, ls) -> dec_meta P r = Some (rp, rs) -> l <> r ->
  exists po so, dec_meta P (fst o) = Some (po, so) /\ so = Z.max ls rs /\
    ((Z.max (lp - ls) (rp - rs) + so <= dec128_max_precision)%Z ->
       (lp - ls <= po - so)%Z /\ (rp - rs <= po - so)%Z /\ (ls <= so)%Z /\ (rs <= so)%Z) /\
    ((dec128_max_precision < Z.max (lp - ls) (rp - rs) + so)%Z ->
       po = dec128_max_precision /\ (ls <= so)%Z /\ (rs <= so)%Z).
Proof. exact union_decimal_exact. Qed.
Print Assumptions C18_union_decimal_exact.

(* 4. the length test is what makes 3 hold: the zip loop alone (the binder before the repair f82a4c29b) accepts
   one Int32 column UNION two Int32 columns; the current rule rejects it *)
Theorem C18_union_zip_alone_accepts_unequal_arity :
  exists P ls rs out, src_params = Some P /\ List.length ls <> List.length rs /\ unify_zip P ls rs = Some out /\
                      unify_cols P ls rs = None.
Proof. exact union_zip_alone_accepts_unequal_arity. Qed.
Print Assumptions C18_union_zip_alone_accepts_unequal_arity.

(* 5. Type soundness of the announced type (model/Typing.v: integer widths with the promotion and literal
   refinement rules, comparisons -> Boolean, CASE branch unification) against the reference evaluation of
   model/Sql.v: a value an expression evaluates to inhabits the type the expression announces, or is NULL.
   (EScalar is not typed by the model: type_of returns None for it.) *)
From GV Require Import model.Sql model.Typing proofs.TypingProofs.
Theorem C18_eval_has_announced_type : forall e te t d en v,
  type_of te e = Some t -> env_ok en te -> eval_expr d en e = Sql.Ok v -> has_type v t.
Proof. exact eval_has_announced_type. Qed.
Print Assumptions C18_eval_has_announced_type.

(* 6. aggregate results: count -> Int64, sum(int) -> Int64, min/max keep the input type, bool_and/bool_or ->
   Boolean (row counts are assumed to fit Int64) *)
Theorem C18_agg_has_announced_type : forall f dis nrows vs targ t v,
  agg_type f targ = Some t -> Forall (fun x => has_type x targ) vs ->
  in_range 64 (Z.of_nat nrows) = true -> in_range 64 (Z.of_nat (List.length (agg_values dis vs))) = true ->
  agg_apply f dis nrows vs = Sql.Ok v -> has_type v t.
Proof. exact agg_has_announced_type. Qed.
Print Assumptions C18_agg_has_announced_type.
