(* C16 — No query makes the engine's unsafe code touch memory it does not own.
   PARTIAL by construction: these are the bounds and alignment facts of the modelled address arithmetic
   (model/Layout.v: row layout, aggregate layout, sort layout, block reservation, prepare_append, string view
   threshold, directory masks), for all sizes.  Lifetimes, initialisation of reserved bytes, data races and the
   vtable downcasts are not exhibitable by a Gallina model and are NOT claimed.
   Property statements only. *)
From Coq Require Import NArith List Bool.
From GV Require Import model.Layout proofs.LayoutProofs.
From GV Require gen.TablesLayout.
Import ListNotations.
Open Scope N_scope.

(* 1. every column slot lies inside the row, after the validity bytes *)
Theorem C16_write_within_row : forall ts c off,
  nth_error (rl_offsets (row_layout_of ts)) c = Some off ->
  exists t, nth_error ts c = Some t /\
            rl_validity (row_layout_of ts) <= off /\ off + row_w t <= rl_width (row_layout_of ts).
Proof. exact write_within_row. Qed.
Print Assumptions C16_write_within_row.

(* 2. column slots do not overlap; the validity bitmap has a bit for every column *)
Theorem C16_offsets_disjoint : forall ts c1 c2 off1 off2 t1,
  (c1 < c2)%nat ->
  nth_error (rl_offsets (row_layout_of ts)) c1 = Some off1 ->
  nth_error (rl_offsets (row_layout_of ts)) c2 = Some off2 ->
  nth_error ts c1 = Some t1 ->
  off1 + row_w t1 <= off2.
Proof. exact offsets_disjoint. Qed.
Print Assumptions C16_offsets_disjoint.

Theorem C16_validity_bytes_cover : forall n, N.of_nat n <= 8 * validity_bytes n.
Proof. exact validity_bytes_cover. Qed.
Print Assumptions C16_validity_bytes_cover.

(* 3. a row below num_rows lies inside the reserved, hence allocated, bytes of its block *)
Theorem C16_row_within_block : forall b rw n r,
  b_res b <= b_cap b -> num_rows b rw = Some n -> r < n ->
  r * rw + rw <= b_res b /\ b_res b <= b_cap b.
Proof. exact row_within_block. Qed.
Print Assumptions C16_row_within_block.

(* 4. aggregate states: inside the row, after the groups, disjoint, and aligned to their own alignment in every
   row of a buffer whose base is a multiple of base_align (alignments are powers of two, as Rust's are) *)
Theorem C16_agg_state_aligned : forall groups states L,
  agg_layout_of groups states = Some L ->
  (forall s, In s states -> exists k, snd s = 2 ^ k) ->
  (al_base L | al_width L) /\
  forall i off size align, nth_error (al_offsets L) i = Some off -> nth_error states i = Some (size, align) ->
    rl_width (al_groups L) <= off /\ off + size <= al_width L /\
    (forall j off2, (i < j)%nat -> nth_error (al_offsets L) j = Some off2 -> off + size <= off2) /\
    forall base row, (al_base L | base) -> (base + row * al_width L + off) mod align = 0.
Proof. exact agg_state_aligned. Qed.
Print Assumptions C16_agg_state_aligned.

(* 5. sort rows: key slots lie inside the compared prefix, do not overlap, and the trailing row-index slot
   (ROW_INDEX_WIDTH of the current source) ends exactly at row_width *)
Theorem C16_sort_row_index_slot_in_bounds :
  TablesLayout.row_index_width = Some row_index_width /\
  forall ts L, sort_layout_of ts = Ok L ->
  sl_compare L + row_index_width = sl_width L /\
  forall c off, nth_error (sl_offsets L) c = Some off ->
    exists t w, nth_error ts c = Some t /\ key_w t = Some w /\ nth_error (sl_widths L) c = Some w /\
                off + w <= sl_compare L /\
                forall c2 off2, (c < c2)%nat -> nth_error (sl_offsets L) c2 = Some off2 -> off + w <= off2.
Proof. split; [exact src_row_index_width|exact sort_row_index_slot_in_bounds]. Qed.
Print Assumptions C16_sort_row_index_slot_in_bounds.

(* 6. prepare_append never reserves past a block's capacity; every row pointer addresses row_width bytes inside
   the reserved part of its block; exactly `rows` pointers are produced *)
Theorem C16_prepare_append_never_overfills : forall fuel rw rc blocks rows bs ps,
  rw <> 0 -> Forall (fun b => b_res b <= b_cap b) blocks ->
  prepare_append fuel rw rc blocks rows = PaOk bs ps ->
  Forall (fun b => b_res b <= b_cap b) bs /\
  Forall (fun p => exists b, nth_error bs (fst p) = Some b /\ snd p + rw <= b_res b /\ b_res b <= b_cap b) ps /\
  List.length ps = N.to_nat rows.
Proof. exact prepare_append_never_overfills. Qed.
Print Assumptions C16_prepare_append_never_overfills.

(* 6b. both side conditions are needed (and the engine keeps them: zero-column rows never reach a collection in
   the explored workloads, `SET batch_size TO 0` is rejected) *)
Theorem C16_prepare_append_zero_width_panics : forall fuel rc, prepare_append (S fuel) 0 rc [] 1 = PaPanic.
Proof. exact prepare_append_zero_width_panics. Qed.
Print Assumptions C16_prepare_append_zero_width_panics.

Theorem C16_prepare_append_zero_capacity_diverges : forall fuel rw rows, rw <> 0 -> rows <> 0 ->
  prepare_append fuel rw 0 [] rows = PaDiverge.
Proof. exact prepare_append_zero_capacity_diverges. Qed.
Print Assumptions C16_prepare_append_zero_capacity_diverges.

(* 7. the inline/reference threshold of string views, with the constants of the current source *)
Theorem C16_string_view_inline_threshold :
  exists k, TablesLayout.max_inline_len = Some k /\ TablesLayout.is_inline_literal = Some k /\
            TablesLayout.is_reference_literal = Some k /\ TablesLayout.inline_buffer_len = Some k /\
  forall len,
    (sv_is_inline k (sv_new k len) = true <-> len <= k) /\
    (sv_is_inline k (sv_new k len) = true <-> exists l, sv_new k len = SInline l) /\
    sv_len (sv_new k len) = len.
Proof. exact src_string_view_threshold. Qed.
Print Assumptions C16_string_view_inline_threshold.

(* 8. directory positions: a hash masked with cap-1 indexes inside a power-of-two directory *)
Theorem C16_mask_in_bounds : forall hash cap k, cap = 2 ^ k -> N.land hash (cap - 1) < cap.
Proof. exact mask_in_bounds. Qed.
Print Assumptions C16_mask_in_bounds.

(* 9. not a memory fact but visible in the same code: a LIST / STRUCT sort key is refused with an error (repair
   59d348515; before it the width function's `unimplemented!()` panicked) and the sort layout never panics *)
Theorem C16_sort_layout_list_errs : sort_layout_of [PI32; PList] = Err.
Proof. exact sort_layout_list_errs. Qed.
Print Assumptions C16_sort_layout_list_errs.

Theorem C16_sort_layout_never_panics : forall ts, sort_layout_of ts <> Panic.
Proof. exact sort_layout_never_panics. Qed.
Print Assumptions C16_sort_layout_never_panics.

(* 10. the inline / reference PREDICATES at every site of the current source agree for EVERY length (in particular
   len = MAX_INLINE_LEN): array push, StringView::is_inline/is_reference (array readers, row writer, heap sizing),
   StringPtr::is_inline/is_reference (row readers via as_bytes), the four constructor assertions.  A value written
   inline is read inline, a value written to the heap is read through its pointer, no assertion fires. *)
From GV Require model.LayoutSrc.
Theorem C16_string_predicates_agree :
  exists S k, LayoutSrc.src_str_preds = Some S /\ TablesLayout.max_inline_len = Some k /\
              TablesLayout.inline_buffer_len = Some k /\ preds_agree S k = true /\
              (exists n, TablesLayout.row_writer_uses_view_is_inline = Some n) /\
              TablesLayout.heap_sizes_validity_by_selected_row = Some 1 /\
  forall len,
    roundtrip S len = Safe len /\
    push_view S len = Safe (if len <=? k then RInline else RReference) /\
    (holds (sv_inline S) len = holds (sp_inline S) len) /\
    (holds (sv_reference S) len = negb (holds (sv_inline S) len)) /\
    (holds (sp_reference S) len = negb (holds (sp_inline S) len)).
Proof. exact src_string_predicates_agree. Qed.
Print Assumptions C16_string_predicates_agree.

Theorem C16_string_repr_roundtrip : forall S k, preds_agree S k = true ->
  forall len, roundtrip S len = Safe len /\ (holds (sv_inline S) len = holds (sp_inline S) len).
Proof. intros S k H len. destruct (string_repr_roundtrip S k H len) as [A [_ [B _]]]. split; assumption. Qed.
Print Assumptions C16_string_repr_roundtrip.

(* 11. heap sizes: for any validity masks and ANY row selection, the size computed for output row i is exactly the
   number of bytes the writer copies to the heap for the row selected at position i; the heap block reserved by
   prepare_append is the sum of the sizes and row i's bytes lie inside it, before row i+1's *)
Theorem C16_heap_sizes_cover_writes : forall S arrays rows sizes,
  compute_heap_sizes S arrays rows = Some sizes ->
  List.length sizes = List.length rows /\
  forall i row, nth_error rows i = Some row ->
    exists w, bytes_written S arrays row = Some w /\ nth_error sizes i = Some w.
Proof. exact heap_sizes_cover_writes. Qed.
Print Assumptions C16_heap_sizes_cover_writes.

Theorem C16_heap_rows_within_block : forall sizes,
  snd (heap_block_of sizes) = fold_left N.add sizes 0 /\
  forall i off, nth_error (fst (heap_block_of sizes)) i = Some off ->
  exists s, nth_error sizes i = Some s /\ off + s <= snd (heap_block_of sizes) /\
            forall j off2, (i < j)%nat -> nth_error (fst (heap_block_of sizes)) j = Some off2 -> off + s <= off2.
Proof.
  intros sizes. split; [unfold heap_block_of; rewrite heap_block_total; apply N.add_0_l|apply heap_rows_within_block].
Qed.
Print Assumptions C16_heap_rows_within_block.
