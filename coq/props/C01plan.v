(* C01 (composition) — SELECT results equal SQL bag semantics: the planner and the physical operators composed.
   Property statements only; each is closed by `exact <lemma>` from proofs/PlanProofs.v / proofs/PlanPhysProofs.v and
   pinned with Print Assumptions.
   Models: model/Plan.v (logical plans `lplan` with `eval_lplan`, the planner `plan_of` transcribed from
   logical/planner/plan_{query,select,from,setop}.rs + filter_pushdown/condition_extractor.rs, physical plans `pplan`
   with `exec_pplan` built from the operator models of C03/C06/C07/C08, `phys_of` from execution/planner/plan_*.rs),
   specification: model/Sql.v (eval_query, check_answer).

   Covered constructors.  Planner theorems: every constructor of Sql.v's expr / query / fromc.
   Physical theorems: plans without LATERAL, without LEFT ANTI joins, without DISTINCT aggregates, without
   IS [NOT] DISTINCT FROM inside a hash-join condition list and without OFFSET-only limits (`phys_of` maps these to
   XUnsupported, whose execution is an error, so the theorems say nothing about them); LIMIT only at the top of the
   statement (`no_limit` below it).  Subquery expressions are evaluated as expressions (nested evaluation), not as the
   joins plan_subquery.rs turns them into. *)
From Coq Require Import NArith ZArith List Bool Permutation.
From GV Require Import lib.Bytes model.Sql model.Rel model.Plan.
From GV Require Import model.SortKey model.SortSpec model.Merge model.LimitOp model.HashJoin model.NlJoin.
From GV Require Import proofs.RelProofs proofs.SqlJudgeProofs proofs.PlanProofs proofs.PlanPhysProofs.
Import ListNotations.
Local Open Scope nat_scope.

(* ---------------------------------------------------------------- 1. the planner *)

(* the planner's operator placement (FROM tree -> WHERE Filter -> Aggregate -> HAVING Filter -> Project -> Distinct ->
   Order -> Limit; Scan / Project over FROM subqueries; CrossJoin; SetOp) with every JOIN ... ON kept whole in an
   ArbitraryJoin: exactly the reference semantics, errors included, every query, every environment *)
Theorem C01_plan0_correct : forall d en q, eval_lplan d en (plan0_of q) = eval_query d en q.
Proof. exact plan0_correct. Qed.
Print Assumptions C01_plan0_correct.

(* the engine's planner, which also splits every ON condition (JoinConditionExtractor: conjuncts reading one side
   become Filters below the join, `l op r` conjuncts become comparison conditions, the rest a filter / an arbitrary
   join): same rows in the same order whenever neither side raises an error.
   FULL STRENGTH (`eval_lplan d en (plan_of q) = eval_query d en q`) is refuted, see C01_plan_of_exact_refuted. *)
Theorem C01_plan_of_correct_partial : forall sch d q en rows rows',
  db_arity_ok sch d = true -> joins_wf sch q = true ->
  eval_query d en q = Ok rows -> eval_lplan d en (plan_of q) = Ok rows' -> rows' = rows.
Proof. exact plan_of_correct_ok. Qed.
Print Assumptions C01_plan_of_correct_partial.

(* one JOIN ... ON node: the extracted join against the declarative join with the whole condition *)
Theorem C01_join_extraction_agree : forall d en k c la ra pl pr L R,
  eval_lplan d en pl = Ok L -> eval_lplan d en pr = Ok R -> arity la L ->
  forall out out',
  eval_lplan d en (extract_join k c la ra pl pr) = Ok out ->
  rjoin k L R la ra (cv d en c) = Ok out' -> out = out'.
Proof. exact extract_join_agree. Qed.
Print Assumptions C01_join_extraction_agree.

(* the widths `la` the extraction classifies by are the widths of the rows *)
Theorem C01_arity_sound : forall sch d, db_arity_ok sch d = true ->
  (forall q n, query_arity sch q = Some n -> forall en rows, eval_query d en q = Ok rows -> arity n rows) /\
  (forall f n, from_arity sch f = Some n -> forall en rows, eval_from d en f = Ok rows -> arity n rows).
Proof. exact arity_sound. Qed.
Print Assumptions C01_arity_sound.

(* the planner evaluates a one-sided ON conjunct on rows that have no join partner: an error the reference semantics
   does not raise (empty left input, `x2.c0 + 1 > 0` overflowing on the right input); replayed on the engine *)
Theorem C01_plan_of_exact_refuted :
  exists d q, db_arity_ok [1; 1] d = true /\ joins_wf [1; 1] q = true /\
              eval_query d [] q = Ok [] /\ eval_lplan d [] (plan_of q) = Err EOverflow.
Proof. exact plan_of_exact_refuted. Qed.
Print Assumptions C01_plan_of_exact_refuted.

(* ---------------------------------------------------------------- 2. physical plans refine logical plans *)

Theorem C01_phys_refines_logical_partial :
  forall deal batching perm_b perm_l hash kbits Pn hasha pout capacity chunk tree_of lsched usched,
  oracle_ok deal batching perm_b perm_l hash Pn pout chunk tree_of lsched ->
  forall l, no_limit l = true ->
  forall pth d en got want,
  exec_pplan deal batching perm_b perm_l hash kbits Pn hasha pout capacity chunk tree_of lsched usched pth d en (phys_of l) = Ok got ->
  eval_lplan d en l = Ok want -> Permutation got want.
Proof. exact phys_refines_logical. Qed.
Print Assumptions C01_phys_refines_logical_partial.

(* ---------------------------------------------------------------- 3. end to end *)

(* no ORDER BY / LIMIT at the top: the judge accepts the physical answer *)
Theorem C01_end_to_end_unordered_partial :
  forall deal batching perm_b perm_l hash kbits Pn hasha pout capacity chunk tree_of lsched usched,
  oracle_ok deal batching perm_b perm_l hash Pn pout chunk tree_of lsched ->
  forall sch d q pth got want want',
  db_arity_ok sch d = true -> joins_wf sch q = true -> is_order_limit q = false -> no_limit (plan_of q) = true ->
  eval_query d [] q = Ok want -> eval_lplan d [] (plan_of q) = Ok want' ->
  exec_pplan deal batching perm_b perm_l hash kbits Pn hasha pout capacity chunk tree_of lsched usched pth d []
             (phys_of (plan_of q)) = Ok got ->
  check_answer d q got = VOk.
Proof. exact end_to_end_unordered_b. Qed.
Print Assumptions C01_end_to_end_unordered_partial.

(* ORDER BY [LIMIT [OFFSET]] at the top: the physical answer is exactly the requested slice of a correctly sorted
   arrangement of the reference input (the relation C01_check_answer_sound_ordered shows the judge to accept) *)
Theorem C01_end_to_end_ordered_partial :
  forall deal batching perm_b perm_l hash kbits Pn hasha pout capacity chunk tree_of lsched usched,
  oracle_ok deal batching perm_b perm_l hash Pn pout chunk tree_of lsched ->
  forall sch d q' keys lim off pth got inp inp',
  db_arity_ok sch d = true -> joins_wf sch q' = true -> no_limit (plan_of q') = true ->
  eval_query d [] q' = Ok inp -> eval_lplan d [] (plan_of q') = Ok inp' ->
  exec_pplan deal batching perm_b perm_l hash kbits Pn hasha pout capacity chunk tree_of lsched usched pth d []
             (phys_of (plan_of (QOrderLimit q' keys lim off))) = Ok got ->
  exists p, Permutation p inp /\ sorted_by keys p = true /\ got = slice_rows off lim p.
Proof. exact end_to_end_ordered_b. Qed.
Print Assumptions C01_end_to_end_ordered_partial.

(* the same, through the judge (complete for ordered answers when every key column holds one kind of value) *)
Theorem C01_end_to_end_ordered_judge_partial :
  forall deal batching perm_b perm_l hash kbits Pn hasha pout capacity chunk tree_of lsched usched,
  oracle_ok deal batching perm_b perm_l hash Pn pout chunk tree_of lsched ->
  forall ty sch d q' keys lim off pth got inp inp',
  db_arity_ok sch d = true -> joins_wf sch q' = true -> no_limit (plan_of q') = true ->
  eval_query d [] q' = Ok inp -> eval_lplan d [] (plan_of q') = Ok inp' ->
  Forall (row_typed ty keys) inp ->
  exec_pplan deal batching perm_b perm_l hash kbits Pn hasha pout capacity chunk tree_of lsched usched pth d []
             (phys_of (plan_of (QOrderLimit q' keys lim off))) = Ok got ->
  check_answer d (QOrderLimit q' keys lim off) got = VOk.
Proof. exact end_to_end_ordered_judge. Qed.
Print Assumptions C01_end_to_end_ordered_judge_partial.

(* the judge accepts every exact slice of every correctly sorted arrangement (converse of C01_check_answer_sound_ordered) *)
Theorem C01_order_check_complete : forall keys ty lim off inp p,
  Forall (row_typed ty keys) inp -> Permutation p inp -> sorted_by keys p = true ->
  order_check keys lim off inp (slice_rows off lim p) = true.
Proof. exact order_check_complete. Qed.
Print Assumptions C01_order_check_complete.
