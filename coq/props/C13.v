(* C13 — casts are exact-or-error and text round-trips every value.
   Property statements only: each is closed by `exact <lemma>` from proofs/ and pinned with
   Print Assumptions.  Models (re-transcribed after the repairs a2e764fa7, 40311688b, ba9d5049d,
   7b11b6c5d, 770f0ed44): model/Cast.v (num-traits NumCast + cast/builtin/to_decimal.rs, to_primitive.rs,
   arrays/scalar/decimal.rs, expr/cast_expr.rs), model/TextConv.v (cast/parse.rs, cast/format.rs,
   core integer text, chrono date text), model/Calendar.v; gen/TablesCast.v is regenerated from
   the source on every run.  `..._refuted` / `..._open` theorems state that the full-strength
   property is false for the code as written (each witness is replayed on the engine by
   vlib/c13.py); `C13_old_...` are closed witnesses about the code before the repairs (Module Old). *)
From Coq Require Import NArith ZArith List Bool.
From GV Require Import model.Cast model.Calendar model.TextConv gen.TablesCast
  proofs.CastProofs proofs.TextConvProofs proofs.TextConvDecimalProofs proofs.TextConvDateProofs proofs.CalendarProofs.
Import ListNotations.
Open Scope Z_scope.

(* 1. integer -> integer, all 10 x 10 (signedness, width) pairs: the value when the target can hold
      it, otherwise an error; the `as` wrap of the source never shows *)
Theorem C13_cast_int_exact_or_error : forall s d v,
  std_width (i_bits s) -> std_width (i_bits d) -> in_range s v = true ->
  cast_int s d v = (if in_range d v then Ok v else Err).
Proof. exact cast_int_exact_or_error. Qed.
Print Assumptions C13_cast_int_exact_or_error.

(* 2. float -> integer, every bit pattern of every IEEE format: truncation toward zero when the
      truncated value is in range, an error otherwise (NaN, infinities included) *)
Theorem C13_cast_float_int_trunc : forall f d bits, 0 <= f_mbits f -> 1 <= i_bits d ->
  cast_float_int f d bits =
  match decode f bits with
  | FFin neg m e => let t := signed neg (trunc_me m e) in if in_range d t then Ok t else Err
  | _ => Err
  end.
Proof. exact cast_float_int_trunc. Qed.
Print Assumptions C13_cast_float_int_trunc.

(* 3. validate_precision is total and exact: no panic for any value of the primitive (the minimum
      included, with or without overflow checks) *)
Theorem C13_validate_precision_total : forall oc d value p, std_dty d -> in_range (d_prim d) value = true ->
  validate_precision oc d value p <> Panic.
Proof. exact validate_precision_total. Qed.
Print Assumptions C13_validate_precision_total.

Theorem C13_validate_precision_exact : forall oc d value p, std_dty d -> in_range (d_prim d) value = true ->
  0 <= p <= d_maxp d ->
  validate_precision oc d value p = (if Z.abs value <? 10 ^ p then Ok tt else Err).
Proof. exact validate_precision_spec. Qed.
Print Assumptions C13_validate_precision_exact.

(* 4. integer -> DECIMAL(p,s), every scale 0 <= s <= p <= 18 / 38, every value of every integer
      type: exactly v * 10^s when that fits the precision, otherwise an error; never a panic
      (cast_to_decimal_fits_or_error at full strength, as an equation) *)
Theorem C13_int_to_decimal_exact_or_error : forall oc s d p sc v,
  std_width (i_bits s) -> std_dty d -> in_range s v = true -> 0 <= sc <= p -> p <= d_maxp d ->
  int_to_decimal oc s d p sc v = (if Z.abs (v * 10 ^ sc) <? 10 ^ p then Ok (v * 10 ^ sc) else Err).
Proof. exact int_to_decimal_exact_or_error. Qed.
Print Assumptions C13_int_to_decimal_exact_or_error.

(* 5. float -> DECIMAL(p,s): within the precision (the value is round(fl64(v * fl64(10^s))), see 8) *)
Theorem C13_float_to_decimal_fits_or_error : forall oc f d p sc bits r, std_dty d -> 0 <= p ->
  float_to_decimal oc f d p sc bits = Ok r -> Z.abs r < 10 ^ p.
Proof. exact float_to_decimal_fits_or_error. Qed.
Print Assumptions C13_float_to_decimal_fits_or_error.

(* 5a. float -> DECIMAL(p,s) at full strength where the product v * 10^s is representable: for every
      float (-1)^neg * m * 2^e of any format, m = a * 2^t, whose scaled odd part a * 5^s fits the 53
      bits of an f64, the cast IS round_half_away(v * 10^s) of the exact binary value when that fits
      the precision, an error otherwise *)
Theorem C13_float_to_decimal_exact_when_representable : forall oc f d p s bits neg m e a t,
  std_dty d -> 0 <= p <= d_maxp d -> 0 <= s <= 22 ->
  decode f bits = FFin neg m e -> m = a * 2 ^ t -> 0 <= a -> 0 <= t -> m < 2 ^ 53 -> a * 5 ^ s < 2 ^ 53 ->
  -1074 <= e -> e + t + s <= 971 ->
  float_to_decimal oc f d p s bits =
  (let r := signed neg (if 0 <=? e then m * 10 ^ s * 2 ^ e else rha_div (m * 10 ^ s) (2 ^ (- e))) in
   if Z.abs r <? 10 ^ p then Ok r else Err).
Proof. exact float_to_decimal_exact_when_representable_val. Qed.
Print Assumptions C13_float_to_decimal_exact_when_representable.

(* 5b. in particular EVERY f32 bit pattern (zero, subnormals, NaN, infinities) and every scale 0..12 *)
Theorem C13_float32_to_decimal_exact_or_error : forall oc d p s bits,
  std_dty d -> 0 <= p <= d_maxp d -> 0 <= s <= 12 ->
  float_to_decimal oc F32 d p s bits = float_decimal_spec F32 p s bits.
Proof. exact float32_to_decimal_exact_or_error. Qed.
Print Assumptions C13_float32_to_decimal_exact_or_error.

(* 6. decimal -> decimal at FULL strength (cast_to_decimal_fits_or_error + rescale_rounds_half_away as
      one equation): every value of the source type, every pair of scales at most one full precision
      of the wider type apart (all scales 0..p of any two decimal types): the exactly scaled
      (upscale) / round-half-away (downscale) value when it fits DECIMAL(p2,s2), otherwise an error *)
Theorem C13_rescale_exact_or_error : forall oc d1 d2 s1 p2 s2 v,
  std_dty d1 -> std_dty d2 -> Z.abs v < 10 ^ d_maxp d1 -> 0 <= p2 <= d_maxp d2 ->
  Z.abs (s1 - s2) <= Z.max (d_maxp d1) (d_maxp d2) ->
  decimal_to_decimal oc d1 d2 s1 p2 s2 v =
  (let d := if s1 <=? s2 then v * 10 ^ (s2 - s1)
            else Z.sgn v * ((2 * Z.abs v + 10 ^ (s1 - s2)) / (2 * 10 ^ (s1 - s2))) in
   if Z.abs d <? 10 ^ p2 then Ok d else Err).
Proof. exact rescale_exact_or_error. Qed.
Print Assumptions C13_rescale_exact_or_error.

(* 6a. soundness without any bound on the scales or the value of the primitive *)
Theorem C13_rescale_respects_precision_and_rounds_half_away : forall oc d1 d2 s1 p2 s2 v r,
  std_dty d1 -> std_dty d2 -> in_range (d_prim d1) v = true -> 0 <= p2 ->
  decimal_to_decimal oc d1 d2 s1 p2 s2 v = Ok r ->
  Z.abs r < 10 ^ p2 /\
  r = (if s1 <=? s2 then v * 10 ^ (s2 - s1)
       else Z.sgn v * ((2 * Z.abs v + 10 ^ (s1 - s2)) / (2 * 10 ^ (s1 - s2)))).
Proof. exact rescale_exact_and_respects_precision. Qed.
Print Assumptions C13_rescale_respects_precision_and_rounds_half_away.

Theorem C13_rescale_never_panics : forall oc d1 d2 s1 p2 s2 v,
  std_dty d1 -> std_dty d2 -> in_range (d_prim d1) v = true ->
  decimal_to_decimal oc d1 d2 s1 p2 s2 v <> Panic.
Proof. exact rescale_never_panics. Qed.
Print Assumptions C13_rescale_never_panics.

(* 7. the two former counterexamples to the converse of 6a are now values of the function *)
Theorem C13_rescale_former_witnesses :
  decimal_to_decimal true D128 D64 5 18 0 9999999999999999999 = Ok 100000000000000
  /\ decimal_to_decimal true D128 D64 20 18 0 150000000000000000000 = Ok 2.
Proof. exact (conj (proj2 (proj2 old_rescale_narrows_before_downscale)) (proj2 (proj2 old_rescale_factor_exceeds_target_primitive))). Qed.
Print Assumptions C13_rescale_former_witnesses.

(* 8. OPEN: float -> decimal still rounds twice where the product is not representable (f64, and f32
      with a scale above 12): f64 1.115 (exactly 1.1149999999999999911...) -> 1.12, specified 1.11 *)
Theorem C13_float_to_decimal_double_rounding_open :
  float_to_decimal true F64 D64 5 2 4607700332757165015 = Ok 112
  /\ float_decimal_spec F64 5 2 4607700332757165015 = Ok 111.
Proof. exact float_to_decimal_double_rounding. Qed.
Print Assumptions C13_float_to_decimal_double_rounding_open.

(* 9. nested casts: CAST(CAST(x AS A) AS B) is flattened to CAST(x AS B) only if both x -> B and the
      dropped x -> A are flagged Safe in the current source; every integer cast flagged Safe in the
      current source is a widening; the planned expression equals the nested one *)
Theorem C13_cast_flatten_sound :
  flatten_requires_direct_safe = Some true /\ flatten_requires_inner_safe = Some true /\
  (forall x a b v, std_width (i_bits b) -> in_range x v = true ->
     planned_nested_cast safe_flag x a b v = nested_cast x a b v).
Proof. exact cast_flatten_sound. Qed.
Print Assumptions C13_cast_flatten_sound.

Theorem C13_safe_casts_are_widening : forall x a, safe_flag x a = true -> widening x a = true.
Proof. exact safe_flag_widening. Qed.
Print Assumptions C13_safe_casts_are_widening.

(* 10. text round trip, integers: every value of every integer type (any width), no digit bound *)
Theorem C13_format_parse_int_roundtrip : forall t v, in_range t v = true -> parse_int t (format_int v) = Some v.
Proof. exact format_parse_int_roundtrip. Qed.
Print Assumptions C13_format_parse_int_roundtrip.

(* 11. text -> integer accepts only an optional sign followed by digits *)
Theorem C13_parse_int_rejects_garbage : forall t bs v, parse_int t bs = Some v -> wellformed_int bs = true.
Proof. exact parse_int_rejects_garbage. Qed.
Print Assumptions C13_parse_int_rejects_garbage.

(* 12. booleans *)
Theorem C13_format_parse_bool_roundtrip : forall b, parse_bool (format_bool b) = Some b.
Proof. exact format_parse_bool_roundtrip. Qed.
Print Assumptions C13_format_parse_bool_roundtrip.

(* 13. text -> DECIMAL(p,s), every byte string: the round-half-away value of a well-formed literal
       when it fits the precision, otherwise (and for every other text) an error *)
Theorem C13_parse_decimal_spec : forall oc d p s bs, std_dty d -> 0 <= s <= p -> p <= d_maxp d ->
  parse_decimal oc d p s bs = match spec_parse_decimal p s bs with Some v => Ok v | None => Err end.
Proof. exact parse_decimal_spec. Qed.
Print Assumptions C13_parse_decimal_spec.

Theorem C13_parse_decimal_rejects_garbage : forall oc d p s bs v,
  parse_decimal oc d p s bs = Ok v -> wellformed_decimal bs = true.
Proof. exact parse_decimal_rejects_garbage. Qed.
Print Assumptions C13_parse_decimal_rejects_garbage.

Theorem C13_parse_decimal_never_panics : forall oc d p s bs, std_dty d -> parse_decimal oc d p s bs <> Panic.
Proof. exact parse_decimal_never_panics. Qed.
Print Assumptions C13_parse_decimal_never_panics.

(* 14. text round trip, decimals: every value of every DECIMAL(p,s) *)
Theorem C13_format_parse_decimal_roundtrip : forall oc d p s v bs,
  std_dty d -> 0 <= s <= p -> p <= d_maxp d -> Z.abs v < 10 ^ p ->
  format_decimal oc d s v = Ok bs -> parse_decimal oc d p s bs = Ok v.
Proof. exact format_parse_decimal_roundtrip. Qed.
Print Assumptions C13_format_parse_decimal_roundtrip.

Theorem C13_format_decimal_ok : forall oc d p s v,
  std_dty d -> 0 <= s <= p -> p <= d_maxp d -> Z.abs v < 10 ^ p -> exists bs, format_decimal oc d s v = Ok bs.
Proof. exact format_decimal_ok. Qed.
Print Assumptions C13_format_decimal_ok.

(* 15. calendar: day number <-> (y, m, d) for ALL integers *)
Theorem C13_calendar_roundtrip_days : forall z,
  let '(y, m, d) := civil_from_days z in days_from_civil y m d = z /\ valid_ymd y m d = true.
Proof. exact calendar_roundtrip_days. Qed.
Print Assumptions C13_calendar_roundtrip_days.

Theorem C13_calendar_roundtrip_ymd : forall y m d, valid_ymd y m d = true ->
  civil_from_days (days_from_civil y m d) = (y, m, d).
Proof. exact calendar_roundtrip_ymd. Qed.
Print Assumptions C13_calendar_roundtrip_ymd.

(* 16. text round trip, dates: every day the formatter accepts (all days of the supported years) *)
Theorem C13_format_parse_date_roundtrip : forall z bs, format_date z = Some bs -> parse_date bs = Some z.
Proof. exact format_parse_date_roundtrip. Qed.
Print Assumptions C13_format_parse_date_roundtrip.

(* 17. OPEN / REFUTED: interval text does not round trip ('2 mons'), for every quantity parser *)
Theorem C13_format_parse_interval_roundtrip_refuted : forall qparse,
  exists iv, parse_interval qparse (format_interval iv) <> Some iv.
Proof. exact format_parse_interval_roundtrip_refuted. Qed.
Print Assumptions C13_format_parse_interval_roundtrip_refuted.

(* 18. the code before the repairs (Module Old): closed witnesses of the repaired defects *)
Theorem C13_old_rescale_respects_precision_refuted :
  exists d1 d2 s1 p2 s2 v r, Cast.Old.decimal_to_decimal true d1 d2 s1 p2 s2 v = Ok r /\ 10 ^ p2 <= Z.abs r
                             /\ rescale_spec s1 p2 s2 v = Err.
Proof. exact old_rescale_respects_precision_refuted. Qed.
Print Assumptions C13_old_rescale_respects_precision_refuted.

Theorem C13_old_rescale_in_target_primitive :
  (Cast.Old.decimal_to_decimal_narrow true D128 D64 5 18 0 9999999999999999999 = Err
   /\ rescale_spec 5 18 0 9999999999999999999 = Ok 100000000000000)
  /\ (Cast.Old.decimal_to_decimal_narrow true D128 D64 20 18 0 150000000000000000000 = Err
      /\ rescale_spec 20 18 0 150000000000000000000 = Ok 2).
Proof.
  exact (conj (conj (proj1 old_rescale_narrows_before_downscale) (proj1 (proj2 old_rescale_narrows_before_downscale)))
              (conj (proj1 old_rescale_factor_exceeds_target_primitive) (proj1 (proj2 old_rescale_factor_exceeds_target_primitive)))).
Qed.
Print Assumptions C13_old_rescale_in_target_primitive.

Theorem C13_old_float_to_decimal_source_format :
  Cast.Old.float_to_decimal_srcfmt true F32 D64 18 9 1092091904 = Ok 9500000256
  /\ float_decimal_spec F32 18 9 1092091904 = Ok 9500000000
  /\ float_to_decimal true F32 D64 18 9 1092091904 = Ok 9500000000.
Proof. exact old_float_to_decimal_source_format. Qed.
Print Assumptions C13_old_float_to_decimal_source_format.

Theorem C13_old_to_decimal_panics :
  (Cast.Old.int_to_decimal true (mk_ity true 32) D64 18 10 1 = Panic /\ Cast.Old.int_to_decimal false (mk_ity true 32) D64 18 10 1 = Ok 1410065408)
  /\ Cast.Old.int_to_decimal true I64 D64 18 0 (- 2 ^ 63) = Panic.
Proof. exact (conj old_int_to_decimal_scale10_panics old_int_to_decimal_min_panics). Qed.
Print Assumptions C13_old_to_decimal_panics.

Theorem C13_old_parse_decimal_defects :
  (exists bs, wellformed_decimal bs = false /\ TextConv.Old.parse_decimal true D64 5 2 bs = Ok 0)
  /\ (TextConv.Old.parse_decimal true D64 5 2 [49; 50; 46; 51; 52; 57]%N = Ok 1234 /\ rha_div 12349 10 = 1235)
  /\ (exists bs r, TextConv.Old.parse_decimal true D64 3 2 bs = Ok r /\ 10 ^ 3 <= Z.abs r)
  /\ (TextConv.Old.parse_decimal true D64 18 0 (repeat 57%N 23) = Panic /\ TextConv.Old.parse_decimal true D64 18 18 (repeat 57%N 5) = Panic).
Proof.
  exact (conj old_parse_decimal_rejects_garbage_refuted (conj old_parse_decimal_truncates
        (conj old_parse_decimal_precision_refuted old_parse_decimal_long_panics))).
Qed.
Print Assumptions C13_old_parse_decimal_defects.

Theorem C13_old_flatten_unsound :
  cast_int (mk_ity true 32) (mk_ity true 64) 70000 = Ok 70000
  /\ nested_cast (mk_ity true 32) (mk_ity true 16) (mk_ity true 64) 70000 = Err.
Proof. exact old_flatten_unsound. Qed.
Print Assumptions C13_old_flatten_unsound.
