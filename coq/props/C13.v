(* C13 — casts are exact-or-error and text round-trips every value.
   Property statements only: each is closed by `exact <lemma>` from proofs/ and pinned with
   Print Assumptions.  Models: model/Cast.v (num-traits NumCast + cast/builtin/to_decimal.rs,
   to_primitive.rs), model/TextConv.v (cast/parse.rs, cast/format.rs, core integer text, chrono
   date text), model/Calendar.v.  `..._refuted` theorems state that the full-strength property is
   false for the code as written (each witness is replayed on the engine by vlib/c13.py). *)
From Coq Require Import NArith ZArith List Bool.
From GV Require Import model.Cast model.Calendar model.TextConv
  proofs.CastProofs proofs.TextConvProofs proofs.CalendarProofs.
Import ListNotations.
Open Scope Z_scope.

(* 1. integer -> integer, all 10 x 10 (signedness, width) pairs: the value when the target can hold
      it, otherwise an error; the `as` wrap of the source never shows *)
Theorem C13_cast_int_exact_or_error : forall s d v,
  std_width (i_bits s) -> std_width (i_bits d) -> in_range s v = true ->
  cast_int s d v = (if in_range d v then Ok v else Err).
Proof. exact cast_int_exact_or_error. Qed.
Print Assumptions C13_cast_int_exact_or_error.

(* 2. float -> integer, every bit pattern of every IEEE format: truncation toward zero when the
      truncated value is in range, an error otherwise (NaN, infinities included) *)
Theorem C13_cast_float_int_trunc : forall f d bits, 0 <= f_mbits f -> 1 <= i_bits d ->
  cast_float_int f d bits =
  match decode f bits with
  | FFin neg m e => let t := signed neg (trunc_me m e) in if in_range d t then Ok t else Err
  | _ => Err
  end.
Proof. exact cast_float_int_trunc. Qed.
Print Assumptions C13_cast_float_int_trunc.

(* 3. integer -> DECIMAL(p,s) (scale < 10, see 7): exactly v * 10^s and within the precision *)
Theorem C13_int_to_decimal_fits_or_error : forall s d p sc v r,
  std_width (i_bits s) -> std_dty d -> in_range s v = true -> 0 <= p -> 0 <= sc ->
  int_to_decimal true s d p sc v = Ok r -> Z.abs r < 10 ^ p /\ r = v * 10 ^ sc.
Proof. exact int_to_decimal_fits_or_error. Qed.
Print Assumptions C13_int_to_decimal_fits_or_error.

(* 4. float -> DECIMAL(p,s): within the precision (the value is round(fl(v * 10^s)), see 8) *)
Theorem C13_float_to_decimal_fits_or_error : forall f d p sc bits r, std_dty d -> 0 <= p ->
  float_to_decimal true f d p sc bits = Ok r -> Z.abs r < 10 ^ p.
Proof. exact float_to_decimal_fits_or_error. Qed.
Print Assumptions C13_float_to_decimal_fits_or_error.

(* 5. decimal -> decimal with a smaller scale rounds half away from zero *)
Theorem C13_rescale_rounds_half_away : forall d1 d2 s1 p2 s2 v r,
  std_dty d1 -> std_dty d2 -> in_range (d_prim d1) v = true -> s2 < s1 ->
  decimal_to_decimal true d1 d2 s1 p2 s2 v = Ok r ->
  r = Z.sgn v * ((2 * Z.abs v + 10 ^ (s1 - s2)) / (2 * 10 ^ (s1 - s2))).
Proof. exact rescale_rounds_half_away. Qed.
Print Assumptions C13_rescale_rounds_half_away.

(* 6. REFUTED: decimal -> decimal does not respect the target precision
      (123.45 :: DECIMAL(5,2) :: DECIMAL(3,1) = 123.5) *)
Theorem C13_rescale_respects_precision_refuted :
  exists d1 d2 s1 p2 s2 v r, decimal_to_decimal true d1 d2 s1 p2 s2 v = Ok r /\ 10 ^ p2 <= Z.abs r
                             /\ rescale_spec s1 p2 s2 v = Err.
Proof. exact rescale_respects_precision_refuted. Qed.
Print Assumptions C13_rescale_respects_precision_refuted.

(* 7. REFUTED (exact-or-error): scale >= 10 panics (wrong factor without overflow checks); i64::MIN
      panics in validate_precision; Decimal128 -> Decimal64 fails before downscaling *)
Theorem C13_to_decimal_panics :
  (int_to_decimal true (mk_ity true 32) D64 18 10 1 = Panic /\ int_to_decimal false (mk_ity true 32) D64 18 10 1 = Ok 1410065408)
  /\ int_to_decimal true I64 D64 18 0 (- 2 ^ 63) = Panic
  /\ (decimal_to_decimal true D128 D64 5 18 0 9999999999999999999 = Err /\ rescale_spec 5 18 0 9999999999999999999 = Ok 100000000000000).
Proof. exact (conj int_to_decimal_scale10_panics (conj int_to_decimal_min_panics rescale_narrows_before_downscale)). Qed.
Print Assumptions C13_to_decimal_panics.

(* 8. float -> decimal rounds twice: f64 1.115 (exactly 1.1149999999999999911...) -> 1.12 *)
Theorem C13_float_to_decimal_double_rounding :
  float_to_decimal true F64 D64 5 2 4607700332757165015 = Ok 112.
Proof. exact float_to_decimal_double_rounding. Qed.
Print Assumptions C13_float_to_decimal_double_rounding.

(* 9. text round trip, integers: every value of every integer type (any width), no digit bound *)
Theorem C13_format_parse_int_roundtrip : forall t v, in_range t v = true -> parse_int t (format_int v) = Some v.
Proof. exact format_parse_int_roundtrip. Qed.
Print Assumptions C13_format_parse_int_roundtrip.

(* 10. text -> integer accepts only  [+-]? digit+  (no surrounding bytes, no empty string, no lone sign) *)
Theorem C13_parse_int_rejects_garbage : forall t bs v, parse_int t bs = Some v -> wellformed_int bs = true.
Proof. exact parse_int_rejects_garbage. Qed.
Print Assumptions C13_parse_int_rejects_garbage.

(* 11. booleans *)
Theorem C13_format_parse_bool_roundtrip : forall b, parse_bool (format_bool b) = Some b.
Proof. exact format_parse_bool_roundtrip. Qed.
Print Assumptions C13_format_parse_bool_roundtrip.

(* 12. calendar: day number <-> (y, m, d) for ALL integers (the basis of the date text round trip) *)
Theorem C13_calendar_roundtrip_days : forall z,
  let '(y, m, d) := civil_from_days z in days_from_civil y m d = z /\ valid_ymd y m d = true.
Proof. exact calendar_roundtrip_days. Qed.
Print Assumptions C13_calendar_roundtrip_days.

Theorem C13_calendar_roundtrip_ymd : forall y m d, valid_ymd y m d = true ->
  civil_from_days (days_from_civil y m d) = (y, m, d).
Proof. exact calendar_roundtrip_ymd. Qed.
Print Assumptions C13_calendar_roundtrip_ymd.

(* 13. PARTIAL: date text and decimal text round trips are established on the model for closed
       sets only (all values of DECIMAL(1..3, s); 14 boundary days and the ends of the supported
       range); the statements for every (p,s) / every day in range are not proved *)
Theorem C13_format_parse_decimal_roundtrip_small_partial :
  all_bits 11 0 (dec_rt_check 3 0) = true /\ all_bits 11 0 (dec_rt_check 3 1) = true /\
  all_bits 11 0 (dec_rt_check 3 2) = true /\ all_bits 11 0 (dec_rt_check 3 3) = true /\
  all_bits 8 0 (dec_rt_check 2 1) = true /\ all_bits 5 0 (dec_rt_check 1 1) = true.
Proof. exact format_parse_decimal_roundtrip_small_partial. Qed.
Print Assumptions C13_format_parse_decimal_roundtrip_small_partial.

Theorem C13_format_parse_date_roundtrip_samples_partial :
  forallb date_rt_check [0; -1; 18321; 11016; -719162; -719528; -719893; 2932896; 2932897; min_days; max_days; -141427; 59; 60] = true
  /\ format_date (max_days + 1) = None /\ format_date (min_days - 1) = None.
Proof. exact format_parse_date_roundtrip_samples_partial. Qed.
Print Assumptions C13_format_parse_date_roundtrip_samples_partial.

(* 14. REFUTED: text -> decimal accepts the empty string / lone sign / lone point, truncates,
       exceeds the precision, panics *)
Theorem C13_parse_decimal_rejects_garbage_refuted :
  exists bs, wellformed_decimal bs = false /\ parse_decimal true D64 5 2 bs = Ok 0.
Proof. exact parse_decimal_rejects_garbage_refuted. Qed.
Print Assumptions C13_parse_decimal_rejects_garbage_refuted.

Theorem C13_parse_decimal_truncates :
  parse_decimal true D64 5 2 [49; 50; 46; 51; 52; 57]%N = Ok 1234 /\ rha_div 12349 10 = 1235.
Proof. exact parse_decimal_truncates. Qed.
Print Assumptions C13_parse_decimal_truncates.

Theorem C13_parse_decimal_precision_refuted :
  exists bs r, parse_decimal true D64 3 2 bs = Ok r /\ 10 ^ 3 <= Z.abs r.
Proof. exact parse_decimal_precision_refuted. Qed.
Print Assumptions C13_parse_decimal_precision_refuted.

Theorem C13_parse_decimal_long_panics :
  parse_decimal true D64 18 0 (repeat 57%N 23) = Panic /\ parse_decimal true D64 18 18 (repeat 57%N 5) = Panic.
Proof. exact parse_decimal_long_panics. Qed.
Print Assumptions C13_parse_decimal_long_panics.

(* 15. REFUTED: interval text does not round trip ('2 mons'), for every quantity parser *)
Theorem C13_format_parse_interval_roundtrip_refuted : forall qparse,
  exists iv, parse_interval qparse (format_interval iv) <> Some iv.
Proof. exact format_parse_interval_roundtrip_refuted. Qed.
Print Assumptions C13_format_parse_interval_roundtrip_refuted.
