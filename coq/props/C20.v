(* C20 — String and pattern functions are Unicode-correct; LIKE rewrites are equivalent.
   Property statements only: each is closed by `exact <lemma>` from proofs/ and pinned with
   Print Assumptions.  The models transcribe /repo after the fixes 243b792b2, 41580d7d1 (LIKE), 0e7aca77d (lpad/rpad),
   5eee47bd9 (substring), 16bd2d89d (left/right); the statements that were refuted before them
   are now proved at full strength (regression witnesses about the old definitions: `old_*`
   lemmas in proofs/).  One deviation remains and is stated as such: substring with a negative
   count. *)
From Coq Require Import NArith ZArith List Bool.
From GV Require Import model.Utf8 model.Like model.StrFn
  proofs.Utf8Proofs proofs.LikeProofs proofs.StrFnProofs.
Import ListNotations.
Open Scope N_scope.

(* 1. UTF-8 *)
Theorem C20_utf8_decode_encode : forall cs, cps_valid cs -> decode (encode cs) = Some cs.
Proof. exact decode_encode. Qed.
Print Assumptions C20_utf8_decode_encode.

Theorem C20_encode_valid : forall cs, cps_valid cs -> utf8_validb (encode cs) = true.
Proof. exact encode_valid. Qed.
Print Assumptions C20_encode_valid.

Theorem C20_byte_length : forall cs, lenN (encode cs) = blen cs.
Proof. exact encode_length. Qed.
Print Assumptions C20_byte_length.

Theorem C20_ascii_bytes_are_ascii_chars : forall a cs, a < 0x80 -> has a (encode cs) = has a cs.
Proof. exact has_ascii_bytes. Qed.
Print Assumptions C20_ascii_bytes_are_ascii_chars.

(* 2. LIKE: the regex the engine builds accepts exactly the declarative language *)
Theorem C20_like_spec_is_declarative : forall pat s, like_spec pat s = true <-> LikeRel (like_tokens pat) s.
Proof. exact like_spec_declarative. Qed.
Print Assumptions C20_like_spec_is_declarative.

Theorem C20_like_matcher_is_like : forall pat s, like_regex pat s = like_spec pat s.
Proof. exact like_matcher_is_like. Qed.
Print Assumptions C20_like_matcher_is_like.

(* 3. the optimizer's rewrite of constant patterns accepts exactly what the matcher accepts *)
Theorem C20_like_rewrite_equiv : forall pat s, rewrite_sem (classify pat) s = like_regex pat s.
Proof. exact like_rewrite_equiv. Qed.
Print Assumptions C20_like_rewrite_equiv.

Theorem C20_like_rewrite_is_like : forall pat s, rewrite_sem (classify pat) s = like_spec pat s.
Proof. exact like_rewrite_is_like. Qed.
Print Assumptions C20_like_rewrite_is_like.

Theorem C20_like_escape_pattern_kept : forall pat, has BSL pat = true -> classify pat = RKeep pat.
Proof. exact escape_pattern_kept. Qed.
Print Assumptions C20_like_escape_pattern_kept.

(* 4. string functions: transcription = Ok (definition), results valid UTF-8 *)
Theorem C20_left_correct : forall cs count, impl_left cs count = Ok (spec_left cs count).
Proof. exact left_correct. Qed.
Print Assumptions C20_left_correct.

Theorem C20_right_correct : forall cs count, impl_right cs count = Ok (spec_right cs count).
Proof. exact right_correct. Qed.
Print Assumptions C20_right_correct.

Theorem C20_left_valid : forall cs count r, cps_valid cs -> impl_left cs count = Ok r -> utf8_validb (encode r) = true.
Proof. exact left_valid. Qed.
Print Assumptions C20_left_valid.

Theorem C20_right_valid : forall cs count r, cps_valid cs -> impl_right cs count = Ok r -> utf8_validb (encode r) = true.
Proof. exact right_valid. Qed.
Print Assumptions C20_right_valid.

Theorem C20_reverse_correct : forall cs r, cps_valid cs -> impl_reverse cs = Ok r ->
  r = spec_reverse cs /\ utf8_validb (encode r) = true.
Proof. exact reverse_correct. Qed.
Print Assumptions C20_reverse_correct.

Theorem C20_strpos_correct : forall cs p, impl_strpos cs p = Ok (spec_strpos cs p).
Proof. exact strpos_correct. Qed.
Print Assumptions C20_strpos_correct.

(* substring: terminates after consuming at most length(s) characters, for EVERY from and count *)
Theorem C20_substring_terminates : forall fuel cs from count, lenN cs <= N.of_nat fuel ->
  impl_substring fuel cs from count <> OutOfFuel.
Proof. exact substring_terminates. Qed.
Print Assumptions C20_substring_terminates.

Theorem C20_substring_from_terminates : forall fuel cs from, lenN cs <= N.of_nat fuel ->
  impl_substring_from fuel cs from <> OutOfFuel.
Proof. exact substring_from_terminates. Qed.
Print Assumptions C20_substring_from_terminates.

Theorem C20_substring_from_correct : forall fuel cs from, in_i64 from -> lenN cs <= N.of_nat fuel ->
  impl_substring_from fuel cs from = Ok (spec_substring_from cs from).
Proof. exact substring_from_correct. Qed.
Print Assumptions C20_substring_from_correct.

(* every i64 from, every i64 count >= 0: the PostgreSQL range [from, from + count) clamped to the string *)
Theorem C20_substring_correct : forall fuel cs from count,
  in_i64 from -> in_i64 count -> (0 <= count)%Z -> (Z.of_N (lenN cs) < MAX64)%Z ->
  lenN cs <= N.of_nat fuel ->
  option_map Ok (spec_substring cs from count) = Some (impl_substring fuel cs from count).
Proof. exact substring_correct. Qed.
Print Assumptions C20_substring_correct.

(* the remaining deviation (known finding substring-negative-count-accepted) *)
Theorem C20_substring_negative_count_deviation : forall fuel cs from count,
  in_i64 from -> (count < 0)%Z -> lenN cs <= N.of_nat fuel ->
  impl_substring fuel cs from count = Ok [] /\ spec_substring cs from count = None.
Proof. exact substring_negative_count. Qed.
Print Assumptions C20_substring_negative_count_deviation.

Theorem C20_substring_valid : forall fuel cs from count r, cps_valid cs ->
  impl_substring fuel cs from count = Ok r -> utf8_validb (encode r) = true.
Proof. exact substring_valid. Qed.
Print Assumptions C20_substring_valid.

(* lpad / rpad: every count, every pad, every string *)
Theorem C20_rpad_correct : forall fuel cs count pad, (count <= Z.of_nat fuel)%Z ->
  impl_rpad fuel cs count pad = Ok (spec_rpad cs count pad).
Proof. exact rpad_correct. Qed.
Print Assumptions C20_rpad_correct.

Theorem C20_lpad_correct : forall fuel cs count pad, (count <= Z.of_nat fuel)%Z ->
  impl_lpad fuel cs count pad = Ok (spec_lpad cs count pad).
Proof. exact lpad_correct. Qed.
Print Assumptions C20_lpad_correct.
