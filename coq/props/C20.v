(* C20 — String and pattern functions are Unicode-correct; LIKE rewrites are equivalent.
   Property statements only: each is closed by `exact <lemma>` from proofs/ and pinned with
   Print Assumptions.  The models transcribe /repo after the fixes 243b792b2, 41580d7d1 (LIKE), 0e7aca77d (lpad/rpad),
   5eee47bd9 (substring), 16bd2d89d (left/right), 9a26b86c9 / e3543b716 (split_part), add0e7ca2 (regexp_instr),
   900b19af8 (initcap); the statements that were refuted before them
   are now proved at full strength (regression witnesses about the old definitions: `old_*`
   lemmas in proofs/).  No deviation from the documented definitions remains. *)
From Coq Require Import NArith ZArith List Bool.
From GV Require Import model.Utf8 model.Like model.StrFn model.Regex
  proofs.Utf8Proofs proofs.LikeProofs proofs.StrFnProofs proofs.RegexProofs.
Import ListNotations.
Open Scope N_scope.

(* 1. UTF-8 *)
Theorem C20_utf8_decode_encode : forall cs, cps_valid cs -> decode (encode cs) = Some cs.
Proof. exact decode_encode. Qed.
Print Assumptions C20_utf8_decode_encode.

Theorem C20_encode_valid : forall cs, cps_valid cs -> utf8_validb (encode cs) = true.
Proof. exact encode_valid. Qed.
Print Assumptions C20_encode_valid.

Theorem C20_byte_length : forall cs, lenN (encode cs) = blen cs.
Proof. exact encode_length. Qed.
Print Assumptions C20_byte_length.

Theorem C20_ascii_bytes_are_ascii_chars : forall a cs, a < 0x80 -> has a (encode cs) = has a cs.
Proof. exact has_ascii_bytes. Qed.
Print Assumptions C20_ascii_bytes_are_ascii_chars.

(* 2. LIKE: the regex the engine builds accepts exactly the declarative language *)
Theorem C20_like_spec_is_declarative : forall pat s, like_spec pat s = true <-> LikeRel (like_tokens pat) s.
Proof. exact like_spec_declarative. Qed.
Print Assumptions C20_like_spec_is_declarative.

Theorem C20_like_matcher_is_like : forall pat s, like_regex pat s = like_spec pat s.
Proof. exact like_matcher_is_like. Qed.
Print Assumptions C20_like_matcher_is_like.

(* 3. the optimizer's rewrite of constant patterns accepts exactly what the matcher accepts *)
Theorem C20_like_rewrite_equiv : forall pat s, rewrite_sem (classify pat) s = like_regex pat s.
Proof. exact like_rewrite_equiv. Qed.
Print Assumptions C20_like_rewrite_equiv.

Theorem C20_like_rewrite_is_like : forall pat s, rewrite_sem (classify pat) s = like_spec pat s.
Proof. exact like_rewrite_is_like. Qed.
Print Assumptions C20_like_rewrite_is_like.

Theorem C20_like_escape_pattern_kept : forall pat, has BSL pat = true -> classify pat = RKeep pat.
Proof. exact escape_pattern_kept. Qed.
Print Assumptions C20_like_escape_pattern_kept.

(* 4. string functions: transcription = Ok (definition), results valid UTF-8 *)
Theorem C20_left_correct : forall cs count, impl_left cs count = Ok (spec_left cs count).
Proof. exact left_correct. Qed.
Print Assumptions C20_left_correct.

Theorem C20_right_correct : forall cs count, impl_right cs count = Ok (spec_right cs count).
Proof. exact right_correct. Qed.
Print Assumptions C20_right_correct.

Theorem C20_left_valid : forall cs count r, cps_valid cs -> impl_left cs count = Ok r -> utf8_validb (encode r) = true.
Proof. exact left_valid. Qed.
Print Assumptions C20_left_valid.

Theorem C20_right_valid : forall cs count r, cps_valid cs -> impl_right cs count = Ok r -> utf8_validb (encode r) = true.
Proof. exact right_valid. Qed.
Print Assumptions C20_right_valid.

Theorem C20_reverse_correct : forall cs r, cps_valid cs -> impl_reverse cs = Ok r ->
  r = spec_reverse cs /\ utf8_validb (encode r) = true.
Proof. exact reverse_correct. Qed.
Print Assumptions C20_reverse_correct.

Theorem C20_strpos_correct : forall cs p, impl_strpos cs p = Ok (spec_strpos cs p).
Proof. exact strpos_correct. Qed.
Print Assumptions C20_strpos_correct.

(* substring: terminates after consuming at most length(s) characters, for EVERY from and count *)
Theorem C20_substring_terminates : forall fuel cs from count, lenN cs <= N.of_nat fuel ->
  impl_substring fuel cs from count <> OutOfFuel.
Proof. exact substring_terminates. Qed.
Print Assumptions C20_substring_terminates.

Theorem C20_substring_from_terminates : forall fuel cs from, lenN cs <= N.of_nat fuel ->
  impl_substring_from fuel cs from <> OutOfFuel.
Proof. exact substring_from_terminates. Qed.
Print Assumptions C20_substring_from_terminates.

Theorem C20_substring_from_correct : forall fuel cs from, in_i64 from -> lenN cs <= N.of_nat fuel ->
  impl_substring_from fuel cs from = Ok (spec_substring_from cs from).
Proof. exact substring_from_correct. Qed.
Print Assumptions C20_substring_from_correct.

(* every i64 from and count: the range [from, from + count) clamped to the string; '' for a negative
   count (definitional choice outside the documented domain, see model/StrFn.v) *)
Theorem C20_substring_correct : forall fuel cs from count,
  in_i64 from -> in_i64 count -> (Z.of_N (lenN cs) < MAX64)%Z -> lenN cs <= N.of_nat fuel ->
  impl_substring fuel cs from count = Ok (spec_substring cs from count).
Proof. exact substring_correct. Qed.
Print Assumptions C20_substring_correct.

Theorem C20_substring_valid : forall fuel cs from count r, cps_valid cs ->
  impl_substring fuel cs from count = Ok r -> utf8_validb (encode r) = true.
Proof. exact substring_valid. Qed.
Print Assumptions C20_substring_valid.

(* lpad / rpad: every count, every pad, every string *)
Theorem C20_rpad_correct : forall fuel cs count pad, (count <= Z.of_nat fuel)%Z ->
  impl_rpad fuel cs count pad = Ok (spec_rpad cs count pad).
Proof. exact rpad_correct. Qed.
Print Assumptions C20_rpad_correct.

Theorem C20_lpad_correct : forall fuel cs count pad, (count <= Z.of_nat fuel)%Z ->
  impl_lpad fuel cs count pad = Ok (spec_lpad cs count pad).
Proof. exact lpad_correct. Qed.
Print Assumptions C20_lpad_correct.

(* 5. the remaining string functions *)
Theorem C20_translate_correct : forall cs from to, translate_map cs from to = Ok (spec_translate cs from to).
Proof. exact translate_correct. Qed.
Print Assumptions C20_translate_correct.

Theorem C20_repeat_correct : forall cs num, impl_repeat cs num = Ok (spec_repeat_copies cs num).
Proof. exact repeat_correct. Qed.
Print Assumptions C20_repeat_correct.

Theorem C20_ltrim_spec : forall cs set, exists pre,
  cs = pre ++ spec_ltrim cs set /\ forallb (in_set set) pre = true /\
  match spec_ltrim cs set with [] => True | c :: _ => in_set set c = false end.
Proof. exact ltrim_spec. Qed.
Print Assumptions C20_ltrim_spec.

Theorem C20_rtrim_spec : forall cs set, exists post,
  cs = spec_rtrim cs set ++ post /\ forallb (in_set set) post = true /\
  match rev (spec_rtrim cs set) with [] => True | c :: _ => in_set set c = false end.
Proof. exact rtrim_spec. Qed.
Print Assumptions C20_rtrim_spec.

(* every n (n = 0 gives '': definitional choice outside the documented domain) *)
Theorem C20_split_part_correct : forall cs d n, impl_split_part cs d n = Ok (spec_split_part cs d n).
Proof. exact split_part_correct. Qed.
Print Assumptions C20_split_part_correct.

Theorem C20_replace_valid : forall cs from to r, cps_valid cs -> cps_valid to ->
  impl_replace cs from to = Ok r -> utf8_validb (encode r) = true.
Proof. exact replace_valid. Qed.
Print Assumptions C20_replace_valid.

Theorem C20_translate_valid : forall cs from to r, cps_valid cs -> cps_valid to ->
  translate_map cs from to = Ok r -> utf8_validb (encode r) = true.
Proof. exact translate_valid. Qed.
Print Assumptions C20_translate_valid.

Theorem C20_trim_valid : forall cs set, cps_valid cs ->
  utf8_validb (encode (spec_ltrim cs set)) = true /\ utf8_validb (encode (spec_rtrim cs set)) = true /\
  utf8_validb (encode (spec_btrim cs set)) = true.
Proof. exact trim_valid. Qed.
Print Assumptions C20_trim_valid.

Theorem C20_concat_repeat_valid : forall a b n, cps_valid a -> cps_valid b ->
  utf8_validb (encode (spec_concat a b)) = true /\ utf8_validb (encode (spec_repeat_copies a n)) = true.
Proof. exact concat_repeat_valid. Qed.
Print Assumptions C20_concat_repeat_valid.

(* 6. case mapping, ASCII rows of the Unicode tables *)
Theorem C20_upper_ascii_correct : forall cs, upper_ascii cs = Ok (spec_upper_ascii cs).
Proof. exact upper_ascii_correct. Qed.
Print Assumptions C20_upper_ascii_correct.

Theorem C20_lower_ascii_correct : forall cs, lower_ascii cs = Ok (spec_lower_ascii cs).
Proof. exact lower_ascii_correct. Qed.
Print Assumptions C20_lower_ascii_correct.

Theorem C20_case_ascii_properties : forall cs, is_ascii cs = true ->
  is_ascii (spec_upper_ascii cs) = true /\ is_ascii (spec_lower_ascii cs) = true /\
  length (spec_upper_ascii cs) = length cs /\ length (spec_lower_ascii cs) = length cs /\
  spec_upper_ascii (spec_upper_ascii cs) = spec_upper_ascii cs /\
  spec_lower_ascii (spec_upper_ascii cs) = spec_lower_ascii cs /\
  utf8_validb (encode (spec_upper_ascii cs)) = true /\ utf8_validb (encode (spec_lower_ascii cs)) = true.
Proof. exact case_ascii_properties. Qed.
Print Assumptions C20_case_ascii_properties.

Theorem C20_initcap_correct : forall cs, initcap_ascii cs = Ok (spec_initcap_ascii cs).
Proof. exact initcap_correct. Qed.
Print Assumptions C20_initcap_correct.

(* 7. regular expressions: fragment, derivative matcher, search, leftmost start *)
Theorem C20_regex_matcher_correct : forall s r, dmatch r s = true <-> Matches r s.
Proof. exact dmatch_spec. Qed.
Print Assumptions C20_regex_matcher_correct.

Theorem C20_regexp_like_spec : forall p s,
  rx_is_match p s = true <-> exists pre m post, s = pre ++ m ++ post /\ RxOccurs p pre m post.
Proof. exact rx_is_match_spec. Qed.
Print Assumptions C20_regexp_like_spec.

Theorem C20_regexp_find_leftmost : forall p s i, rx_bol p = false -> rx_find_start p s = Some i ->
  (exists m post, dropN i s = m ++ post /\ Matches (rx_body p) m /\ (rx_eol p = true -> post = [])) /\
  forall j, j < i -> ~ exists m post, dropN j s = m ++ post /\ Matches (rx_body p) m /\ (rx_eol p = true -> post = []).
Proof. exact rx_find_start_leftmost. Qed.
Print Assumptions C20_regexp_find_leftmost.

Theorem C20_regexp_instr_correct : forall p cs, impl_regexp_instr p cs = Ok (spec_regexp_instr p cs).
Proof. exact regexp_instr_correct. Qed.
Print Assumptions C20_regexp_instr_correct.
