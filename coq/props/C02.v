(* C02 — The optimizer never changes what a query returns.
   Property statements only: the algebraic core the rules of crates/glaredb_core/src/optimizer rely on, over
   ALL relations and predicates of the shallow algebra model/Rel.v (res monad: a law holds when the named
   evaluations are Ok; `refines orig opt` = the rewritten plan only removes evaluations), plus the negative
   results as closed witnesses (`_refuted` / `_witness`).  Each is closed by `exact <lemma>` from proofs/. *)
From Coq Require Import NArith ZArith List Bool Permutation.
From GV Require Import lib.Bytes model.Sql model.Rel proofs.RelProofs proofs.OptRulesProofs.
From GV Require Import model.Merge proofs.MergeProofs.
Import ListNotations.

(* 1. Filter(p1 AND p2) = Filter(p1) over Filter(p2): split_conjunction / add_filters *)
Theorem C02_filter_and_split :
  forall (p1 p2 : list value -> res bool) (r : list (list value)),
  refines (rfilter (pand p1 p2) r) (do r2 <- rfilter p2 r; rfilter p1 r2)
  /\ (total_on p1 r -> total_on p2 r -> rfilter (pand p1 p2) r ≡r (do r2 <- rfilter p2 r; rfilter p1 r2)).
Proof. exact filter_and_split. Qed.
Print Assumptions C02_filter_and_split.

Theorem C02_filter_and_split_converse_refuted :
  exists (p1 p2 : list value -> res bool) (r out : list (list value)),
  (do r2 <- rfilter p2 r; rfilter p1 r2) = Ok out /\ exists e, rfilter (pand p1 p2) r = Err e.
Proof. exact filter_and_split_converse_refuted. Qed.
Print Assumptions C02_filter_and_split_converse_refuted.

Theorem C02_filter_comm :
  forall (p1 p2 : list value -> res bool) (r : list (list value)), total_on p1 r -> total_on p2 r ->
  (do r2 <- rfilter p2 r; rfilter p1 r2) ≡r (do r1 <- rfilter p1 r; rfilter p2 r1).
Proof. exact filter_comm. Qed.
Print Assumptions C02_filter_comm.

(* the collapsed predicate of `e1 AND e2` (three-valued and3, then WHERE's NULL -> false) is the && of the collapsed operands *)
Theorem C02_pexpr_and :
  forall e1 e2 x, res_same (pexpr (EAnd e1 e2) x) (pand (pexpr e1) (pexpr e2) x).
Proof. exact pexpr_and. Qed.
Print Assumptions C02_pexpr_and.

Theorem C02_collapse_and3 :
  forall a b, (do v <- and3 a b; collapse3 v) = (do x <- collapse3 a; do y <- collapse3 b; Ok (x && y)).
Proof. exact collapse_and3. Qed.
Print Assumptions C02_collapse_and3.

(* 2. inner joins: pushdown_cross_join / pushdown_comparison_join(Inner) *)
Theorem C02_filter_pushdown_inner_left :
  forall la ra (p pl on : list value -> res bool) (a b : list (list value)),
  reads_leftR la p pl -> arity la a -> total_on pl a -> pairs_total on a b ->
  (do j <- rjoin JInner a b la ra on; rfilter p j) ≡r (do a' <- rfilter pl a; rjoin JInner a' b la ra on).
Proof. exact filter_pushdown_inner_left. Qed.
Print Assumptions C02_filter_pushdown_inner_left.

Theorem C02_filter_pushdown_inner_right :
  forall la ra (p pr on : list value -> res bool) (a b : list (list value)),
  reads_rightR la p pr -> arity la a -> total_on pr b -> pairs_total on a b ->
  (do j <- rjoin JInner a b la ra on; rfilter p j) ≡r (do b' <- rfilter pr b; rjoin JInner a b' la ra on).
Proof. exact filter_pushdown_inner_right. Qed.
Print Assumptions C02_filter_pushdown_inner_right.

(* the pushed filter is evaluated on rows that find no partner: an error can appear *)
Theorem C02_filter_pushdown_inner_left_adds_error_witness :
  exists la ra (p pl on : list value -> res bool) (a b out : list (list value)) e,
  reads_leftR la p pl /\ arity la a /\
  (do j <- rjoin JInner a b la ra on; rfilter p j) = Ok out /\
  (do a' <- rfilter pl a; rjoin JInner a' b la ra on) = Err e.
Proof. exact filter_pushdown_inner_left_adds_error_witness. Qed.
Print Assumptions C02_filter_pushdown_inner_left_adds_error_witness.

Theorem C02_filter_into_join_condition :
  forall la ra (p on : list value -> res bool) (a b : list (list value)), pairs_total on a b -> pairs_total p a b ->
  (do j <- rjoin JInner a b la ra on; rfilter p j) ≡r rjoin JInner a b la ra (pand on p).
Proof. exact filter_into_join_condition. Qed.
Print Assumptions C02_filter_into_join_condition.

(* CrossJoin + Filter -> inner join (holds on the nose, errors included) *)
Theorem C02_cross_filter_is_inner_join :
  forall la ra (p : list value -> res bool) (a b : list (list value)), rfilter p (rcross a b) = rjoin JInner a b la ra p.
Proof. exact cross_filter_is_inner_join. Qed.
Print Assumptions C02_cross_filter_is_inner_join.

(* 3. LEFT joins: only the preserved side *)
Theorem C02_filter_left_join_left_only :
  forall la ra (p pl on : list value -> res bool) (a b : list (list value)),
  reads_leftR la p pl -> arity la a -> total_on pl a -> pairs_total on a b ->
  (do j <- rjoin JLeft a b la ra on; rfilter p j) ≡r (do a' <- rfilter pl a; rjoin JLeft a' b la ra on).
Proof. exact filter_left_join_left_only. Qed.
Print Assumptions C02_filter_left_join_left_only.

Theorem C02_filter_left_join_right_refuted :
  exists la ra (p pr on : list value -> res bool) (a b o1 o2 : list (list value)),
  reads_rightR la p pr /\ arity la a /\
  (do j <- rjoin JLeft a b la ra on; rfilter p j) = Ok o1 /\
  (do b' <- rfilter pr b; rjoin JLeft a b' la ra on) = Ok o2 /\ ~ (o1 ≡b o2).
Proof. exact filter_left_join_right_refuted. Qed.
Print Assumptions C02_filter_left_join_right_refuted.

Theorem C02_left_join_on_left_refuted :
  exists la ra (p pl on : list value -> res bool) (a b o1 o2 : list (list value)),
  reads_leftR la p pl /\ arity la a /\
  rjoin JLeft a b la ra (pand on p) = Ok o1 /\
  (do a' <- rfilter pl a; rjoin JLeft a' b la ra on) = Ok o2 /\ ~ (o1 ≡b o2).
Proof. exact left_join_on_left_refuted. Qed.
Print Assumptions C02_left_join_on_left_refuted.

Theorem C02_left_join_on_right_pushable :
  forall la ra (p pr on : list value -> res bool) (a b : list (list value)),
  reads_rightR la p pr -> arity la a -> total_on pr b -> pairs_total on a b ->
  rjoin JLeft a b la ra (pand on p) ≡r (do b' <- rfilter pr b; rjoin JLeft a b' la ra on).
Proof. exact left_join_on_right_pushable. Qed.
Print Assumptions C02_left_join_on_right_pushable.

Theorem C02_right_join_on_left_pushable :
  forall la ra (p pl on : list value -> res bool) (a b : list (list value)),
  reads_leftR la p pl -> arity la a -> total_on pl a -> pairs_total on a b ->
  rjoin JRight a b la ra (pand on p) ≡r (do a' <- rfilter pl a; rjoin JRight a' b la ra on).
Proof. exact right_join_on_left_pushable. Qed.
Print Assumptions C02_right_join_on_left_pushable.

(* 4. semi / anti joins, projections, DISTINCT, ORDER BY *)
Theorem C02_filter_pushdown_semi_anti :
  forall k la ra (pl on : list value -> res bool) (a b : list (list value)),
  k = JSemi \/ k = JAnti -> total_on pl a -> pairs_total on a b ->
  (do j <- rjoin k a b la ra on; rfilter pl j) ≡r (do a' <- rfilter pl a; rjoin k a' b la ra on).
Proof. exact filter_pushdown_semi_anti. Qed.
Print Assumptions C02_filter_pushdown_semi_anti.

(* LeftMark + filter on the mark -> LeftSemi *)
Theorem C02_mark_filter_is_semi :
  forall la ra (on : list value -> bool) (a b : list (list value)),
  map (fun x => removelast x) (filter (fun x => is_true (last x VNull)) (pmark a b on)) = pjoin JSemi a b la ra on.
Proof. exact pmark_true_is_semi. Qed.
Print Assumptions C02_mark_filter_is_semi.

Theorem C02_filter_through_project :
  forall (p : list value -> res bool) (f : list value -> res (list value)) (r : list (list value)),
  total_on f r -> total_on (fun x => do y <- f x; p y) r ->
  (do o <- rproject f r; rfilter p o) ≡r (do r' <- rfilter (fun x => do y <- f x; p y) r; rproject f r').
Proof. exact filter_through_project. Qed.
Print Assumptions C02_filter_through_project.

Theorem C02_filter_through_distinct :
  forall (p : list value -> res bool) (r : list (list value)), total_on p r -> rfilter p (rdistinct r) ≡r (do r' <- rfilter p r; Ok (rdistinct r')).
Proof. exact filter_through_distinct. Qed.
Print Assumptions C02_filter_through_distinct.

Theorem C02_filter_through_sort :
  forall keys (p : list value -> res bool) (r : list (list value)), total_on p r -> rfilter p (rsort keys r) ≡r (do r' <- rfilter p r; Ok (rsort keys r')).
Proof. exact filter_through_sort. Qed.
Print Assumptions C02_filter_through_sort.

(* 5. limits: LimitPushdown (the only case the rule implements: Limit over Project), SortLimitHint *)
Theorem C02_limit_project_comm :
  forall off lim (f : list value -> res (list value)) (r out : list (list value)),
  rproject f r = Ok out -> rproject f (rlimit off lim r) = Ok (rlimit off lim out).
Proof. exact limit_project_comm. Qed.
Print Assumptions C02_limit_project_comm.

Theorem C02_limit_project_removes_error_witness :
  exists off lim (f : list value -> res (list value)) (r : list (list value)) e (out : list (list value)),
  rproject f r = Err e /\ rproject f (rlimit off lim r) = Ok out.
Proof. exact limit_project_removes_error_witness. Qed.
Print Assumptions C02_limit_project_removes_error_witness.

Theorem C02_sort_limit_hint_sound :
  forall keys off n (r : list (list value)),
  rlimit off (Some n) (firstn (n + off) (rsort keys r)) = rlimit off (Some n) (rsort keys r).
Proof. exact sort_limit_hint_sound. Qed.
Print Assumptions C02_sort_limit_hint_sound.

(* the physical top-k (merge with a limit hint) = first k of the full merge: proved for C08, imported *)
Theorem C02_topk_eq_sort_then_slice :
  forall cs k a b,
  firstn k (merge cs (firstn k a) (firstn k b)) = firstn k (merge cs a b).
Proof. exact topk_hint_equiv. Qed.
Print Assumptions C02_topk_eq_sort_then_slice.

(* 6. expression rewrites *)
Theorem C02_distributive_or_sound :
  forall a b c, (do x <- and3 a b; do y <- and3 a c; or3 x y) = (do z <- or3 b c; and3 a z).
Proof. exact distributive_or_sound. Qed.
Print Assumptions C02_distributive_or_sound.

Theorem C02_or_absorption :
  forall a b, is_tv a = true -> is_tv b = true -> (do y <- and3 a b; or3 a y) = Ok a.
Proof. exact or_absorption. Qed.
Print Assumptions C02_or_absorption.

(* the RULE as implemented (maybe_rewrite_or) rewrites a OR (a AND b) to a AND b: genuine defect, findings/C02.json *)
Theorem C02_distributive_or_rule_absorb_refuted :
  exists children rho r,
  dor_rule children = Some r /\ ev_dnf rho children = Ok (VBool true) /\ ev_rule rho r = Ok (VBool false).
Proof. exact distributive_or_rule_absorb_refuted. Qed.
Print Assumptions C02_distributive_or_rule_absorb_refuted.

Theorem C02_distributive_or_rule_bounded_partial :
  forallb (fun cs => implb (no_child_eliminated cs) (rule_agrees dor_rule cs)) shapes3 = true.
Proof. exact distributive_or_rule_bounded_partial. Qed.
Print Assumptions C02_distributive_or_rule_bounded_partial.

Theorem C02_distributive_or_rule_fixed_bounded :
  forallb (rule_agrees dor_rule_fixed) shapes3 = true.
Proof. exact distributive_or_rule_fixed_bounded. Qed.
Print Assumptions C02_distributive_or_rule_fixed_bounded.

Theorem C02_unnest_conjunction_and :
  forall l1 l2, conj3 (l1 ++ l2) = (do a <- conj3 l1; do b <- conj3 l2; and3 a b).
Proof. exact unnest_conjunction_and. Qed.
Print Assumptions C02_unnest_conjunction_and.

Theorem C02_unnest_conjunction_or :
  forall l1 l2, disj3 (l1 ++ l2) = (do a <- disj3 l1; do b <- disj3 l2; or3 a b).
Proof. exact unnest_conjunction_or. Qed.
Print Assumptions C02_unnest_conjunction_or.

Theorem C02_and3_assoc :
  forall a b c, (do x <- and3 a b; and3 x c) = (do y <- and3 b c; and3 a y).
Proof. exact and3_assoc. Qed.
Print Assumptions C02_and3_assoc.

Theorem C02_or3_assoc :
  forall a b c, (do x <- or3 a b; or3 x c) = (do y <- or3 b c; or3 a y).
Proof. exact or3_assoc. Qed.
Print Assumptions C02_or3_assoc.

Theorem C02_conj3_perm :
  forall l l', Permutation l l' -> conj3 l = conj3 l'.
Proof. exact conj3_perm. Qed.
Print Assumptions C02_conj3_perm.

Theorem C02_const_fold_sound :
  forall c v d0 en0, eval_expr d0 en0 (to_expr c) = Ok v ->
  forall d en, eval_expr d en (to_expr c) = eval_expr d en (EConst v).
Proof. exact const_fold_sound. Qed.
Print Assumptions C02_const_fold_sound.

Theorem C02_const_fold_plan_time_error_witness :
  exists c e, eval_expr [] [] (to_expr c) = Err e /\
  rproject (fun x => mapM (eval_expr [] [x]) [to_expr c]) [] = Ok [].
Proof. exact const_fold_plan_time_error_witness. Qed.
Print Assumptions C02_const_fold_plan_time_error_witness.

Theorem C02_join_filter_or_sound :
  forall a1 b1 a2 b2,
  (do o1 <- or3 a1 a2; do o2 <- or3 b1 b2; do t <- and3 o1 o2;
   do o <- (do x <- and3 a1 b1; do y <- and3 a2 b2; or3 x y); and3 t o)
  = (do x <- and3 a1 b1; do y <- and3 a2 b2; or3 x y).
Proof. exact join_filter_or_sound. Qed.
Print Assumptions C02_join_filter_or_sound.

Theorem C02_generated_equality_sound :
  forall a b c, eq_true a b = true -> eq_true b c = true -> eq_true a c = true.
Proof. exact generated_equality_sound. Qed.
Print Assumptions C02_generated_equality_sound.

Theorem C02_selection_reorder_sound :
  forall (ps ps' : list (list value -> res bool)) (r : list (list value)),
  Permutation ps ps' -> (forall p, In p ps -> total_on p r) ->
  rfilter (pand_all_sc ps) r = rfilter (pand_all_sc ps') r.
Proof. exact selection_reorder_sound. Qed.
Print Assumptions C02_selection_reorder_sound.

Theorem C02_selection_reorder_error_witness :
  exists (p q : list value -> res bool) (r : list (list value)) e,
  rfilter (pand_all_sc [p; q]) r = Ok [] /\ rfilter (pand_all_sc [q; p]) r = Err e.
Proof. exact selection_reorder_error_witness. Qed.
Print Assumptions C02_selection_reorder_error_witness.
(* 4b. pushdown_aggregate: only filters on GROUP BY keys, and never below a global aggregate *)
Theorem C02_filter_through_aggregate_on_keys :
  forall (P pk : list value -> bool) key out (r : list (list value)),
  (forall g, P (out g) = pk (fst g)) ->
  pfilter P (pagg false key out r) = pagg false key out (pfilter (fun x => pk (key x)) r).
Proof. exact filter_through_aggregate_on_keys. Qed.
Print Assumptions C02_filter_through_aggregate_on_keys.

Theorem C02_filter_through_global_aggregate_refuted :
  exists (P pk : list value -> bool) key out (r : list (list value)),
    (forall g, P (out g) = pk (fst g)) /\
    pfilter P (pagg true key out r) <> pagg true key out (pfilter (fun x => pk (key x)) r).
Proof. exact filter_through_global_aggregate_refuted. Qed.
Print Assumptions C02_filter_through_global_aggregate_refuted.
