(* C07 (and C12 for SUM / AVG) — every aggregate function's partial state is a homomorphism over input
   splits.  Property statements only; each is closed by `exact <lemma>` from proofs/AggFnProofs.v and pinned
   with Print Assumptions.  Model + specifications + the vocabulary (fold_correct, split_invariant,
   order_split_invariant, merge_homomorphism, empty_neutral, total, never_wrong, state_determined):
   model/AggFn.v.

   Reading guide.  For a function f with specification spec:
     fold_correct f spec eqO    the sequential run over a chunk (NULLs skipped) succeeds and finalizes to
                                spec of the chunk's non-NULL rows (NULL / 0 on no rows, NULL below 2 rows
                                for the sample statistics: see the spec_* definitions)
     split_invariant f          ANY plan (split into chunks, merge tree, more rows fed after merges) over
                                ANY arrangement of the same bag of rows yields the SAME STATE as the
                                sequential run -- unbounded inputs, state equality, hence equal results
                                now and after every further update / merge
     merge_homomorphism f       merge (fold xs) (fold ys) = fold (xs ++ ys)
     empty_neutral f            merging with the fresh state is the identity on both sides
     total f                    no plan fails
   Float64 accumulators are exact rationals here: the statements are about the algorithm (which fields are
   added, the pairwise-combination formula, the guards); rounding is outside the model. *)
From Coq Require Import ZArith QArith List Bool Permutation.
From GV Require Import model.AggFn proofs.AggFnProofs.
Import ListNotations.

(* ---------------------------------------------------------------- count, regr_count *)
Theorem C07fn_count : forall X : Type,
  fold_correct (@count_agg X) spec_count eq /\ split_invariant (@count_agg X) /\
  merge_homomorphism (@count_agg X) /\ empty_neutral (@count_agg X) /\ total (@count_agg X).
Proof. exact (@count_homomorphism). Qed.
Print Assumptions C07fn_count.

(* ---------------------------------------------------------------- sum *)
(* integer / decimal SUM (checked i64 / i128 accumulator): a plan that succeeds returns the exact total
   (NULL on no rows) and its state is that of every other successful plan over the same rows *)
Theorem C07fn_sum_never_wrong : forall w,
  never_wrong (sum_chk w) spec_sum eq /\ state_determined (sum_chk w).
Proof. exact sum_never_wrong. Qed.
Print Assumptions C07fn_sum_never_wrong.

(* exact or "Sum overflowed", nothing else (no panic) *)
Theorem C07fn_sum_outcome_class : forall w t,
  (exists s, run_tree (sum_chk w) t = Ok s) \/ run_tree (sum_chk w) t = Err.
Proof. exact sum_outcome_class. Qed.
Print Assumptions C07fn_sum_outcome_class.

(* when the absolute values add up to less than 2^(w-1) every plan succeeds, agrees with the sequential
   run (state equality) and returns the specification *)
Theorem C07fn_sum_total_when_bounded : forall w t xs,
  Permutation (nn (flatten t)) (nn xs) -> (abs_sum (nn xs) < 2 ^ (w - 1))%Z ->
  run_tree (sum_chk w) t = run_chunk (sum_chk w) xs /\
  result_tree (sum_chk w) t = Ok (spec_sum (nn xs)).
Proof. exact sum_total_when_bounded. Qed.
Print Assumptions C07fn_sum_total_when_bounded.

Theorem C07fn_sum_total_when_bounded_satisfiable :
  Permutation (nn (flatten (Node (Leaf [Some 5%Z; None]) (Leaf [Some (-7)%Z])))) (nn [Some (-7)%Z; Some 5%Z]) /\
  (abs_sum (nn [Some (-7)%Z; Some 5%Z]) < 2 ^ (64 - 1))%Z.
Proof. exact sum_bounded_example. Qed.
Print Assumptions C07fn_sum_total_when_bounded_satisfiable.

Theorem C07fn_spec_sum_perm : forall xs ys, Permutation xs ys -> spec_sum xs = spec_sum ys.
Proof. exact spec_sum_perm. Qed.
Print Assumptions C07fn_spec_sum_perm.

(* full-strength split invariance does NOT hold for the checked accumulator: a representable total is
   returned or the query fails depending on the plan (finding sum-error-on-intermediate-overflow) *)
Theorem C07fn_sum_split_invariant_refuted :
  exists t xs, Permutation (nn (flatten t)) (nn xs) /\
    run_tree (sum_chk 64) t = Ok (2 ^ 63 - 1, true)%Z /\ run_chunk (sum_chk 64) xs = Err.
Proof. exact sum_split_invariant_refuted. Qed.
Print Assumptions C07fn_sum_split_invariant_refuted.

(* SUM(UInt64) -> Int128 (a40c65193): the checked i128 instance; with u64 inputs the accumulator cannot
   overflow below 2^63 rows, so every plan over at most 2^63 rows is exact and equals the sequential run *)
Theorem C07fn_sum_u64_never_wrong : never_wrong sum_u64 spec_sum eq /\ state_determined sum_u64.
Proof. exact sum_u64_never_wrong. Qed.
Print Assumptions C07fn_sum_u64_never_wrong.

Theorem C07fn_sum_u64_exact : forall t xs,
  Permutation (nn (flatten t)) (nn xs) -> Forall is_u64 (nn xs) -> (zlen (nn xs) <= 2 ^ 63)%Z ->
  run_tree sum_u64 t = run_chunk sum_u64 xs /\ result_tree sum_u64 t = Ok (spec_sum (nn xs)).
Proof. exact sum_u64_exact. Qed.
Print Assumptions C07fn_sum_u64_exact.

Theorem C07fn_u64_hypotheses_satisfiable :
  Forall is_u64 [(2 ^ 64 - 1)%Z; (2 ^ 63)%Z; 0%Z] /\ (zlen [(2 ^ 64 - 1)%Z; (2 ^ 63)%Z; 0%Z] <= 2 ^ 63)%Z.
Proof. exact u64_hypotheses_satisfiable. Qed.
Print Assumptions C07fn_u64_hypotheses_satisfiable.

Theorem C07fn_sum_float :
  fold_correct sum_f spec_sum_f fres_eq /\ split_invariant sum_f /\ merge_homomorphism sum_f /\
  empty_neutral sum_f /\ total sum_f.
Proof. exact sumf_homomorphism. Qed.
Print Assumptions C07fn_sum_float.

(* ---------------------------------------------------------------- avg *)
Theorem C07fn_avg_int :
  fold_correct avg_i spec_avg_i fres_eq /\ split_invariant avg_i /\ merge_homomorphism avg_i /\
  empty_neutral avg_i /\ total avg_i.
Proof. exact avgi_all. Qed.
Print Assumptions C07fn_avg_int.

(* AVG(UInt64) (a40c65193): AvgStateF64 with an i128 sum; the native `+=` stays inside i128 for every plan over
   at most 2^63 u64 rows, which justifies the unbounded accumulator of the model *)
Theorem C07fn_avg_u64 :
  fold_correct avg_u64 spec_avg_i fres_eq /\ split_invariant avg_u64 /\ merge_homomorphism avg_u64 /\
  empty_neutral avg_u64 /\ total avg_u64.
Proof. exact avg_u64_all. Qed.
Print Assumptions C07fn_avg_u64.

Theorem C07fn_avg_u64_accumulator_in_range : forall t s c,
  Forall is_u64 (nn (flatten t)) -> (zlen (nn (flatten t)) <= 2 ^ 63)%Z ->
  run_tree avg_u64 t = Ok (s, c) -> in_i 128 s = true /\ c = zlen (nn (flatten t)).
Proof. exact avg_u64_accumulator_in_range. Qed.
Print Assumptions C07fn_avg_u64_accumulator_in_range.

Theorem C07fn_avg_float :
  fold_correct avg_f spec_avg_f fres_eq /\ split_invariant avg_f /\ merge_homomorphism avg_f /\
  empty_neutral avg_f /\ total avg_f.
Proof. exact avgf_all. Qed.
Print Assumptions C07fn_avg_float.

(* AVG over Decimal(p, scale) (checked i128 accumulator since 2f7b0a8b9), ANY scale: a plan that succeeds returns the exact
   average of the decimal VALUES (u / 10^scale, resp. u * 10^(-scale) for a negative scale) *)
Theorem C07fn_avg_decimal_never_wrong : forall scale,
  never_wrong (avg_dec scale) (spec_avg_dec scale) fres_eq /\ state_determined (avg_dec scale).
Proof. exact avg_dec_never_wrong. Qed.
Print Assumptions C07fn_avg_decimal_never_wrong.

(* negative scales (finding avg-decimal-negative-scale, fixed by ae73b43ce): avg over the Decimal(5,-2)
   values 1200, 3400 is 2300 *)
Theorem C07fn_avg_decimal_negative_scale :
  result_tree (avg_dec (-2)) (Node (Leaf [Some 12%Z]) (Leaf [Some 34%Z])) = Ok (FRat (inject_Z 2300)) /\
  fres_eq (spec_avg_dec (-2) [12%Z; 34%Z]) (FRat (inject_Z 2300)).
Proof. exact avg_dec_negative_scale. Qed.
Print Assumptions C07fn_avg_decimal_negative_scale.

(* exact or "Avg overflowed", nothing else (no panic) *)
Theorem C07fn_avg_decimal_outcome_class : forall scale t,
  (exists s, run_tree (avg_dec scale) t = Ok s) \/ run_tree (avg_dec scale) t = Err.
Proof. exact avg_dec_outcome_class. Qed.
Print Assumptions C07fn_avg_decimal_outcome_class.

Theorem C07fn_avg_decimal_total_when_bounded : forall scale t xs,
  Permutation (nn (flatten t)) (nn xs) -> (abs_sum (nn xs) < 2 ^ 127)%Z ->
  run_tree (avg_dec scale) t = run_chunk (avg_dec scale) xs /\ exists s, run_tree (avg_dec scale) t = Ok s.
Proof. exact avg_dec_total_when_bounded. Qed.
Print Assumptions C07fn_avg_decimal_total_when_bounded.

(* like SUM, full-strength split invariance does not hold for the checked accumulator: the sequential run
   over three Decimal128(38,0) values with a representable average fails with "Avg overflowed", another plan
   succeeds (never a wrong value: C07fn_avg_decimal_never_wrong) *)
Theorem C07fn_avg_decimal_split_invariant_refuted :
  exists t xs, Permutation (nn (flatten t)) (nn xs) /\
    result_tree (avg_dec 0) t = Ok (FRat (inject_Z ((10 ^ 38 - 1) / 3))) /\ run_chunk (avg_dec 0) xs = Err.
Proof. exact avgd_split_invariant_refuted. Qed.
Print Assumptions C07fn_avg_decimal_split_invariant_refuted.

(* ---------------------------------------------------------------- var_pop, var_samp, stddev_pop, stddev_samp *)
(* Welford update + pairwise combination (Chan et al., mean advanced incrementally since 2ad5a541a; the
   previous form is proved equal in exact arithmetic: proofs old_variance_merge_equivalent,
   old_covariance_merge_equivalent) = sum of squared deviations from the mean of the
   WHOLE input divided by n (pop) / n - 1 (samp); NULL on no rows, NULL on one row for the sample forms *)
Theorem C07fn_variance : forall k,
  fold_correct (var_agg k) (spec_var k) fres_eq /\ split_invariant (var_agg k) /\
  merge_homomorphism (var_agg k) /\ empty_neutral (var_agg k) /\ total (var_agg k).
Proof. exact var_homomorphism. Qed.
Print Assumptions C07fn_variance.

(* ---------------------------------------------------------------- covar_pop, covar_samp, corr, regr_* *)
Theorem C07fn_covariance : forall k,
  fold_correct (covar_agg k) (spec_covar k) fres_eq /\ split_invariant (covar_agg k) /\
  merge_homomorphism (covar_agg k) /\ empty_neutral (covar_agg k) /\ total (covar_agg k).
Proof. exact covar_homomorphism. Qed.
Print Assumptions C07fn_covariance.

Theorem C07fn_corr :
  fold_correct corr_agg (spec_corr false) fres_eq /\ split_invariant corr_agg /\
  merge_homomorphism corr_agg /\ empty_neutral corr_agg /\ total corr_agg.
Proof. exact corr_homomorphism. Qed.
Print Assumptions C07fn_corr.

Theorem C07fn_regr_r2 :
  fold_correct regr_r2_agg (spec_corr true) fres_eq /\ split_invariant regr_r2_agg /\
  merge_homomorphism regr_r2_agg /\ empty_neutral regr_r2_agg /\ total regr_r2_agg.
Proof. exact regr_r2_homomorphism. Qed.
Print Assumptions C07fn_regr_r2.

Theorem C07fn_regr_slope :
  fold_correct regr_slope_agg spec_regr_slope fres_eq /\ split_invariant regr_slope_agg /\
  merge_homomorphism regr_slope_agg /\ empty_neutral regr_slope_agg /\ total regr_slope_agg.
Proof. exact regr_slope_homomorphism. Qed.
Print Assumptions C07fn_regr_slope.

Theorem C07fn_regr_avgx :
  fold_correct regr_avgx spec_regr_avgx fres_eq /\ split_invariant regr_avgx /\
  merge_homomorphism regr_avgx /\ empty_neutral regr_avgx /\ total regr_avgx.
Proof. exact regr_avgx_homomorphism. Qed.
Print Assumptions C07fn_regr_avgx.

Theorem C07fn_regr_avgy :
  fold_correct regr_avgy spec_regr_avgy fres_eq /\ split_invariant regr_avgy /\
  merge_homomorphism regr_avgy /\ empty_neutral regr_avgy /\ total regr_avgy.
Proof. exact regr_avgy_homomorphism. Qed.
Print Assumptions C07fn_regr_avgy.

(* ---------------------------------------------------------------- min, max, bit_and, bit_or, bool_and, bool_or *)
Theorem C07fn_min :
  fold_correct min_agg spec_min eq /\ split_invariant min_agg /\ merge_homomorphism min_agg /\
  empty_neutral min_agg /\ total min_agg.
Proof. exact min_homomorphism. Qed.
Print Assumptions C07fn_min.

Theorem C07fn_max :
  fold_correct max_agg spec_max eq /\ split_invariant max_agg /\ merge_homomorphism max_agg /\
  empty_neutral max_agg /\ total max_agg.
Proof. exact max_homomorphism. Qed.
Print Assumptions C07fn_max.

Theorem C07fn_bit_and :
  fold_correct bit_and_agg (spec_bit Z.land) eq /\ split_invariant bit_and_agg /\
  merge_homomorphism bit_and_agg /\ empty_neutral bit_and_agg /\ total bit_and_agg.
Proof. exact bit_and_homomorphism. Qed.
Print Assumptions C07fn_bit_and.

Theorem C07fn_bit_or :
  fold_correct bit_or_agg (spec_bit Z.lor) eq /\ split_invariant bit_or_agg /\
  merge_homomorphism bit_or_agg /\ empty_neutral bit_or_agg /\ total bit_or_agg.
Proof. exact bit_or_homomorphism. Qed.
Print Assumptions C07fn_bit_or.

Theorem C07fn_bool_and :
  fold_correct bool_and_agg spec_bool_and eq /\ split_invariant bool_and_agg /\
  merge_homomorphism bool_and_agg /\ empty_neutral bool_and_agg /\ total bool_and_agg.
Proof. exact bool_and_homomorphism. Qed.
Print Assumptions C07fn_bool_and.

Theorem C07fn_bool_or :
  fold_correct bool_or_agg spec_bool_or eq /\ split_invariant bool_or_agg /\
  merge_homomorphism bool_or_agg /\ empty_neutral bool_or_agg /\ total bool_or_agg.
Proof. exact bool_or_homomorphism. Qed.
Print Assumptions C07fn_bool_or.

(* ---------------------------------------------------------------- first, string_agg (order sensitive) *)
(* the plan does not matter, only the order of the rows: the value is the first non-NULL row /
   the rows joined by the separator in row order *)
Theorem C07fn_first : forall X : Type,
  fold_correct (@first_agg X) spec_first eq /\ order_split_invariant (@first_agg X) /\
  merge_homomorphism (@first_agg X) /\ empty_neutral (@first_agg X) /\ total (@first_agg X).
Proof. exact (@first_homomorphism). Qed.
Print Assumptions C07fn_first.

Theorem C07fn_first_not_commutative :
  exists t xs, Permutation (nn (flatten t)) (nn xs) /\
    result_tree (@first_agg Z) t = Ok (Some 2%Z) /\ result_tree (@first_agg Z) (Leaf xs) = Ok (Some 1%Z).
Proof. exact first_not_commutative. Qed.
Print Assumptions C07fn_first_not_commutative.

Theorem C07fn_string_agg : forall sep,
  fold_correct (string_agg sep) (spec_string_agg sep) eq /\ order_split_invariant (string_agg sep) /\
  merge_homomorphism (string_agg sep) /\ empty_neutral (string_agg sep) /\ total (string_agg sep).
Proof. exact string_agg_homomorphism. Qed.
Print Assumptions C07fn_string_agg.

(* ---------------------------------------------------------------- consequences for every function above *)
Theorem C07fn_two_plans_agree : forall (X S O : Type) (f : agg X S O), split_invariant f ->
  forall t t', Permutation (nn (flatten t)) (nn (flatten t')) -> run_tree f t = run_tree f t'.
Proof. exact (@two_plans_agree). Qed.
Print Assumptions C07fn_two_plans_agree.

Theorem C07fn_two_plans_agree_ordered : forall (X S O : Type) (f : agg X S O), order_split_invariant f ->
  forall t t', nn (flatten t) = nn (flatten t') -> run_tree f t = run_tree f t'.
Proof. exact (@two_plans_agree_ordered). Qed.
Print Assumptions C07fn_two_plans_agree_ordered.

Theorem C07fn_plan_result_is_spec : forall (X S O : Type) (f : agg X S O) spec (eqO : O -> O -> Prop),
  fold_correct f spec eqO -> order_split_invariant f ->
  forall t, exists s, run_tree f t = Ok s /\ eqO (a_final f s) (spec (nn (flatten t))).
Proof. exact (@plan_result_is_spec). Qed.
Print Assumptions C07fn_plan_result_is_spec.

Theorem C07fn_split_invariant_ordered : forall (X S O : Type) (f : agg X S O),
  split_invariant f -> order_split_invariant f.
Proof. exact (@split_invariant_ordered). Qed.
Print Assumptions C07fn_split_invariant_ordered.
