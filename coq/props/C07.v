(* C07 — Grouping, aggregates and duplicate elimination are exact per group.
   Property statements only; each is closed by `exact <lemma>` from proofs/AggProofs.v or
   proofs/AggTableProofs.v and pinned with Print Assumptions.
   Models: model/AggState.v (aggregate partial states: update / merge / finalize),
           model/AggTable.v (open-addressing group table, two-level partitioned scheme),
   specification: model/Sql.v (agg_apply, group_rows, dedup_rows, QUnion). *)
From Coq Require Import NArith ZArith List Bool Arith Permutation.
From GV Require Import lib.Bytes model.Sql model.AggState model.AggTable proofs.AggProofs proofs.AggTableProofs.
Import ListNotations.

(* ---------------------------------------------------------------- (1) split invariance *)

(* every aggregate but SUM: any split of the group's rows into partitions, in any order, gives
   exactly the specification's value *)
Theorem C07_agg_split_invariant : forall f parts xs,
  f <> ASum -> wt f xs -> Permutation (concat parts) xs ->
  agg_parts f parts = agg_apply f false (length xs) xs.
Proof. exact agg_split_invariant. Qed.
Print Assumptions C07_agg_split_invariant.

(* all aggregates, SUM included: a split can never produce a WRONG value *)
Theorem C07_agg_never_wrong : forall f parts xs v w,
  wt f xs -> Permutation (concat parts) xs ->
  agg_parts f parts = Ok v -> agg_apply f false (length xs) xs = Ok w -> v = w.
Proof. exact agg_never_wrong. Qed.
Print Assumptions C07_agg_never_wrong.

(* the specification is the single-partition run of the same algebra *)
Theorem C07_spec_is_single_partition : forall f xs,
  wt f xs -> agg_apply f false (length xs) xs = (do s <- part_state f xs; Ok (agg_finalize s)).
Proof. exact spec_is_single_partition. Qed.
Print Assumptions C07_spec_is_single_partition.

(* SUM: exact when no partial sum can overflow ... *)
Theorem C07_sum_split_invariant : forall parts xs,
  wt ASum xs -> Permutation (concat parts) xs -> (abs_sum xs < 2 ^ 63)%Z ->
  agg_parts ASum parts = agg_apply ASum false (length xs) xs /\
  agg_parts ASum parts = Ok (sum_value xs).
Proof. exact sum_split_invariant. Qed.
Print Assumptions C07_sum_split_invariant.

(* ... and in general the exact total or the overflow error, never another value *)
Theorem C07_sum_never_wrong : forall parts xs,
  wt ASum xs -> Permutation (concat parts) xs ->
  (forall v, agg_parts ASum parts = Ok v -> v = sum_value xs) /\
  (forall w, agg_apply ASum false (length xs) xs = Ok w -> w = sum_value xs).
Proof. exact sum_never_wrong. Qed.
Print Assumptions C07_sum_never_wrong.

Theorem C07_sum_exact_or_overflow : forall parts xs,
  wt ASum xs -> Permutation (concat parts) xs ->
  agg_parts ASum parts = Ok (sum_value xs) \/ agg_parts ASum parts = Err EOverflow.
Proof. exact sum_exact_or_overflow. Qed.
Print Assumptions C07_sum_exact_or_overflow.

(* documented deviations (closed witnesses): a representable total still errors because a partial sum
   overflows; and the order of rows / partitions decides between value and error *)
Theorem C07_sum_partial_overflow_errors :
  agg_parts ASum [[VInt i64max; VInt 1; VInt (-1)]] = Err EOverflow /\
  agg_apply ASum false 3 [VInt i64max; VInt 1; VInt (-1)] = Err EOverflow /\
  sum_value [VInt i64max; VInt 1; VInt (-1)] = VInt i64max.
Proof. exact sum_partial_overflow_errors. Qed.
Print Assumptions C07_sum_partial_overflow_errors.

Theorem C07_sum_order_changes_error :
  agg_parts ASum [[VInt i64max]; [VInt 1]; [VInt (-1)]] = Err EOverflow /\
  agg_parts ASum [[VInt i64max]; [VInt (-1)]; [VInt 1]] = Ok (VInt i64max) /\
  agg_parts ASum [[VInt i64max]; [VInt 1; VInt (-1)]] = Ok (VInt i64max) /\
  agg_apply ASum false 3 [VInt i64max; VInt (-1); VInt 1] = Ok (VInt i64max).
Proof. exact sum_order_changes_error. Qed.
Print Assumptions C07_sum_order_changes_error.

(* ingredients *)
Theorem C07_merge_comm : forall f a b, wf_state f a -> wf_state f b -> agg_merge f a b = agg_merge f b a.
Proof. exact merge_comm. Qed.
Print Assumptions C07_merge_comm.

Theorem C07_init_neutral : forall f s, wf_state f s ->
  agg_merge f (agg_init f) s = Ok s /\ agg_merge f s (agg_init f) = Ok s.
Proof. exact init_neutral. Qed.
Print Assumptions C07_init_neutral.

Theorem C07_merge_assoc_exact : forall f a b c ab bc r1 r2,
  f <> AMin -> f <> AMax ->
  agg_merge f a b = Ok ab -> agg_merge f ab c = Ok r1 ->
  agg_merge f b c = Ok bc -> agg_merge f a bc = Ok r2 -> r1 = r2.
Proof. exact merge_assoc_exact. Qed.
Print Assumptions C07_merge_assoc_exact.

Theorem C07_merge_assoc_obs : forall f a b c La Lb Lc ab bc r1 r2,
  R f a La -> R f b Lb -> R f c Lc ->
  agg_merge f a b = Ok ab -> agg_merge f ab c = Ok r1 ->
  agg_merge f b c = Ok bc -> agg_merge f a bc = Ok r2 -> agg_finalize r1 = agg_finalize r2.
Proof. exact merge_assoc_obs. Qed.
Print Assumptions C07_merge_assoc_obs.

(* ---------------------------------------------------------------- (2) empty input *)
Theorem C07_empty_input_value : forall f parts,
  concat parts = [] ->
  agg_parts f parts = Ok (empty_value f) /\ agg_apply f false 0 [] = Ok (empty_value f) /\
  agg_apply f true 0 [] = Ok (empty_value f).
Proof. exact empty_input_value. Qed.
Print Assumptions C07_empty_input_value.

(* ---------------------------------------------------------------- (3) GROUP BY *)
Theorem C07_one_row_per_group : forall kv,
  NoDup (map fst (group_rows kv)) /\
  ForallOrdPairs (fun g1 g2 => row_same (fst g1) (fst g2) = false) (group_rows kv).
Proof. exact one_row_per_group. Qed.
Print Assumptions C07_one_row_per_group.

Theorem C07_nulls_one_group : forall kv n g1 g2,
  In g1 (group_rows kv) -> In g2 (group_rows kv) ->
  fst g1 = nulls n -> fst g2 = nulls n -> g1 = g2.
Proof. exact nulls_one_group. Qed.
Print Assumptions C07_nulls_one_group.

Theorem C07_group_rows_exact : forall kv,
  (forall k rs, In (k, rs) (group_rows kv) ->
     rs = map snd (filter (fun p => row_same k (fst p)) kv) /\ rs <> []) /\
  (forall p, In p kv -> exists rs, In (fst p, rs) (group_rows kv) /\ In (snd p) rs) /\
  (forall k rs1 rs2, In (k, rs1) (group_rows kv) -> In (k, rs2) (group_rows kv) -> rs1 = rs2).
Proof. exact group_rows_exact. Qed.
Print Assumptions C07_group_rows_exact.

Theorem C07_group_rows_members_bag : forall kv,
  Permutation (concat (map snd (group_rows kv))) (map snd kv).
Proof. exact group_rows_members_bag. Qed.
Print Assumptions C07_group_rows_members_bag.

Theorem C07_group_rows_perm : forall kv kv',
  Permutation kv kv' ->
  Permutation (map fst (group_rows kv)) (map fst (group_rows kv')) /\
  (forall k rs, In (k, rs) (group_rows kv) ->
     exists rs', In (k, rs') (group_rows kv') /\ Permutation rs rs').
Proof. exact group_rows_perm. Qed.
Print Assumptions C07_group_rows_perm.

Theorem C07_row_same_is_equality : forall a b, row_same a b = true <-> a = b.
Proof. exact AggProofs.row_same_eq. Qed.
Print Assumptions C07_row_same_is_equality.

(* ---------------------------------------------------------------- (4) DISTINCT / UNION *)
Theorem C07_distinct_spec : forall l,
  NoDup (dedup_rows l) /\
  ForallOrdPairs (fun a b => row_same a b = false) (dedup_rows l) /\
  (forall r, In r (dedup_rows l) <-> In r l) /\
  (forall r, In r l -> exists r', In r' (dedup_rows l) /\ row_same r r' = true).
Proof. exact distinct_spec. Qed.
Print Assumptions C07_distinct_spec.

Theorem C07_union_spec : forall d en a b x y,
  eval_query d en a = Ok x -> eval_query d en b = Ok y ->
  eval_query d en (QUnion false a b) = Ok (dedup_rows (x ++ y)) /\
  eval_query d en (QUnion true a b) = Ok (x ++ y) /\
  NoDup (dedup_rows (x ++ y)) /\
  (forall r, In r (dedup_rows (x ++ y)) <-> In r x \/ In r y).
Proof. exact union_spec. Qed.
Print Assumptions C07_union_spec.

(* ---------------------------------------------------------------- (5) DISTINCT aggregates *)
Theorem C07_distinct_agg_spec : forall f n xs,
  agg_apply f true n xs = agg_apply f false n (dedupv (nn xs)) /\
  NoDup (dedupv (nn xs)) /\ (forall v, In v (dedupv (nn xs)) <-> In v xs /\ v <> VNull).
Proof. exact distinct_agg_spec. Qed.
Print Assumptions C07_distinct_agg_spec.

Theorem C07_distinct_agg_split_invariant : forall f parts xs n,
  f <> ASum -> f <> ACountStar -> wt f xs -> Permutation (concat parts) xs ->
  agg_parts_distinct f parts = agg_apply f true n xs.
Proof. exact distinct_agg_split_invariant. Qed.
Print Assumptions C07_distinct_agg_split_invariant.

(* ---------------------------------------------------------------- (6) the hash table: see below *)

(* Any hash function will do: row_same is Leibniz equality on these values, so
   "row_same k1 k2 = true -> hash k1 = hash k2" holds for every `hash` (derived, not assumed). *)
Theorem C07_hash_respects_row_same : forall (hash : row -> N) k1 k2,
  row_same k1 k2 = true -> hash k1 = hash k2.
Proof. exact hash_respects_row_same. Qed.
Print Assumptions C07_hash_respects_row_same.

(* The open-addressing table refines the association list with groups numbered in order of first
   insertion: for ANY hash function, ANY initial capacity (rounded to a power of two, 0 included) and
   ANY sequence of batches and extra resizes (`OpResize extra` = a spontaneous resize to cap + extra
   on top of those the load factor triggers), the run succeeds (never "table full", never an index out
   of bounds, the reinsertion loop of `resize` terminates), the assigned group ids and the group
   payloads are those of the association list, and the table invariant `Inv` (capacity a power of two,
   entries <-> groups bijection with the right hash prefix, linear-probing reachability, keys pairwise
   distinct, never full) holds at the end. *)
Theorem C07_table_find_or_insert_spec :
  forall (hash : row -> N) (St : Type) (init : St) (X : Type) (f : St -> X -> St)
         (capacity : nat) (ops : list (op X)),
  exists (t : table St) (ids : list nat),
    table_run hash St init X f (table_new St capacity) ops = TOk (t, ids) /\
    (groups t, ids) = al_run init f [] (concat (map (op_items X) ops)) /\ Inv hash St t.
Proof. exact table_find_or_insert_spec. Qed.
Print Assumptions C07_table_find_or_insert_spec.

(* ids of the association list: equal ids <-> row_same keys; a new key gets the next fresh id *)
Theorem C07_ids_same_iff_row_same :
  forall (St X : Type) (init : St) (f : St -> X -> St) (items : list (row * X)) (i j : nat)
         (ki : row) (xi : X) (kj : row) (xj : X),
  nth_error items i = Some (ki, xi) -> nth_error items j = Some (kj, xj) ->
  exists a b : nat,
    nth_error (snd (al_run init f [] items)) i = Some a /\
    nth_error (snd (al_run init f [] items)) j = Some b /\ (a = b <-> row_same ki kj = true).
Proof. intros St X. exact (@al_run_ids_same_iff St X). Qed.
Print Assumptions C07_ids_same_iff_row_same.

Theorem C07_resize_preserves_abstraction :
  forall (hash : row -> N) (St : Type) (t : table St) (n : nat),
  Inv hash St t -> (cap St t <= n)%nat ->
  exists t' : table St,
    resize St t n = TOk t' /\ Inv hash St t' /\ groups t' = groups t /\ (n <= cap St t')%nat /\ (cap St t <= cap St t')%nat.
Proof. exact resize_ok. Qed.
Print Assumptions C07_resize_preserves_abstraction.

Theorem C07_find_or_insert_refines :
  forall (hash : row -> N) (St : Type) (init : St) (X : Type) (f : St -> X -> St)
         (t : table St) (key : row) (x : X),
  Inv hash St t -> (length (groups t) + 1 < cap St t)%nat ->
  exists t' : table St,
    find_or_insert hash St init X f t key x = TOk (t', al_id (groups t) key) /\
    Inv hash St t' /\ groups t' = al_apply init f (groups t) key x /\ cap St t' = cap St t.
Proof. exact find_or_insert_ok. Qed.
Print Assumptions C07_find_or_insert_refines.

(* Two-level scheme: P_in = length parts input partitions (each a list of batches), P_out = pout
   output partitions, local tables per (input, output) pair, rows routed by (hash * pout) >> 64,
   per-output-partition merge in chunks: the union of the output tables is, as a bag of
   (key, members), exactly Sql.v's group_rows of all input rows (no group lost, none duplicated, every
   group carries exactly its rows), and each group sits in the partition its hash routes to. *)
Theorem C07_two_level_merge_exact :
  forall (hash : row -> N) (pout capacity chunk : nat),
  (1 <= pout)%nat -> (1 <= chunk)%nat ->
  forall parts : list (list (list (row * row))), parts <> [] ->
  exists outs : list (table (list row)),
    two_level hash (list row) [] row (updl row) (@app row) pout capacity chunk parts = TOk outs /\
    length outs = pout /\
    Permutation (concat (map groups outs)) (group_rows (concat (map (@concat (row * row)) parts))) /\
    (forall (j : nat) (t : table (list row)),
       nth_error outs j = Some t ->
       Forall (fun g : row * list row => route (hash (fst g)) pout = j) (groups t)).
Proof. exact two_level_merge_exact_rows. Qed.
Print Assumptions C07_two_level_merge_exact.
