(* C19 — Malformed Parquet/CSV input fails cleanly, never crashes or hangs.
   Statements only; proofs in proofs/PqFooterProofs.v.  Level: PARTIAL.
   Full-strength statement, per modelled component:
       decode_total_safe : forall bytes, outcome ∈ {Ok, Err} /\ alloc <= c * |bytes| + c'
   It is PROVED for the reader with the bounds checks (`cfg` flags true) and REFUTED with closed witnesses for the reader
   without them (cfg_source_now = the source before the repairs 142552dbd / 58ae48eb3, kept as the record of what failed).
   The flags are scanned from the source into gen/TablesFault.v on every run; since the repairs all six hold and the
   *_total_safe_current theorems state the safe side for the current source outright.
   Absence of crashes in the rest of the 30 kLoC crate is searched (vlib/c19.py), not proved. *)
From Coq Require Import NArith ZArith List Bool.
From GV Require Import model.PqBits model.PqDelta model.PqFooter proofs.PqFooterProofs.
From GV Require gen.TablesFault.
Import ListNotations.
Open Scope N_scope.

(* ---- source constants *)
Theorem C19_footer_constants :
  exists fs mn, TablesFault.footer_size = Some fs /\ TablesFault.min_file_size = Some mn /\
                fs = FOOTER_SIZE /\ mn = MIN_FILE_SIZE.
Proof. exact footer_constants. Qed.
Print Assumptions C19_footer_constants.

(* ---- footer loader (metadata/loader.rs) *)
Theorem C19_footer_outcome_clean : forall c file, out_clean (l_out (load_footer c file)).
Proof. exact load_footer_out_clean. Qed.
Print Assumptions C19_footer_outcome_clean.

Theorem C19_footer_alloc_bounded_if_checked : forall c file,
  c_footer_len c = true -> l_alloc (load_footer c file) <= lenN file + 8.
Proof. exact footer_alloc_bounded_checked. Qed.
Print Assumptions C19_footer_alloc_bounded_if_checked.
Example C19_footer_alloc_bounded_if_checked_sat : c_footer_len cfg_patched = true.
Proof. reflexivity. Qed.

(* refutation of `alloc <= k * |file| + k'` for the loader without the check (DESIGN §5-18) *)
Theorem C19_footer_alloc_not_linear_refuted : forall c, c_footer_len c = false ->
  forall k k', k * 12 + k' < 2 ^ 32 - 256 ->
  exists file, l_alloc (load_footer c file) > k * lenN file + k'.
Proof. exact footer_alloc_not_linear. Qed.
Print Assumptions C19_footer_alloc_not_linear_refuted.
Example C19_footer_alloc_not_linear_refuted_sat : c_footer_len cfg_source_now = false /\ 1000 * 12 + 1000 < 2 ^ 32 - 256.
Proof. split; reflexivity. Qed.

Theorem C19_footer_witness :
  length w_footer_len = 12%nat /\ l_alloc (load_footer cfg_source_now w_footer_len) = 4294967292 /\
  l_out (load_footer cfg_source_now w_footer_len) = TErr /\
  l_alloc (load_footer cfg_patched w_footer_len) = 8.
Proof. exact w_footer_len_alloc. Qed.
Print Assumptions C19_footer_witness.

Theorem C19_footer_verdict_current :
  exists c, current_cfg = Some c /\
    (if c_footer_len c
     then forall file, l_alloc (load_footer c file) <= lenN file + 8
     else exists file, length file = 12%nat /\ l_alloc (load_footer c file) = 4294967292).
Proof. exact footer_verdict_current. Qed.
Print Assumptions C19_footer_verdict_current.

(* ---- thrift compact reader, the path that skips unknown fields (thrift.rs + thrift::skip) *)
Theorem C19_thrift_skip_total_safe_if_checked : forall c buf,
  checked_reader c ->
  out_clean (t_skip_top c buf) /\ (forall s', t_skip_top c buf = TOk s' -> s_alloc s' <= lenN buf).
Proof. exact thrift_skip_total_safe_checked. Qed.
Print Assumptions C19_thrift_skip_total_safe_if_checked.
Example C19_thrift_skip_total_safe_if_checked_sat : checked_reader cfg_patched.
Proof. repeat split; reflexivity. Qed.

(* bounded time whatever the flags: 3|buf| + 2 steps always suffice *)
Theorem C19_thrift_skip_never_out_of_budget : forall c buf, t_skip_top c buf <> TFuel.
Proof. exact thrift_skip_never_out_of_budget. Qed.
Print Assumptions C19_thrift_skip_never_out_of_budget.

(* refutations for the reader as it is (DESIGN §5-19 and three more sites found while modelling) *)
Theorem C19_thrift_witnesses_refuted :
  t_skip_top cfg_source_now w_set = TPanic site_unimplemented /\
  t_skip_top cfg_source_now w_map = TPanic site_unimplemented /\
  t_skip_top cfg_source_now w_double = TPanic site_double_slice /\
  t_skip_top cfg_source_now w_vlq_field = TPanic site_vlq_shift /\
  t_skip_top cfg_source_now w_fid = TPanic site_fid_add.
Proof.
  exact (conj (w_set_panics cfg_source_now eq_refl) (conj (w_map_panics cfg_source_now eq_refl)
        (conj (w_double_panics cfg_source_now eq_refl) (conj (w_vlq_field_panics cfg_source_now eq_refl) w_fid_panics)))).
Qed.
Print Assumptions C19_thrift_witnesses_refuted.

Theorem C19_thrift_witnesses_clean_when_patched :
  t_skip_top cfg_patched w_set = TErr /\ t_skip_top cfg_patched w_map = TErr /\
  t_skip_top cfg_patched w_double = TErr /\ t_skip_top cfg_patched w_vlq_field = TErr /\
  t_skip_top cfg_patched w_fid = TErr.
Proof. exact w_patched_clean. Qed.
Print Assumptions C19_thrift_witnesses_clean_when_patched.

Theorem C19_thrift_skip_verdict_current :
  exists c, current_cfg = Some c /\
    (if reader_checked_b c
     then forall buf, out_clean (t_skip_top c buf)
     else exists buf x, t_skip_top c buf = TPanic x).
Proof. exact thrift_skip_verdict_current. Qed.
Print Assumptions C19_thrift_skip_verdict_current.

(* ---- list headers in front of known fields (format.rs Vec::with_capacity(list_ident.size as usize)) *)
Theorem C19_list_alloc_bounded_if_checked : forall c es buf a r,
  c_list_len c = true -> t_list_alloc c es buf = TOk (a, r) -> a <= es * lenN buf.
Proof. exact list_alloc_bounded_checked. Qed.
Print Assumptions C19_list_alloc_bounded_if_checked.
Example C19_list_alloc_bounded_if_checked_sat :
  c_list_len cfg_patched = true /\ t_list_alloc cfg_patched 120 [44; 0; 0] = TOk (240, [0; 0]).
Proof. split; reflexivity. Qed.

Theorem C19_list_alloc_witnesses_refuted :
  (t_list_alloc cfg_source_now 120 w_list_count = TOk (257698037640, []) /\
   t_list_alloc cfg_patched 120 w_list_count = TErr) /\
  (t_list_alloc cfg_source_now 120 w_list_negative = TPanic site_capacity /\
   t_list_alloc cfg_patched 120 w_list_negative = TErr).
Proof. exact (conj w_list_count_alloc w_list_negative_panics). Qed.
Print Assumptions C19_list_alloc_witnesses_refuted.

Theorem C19_list_alloc_verdict_current :
  exists c, current_cfg = Some c /\
    (if c_list_len c
     then forall es buf a r, t_list_alloc c es buf = TOk (a, r) -> a <= es * lenN buf
     else exists buf, lenN buf = 6 /\
                      (exists r, t_list_alloc c 120 buf = TOk (257698037640, r) \/
                                 exists x, t_list_alloc c 120 buf = TPanic x)).
Proof. exact list_alloc_verdict_current. Qed.
Print Assumptions C19_list_alloc_verdict_current.

(* ---- the source as it is now (repairs 142552dbd footer length, 58ae48eb3 thrift reader): decode_total_safe holds for
   the footer loader, the field-skipping path and the list headers.  A check that disappears from the source makes these
   four stop checking (returning defect: vlib/c19.py then replays the witnesses and reports the failing bytes). *)
Theorem C19_source_has_all_reader_checks : current_cfg = Some cfg_patched.
Proof. exact source_has_all_reader_checks. Qed.
Print Assumptions C19_source_has_all_reader_checks.

Theorem C19_footer_total_safe_current :
  exists c, current_cfg = Some c /\
    forall file, out_clean (l_out (load_footer c file)) /\ l_alloc (load_footer c file) <= lenN file + 8.
Proof. exact footer_safe_current. Qed.
Print Assumptions C19_footer_total_safe_current.

Theorem C19_thrift_skip_total_safe_current :
  exists c, current_cfg = Some c /\
    forall buf, out_clean (t_skip_top c buf) /\ (forall s', t_skip_top c buf = TOk s' -> s_alloc s' <= lenN buf).
Proof. exact thrift_skip_safe_current. Qed.
Print Assumptions C19_thrift_skip_total_safe_current.

Theorem C19_list_alloc_total_safe_current :
  exists c, current_cfg = Some c /\
    forall es buf, (forall x, t_list_alloc c es buf <> TPanic x) /\
                   (forall a r, t_list_alloc c es buf = TOk (a, r) -> a <= es * lenN buf).
Proof. exact list_alloc_safe_current. Qed.
Print Assumptions C19_list_alloc_total_safe_current.

(* ---- loading an uncompressed page body by the header's sizes (column/page_reader.rs; repaired by f3bd995b4: checked_page_sizes) *)
Theorem C19_page_load_total_safe_if_checked : forall chunk_len off usz csz,
  is_i32 usz -> is_i32 csz -> chunk_len < 2 ^ 64 ->
  out_clean (p_out (load_page_plain true chunk_len off usz csz)) /\
  p_alloc (load_page_plain true chunk_len off usz csz) <= chunk_len.
Proof. exact page_load_safe_checked. Qed.
Print Assumptions C19_page_load_total_safe_if_checked.
Example C19_page_load_total_safe_if_checked_sat : is_i32 10 /\ is_i32 10 /\ 100 < 2 ^ 64.
Proof. unfold is_i32. repeat split; discriminate || reflexivity. Qed.

Theorem C19_page_load_witnesses_refuted :
  load_page_plain false 100 20 8 10 = mk_paged (TPanic site_copy_len) 8 /\
  load_page_plain false 100 20 10 (-1) = mk_paged (TPanic site_offset_add) 10 /\
  load_page_plain false 100 20 2147483647 10 = mk_paged (TPanic site_copy_len) 2147483647 /\
  load_page_plain false 100 20 (-1) 10 = mk_paged TErr 0 /\
  load_page_plain false 100 20 10 200 = mk_paged TErr 10 /\
  load_page_plain false 100 20 10 10 = mk_paged (TOk 30) 10.
Proof. exact page_load_witnesses. Qed.
Print Assumptions C19_page_load_witnesses_refuted.

Theorem C19_page_load_witnesses_clean_when_patched :
  load_page_plain true 100 20 8 10 = mk_paged TErr 0 /\
  load_page_plain true 100 20 10 (-1) = mk_paged TErr 0 /\
  load_page_plain true 100 20 2147483647 10 = mk_paged TErr 0 /\
  load_page_plain true 100 20 10 10 = mk_paged (TOk 30) 10.
Proof. exact page_load_witnesses_checked. Qed.
Print Assumptions C19_page_load_witnesses_clean_when_patched.

Theorem C19_page_load_verdict_current :
  exists b, TablesFault.page_copy_len_checked = Some b /\
    (if b
     then forall chunk_len off usz csz, is_i32 usz -> is_i32 csz -> chunk_len < 2 ^ 64 ->
            out_clean (p_out (load_page_plain b chunk_len off usz csz)) /\ p_alloc (load_page_plain b chunk_len off usz csz) <= chunk_len
     else exists chunk_len off usz csz x, is_i32 usz /\ is_i32 csz /\
            p_out (load_page_plain b chunk_len off usz csz) = TPanic x /\ p_alloc (load_page_plain b chunk_len off usz csz) > 1000 * chunk_len).
Proof. exact page_load_verdict_current. Qed.
Print Assumptions C19_page_load_verdict_current.

(* ---- fetching a column chunk (reader.rs), and the safe side for the current source after repair f3bd995b4 *)
Theorem C19_fetch_chunk_total_safe_if_checked : forall file_size start len,
  out_clean (p_out (fetch_chunk true file_size start len)) /\ p_alloc (fetch_chunk true file_size start len) <= file_size.
Proof. exact fetch_chunk_safe_checked. Qed.
Print Assumptions C19_fetch_chunk_total_safe_if_checked.

Theorem C19_fetch_chunk_witnesses :
  fetch_chunk false 227 2147483647 27 = mk_paged TFuel 27 /\
  fetch_chunk false 227 69 4611686018427387904 = mk_paged TFuel 4611686018427387904 /\
  fetch_chunk true 227 2147483647 27 = mk_paged TErr 0 /\
  fetch_chunk true 227 69 4611686018427387904 = mk_paged TErr 0 /\
  fetch_chunk true 227 69 27 = mk_paged (TOk 27) 27.
Proof. exact fetch_chunk_witnesses. Qed.
Print Assumptions C19_fetch_chunk_witnesses.

Theorem C19_fetch_chunk_verdict_current :
  exists b, TablesFault.chunk_range_checked = Some b /\
    (if b
     then forall file_size start len, out_clean (p_out (fetch_chunk b file_size start len)) /\
                                      p_alloc (fetch_chunk b file_size start len) <= file_size
     else exists file_size start len, p_out (fetch_chunk b file_size start len) = TFuel).
Proof. exact fetch_chunk_verdict_current. Qed.
Print Assumptions C19_fetch_chunk_verdict_current.

Theorem C19_page_and_chunk_checks_present :
  TablesFault.page_copy_len_checked = Some true /\ TablesFault.chunk_range_checked = Some true.
Proof. exact page_and_chunk_checks_present. Qed.
Print Assumptions C19_page_and_chunk_checks_present.

Theorem C19_page_load_total_safe_current :
  exists b, TablesFault.page_copy_len_checked = Some b /\
    forall chunk_len off usz csz, is_i32 usz -> is_i32 csz -> chunk_len < 2 ^ 64 ->
      out_clean (p_out (load_page_plain b chunk_len off usz csz)) /\ p_alloc (load_page_plain b chunk_len off usz csz) <= chunk_len.
Proof. exact page_load_safe_current. Qed.
Print Assumptions C19_page_load_total_safe_current.

Theorem C19_fetch_chunk_total_safe_current :
  exists b, TablesFault.chunk_range_checked = Some b /\
    forall file_size start len, out_clean (p_out (fetch_chunk b file_size start len)) /\
                                p_alloc (fetch_chunk b file_size start len) <= file_size.
Proof. exact fetch_chunk_safe_current. Qed.
Print Assumptions C19_fetch_chunk_total_safe_current.

(* ---- compressed data page v2: levels copied uncompressed, the rest through the codec (an oracle) *)
Theorem C19_page_v2_total_safe_if_checked : forall chunk_len off usz csz rep def ok,
  is_i32 usz ->
  out_clean (p_out (load_page_v2_compressed true true chunk_len off usz csz rep def ok)) /\
  p_alloc (load_page_v2_compressed true true chunk_len off usz csz rep def ok) < 2 ^ 31.
Proof. exact page_v2_safe_checked. Qed.
Print Assumptions C19_page_v2_total_safe_if_checked.
Example C19_page_v2_total_safe_if_checked_sat : is_i32 50.
Proof. unfold is_i32. split; discriminate || reflexivity. Qed.

Theorem C19_page_v2_witnesses_refuted :
  (forall le_c ok, load_page_v2_compressed le_c false 100 20 12 20 0 13 ok = mk_paged (TPanic site_levels_dest) 12) /\
  (forall le_u ok, load_page_v2_compressed false le_u 100 20 50 10 0 13 ok = mk_paged (TPanic site_levels_sub) 50) /\
  (forall ok, load_page_v2_compressed true true 100 20 12 20 0 13 ok = mk_paged TErr 12) /\
  (forall ok, load_page_v2_compressed true true 100 20 50 10 0 13 ok = mk_paged TErr 50) /\
  load_page_v2_compressed true true 100 20 50 10 2 3 true = mk_paged (TOk 30) 50 /\
  load_page_v2_compressed true true 100 20 50 10 2 3 false = mk_paged TErr 50.
Proof. exact page_v2_witnesses. Qed.
Print Assumptions C19_page_v2_witnesses_refuted.

Theorem C19_page_v2_verdict_current :
  exists a b, TablesFault.v2_levels_le_compressed = Some a /\ TablesFault.v2_levels_le_uncompressed = Some b /\
    (if a && b
     then forall chunk_len off usz csz rep def ok, is_i32 usz ->
            out_clean (p_out (load_page_v2_compressed a b chunk_len off usz csz rep def ok)) /\
            p_alloc (load_page_v2_compressed a b chunk_len off usz csz rep def ok) < 2 ^ 31
     else exists chunk_len off usz csz rep def x, forall ok,
            p_out (load_page_v2_compressed a b chunk_len off usz csz rep def ok) = TPanic x).
Proof. exact page_v2_verdict_current. Qed.
Print Assumptions C19_page_v2_verdict_current.

Theorem C19_page_v2_level_checks_present :
  TablesFault.v2_levels_le_compressed = Some true /\ TablesFault.v2_levels_le_uncompressed = Some true.
Proof. exact page_v2_safe_current. Qed.
Print Assumptions C19_page_v2_level_checks_present.

(* ---- bit-level helpers of the page decoders (bitutil.rs, rle_bit_packed.rs; models of C10) *)
Theorem C19_vlq_decode_no_panic : forall bs, vlq_decode bs <> Panic.
Proof. exact vlq_decode_no_panic. Qed.
Print Assumptions C19_vlq_decode_no_panic.

(* read_unsigned_vlq reads past the cursor exactly when the input ends inside the varint *)
Theorem C19_vlq_decode_oob_iff : forall bs,
  vlq_decode bs = OOB <-> (length bs <= 9)%nat /\ Forall cont_byte bs.
Proof. exact vlq_decode_oob_iff. Qed.
Print Assumptions C19_vlq_decode_oob_iff.

Theorem C19_bit_unpack_no_panic : forall tw w n buf pos, bit_unpack tw w n buf pos <> Panic.
Proof. exact bit_unpack_no_panic. Qed.
Print Assumptions C19_bit_unpack_no_panic.

Theorem C19_bit_unpack_wide_err : forall tw w n buf pos, 64 < w -> bit_unpack tw w n buf pos = Err.
Proof. exact bit_unpack_wide_err. Qed.
Print Assumptions C19_bit_unpack_wide_err.

Theorem C19_rle_read_no_panic : forall tw n s, r_w s <= 64 -> rle_read tw n s <> Panic.
Proof. exact rle_read_no_panic. Qed.
Print Assumptions C19_rle_read_no_panic.
Example C19_rle_read_no_panic_sat : r_w (rle_new [2; 7] 8) <= 64.
Proof. discriminate. Qed.

(* DESIGN §5-20: the unchecked cursor reads, closed witnesses (replayed through gv_pq and inside files); the last two
   (miniblock count 0, width 65) were panics before the repairs 20ef7d280 / 72f92a6f7 and are errors now *)
Theorem C19_bits_oob_witnesses :
  vlq_decode w_oob_vlq = OOB /\ rle_read 8 1 (rle_new w_oob_rle 8) = OOB /\
  bit_unpack 8 5 2 w_oob_unpack 0 = OOB /\ dbp_decode_split 32 w_oob_dbp [5%nat] = OOB /\
  dbp_decode_split 32 w_panic_dbp [5%nat] = Err /\ bit_unpack 8 65 1 [1; 2; 3; 4; 5; 6; 7; 8; 9] 0 = Err.
Proof.
  exact (conj w_oob_vlq_oob (conj w_oob_rle_oob (conj w_oob_unpack_oob (conj w_oob_dbp_oob (conj w_panic_dbp_panics w_panic_width))))).
Qed.
Print Assumptions C19_bits_oob_witnesses.

Theorem C19_bits_total_safe_refuted : ~ bits_total_safe.
Proof. exact bits_total_safe_refuted. Qed.
Print Assumptions C19_bits_total_safe_refuted.
