(* Extraction of the C11 models (row-group pruner, glob walk, partition dealing) to OCaml.
   Only ExtrOcamlBasic's directives; N, Z, positive, nat stay the extracted inductives. *)
From Coq Require Import Extraction ExtrOcamlBasic.
From Coq Require Import NArith ZArith List.
From GV Require Import model.Pruner model.Glob model.MultiFile.
Extraction "extract/prune_model.ml"
  Pruner.from_thrift Pruner.should_prune Pruner.rg_should_prune Pruner.scan_hinted Pruner.scan_all
  Pruner.project Pruner.conv Pruner.col_consts
  Glob.expand Glob.expand_stack Glob.spec_expand Glob.files
  MultiFile.deal MultiFile.deal_mod MultiFile.text_multi MultiFile.text_reader_grow MultiFile.glob_multi MultiFile.glob_pull_norev.
