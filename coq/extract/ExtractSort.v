(* Extraction of the executable models to OCaml.  Only ExtrOcamlBasic's directives are
   used (bool, option, list, prod, unit, sumbool, sumor -> OCaml types); N, Z, positive, nat
   stay the extracted inductives.  No Extract Constant. *)
From Coq Require Import Extraction ExtrOcamlBasic.
From Coq Require Import NArith ZArith List.
From GV Require Import lib.Bytes model.SortKey model.SortSpec.
Extraction "extract/sort_model.ml"
  Bytes.lex_cmp Bytes.be_bytes
  SortKey.encode_row SortKey.encode_col SortKey.row_cmp SortKey.col_cmp SortKey.val_cmp
  SortSpec.check_order_slice SortSpec.isort SortSpec.sortedb.
