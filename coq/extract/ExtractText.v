(* Extraction of the text models (UTF-8, LIKE, string functions) to OCaml.  ExtrOcamlBasic only. *)
From Coq Require Import Extraction ExtrOcamlBasic.
From Coq Require Import NArith ZArith List.
From GV Require Import model.Utf8 model.Like model.StrFn model.Regex.
Extraction "extract/text_model.ml"
  Utf8.encode Utf8.decode Utf8.utf8_validb Utf8.starts_with Utf8.ends_with Utf8.contains Utf8.list_eqb
  Like.like_regex Like.like_spec Like.classify Like.rewrite_sem Like.no_bsl Like.no_nl
  StrFn.impl_length StrFn.spec_length StrFn.impl_reverse StrFn.spec_reverse
  StrFn.impl_concat StrFn.spec_concat StrFn.impl_repeat StrFn.spec_repeat
  StrFn.impl_left StrFn.spec_left StrFn.impl_right StrFn.spec_right
  StrFn.impl_substring_from StrFn.spec_substring_from StrFn.impl_substring StrFn.spec_substring
  StrFn.impl_lpad StrFn.spec_lpad StrFn.impl_rpad StrFn.spec_rpad
  StrFn.impl_strpos StrFn.spec_strpos StrFn.impl_replace StrFn.spec_replace
  StrFn.impl_translate StrFn.spec_translate StrFn.spec_ltrim StrFn.spec_rtrim StrFn.spec_btrim
  StrFn.impl_split_part StrFn.spec_split_part
  StrFn.translate_map StrFn.spec_repeat_copies
  StrFn.upper_ascii StrFn.lower_ascii StrFn.initcap_ascii
  StrFn.spec_upper_ascii StrFn.spec_lower_ascii StrFn.spec_initcap_ascii StrFn.is_ascii
  Regex.dmatch Regex.impl_regexp_like Regex.impl_regexp_instr Regex.spec_regexp_instr
  Regex.impl_regexp_count Regex.impl_regexp_replace.
