(* Extraction of the tokenizer model (topic lexer, C15) to OCaml.  ExtrOcamlBasic only. *)
From Coq Require Import Extraction ExtrOcamlBasic.
From Coq Require Import NArith ZArith List.
From GV Require Import model.Utf8 model.Lexer model.ParserSkel.
Extraction "extract/lexer_model.ml"
  BinInt.Z.of_N  (* ocaml/prelude.ml mentions the type z *)
  Utf8.encode Utf8.decode Utf8.blen
  Lexer.tokenize Lexer.keyword_from_str Lexer.str_slice Lexer.str_from Lexer.arm_of
  ParserSkel.parse_expr ParserSkel.front_end ParserSkel.tag_codes ParserSkel.nested_parens ParserSkel.nested_minus.
