(* Extraction of the cast / text-conversion / calendar models to OCaml (ExtrOcamlBasic only,
   no Extract Constant). *)
From Coq Require Import Extraction ExtrOcamlBasic.
From Coq Require Import NArith ZArith List.
From GV Require Import model.Cast model.Calendar model.TextConv.
Extraction "extract/cast_model.ml"
  Cast.cast_int Cast.cast_float_int Cast.int_to_decimal Cast.decimal_to_decimal Cast.float_to_decimal
  Cast.validate_precision Cast.rescale_spec Cast.int_spec Cast.float_int_spec Cast.float_decimal_spec Cast.rha_div Cast.decode
  Cast.int_to_float Cast.float_to_float Cast.encode Cast.F32 Cast.F64 Cast.D64 Cast.D128
  Calendar.days_from_civil Calendar.civil_from_days Calendar.valid_ymd Calendar.day_in_range
  TextConv.parse_int TextConv.format_int TextConv.parse_bool TextConv.format_bool
  TextConv.parse_decimal TextConv.format_decimal TextConv.parse_date TextConv.format_date
  TextConv.format_interval TextConv.parse_interval TextConv.qparse_int
  TextConv.wellformed_int TextConv.wellformed_decimal TextConv.spec_parse_decimal
  Cast.planned_nested_cast Cast.nested_cast Cast.flatten_decision.
