(* Extraction of the aggregate state machines and their specifications to OCaml (topic `aggfn`, C07 / C12).
   ExtrOcamlBasic only; Z, positive, N, nat, Q stay the extracted inductives.  No Extract Constant. *)
From Coq Require Import Extraction ExtrOcamlBasic.
From Coq Require Import ZArith QArith Qreduction List.
From GV Require Import model.AggFn.
Extraction "extract/aggfn_model.ml"
  AggFn.result_tree AggFn.run_tree AggFn.flatten AggFn.nn AggFn.both Qreduction.Qred
  AggFn.count_agg AggFn.sum_chk AggFn.sum_f AggFn.avg_i AggFn.avg_f AggFn.avg_dec AggFn.sum_u64 AggFn.avg_u64
  AggFn.regr_avgx AggFn.regr_avgy AggFn.var_agg AggFn.covar_agg AggFn.corr_agg AggFn.regr_r2_agg
  AggFn.regr_slope_agg AggFn.min_agg AggFn.max_agg AggFn.first_agg AggFn.bool_and_agg AggFn.bool_or_agg
  AggFn.bit_and_agg AggFn.bit_or_agg AggFn.string_agg
  AggFn.spec_count AggFn.spec_sum AggFn.spec_sum_f AggFn.spec_avg_f AggFn.spec_avg_i AggFn.spec_avg_dec
  AggFn.spec_var AggFn.spec_covar AggFn.spec_corr AggFn.spec_regr_slope AggFn.spec_regr_avgx
  AggFn.spec_regr_avgy AggFn.spec_min AggFn.spec_max AggFn.spec_first AggFn.spec_bool_and AggFn.spec_bool_or
  AggFn.spec_bit AggFn.spec_string_agg.
