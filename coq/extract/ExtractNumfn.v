(* Extraction of the numeric / bitwise function models to OCaml (topic `numfn`, C05 / C12).
   ExtrOcamlBasic only; Z, positive, nat stay the extracted inductives.  No Extract Constant. *)
From Coq Require Import Extraction ExtrOcamlBasic.
From Coq Require Import ZArith List.
From GV Require Import model.Arith model.Decimal model.NumFn.
Extraction "extract/numfn_model.ml"
  NumFn.impl_gcd_src NumFn.spec_gcd NumFn.impl_lcm_src NumFn.spec_lcm
  NumFn.impl_factorial_src NumFn.spec_factorial_exec
  NumFn.impl_bitand NumFn.spec_bitand NumFn.impl_bitor NumFn.spec_bitor NumFn.impl_xor NumFn.spec_xor
  NumFn.impl_bitnot NumFn.spec_bitnot NumFn.impl_shl NumFn.spec_shl_exec NumFn.impl_shr_src NumFn.spec_shr_exec
  NumFn.impl_round_src NumFn.spec_round
  NumFn.impl_int_fn NumFn.spec_int_fn NumFn.impl_dec_fn NumFn.spec_dec_fn NumFn.fres_eqb
  NumFn.spec_cmp NumFn.impl_cmp_mixed NumFn.spec_cmp_mixed NumFn.cmp_results NumFn.cop_null Arith.in_range.
