(* Extraction of the SQL reference semantics (model/Sql.v).  ExtrOcamlBasic only. *)
From Coq Require Import Extraction ExtrOcamlBasic.
From Coq Require Import NArith ZArith List.
From GV Require Import lib.Bytes model.Sql.
Extraction "extract/sql_model.ml" Sql.eval_query Sql.eval_expr Sql.check_answer Sql.bag_eqb.
