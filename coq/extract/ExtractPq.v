(* Extraction of the Parquet models (spec writer + faithful streaming decoders) to OCaml.
   Only ExtrOcamlBasic's directives; N, Z, positive, nat stay the extracted inductives. *)
From Coq Require Import Extraction ExtrOcamlBasic.
From Coq Require Import NArith ZArith List.
From GV Require Import model.PqBits model.PqDelta model.PqThrift model.PqWrite.
Extraction "extract/pq_model.ml"
  PqWrite.write_file PqWrite.default_cl PqWrite.no_stats
  PqBits.vlq_decode PqBits.vlq_encode PqBits.zigzag_encode PqBits.zigzag_decode PqBits.from_i64
  PqBits.bitpack PqBits.rle_encode PqBits.rle_new
  PqDelta.rle_reads PqDelta.unpack_reads
  PqDelta.dbp_encode PqDelta.dbp_decode_split PqDelta.dlba_decode PqDelta.dba_decode PqDelta.dlba_encode PqDelta.dba_encode
  PqDelta.dbp_read_lengths PqDelta.plain_encode PqDelta.bss_encode
  PqDelta.plain_decode_num PqDelta.plain_decode_bytes PqDelta.plain_decode_bool PqDelta.bss_new PqDelta.bss_read.
