(* Extraction of the arithmetic models to OCaml (topic `arith`, C12).  ExtrOcamlBasic only;
   Z, positive, nat stay the extracted inductives.  No Extract Constant. *)
From Coq Require Import Extraction ExtrOcamlBasic.
From Coq Require Import ZArith List.
From GV Require Import model.Arith model.Decimal.
Extraction "extract/arith_model.ml"
  Arith.impl_bin Arith.impl_neg Arith.impl_abs_f64 Arith.spec_bin Arith.spec_neg Arith.known_class_b
  Arith.in_range Arith.sum_impl Arith.sum_spec Arith.avg_acc
  Decimal.dec_addsub Decimal.spec_addsub Decimal.dec_mul Decimal.spec_mul Decimal.dec_round
  Decimal.sum_dec_impl Decimal.sum_dec_spec Decimal.avg_dec_acc Decimal.avg_f64 Decimal.fits
  Decimal.add_sub_type Decimal.mul_type.
