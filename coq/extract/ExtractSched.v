(* Extraction of the executable C04 models to OCaml.  Only ExtrOcamlBasic's directives; nat stays
   the extracted inductive.  No Extract Constant. *)
From Coq Require Import Extraction ExtrOcamlBasic.
From Coq Require Import List Arith NArith ZArith.
From GV Require Import model.ExecStack model.TaskSched model.BarrierMergeQueue.
(* positive / N / Z / comparison are only needed by the shared OCaml prelude *)
Extraction "extract/sched_model.ml"
  BinNums.positive BinNums.N BinNums.Z Datatypes.comparison
  ExecStack.new ExecStack.pop_next ExecStack.run_script ExecStack.pipe_poll
  TaskSched.init TaskSched.step TaskSched.run TaskSched.accepts TaskSched.n_alive TaskSched.n_in_execute
  BarrierMergeQueue.q_new BarrierMergeQueue.q_complete BarrierMergeQueue.q_add BarrierMergeQueue.q_poll
  BarrierMergeQueue.q_merge_done BarrierMergeQueue.q_take.
