(* Extraction of the plan model (model/Plan.v) with the reference semantics it is compared to.
   ExtrOcamlBasic only. *)
From Coq Require Import Extraction ExtrOcamlBasic.
From Coq Require Import NArith ZArith List.
From GV Require Import lib.Bytes model.Sql model.Rel model.Plan.
Extraction "extract/plan_model.ml"
  Sql.eval_query Sql.check_answer Sql.bag_eqb
  Plan.plan_of Plan.plan0_of Plan.eval_lplan Plan.lskel Plan.joins_wf Plan.db_arity_ok Plan.plan_supported
  Plan.phys_of Plan.pskel Plan.phys_sk Plan.psk_eqb Plan.exec_pplan.
