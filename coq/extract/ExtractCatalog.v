(* Extraction of the C14 models to OCaml.  Only ExtrOcamlBasic's directives; no Extract Constant. *)
From Coq Require Import Extraction ExtrOcamlBasic.
From Coq Require Import NArith ZArith List.
From GV Require Import model.Catalog model.Storage.
Extraction "extract/catalog_model.ml"
  Catalog.step_impl Catalog.step Catalog.new_engine Catalog.no_oracle Catalog.fails_at_runtime Catalog.is_self_insert
  Storage.run Storage.run_order Storage.self_insert Storage.Old.self_insert Storage.writers Storage.start_scan Storage.total_rows
  Storage.bulk Storage.batches_of Storage.seg_appends Storage.chunk_rows Storage.complete Storage.insert_count Storage.iotaN Storage.all_rows Storage.scan_output Storage.lenN.
