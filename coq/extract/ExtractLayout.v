(* Extraction of the layout model.  ExtrOcamlBasic only; no Extract Constant. *)
From Coq Require Import Extraction ExtrOcamlBasic.
From Coq Require Import NArith ZArith List.
From GV Require Import model.Layout model.LayoutSrc.
Extraction "extract/layout_model.ml"
  Layout.row_layout_of Layout.byte_offset Layout.agg_layout_of Layout.sort_layout_of Layout.appends
  Layout.sv_new Layout.sv_is_inline Layout.offset_from_hash Layout.inc_and_wrap Layout.validity_bytes
  Layout.holds Layout.roundtrip Layout.push_view Layout.compute_heap_sizes Layout.heap_block_of LayoutSrc.src_str_preds
  BinInt.Z.of_N.  (* keeps the type z the shared prelude expects *)
