(* Extraction of the resolution model and of the regenerated tables it runs over.
   ExtrOcamlBasic only; no Extract Constant. *)
From Coq Require Import Extraction ExtrOcamlBasic.
From Coq Require Import NArith ZArith List.
From GV Require Import model.Resolve gen.TablesTyping model.ResolveSrc model.Sql model.Typing.
Extraction "extract/typing_model.ml"
  ResolveSrc.src_params TablesTyping.scalar_sets TablesTyping.aggregate_sets
  Resolve.classify_lit Resolve.find_exact Resolve.find_candidates Resolve.maximal Resolve.pick Resolve.total
  Resolve.resolve Resolve.ties_of Resolve.multi_max_of Resolve.unify_cols Resolve.all_inputs
  Typing.type_of Typing.annotate Typing.agg_type.
