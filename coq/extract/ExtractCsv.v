(* Extraction of the CSV models to OCaml.  ExtrOcamlBasic only, no Extract Constant. *)
From Coq Require Import Extraction ExtrOcamlBasic.
From Coq Require Import NArith ZArith List.
From GV Require Import model.Csv model.CsvInfer.
Extraction "extract/csv_model.ml"
  Csv.decode Csv.decode_chunks Csv.decode_flush Csv.decode_flush_old Csv.records_of Csv.run_dfa Csv.run_reader
  Csv.rfc4180 Csv.read_file Csv.reader_loop Csv.reader_loop_old Csv.st_init Csv.clear_completed
  Csv.decode_h Csv.h_init Csv.decode_chunks_h Csv.decode_flush_h Csv.reader_loop_h Csv.read_file_h
  Csv.read_queue Csv.prepare
  CsvInfer.infer_dialect CsvInfer.infer_schema CsvInfer.read_csv CsvInfer.type_rows CsvInfer.is_valid CsvInfer.update.
