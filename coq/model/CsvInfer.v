(* C17 — model of dialect / schema inference and of the typing of rows.  Definitions only.
   crates/glaredb_ext_csv/src/dialect.rs  (DialectOptions::infer_from_sample, dialects())
   crates/glaredb_ext_csv/src/schema.rs   (CsvSchema::infer_from_records, CandidateType)
   crates/glaredb_ext_csv/src/functions/read_csv.rs (bind: 4096-byte sample, eof = short read, unwrap_or_default)
   crates/glaredb_ext_csv/src/reader.rs   (write_primitive / write_string: column count test, empty = NULL)
   crates/glaredb_core/src/functions/cast/parse.rs (BoolParser; Int64Parser / Float64Parser = Rust FromStr)
   Fields are byte lists; the model assumes they are valid UTF-8 (invalid UTF-8 belongs to C19). *)
From Coq Require Import NArith ZArith List Bool Arith.
From GV Require Import model.Csv.
Import ListNotations.

(* ------------------------------------------------------------------ value syntax *)
Definition bytes_eqb (a b : list N) : bool :=
  (length a =? length b) && forallb (fun p => (fst p =? snd p)%N) (combine a b).

(* BoolParser: "t" | "true" | "TRUE" | "T" | "f" | "false" | "FALSE" | "F" *)
Definition bool_words : list (list N) :=
  [ [116]; [116;114;117;101]; [84;82;85;69]; [84];
    [102]; [102;97;108;115;101]; [70;65;76;83;69]; [70] ]%N.
Definition is_bool (f : list N) : bool := existsb (bytes_eqb f) bool_words.

Definition is_digit (c : N) : bool := (48 <=? c)%N && (c <=? 57)%N.
Definition is_sign (c : N) : bool := (c =? 43)%N || (c =? 45)%N.

Fixpoint span_digits (l : list N) : list N * list N :=
  match l with
  | c :: r => if is_digit c then let '(ds, rest) := span_digits r in (c :: ds, rest) else ([], l)
  | [] => ([], [])
  end.

Definition digits_value (ds : list N) : Z :=
  fold_left (fun acc c => (acc * 10 + Z.of_N (c - 48))%Z) ds 0%Z.

(* i64::from_str: [+-]? digit+, within -2^63 .. 2^63-1 *)
Definition is_int (f : list N) : bool :=
  match f with
  | [] => false
  | c :: r =>
      let neg := (c =? 45)%N in
      let body := if is_sign c then r else f in
      let '(ds, rest) := span_digits body in
      negb (length ds =? 0) && (length rest =? 0) &&
      (let v := digits_value ds in
       if neg then (v <=? 9223372036854775808)%Z else (v <=? 9223372036854775807)%Z)
  end.

Definition lower (c : N) : N := if (65 <=? c)%N && (c <=? 90)%N then (c + 32)%N else c.

(* f64::from_str (core::num::dec2flt):
     Float  ::= Sign? ( 'inf' | 'infinity' | 'nan' | Number )      -- letters in any case
     Number ::= ( Digit+ | Digit+ '.' Digit* | Digit* '.' Digit+ ) Exp?
     Exp    ::= [eE] Sign? Digit+ *)
Definition exp_ok (l : list N) : bool :=
  match l with
  | [] => true
  | c :: r =>
      if (c =? 101)%N || (c =? 69)%N then
        let r' := match r with s :: r2 => if is_sign s then r2 else r | [] => [] end in
        let '(ds, rest) := span_digits r' in
        negb (length ds =? 0) && (length rest =? 0)
      else false
  end.
Definition number_ok (l : list N) : bool :=
  let '(ip, r1) := span_digits l in
  let '(fp, r2) := match r1 with
                   | c :: r => if (c =? 46)%N then span_digits r else ([], r1)
                   | [] => ([], [])
                   end in
  negb (length ip + length fp =? 0) && exp_ok r2.
Definition inf_nan_words : list (list N) :=
  [ [105;110;102]; [105;110;102;105;110;105;116;121]; [110;97;110] ]%N.
Definition is_float (f : list N) : bool :=
  match f with
  | [] => false
  | c :: r =>
      let body := if is_sign c then r else f in
      number_ok body || existsb (bytes_eqb (map lower body)) inf_nan_words
  end.

(* ------------------------------------------------------------------ CandidateType *)
Inductive cand := CBool | CInt | CFloat | CTimestamp | CUtf8.

Definition cand_rank (c : cand) : nat :=
  match c with CBool => 0 | CInt => 1 | CFloat => 2 | CTimestamp => 3 | CUtf8 => 4 end.

(* CandidateType::is_valid *)
Definition is_valid (c : cand) (f : list N) : bool :=
  match c with
  | CBool => is_bool f
  | CInt => is_int f
  | CFloat => is_float f
  | CTimestamp => false
  | CUtf8 => true
  end.

(* CandidateType::update_from_input, the recursion unrolled (Timestamp always moves on to Utf8) *)
Definition update (c : cand) (f : list N) : cand :=
  match f with
  | [] => c
  | _ =>
      match c with
      | CBool => if is_bool f then CBool else if is_int f then CInt else if is_float f then CFloat else CUtf8
      | CInt => if is_int f then CInt else if is_float f then CFloat else CUtf8
      | CFloat => if is_float f then CFloat else CUtf8
      | CTimestamp => CUtf8
      | CUtf8 => CUtf8
      end
  end.

(* the second pass of infer_from_records: `if !field.is_empty() && !candidate.is_valid(field) { Utf8 }` *)
Definition revalidate (c : cand) (f : list N) : cand :=
  match f with
  | [] => c
  | _ => if is_valid c f then c else CUtf8
  end.

(* `candidates.iter_mut().zip(record.iter_fields())`: the shorter side decides *)
Fixpoint zip_row (g : cand -> list N -> cand) (cs : list cand) (fs : list (list N)) : list cand :=
  match cs, fs with
  | c :: cs', f :: fs' => g c f :: zip_row g cs' fs'
  | _, _ => cs
  end.
Definition update_row := zip_row update.
Definition revalidate_row := zip_row revalidate.

(* one column seen alone: the values of the rows after the first, in row order *)
Definition col_type (vs : list (list N)) : cand := fold_left revalidate vs (fold_left update vs CBool).
(* OLD (before the re-validation pass was added): the chain alone *)
Definition col_type_old (vs : list (list N)) : cand := fold_left update vs CBool.

Definition is_empty (f : list N) : bool := match f with [] => true | _ => false end.

Record schema := { has_header : bool; col_types : list cand; col_names : list (option (list N)) }.
(* a name is Some header field, or None = generated "column<idx>" *)

(* CsvSchema::infer_from_records; None = the "no records" error.  Two passes over the records after the first
   (widen, then re-validate).  The header rule is the documented one (reader.rs module doc: "trying to parse the first
   record into the inferred types ... If it differs, assume a header"): the first record is a header iff some field of
   it is not `is_valid` for its column's type; an EMPTY field is not valid for Boolean/Int64/Float64, so an empty
   header name over a typed column marks a header (slt/csv/infer/empty_header_names.slt pins ",,\n1,mario,4\n.."). *)
Definition infer_schema (records : list (list (list N))) : option schema :=
  match records with
  | [] => None
  | first :: rest =>
      let cands := fold_left revalidate_row rest (fold_left update_row rest (repeat CBool (length first))) in
      let hdr := existsb (fun p => negb (is_valid (snd p) (fst p))) (combine first cands) in
      Some {| has_header := hdr; col_types := cands;
              col_names := if hdr then map (fun p => Some (fst p)) (combine first cands)
                           else map (fun _ => None) cands |}
  end.

(* ------------------------------------------------------------------ dialect inference *)
Definition dialects : list dialect :=
  [ {| delim := 44; quote := 34 |}; {| delim := 124; quote := 34 |};
    {| delim := 59; quote := 34 |}; {| delim := 9; quote := 34 |};
    {| delim := 44; quote := 39 |}; {| delim := 124; quote := 39 |};
    {| delim := 59; quote := 39 |}; {| delim := 9; quote := 39 |} ]%N.
Definition default_dialect : dialect := {| delim := 44; quote := 34 |}%N.

(* one iteration of the loop over dialects(): `best` = (dialect, fields) *)
Definition try_dialect (sample : list N) (eof : bool) (best : option dialect * nat) (d : dialect)
  : option (option dialect * nat) :=
  match run_sample d eof sample with
  | None => None                                  (* a slice out of range: panic *)
  | Some recs =>
      match recs with
      | r0 :: _ :: _ =>
          let n := length r0 in
          if n <? 2 then Some best
          else if n <=? snd best then Some best
          else if forallb (fun r => length r =? n) recs then Some (Some d, n)
          else Some best
      | _ => Some best
      end
  end.

Fixpoint infer_loop (sample : list N) (eof : bool) (ds : list dialect) (best : option dialect * nat)
  : option (option dialect * nat) :=
  match ds with
  | [] => Some best
  | d :: rest =>
      match try_dialect sample eof best d with
      | None => None
      | Some b => infer_loop sample eof rest b
      end
  end.

(* DialectOptions::infer_from_sample_with_eof (infer_from_sample = eof false): outer None = panic, inner None = no
   dialect found *)
Definition infer_dialect (sample : list N) (eof : bool) : option (option dialect) :=
  option_map fst (infer_loop sample eof dialects (None, 0)).

(* ------------------------------------------------------------------ bind + scan of one file *)
(* reader.rs write_primitive / write_string: the column count is tested per record, an empty field is NULL,
   a non-empty field must parse as the column type.  None = the statement fails. *)
Definition type_cell (c : cand) (f : list N) : option (option (list N)) :=
  match f with
  | [] => Some None
  | _ => if is_valid c f then Some (Some f) else None
  end.
Fixpoint type_row (cs : list cand) (fs : list (list N)) : option (list (option (list N))) :=
  match cs, fs with
  | [], [] => Some []
  | c :: cs', f :: fs' =>
      match type_cell c f, type_row cs' fs' with
      | Some v, Some vs => Some (v :: vs)
      | _, _ => None
      end
  | _, _ => None
  end.
Fixpoint type_rows (cs : list cand) (rows : list (list (list N))) : option (list (list (option (list N)))) :=
  match rows with
  | [] => Some []
  | r :: rest =>
      match type_row cs r, type_rows cs rest with
      | Some v, Some vs => Some (v :: vs)
      | _, _ => None
      end
  end.

Inductive scan_result :=
| ScanPanic
| ScanBindErr                                   (* infer_from_records failed *)
| ScanOk (d : option dialect) (s : schema) (rows : option (list (list (option (list N))))).
(* rows = None: the scan raises an error *)

(* file.call_read_fill(&mut buf[..k]): (bytes read, rest of the file, buffer filled?) *)
Fixpoint split_n (l : list N) (k : N) : list N * list N * bool :=
  if (k =? 0)%N then ([], l, true)
  else match l with
       | [] => ([], [], false)
       | x :: r => let '(a, b, f) := split_n r (N.pred k) in (x :: a, b, f)
       end.

Record bind_sample_result := { bs_dialect : option dialect; bs_recs : list (list (list N)); bs_eof : bool; bs_len : N }.

(* the loop of ReadCsv::bind: `acc` = infer_buf[0..n], `buflen` = infer_buf.len(), `eof` = n < infer_buf.len(), `rest` =
   the file after the bytes read so far.  Dialect and records are inferred from the sample; if it holds fewer than two
   complete records, does not reach the end of the file and is shorter than `max` (MAX_INFER_BUF_SIZE) the buffer
   is doubled and filled.  None = a panic, or the fuel ran out (never with fuel > log2 max and buflen >= 1). *)
Fixpoint bind_sample (fuel : nat) (max buflen : N) (acc rest : list N) (eof : bool) : option bind_sample_result :=
  match infer_dialect acc eof with
  | None => None
  | Some od =>
      let d := match od with Some d => d | None => default_dialect end in
      match run_sample d eof acc with
      | None => None
      | Some recs =>
          if (2 <=? length recs) || eof || (max <=? buflen)%N
          then Some {| bs_dialect := od; bs_recs := recs; bs_eof := eof; bs_len := buflen |}
          else match fuel with
               | O => None
               | S k =>
                   let '(more, rest', filled) := split_n rest buflen in
                   bind_sample k max (2 * buflen)%N (acc ++ more) rest' (negb filled)
               end
      end
  end.

(* OLD (before the sample could grow): one read of `init` bytes *)
Definition bind_sample_old (init : N) (data : list N) : option bind_sample_result :=
  let '(first, rest, filled) := split_n data init in bind_sample 0 0 init first rest (negb filled).

Definition bind_sample_file (init max : N) (data : list N) : option bind_sample_result :=
  let '(first, rest, filled) := split_n data init in
  bind_sample (S (N.to_nat (N.log2 max))) max init first rest (negb filled).

(* ReadCsv::bind (init = INFER_BUF_SIZE, max = MAX_INFER_BUF_SIZE) on the file `data`, then CsvReader over `chunks`
   (the same file cut at the read-buffer size) with batches of `out_cap` rows. *)
Definition read_csv_with (sample : option bind_sample_result) (out_cap : nat) (chunks : list (list N)) : scan_result :=
  match sample with
  | None => ScanPanic
  | Some r =>
      let d := match bs_dialect r with Some d => d | None => default_dialect end in
      match infer_schema (bs_recs r) with
      | None => ScanBindErr
      | Some s =>
          match reader_loop_h d out_cap (has_header s) h_init chunks with
          | None => ScanPanic
          | Some rows => ScanOk (bs_dialect r) s (type_rows (col_types s) rows)
          end
      end
  end.
Definition read_csv (init max : N) (data : list N) (out_cap : nat) (chunks : list (list N)) : scan_result :=
  read_csv_with (bind_sample_file init max data) out_cap chunks.
Definition read_csv_old (init : N) (data : list N) (out_cap : nat) (chunks : list (list N)) : scan_result :=
  read_csv_with (bind_sample_old init data) out_cap chunks.
