(* C04 — model of crates/glaredb_rt_native/src/threaded/task.rs (TaskState::schedule, the worker
   closure, execute) and handle.rs (ThreadedQueryHandle::cancel), for ONE task.  Definitions only.
   Every event is one critical section of `sched_state` (or the lock-free part between two of
   them), so any interleaving of threads is a sequence of these events.

   wake        = TaskState::schedule() (Wake::wake, the initial spawn, and the call in cancel()).
   cancel_set  = `sched_guard.canceled = true` in cancel(); cancel() then calls schedule(), which
                 is an ordinary wake event that follows at any later point.
   begin w     = worker closure w enters `state.execute()` (first iteration, or `continue`).
   exec_done w r = execute() returned in worker w: r = XDone (Ready(Ok): profile put, returns true),
                 XErr (Ready(Err): errors.set_error(e), returns true since baf9ea120), XPend (Pending: false).
   end w       = the critical section after execute(): `completed = r; if pending {pending = false;
                 if completed {break} /*else continue*/} else {running = false; break}`.

   Worker closures are numbered in spawn order; the single-worker property is a THEOREM, so the
   model keeps a list of them. *)
From Coq Require Import List Arith Bool.
Import ListNotations.

Inductive xres := XDone | XErr | XPend.
(* what execute() returns: since commit baf9ea120 the Ready(Err) arm returns true as well (a failed
   pipeline is done); before it returned false *)
Definition xres_completed (r : xres) : bool := match r with XDone | XErr => true | XPend => false end.

Inductive wphase :=
| WSpawned                 (* closure handed to the pool, not yet running *)
| WExec                    (* inside execute() *)
| WGot (r : xres)          (* execute() returned r, sched_state lock not yet taken *)
| WLoop                    (* chose `continue`: about to call execute() again *)
| WExited.

Record tstate := {
  running : bool; pending : bool; completed : bool; canceled : bool;
  workers : list wphase;
  (* pipeline: profile taken (poll_execute answered Ready(Ok) once) *)
  pipe_done : bool;
  (* ghost *)
  owed : bool;            (* a wake was accepted (not completed, not canceled) and no execute() began since *)
  cancel_reports : nat;   (* calls of errors.set_error("Query canceled") *)
  errored : bool;         (* some execute() returned XErr *)
  execs_after_err : nat;  (* execute() calls begun after an execute() returned XErr *)
  execs_after_done : nat  (* execute() calls begun after an execute() returned XDone *)
}.

Definition init : tstate :=
  {| running := false; pending := false; completed := false; canceled := false; workers := [];
     pipe_done := false; owed := false; cancel_reports := 0; errored := false;
     execs_after_err := 0; execs_after_done := 0 |}.

Inductive event :=
| EWake | ECancelSet | EBegin (w : nat) | EExecDone (w : nat) (r : xres) | EEnd (w : nat).

Fixpoint set_nth (l : list wphase) (i : nat) (p : wphase) : list wphase :=
  match l, i with
  | [], _ => []
  | _ :: t, 0 => p :: t
  | h :: t, S k => h :: set_nth t k p
  end.

Definition upd_workers (s : tstate) (ws : list wphase) : tstate :=
  {| running := running s; pending := pending s; completed := completed s; canceled := canceled s;
     workers := ws; pipe_done := pipe_done s; owed := owed s; cancel_reports := cancel_reports s;
     errored := errored s; execs_after_err := execs_after_err s; execs_after_done := execs_after_done s |}.

(* schedule() *)
Definition do_wake (s : tstate) : tstate :=
  if completed s then s
  else if canceled s then
    {| running := running s; pending := pending s; completed := completed s; canceled := canceled s;
       workers := workers s; pipe_done := pipe_done s; owed := owed s;
       cancel_reports := S (cancel_reports s);
       errored := errored s; execs_after_err := execs_after_err s; execs_after_done := execs_after_done s |}
  else if running s then
    {| running := true; pending := true; completed := completed s; canceled := canceled s;
       workers := workers s; pipe_done := pipe_done s; owed := true; cancel_reports := cancel_reports s;
       errored := errored s; execs_after_err := execs_after_err s; execs_after_done := execs_after_done s |}
  else
    {| running := true; pending := pending s; completed := completed s; canceled := canceled s;
       workers := workers s ++ [WSpawned]; pipe_done := pipe_done s; owed := true;
       cancel_reports := cancel_reports s;
       errored := errored s; execs_after_err := execs_after_err s; execs_after_done := execs_after_done s |}.

Definition do_cancel_set (s : tstate) : tstate :=
  {| running := running s; pending := pending s; completed := completed s; canceled := true;
     workers := workers s; pipe_done := pipe_done s; owed := owed s; cancel_reports := cancel_reports s;
     errored := errored s; execs_after_err := execs_after_err s; execs_after_done := execs_after_done s |}.

(* entering execute() *)
Definition do_begin (s : tstate) (w : nat) : option tstate :=
  match nth_error (workers s) w with
  | Some WSpawned | Some WLoop =>
      Some {| running := running s; pending := pending s; completed := completed s; canceled := canceled s;
              workers := set_nth (workers s) w WExec; pipe_done := pipe_done s; owed := false;
              cancel_reports := cancel_reports s; errored := errored s;
              execs_after_err := (if errored s then S (execs_after_err s) else execs_after_err s);
              execs_after_done := (if pipe_done s then S (execs_after_done s) else execs_after_done s) |}
  | _ => None
  end.

(* execute() returns r.  A pipeline whose profile was taken can only answer Err. *)
Definition do_exec_done (s : tstate) (w : nat) (r : xres) : option tstate :=
  match nth_error (workers s) w with
  | Some WExec =>
      if pipe_done s && negb (match r with XErr => true | _ => false end) then None
      else
      Some {| running := running s; pending := pending s; completed := completed s; canceled := canceled s;
              workers := set_nth (workers s) w (WGot r);
              pipe_done := (match r with XDone => true | _ => pipe_done s end);
              owed := owed s; cancel_reports := cancel_reports s;
              errored := (match r with XErr => true | _ => errored s end);
              execs_after_err := execs_after_err s; execs_after_done := execs_after_done s |}
  | _ => None
  end.

(* the critical section after execute() *)
Definition do_end (s : tstate) (w : nat) : option tstate :=
  match nth_error (workers s) w with
  | Some (WGot r) =>
      let c := xres_completed r in
      if pending s then
        Some {| running := running s; pending := false; completed := c; canceled := canceled s;
                workers := set_nth (workers s) w (if c then WExited else WLoop);
                pipe_done := pipe_done s; owed := owed s; cancel_reports := cancel_reports s;
                errored := errored s; execs_after_err := execs_after_err s; execs_after_done := execs_after_done s |}
      else
        Some {| running := false; pending := false; completed := c; canceled := canceled s;
                workers := set_nth (workers s) w WExited;
                pipe_done := pipe_done s; owed := owed s; cancel_reports := cancel_reports s;
                errored := errored s; execs_after_err := execs_after_err s; execs_after_done := execs_after_done s |}
  | _ => None
  end.

Definition step (s : tstate) (e : event) : option tstate :=
  match e with
  | EWake => Some (do_wake s)
  | ECancelSet => Some (do_cancel_set s)
  | EBegin w => do_begin s w
  | EExecDone w r => do_exec_done s w r
  | EEnd w => do_end s w
  end.

Fixpoint run (s : tstate) (tr : list event) : option tstate :=
  match tr with
  | [] => Some s
  | e :: more => match step s e with Some s' => run s' more | None => None end
  end.

(* trace acceptance, used to validate the model against event logs of the real runtime *)
Definition accepts (tr : list event) : bool :=
  match run init tr with Some _ => true | None => false end.

Definition alive (p : wphase) : bool := match p with WExited => false | _ => true end.
Definition n_alive (s : tstate) : nat := length (filter alive (workers s)).
Definition in_execute (p : wphase) : bool := match p with WExec => true | _ => false end.
Definition n_in_execute (s : tstate) : nat := length (filter in_execute (workers s)).
