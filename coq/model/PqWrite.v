(* The specification encoder: table + layout -> the bytes of a Parquet file (uncompressed,
   flat schema).  After extraction this is the project's independent Parquet writer
   (used by C10, C11, C19).  Definitions only.

   file   = "PAR1" row-group* footer(thrift FileMetaData) le32(len footer) "PAR1"
   row group = one column chunk per column = [dictionary page] data-page+
   page   = thrift PageHeader, then (v1) [le32 len, def levels] values | (v2) [def levels] values *)
From Coq Require Import NArith ZArith List Bool.
From GV Require Import model.PqBits model.PqDelta model.PqThrift.
Import ListNotations.
Open Scope N_scope.

Inductive enc := EPlain | EDict | ERle | EDbp | EDlba | EDba | EBss.
Definition enc_id (e : enc) : Z :=
  match e with EPlain => 0 | EDict => 8 | ERle => 3 | EDbp => 5 | EDlba => 6 | EDba => 7 | EBss => 9 end%Z.

(* SchemaElement.logicalType (field 10), the union members the reader knows *)
Inductive logical :=
| LString | LDate | LFloat16
| LInteger (bits : Z) (signed : bool)
| LDecimal (scale precision : Z)
| LTimestamp (utc : bool) (unit : N).      (* unit: 1 MILLIS, 2 MICROS, 3 NANOS *)

Record column := mk_column {
  c_name : list N; c_ty : ptype;
  c_conv : option Z;                 (* SchemaElement.converted_type (field 6) *)
  c_logical : option logical;        (* SchemaElement.logicalType (field 10) *)
  c_decimal : option (Z * Z);        (* SchemaElement.scale (7), precision (8) *)
  c_optional : bool;
  c_vals : list (option pval) }.

(* ---------- column chunk statistics (ColumnMetaData.statistics, field 12) ---------- *)
(* how min / max are chosen: numbers as signed or unsigned integers of the physical width (floats:
   IEEE order, NaN skipped), byte arrays lexicographically with signed or unsigned bytes *)
Inductive stat_order := OSigned | OUnsigned.
(* per row group: computed from the values, left out, or given literally *)
Inductive stat_chunk :=
| ScAuto
| ScAbsent
| ScRaw (mn mx : option (list N)) (nulls : option Z).
Record stats_spec := mk_ss {
  s_new : bool;                      (* write min_value / max_value (fields 6 / 5) *)
  s_old : bool;                      (* write the deprecated min / max (fields 2 / 1) *)
  s_order : stat_order;
  s_nulls : bool;                    (* write null_count (field 3) *)
  s_exact : option bool;             (* is_max_value_exact / is_min_value_exact (fields 7 / 8) *)
  s_chunks : list (N * stat_chunk) }. (* overrides by row group ordinal, default ScAuto *)
Definition no_stats : stats_spec := mk_ss false false OSigned false None [].

Record col_layout := mk_cl {
  l_enc : enc;
  l_pages : list nat;                (* rows per data page, the last size repeats *)
  l_min_rle : nat; l_groups : nat;   (* hybrid streams: RLE run threshold, groups per literal run *)
  l_block : N; l_mbc : N;            (* delta: block size, miniblocks per block *)
  l_dict_extra : N;                  (* extra bits on the dictionary index width *)
  l_stats : stats_spec }.

Record layout := mk_layout {
  y_v2 : bool;
  y_rgs : list nat;                  (* rows per row group, the last size repeats *)
  y_cols : list col_layout;
  y_created_by : list N;
  y_lvl_min_rle : nat; y_lvl_groups : nat;
  y_column_orders : bool }.          (* FileMetaData.column_orders (field 7): TYPE_ORDER for every column *)

Definition default_cl : col_layout := mk_cl EPlain [1000%nat] 8 1 128 4 0 no_stats.

Fixpoint split_sizes {A} (fuel : nat) (sizes : list nat) (xs : list A) : list (list A) :=
  match fuel with
  | O => []
  | S f =>
    match xs with
    | [] => []
    | _ => let k := Nat.max 1 (hd 1%nat sizes) in
           firstn k xs ::
           split_sizes f (match sizes with _ :: ((_ :: _) as r) => r | _ => sizes end) (skipn k xs)
    end
  end.
Definition split_by {A} (sizes : list nat) (xs : list A) : list (list A) := split_sizes (length xs) sizes xs.

Definition non_null (rows : list (option pval)) : list pval :=
  flat_map (fun o => match o with Some v => [v] | None => [] end) rows.

Fixpoint dict_add (d : list pval) (v : pval) : list pval :=
  match d with
  | [] => [v]
  | x :: r => if pval_eqb x v then d else x :: dict_add r v
  end.
Definition build_dict (vals : list pval) : list pval := fold_left dict_add vals [].
Fixpoint index_of (d : list pval) (v : pval) : N :=
  match d with [] => 0 | x :: r => if pval_eqb x v then 0 else 1 + index_of r v end.

Definition len {A} (l : list A) : N := N.of_nat (length l).
Definition zlen {A} (l : list A) : Z := Z.of_nat (length l).

Definition delta_bits (t : ptype) : N := match t with PInt32 => 32 | _ => 64 end.

Definition encode_values (t : ptype) (cl : col_layout) (dict : list pval) (vals : list pval) : list N :=
  match l_enc cl with
  | EPlain => plain_encode t vals
  | EDict => let w := N.size (len dict - 1) + l_dict_extra cl in
             w :: rle_encode w (l_min_rle cl) (l_groups cl) (map (index_of dict) vals)
  | ERle => let d := rle_encode 1 (l_min_rle cl) (l_groups cl) (map pnum vals) in le_bytes 4 (len d) ++ d
  | EDbp => dbp_encode (delta_bits t) (l_block cl) (l_mbc cl) (map pnum vals)
  | EDlba => dlba_encode (l_block cl) (l_mbc cl) (map pbytes vals)
  | EDba => dba_encode (l_block cl) (l_mbc cl) (map pbytes vals)
  | EBss => bss_encode (num_bytes t) (map pnum vals)
  end.

Definition def_levels (y : layout) (rows : list (option pval)) : list N :=
  rle_encode 1 (y_lvl_min_rle y) (y_lvl_groups y) (map (fun o => match o with Some _ => 1 | None => 0 end) rows).

Definition data_page (y : layout) (c : column) (cl : col_layout) (dict : list pval) (rows : list (option pval)) : list N :=
  let vals := non_null rows in
  let data := encode_values (c_ty c) cl dict vals in
  let lv := if c_optional c then def_levels y rows else [] in
  let n := zlen rows in
  let e := enc_id (l_enc cl) in
  if y_v2 y then
    let page := lv ++ data in
    tenc (TStruct [(1, TI32 3); (2, TI32 (zlen page)); (3, TI32 (zlen page));
                   (8, TStruct [(1, TI32 n); (2, TI32 (n - zlen vals)); (3, TI32 n); (4, TI32 e);
                                (5, TI32 (zlen lv)); (6, TI32 0); (7, TBool false)])]) ++ page
  else
    let page := (if c_optional c then le_bytes 4 (len lv) ++ lv else []) ++ data in
    tenc (TStruct [(1, TI32 0); (2, TI32 (zlen page)); (3, TI32 (zlen page));
                   (5, TStruct [(1, TI32 n); (2, TI32 e); (3, TI32 3); (4, TI32 3)])]) ++ page.

Definition dict_page (c : column) (dict : list pval) : list N :=
  let d := plain_encode (c_ty c) dict in
  tenc (TStruct [(1, TI32 2); (2, TI32 (zlen d)); (3, TI32 (zlen d));
                 (7, TStruct [(1, TI32 (zlen dict)); (2, TI32 0)])]) ++ d.

(* one column chunk: (dictionary page bytes, data pages bytes) *)
Definition encode_chunk (y : layout) (c : column) (cl : col_layout) (rows : list (option pval)) : list N * list N :=
  let dict := match l_enc cl with EDict => build_dict (non_null rows) | _ => [] end in
  let dp := match l_enc cl with EDict => dict_page c dict | _ => [] end in
  (dp, flat_map (data_page y c cl dict) (split_by (l_pages cl) rows)).


(* ordering keys *)
Definition phys_bits (t : ptype) : N :=
  match t with PBool => 1 | PInt32 | PFloat => 32 | PInt64 | PDouble => 64 | PInt96 => 96 | _ => 0 end.
Definition is_float (t : ptype) : bool := match t with PFloat | PDouble => true | _ => false end.
(* IEEE order of a float bit pattern (sign-magnitude), None for NaN *)
Definition float_key (bits x : N) : option Z :=
  let mant_bits := if bits =? 32 then 23 else 52 in
  let mag := x mod 2 ^ (bits - 1) in
  if (2 ^ (bits - 1) - 2 ^ mant_bits <? mag) then None
  else Some (if x <? 2 ^ (bits - 1) then Z.of_N mag else (- Z.of_N mag)%Z).
Definition num_key (t : ptype) (o : stat_order) (x : N) : option Z :=
  if is_float t then float_key (phys_bits t) x
  else match o with OSigned => Some (to_signed (phys_bits t) x) | OUnsigned => Some (Z.of_N x) end.
Fixpoint bytes_cmp (o : stat_order) (a b : list N) : comparison :=
  match a, b with
  | [], [] => Eq
  | [], _ => Lt
  | _, [] => Gt
  | x :: a', y :: b' =>
      let k v := match o with OSigned => to_signed 8 v | OUnsigned => Z.of_N v end in
      match Z.compare (k x) (k y) with Eq => bytes_cmp o a' b' | c => c end
  end.
(* a <= b in the chosen order; values without a key (NaN) are never chosen *)
Definition stat_le (t : ptype) (o : stat_order) (a b : pval) : bool :=
  match a, b with
  | VNum x, VNum y => match num_key t o x, num_key t o y with
                      | Some kx, Some ky => (kx <=? ky)%Z
                      | _, _ => true end
  | VBytes x, VBytes y => match bytes_cmp o x y with Gt => false | _ => true end
  | _, _ => true
  end.
Definition has_key (t : ptype) (o : stat_order) (v : pval) : bool :=
  match v with VNum x => match num_key t o x with Some _ => true | None => false end | VBytes _ => true end.
Definition stat_min (t : ptype) (o : stat_order) (vals : list pval) : option pval :=
  fold_left (fun acc v => if has_key t o v then
                            match acc with None => Some v | Some m => if stat_le t o m v then Some m else Some v end
                          else acc) vals None.
Definition stat_max (t : ptype) (o : stat_order) (vals : list pval) : option pval :=
  fold_left (fun acc v => if has_key t o v then
                            match acc with None => Some v | Some m => if stat_le t o v m then Some m else Some v end
                          else acc) vals None.
(* PLAIN encoding of one value, byte arrays without length prefix, booleans as one byte *)
Definition stat_bytes (t : ptype) (v : pval) : list N :=
  match t, v with
  | PBool, VNum n => [n]
  | _, VBytes b => b
  | _, VNum n => le_bytes (num_bytes t) n
  end.

Definition stats_tval (sp : stats_spec) (mn mx : option (list N)) (nulls : option Z) : option tval :=
  if negb (s_new sp || s_old sp || s_nulls sp) then None else
  Some (TStruct (
    (if s_old sp then opt_field 1 (option_map TBin mx) ++ opt_field 2 (option_map TBin mn) else [])
    ++ (if s_nulls sp then opt_field 3 (option_map TI64 nulls) else [])
    ++ (if s_new sp then opt_field 5 (option_map TBin mx) ++ opt_field 6 (option_map TBin mn) else [])
    ++ (match s_exact sp with
        | Some b => (if s_new sp then match mx with Some _ => [(7, TBool b)] | None => [] end ++
                                      match mn with Some _ => [(8, TBool b)] | None => [] end else [])
        | None => [] end))).

Fixpoint chunk_override (l : list (N * stat_chunk)) (ord : N) : stat_chunk :=
  match l with [] => ScAuto | (o, c) :: r => if o =? ord then c else chunk_override r ord end.

(* the Statistics struct of one column chunk *)
Definition chunk_stats (t : ptype) (sp : stats_spec) (ord : N) (rows : list (option pval)) : option tval :=
  match chunk_override (s_chunks sp) ord with
  | ScAbsent => None
  | ScRaw mn mx nulls => stats_tval sp mn mx nulls
  | ScAuto =>
      let vals := non_null rows in
      match t with
      | PInt96 => stats_tval sp None None (Some (zlen rows - zlen vals)%Z)
      | _ => stats_tval sp (option_map (stat_bytes t) (stat_min t (s_order sp) vals))
                        (option_map (stat_bytes t) (stat_max t (s_order sp) vals))
                        (Some (zlen rows - zlen vals)%Z)
      end
  end.

(* what the footer says about a chunk / a row group (also printed for the metadata functions) *)
Record chunk_meta := mk_cm {
  m_type : ptype; m_enc : enc; m_name : list N;
  m_start : N; m_dict_off : option N; m_data_off : N; m_size : N; m_num_values : N;
  m_stats : option tval }.
Record rg_meta := mk_rm { g_chunks : list chunk_meta; g_bytes : N; g_rows : N; g_ordinal : N }.

(* the chunks of one row group, laid out from file offset `off` *)
Fixpoint write_chunks (y : layout) (ord : N) (off : N) (cols : list (column * col_layout * list (option pval)))
  : list N * list chunk_meta :=
  match cols with
  | [] => ([], [])
  | (c, cl, rows) :: r =>
      let '(dp, pages) := encode_chunk y c cl rows in
      let size := len dp + len pages in
      let m := mk_cm (c_ty c) (l_enc cl) (c_name c) off
                     (match dp with [] => None | _ => Some off end) (off + len dp) size (len rows)
                     (chunk_stats (c_ty c) (l_stats cl) ord rows) in
      let '(bs, ms) := write_chunks y ord (off + size) r in
      (dp ++ pages ++ bs, m :: ms)
  end.

Fixpoint write_rgs (y : layout) (cols : list (column * col_layout)) (off : N) (ord : N)
         (rgs : list (list (list (option pval))))   (* per row group, per column, the rows *)
  : list N * list rg_meta :=
  match rgs with
  | [] => ([], [])
  | per_col :: r =>
      let '(bs, ms) := write_chunks y ord off (combine cols per_col) in
      let '(bs', gs) := write_rgs y cols (off + len bs) (ord + 1) r in
      (bs ++ bs', mk_rm ms (len bs) (len (hd [] per_col)) ord :: gs)
  end.

Fixpoint transpose {A} (n : nat) (cols : list (list (list A))) : list (list (list A)) :=
  (* cols: per column the list of row-group slices -> per row group the list of column slices *)
  match n with
  | O => []
  | S k => map (fun c => hd [] c) cols :: transpose k (map (fun c => tl c) cols)
  end.

(* LogicalType union: 1 STRING, 5 DECIMAL{1 scale, 2 precision}, 6 DATE, 8 TIMESTAMP{1 utc, 2 unit{1|2|3}},
   10 INTEGER{1 bitWidth:i8, 2 isSigned}, 15 FLOAT16 *)
Definition logical_tval (l : logical) : tval :=
  match l with
  | LString => TStruct [(1, TStruct [])]
  | LDecimal sc pr => TStruct [(5, TStruct [(1, TI32 sc); (2, TI32 pr)])]
  | LDate => TStruct [(6, TStruct [])]
  | LTimestamp utc u => TStruct [(8, TStruct [(1, TBool utc); (2, TStruct [(u, TStruct [])])])]
  | LInteger b sg => TStruct [(10, TStruct [(1, TByte b); (2, TBool sg)])]
  | LFloat16 => TStruct [(15, TStruct [])]
  end.

Definition schema_elem (c : column) : tval :=
  TStruct ([(1, TI32 (type_id (c_ty c)))]
           ++ (match c_ty c with PFlba l => [(2, TI32 (Z.of_N l))] | _ => [] end)
           ++ [(3, TI32 (if c_optional c then 1 else 0)); (4, TBin (c_name c))]
           ++ opt_field 6 (option_map TI32 (c_conv c))
           ++ (match c_decimal c with Some (sc, pr) => [(7, TI32 sc); (8, TI32 pr)] | None => [] end)
           ++ opt_field 10 (option_map logical_tval (c_logical c))).

Definition chunk_tval (m : chunk_meta) : tval :=
  TStruct [(2, TI64 (Z.of_N (m_start m)));
           (3, TStruct ([(1, TI32 (type_id (m_type m)));
                         (2, TList (TI32 (enc_id (m_enc m)) :: TI32 3 ::
                                    match m_enc m with EDict => [TI32 0] | _ => [] end));
                         (3, TList [TBin (m_name m)]);
                         (4, TI32 0);
                         (5, TI64 (Z.of_N (m_num_values m)));
                         (6, TI64 (Z.of_N (m_size m)));
                         (7, TI64 (Z.of_N (m_size m)));
                         (9, TI64 (Z.of_N (m_data_off m)))]
                        ++ opt_field 11 (option_map (fun o => TI64 (Z.of_N o)) (m_dict_off m))
                        ++ opt_field 12 (m_stats m)))].

Definition rg_tval (g : rg_meta) : tval :=
  TStruct [(1, TList (map chunk_tval (g_chunks g))); (2, TI64 (Z.of_N (g_bytes g)));
           (3, TI64 (Z.of_N (g_rows g))); (7, TI16 (Z.of_N (g_ordinal g)))].

Definition magic : list N := [80; 65; 82; 49].   (* "PAR1" *)
Definition schema_name : list N := [115; 99; 104; 101; 109; 97].   (* "schema" *)

Definition nrows (cols : list column) : nat := match cols with c :: _ => length (c_vals c) | [] => O end.

Definition write_file (cols : list column) (y : layout) : list N * list rg_meta :=
  let cls := map (fun i => nth i (y_cols y) default_cl) (seq 0 (length cols)) in
  let slices := map (fun c => split_by (y_rgs y) (c_vals c)) cols in
  let nrg := length (hd [] slices) in
  let '(body, gs) := write_rgs y (combine cols cls) 4 0 (transpose nrg slices) in
  let footer := tenc (TStruct ([(1, TI32 (if y_v2 y then 2 else 1));
                               (2, TList (TStruct [(4, TBin schema_name); (5, TI32 (zlen cols))]
                                          :: map schema_elem cols));
                               (3, TI64 (Z.of_nat (nrows cols)));
                               (4, TList (map rg_tval gs));
                               (6, TBin (y_created_by y))]
                              ++ (if y_column_orders y
                                  then [(7, TList (map (fun _ => TStruct [(1, TStruct [])]) cols))] else []))) in
  (magic ++ body ++ footer ++ le_bytes 4 (len footer) ++ magic, gs).
