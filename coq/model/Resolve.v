(* C18 — function signature resolution and set-operation type unification.
   A transcription (definitions only) of
     crates/glaredb_core/src/functions/candidate.rs   CandidateSignature::find_candidates,
                                                      compare_and_fill_types, try_refine_literal,
                                                      no_cast_needed, best_datatype_for_variadic_any
     crates/glaredb_core/src/functions/mod.rs         Signature::exact_match
     crates/glaredb_core/src/functions/function_set.rs find_exact / candidates
     crates/glaredb_core/src/expr/mod.rs              bind_function_signature_from_expressions
     crates/glaredb_core/src/logical/binder/bind_query/bind_setop.rs   (output type of UNION/EXCEPT/INTERSECT)
   Type ids are the declaration index of `DataTypeId`; the score table is the graph of
   `implicit_cast_score(have, want)`; both come from gen/TablesTyping.v, regenerated from the built
   crates on every run.

   What the code does, including the parts a reader might not expect:
   * `find_candidates` ends with `sort_unstable_by` on the total score (descending) and the binder takes
     element 0 (`candidates.swap_remove(0)`).  Which of several equal-score candidates comes first is
     unspecified, so the model exposes the SET of maximal candidates ([maximal]) and, for running it, the
     first maximal one in signature order ([pick]).
   * a literal enters resolution only through `i8::try_from(v)`, `i16::try_from(v)`, `i32::try_from(v)`:
     the model keeps the smallest signed width the value fits ([litw], [classify_lit]).
   * `best_datatype_for_variadic_any` uses a strict `>` against a running best that starts at 0.
   * the set-operation binder rejects branches of different column counts, then zips the two column lists and
     compares option scores with `>=` (None < Some _). *)
From Coq Require Import NArith ZArith List Bool.
Import ListNotations.
Open Scope N_scope.

Record sig := { s_pos : list N; s_var : option N; s_ret : N }.
(* a function set: its signatures in declaration order (names: gen/TablesTyping.v scalar_names / aggregate_names) *)
Record fset := { f_sigs : list sig }.

(* smallest signed integer width an integer literal fits in *)
Inductive litw := L8 | L16 | L32 | L64.
Definition lw_rank (w : litw) : N := match w with L8 => 0 | L16 => 1 | L32 => 2 | L64 => 3 end.
Definition fits (w k : litw) : bool := lw_rank w <=? lw_rank k.
Definition classify_lit (v : Z) : litw :=
  if ((-128 <=? v) && (v <=? 127))%Z then L8
  else if ((-32768 <=? v) && (v <=? 32767))%Z then L16
  else if ((-2147483648 <=? v) && (v <=? 2147483647))%Z then L32
  else L64.

(* InputDataType: the type id, and for an Int32 / Int64 literal expression the width class of its value *)
Record input := { i_ty : N; i_lit : option litw }.

Inductive cast :=
| CNo                       (* CastType::NoCastNeeded *)
| CCast (to score : N)      (* CastType::Cast { to, score } *)
| CRefined (to score : N).  (* CastType::RefinedLiteral { refined: <to>(v), score } *)

Record params := {
  p_scores : list (list (option N));   (* implicit_cast_score(have, want), [have][want] *)
  p_ntypes : N;
  p_nocast : N;                        (* NO_CAST_SCORE *)
  p_bonus : N;                         (* REFINED_LITERAL_SCORE_BONUS *)
  p_same : N;                          (* the `total_score += 200` of best_datatype_for_variadic_any *)
  p_any : N; p_i8 : N; p_i16 : N; p_i32 : N; p_i64 : N;       (* type ids *)
  p_dec64 : N; p_dec128 : N;                                  (* type ids of Decimal64 / Decimal128 *)
  p_d8 : N; p_d16 : N; p_d32 : N; p_d64 : N }.                (* DEFAULT_IMPLICIT_CAST_SCORES.i8 .. i64 *)

Definition score (P : params) (have want : N) : option N :=
  match nth_error (p_scores P) (N.to_nat have) with
  | Some row => match nth_error row (N.to_nat want) with Some s => s | None => None end
  | None => None
  end.

(* fn no_cast_needed *)
Definition no_cast_needed (P : params) (have want : N) : bool := (want =? p_any P) || (have =? want).

(* fn try_refine_literal: -> (target id, score) *)
Definition try_refine (P : params) (h : input) (want : N) : option (N * N) :=
  match i_lit h with
  | None => None
  | Some w =>
    if i_ty h =? p_i32 P then
      if want =? p_i8 P then (if fits w L8 then Some (p_i8 P, p_d8 P + p_bonus P) else None)
      else if want =? p_i16 P then (if fits w L16 then Some (p_i16 P, p_d16 P + p_bonus P) else None)
      else if want =? p_i64 P then Some (p_i64 P, p_d64 P + p_bonus P)
      else None
    else if i_ty h =? p_i64 P then
      if want =? p_i8 P then (if fits w L8 then Some (p_i8 P, p_d8 P + p_bonus P) else None)
      else if want =? p_i16 P then (if fits w L16 then Some (p_i16 P, p_d16 P + p_bonus P) else None)
      else if want =? p_i32 P then (if fits w L32 then Some (p_i32 P, p_d32 P + p_bonus P) else None)
      else None
    else None
  end.

(* one iteration of the loops in compare_and_fill_types *)
Definition cast_one (P : params) (h : input) (want : N) : option cast :=
  if no_cast_needed P (i_ty h) want then Some CNo
  else match try_refine P h want with
       | Some (to, s) => Some (CRefined to s)
       | None => match score P (i_ty h) want with
                 | Some s => Some (CCast want s)
                 | None => None
                 end
       end.

(* `for (have, &want) in have.iter().zip(want.iter())` *)
Fixpoint fill_pos (P : params) (have : list input) (want : list N) : option (list cast) :=
  match have, want with
  | h :: hs, w :: ws =>
    match cast_one P h w with
    | Some c => match fill_pos P hs ws with Some cs => Some (c :: cs) | None => None end
    | None => None
    end
  | _, _ => Some []
  end.

(* `for have in remaining` against one expected type *)
Fixpoint fill_all (P : params) (rem : list input) (expected : N) : option (list cast) :=
  match rem with
  | [] => Some []
  | h :: hs =>
    match cast_one P h expected with
    | Some c => match fill_all P hs expected with Some cs => Some (c :: cs) | None => None end
    | None => None
    end
  end.

(* fn best_datatype_for_variadic_any *)
Definition any_total (P : params) (inputs : list input) (test : N) : N * bool :=
  fold_left (fun (acc : N * bool) (b : input) =>
               if i_ty b =? test then (fst acc + p_same P, snd acc)
               else match score P (i_ty b) test with
                    | Some s => (fst acc + s, snd acc)
                    | None => (fst acc, false)
                    end) inputs (0, true).
Definition best_any (P : params) (inputs : list input) : option N :=
  fst (fold_left (fun (best : option N * N) (a : input) =>
                    let tv := any_total P inputs (i_ty a) in
                    if (snd best <? fst tv) && snd tv then (Some (i_ty a), fst tv) else best)
                 inputs (None, 0)).

Definition arity_ok (s : sig) (n : nat) : bool :=
  match s_var s with
  | Some _ => negb (Nat.ltb n (List.length (s_pos s)))
  | None => Nat.eqb n (List.length (s_pos s))
  end.

(* fn compare_and_fill_types: Some casts = `true` with the buffer, None = `false` *)
Definition compare_and_fill (P : params) (have : list input) (s : sig) : option (list cast) :=
  if negb (arity_ok s (List.length have)) then None
  else match fill_pos P have (s_pos s) with
       | None => None
       | Some buf =>
         let rem := skipn (List.length (s_pos s)) have in
         match s_var s, rem with
         | Some e, _ :: _ =>
           match (if e =? p_any P then best_any P rem else Some e) with
           | None => None
           | Some e' => match fill_all P rem e' with Some cs => Some (buf ++ cs) | None => None end
           end
         | _, _ => Some buf
         end
       end.

Definition cast_score (P : params) (c : cast) : N :=
  match c with CNo => p_nocast P | CCast _ s => s | CRefined _ s => s end.
Definition total (P : params) (cs : list cast) : N := fold_left (fun a c => a + cast_score P c) cs 0.

(* candidates in signature order: (signature_idx, casts) *)
Fixpoint cands_from (P : params) (have : list input) (sigs : list sig) (idx : N) : list (N * list cast) :=
  match sigs with
  | [] => []
  | s :: rest =>
    match compare_and_fill P have s with
    | Some cs => (idx, cs) :: cands_from P have rest (idx + 1)
    | None => cands_from P have rest (idx + 1)
    end
  end.
Definition find_candidates (P : params) (have : list input) (sigs : list sig) := cands_from P have sigs 0.

Definition max_total (P : params) (cands : list (N * list cast)) : N :=
  fold_left (fun m c => N.max m (total P (snd c))) cands 0.
(* every candidate that `sort_unstable_by` may leave at position 0 *)
Definition maximal (P : params) (cands : list (N * list cast)) : list (N * list cast) :=
  filter (fun c => total P (snd c) =? max_total P cands) cands.
Definition pick (P : params) (cands : list (N * list cast)) : option (N * list cast) := hd_error (maximal P cands).

(* Signature::exact_match *)
Fixpoint exact_pos (P : params) (expected : list N) (have : list N) : bool :=
  match expected, have with
  | e :: es, h :: hs => ((e =? p_any P) || (h =? e)) && exact_pos P es hs
  | _, _ => true
  end.
Definition exact_match (P : params) (s : sig) (ids : list N) : bool :=
  arity_ok s (List.length ids) && exact_pos P (s_pos s) ids &&
  match s_var s with
  | Some e => forallb (fun h => negb (e =? p_any P) && (h =? e)) (skipn (List.length (s_pos s)) ids)
  | None => true
  end.
Fixpoint find_exact_from (P : params) (sigs : list sig) (ids : list N) (idx : N) : option N :=
  match sigs with
  | [] => None
  | s :: rest => if exact_match P s ids then Some idx else find_exact_from P rest ids (idx + 1)
  end.
Definition find_exact (P : params) (sigs : list sig) (ids : list N) := find_exact_from P sigs ids 0.

(* bind_function_signature_from_expressions *)
Inductive resolution :=
| RExact (idx : N)                         (* inputs unchanged *)
| RCand (idx : N) (casts : list cast)      (* casts applied to the inputs *)
| RNone.                                   (* "No function matches" *)
Definition resolve (P : params) (f : fset) (have : list input) : resolution :=
  match find_exact P (f_sigs f) (map i_ty have) with
  | Some i => RExact i
  | None => match pick P (find_candidates P have (f_sigs f)) with
            | Some (i, cs) => RCand i cs
            | None => RNone
            end
  end.

Definition sig_ret (f : fset) (idx : N) : option N := option_map s_ret (nth_error (f_sigs f) (N.to_nat idx)).

(* ---------------------------------------------------------------- the finite sweep *)
Definition wf_input (P : params) (i : input) : Prop :=
  i_ty i < p_ntypes P /\
  match i_lit i with
  | None => True
  | Some w => (i_ty i = p_i32 P /\ w <> L64) \/ i_ty i = p_i64 P
  end.

Definition type_range (P : params) : list N := map N.of_nat (seq 0 (N.to_nat (p_ntypes P))).
Definition all_inputs (P : params) : list input :=
  map (fun t => {| i_ty := t; i_lit := None |}) (type_range P) ++
  map (fun w => {| i_ty := p_i32 P; i_lit := Some w |}) [L8; L16; L32] ++
  map (fun w => {| i_ty := p_i64 P; i_lit := Some w |}) [L8; L16; L32; L64].

Fixpoint tuples {A} (k : nat) (l : list A) : list (list A) :=
  match k with
  | O => [[]]
  | S k' => flat_map (fun x => map (cons x) (tuples k' l)) l
  end.

Definition cast_eqb (a b : cast) : bool :=
  match a, b with
  | CNo, CNo => true
  | CCast t s, CCast t' s' => (t =? t') && (s =? s')
  | CRefined t s, CRefined t' s' => (t =? t') && (s =? s')
  | _, _ => false
  end.
Fixpoint casts_eqb (a b : list cast) : bool :=
  match a, b with
  | [], [] => true
  | x :: xs, y :: ys => cast_eqb x y && casts_eqb xs ys
  | _, _ => false
  end.
Definition optN_eqb (a b : option N) : bool :=
  match a, b with Some x, Some y => x =? y | None, None => true | _, _ => false end.

(* all maximal candidates agree on the cast vector and on the return type id *)
Definition agree_b (P : params) (f : fset) (have : list input) : bool :=
  match maximal P (find_candidates P have (f_sigs f)) with
  | [] => true
  | c :: rest => forallb (fun c' => casts_eqb (snd c) (snd c') && optN_eqb (sig_ret f (fst c)) (sig_ret f (fst c'))) rest
  end.
(* stronger: there is at most one maximal candidate *)
Definition unique_b (P : params) (f : fset) (have : list input) : bool :=
  match maximal P (find_candidates P have (f_sigs f)) with
  | [] | [_] => true
  | _ => false
  end.

Definition accepts_arity (f : fset) (k : nat) : bool := existsb (fun s => arity_ok s k) (f_sigs f).
Definition check_arity (P : params) (ts : list (list input)) (f : fset) (k : nat) : bool :=
  if accepts_arity f k then forallb (agree_b P f) ts else true.
Definition check_sets (P : params) (sets : list fset) : bool :=
  let ins := all_inputs P in
  let t0 := tuples 0 ins in let t1 := tuples 1 ins in let t2 := tuples 2 ins in let t3 := tuples 3 ins in
  forallb (fun f => check_arity P t0 f 0 && check_arity P t1 f 1 && check_arity P t2 f 2 && check_arity P t3 f 3) sets.

(* the tied tuples (for reporting): every (function, inputs) of arity <= 3 whose maximal candidates disagree *)
Definition ties_of (P : params) (f : fset) : list (list input) :=
  let ins := all_inputs P in
  flat_map (fun k => if accepts_arity f k then filter (fun h => negb (agree_b P f h)) (tuples k ins) else [])
           [0; 1; 2; 3]%nat.
Definition multi_max_of (P : params) (f : fset) : list (list input) :=
  let ins := all_inputs P in
  flat_map (fun k => if accepts_arity f k then filter (fun h => negb (unique_b P f h)) (tuples k ins) else [])
           [0; 1; 2; 3]%nat.

(* scores never exceed the no-cast score (so an exact match is also a maximal candidate) *)
Definition scores_bounded (P : params) : bool :=
  forallb (forallb (fun o => match o with Some s => s <=? p_nocast P | None => true end)) (p_scores P) &&
  (p_d8 P + p_bonus P <=? p_nocast P) && (p_d16 P + p_bonus P <=? p_nocast P) &&
  (p_d32 P + p_bonus P <=? p_nocast P) && (p_d64 P + p_bonus P <=? p_nocast P).

(* ---------------------------------------------------------------- set operations (bind_setop.rs) *)
(* a full data type: id + metadata (decimal precision/scale, timestamp unit, nested types) as an opaque code *)
Record dtype := { d_id : N; d_meta : list Z }.
Fixpoint zs_eqb (a b : list Z) : bool :=
  match a, b with
  | [], [] => true
  | x :: xs, y :: ys => (x =? y)%Z && zs_eqb xs ys
  | _, _ => false
  end.
Definition dtype_eqb (a b : dtype) : bool := (d_id a =? d_id b) && zs_eqb (d_meta a) (d_meta b).

(* Option<u32> `>=`: None < Some _ *)
Definition opt_ge (a b : option N) : bool :=
  match a, b with
  | _, None => true
  | None, Some _ => false
  | Some x, Some y => y <=? x
  end.

Inductive side := SNone | SLeft | SRight | SBoth.   (* which side(s) need the cast for this column *)
Definition side_of (lcast rcast : bool) : side :=
  match lcast, rcast with false, false => SNone | true, false => SLeft | false, true => SRight | true, true => SBoth end.

(* try_get_decimal_type_meta: (precision, scale) of a Decimal64 / Decimal128 type *)
Definition dec_meta (P : params) (d : dtype) : option (Z * Z) :=
  if (d_id d =? p_dec64 P) || (d_id d =? p_dec128 P)
  then match d_meta d with [p; s] => Some (p, s) | _ => None end
  else None.
Definition dec64_max_precision : Z := 18.    (* Decimal64Type::MAX_PRECISION *)
Definition dec128_max_precision : Z := 38.   (* Decimal128Type::MAX_PRECISION *)
(* since 2b1fb11f8: two decimals of different (precision, scale):
     scale = max(l.scale, r.scale); int_digits = max(l.precision - l.scale, r.precision - r.scale);
     prec = clamp(int_digits + scale, 1, 38);
     Decimal64 if prec <= 18 and both sides are Decimal64, else Decimal128;
     left_needs_cast ||= left != output; right_needs_cast ||= right != output *)
Definition dec_unify (P : params) (l r : dtype) : option (dtype * side) :=
  match dec_meta P l, dec_meta P r with
  | Some (lp, ls), Some (rp, rs) =>
    let scale := Z.max ls rs in
    let int_digits := Z.max (lp - ls) (rp - rs) in
    let prec := Z.min (Z.max (int_digits + scale) 1) dec128_max_precision in
    let out := {| d_id := if (prec <=? dec64_max_precision)%Z && (d_id l =? p_dec64 P) && (d_id r =? p_dec64 P)
                          then p_dec64 P else p_dec128 P;
                  d_meta := [prec; scale] |} in
    Some (out, side_of (negb (dtype_eqb l out)) (negb (dtype_eqb r out)))
  | _, _ => None
  end.

(* one column: `if left == right` is equality of the FULL DataType (id and metadata: decimal precision/scale,
   timestamp unit, list element type, struct fields) - the tie to the source is gen/TablesTyping.v
   setop_full_type_equality; then the decimal rule; then the scores, which look at the ids only and make the
   output one side's full type *)
Definition unify1 (P : params) (l r : dtype) : option (dtype * side) :=
  if dtype_eqb l r then Some (l, SNone)
  else match dec_unify P l r with
  | Some x => Some x
  | None =>
    let left_score := score P (d_id r) (d_id l) in
    let right_score := score P (d_id l) (d_id r) in
    match left_score, right_score with
    | None, None => None                                   (* "Cannot find suitable cast type" *)
    | _, _ => if opt_ge left_score right_score then Some (l, SRight) else Some (r, SLeft)
    end
  end.
(* `for (left, right) in left_types.into_iter().zip(right_types)`: the loop alone stops at the shorter list *)
Fixpoint unify_zip (P : params) (ls rs : list dtype) : option (list (dtype * side)) :=
  match ls, rs with
  | l :: ls', r :: rs' =>
    match unify1 P l r with
    | Some x => match unify_zip P ls' rs' with Some xs => Some (x :: xs) | None => None end
    | None => None
    end
  | _, _ => Some []
  end.
(* SetOpBinder::bind since f82a4c29b: `if left_types.len() != right_types.len() { return Err(..) }` before the loop
   (until then the binder was [unify_zip] alone) *)
Definition unify_cols (P : params) (ls rs : list dtype) : option (list (dtype * side)) :=
  if Nat.eqb (List.length ls) (List.length rs) then unify_zip P ls rs else None.

(* SetOpCastRequirement + SetOpPlanner::wrap_cast / generate_cast_expressions: a branch that needs a cast for ANY
   column gets a projection giving EVERY column the output type (`orig_type == need_type` ? column : cast);
   a branch that needs none is used as it is *)
Definition side_is (sd : side) (o : dtype * side) : bool :=
  match snd o, sd with SLeft, SLeft | SRight, SRight | SBoth, SLeft | SBoth, SRight => true | _, _ => false end.
Definition needs_cast (sd : side) (outs : list (dtype * side)) : bool := existsb (side_is sd) outs.
Definition branch_after (orig : list dtype) (outs : list (dtype * side)) (needs : bool) : list dtype :=
  if needs then map (fun p => fst (snd p)) (combine orig outs) else orig.
(* the casts the projection really contains: (from, to) with from <> to *)
Definition casts_inserted (orig : list dtype) (outs : list (dtype * side)) (needs : bool) : list (dtype * dtype) :=
  if needs then filter (fun p => negb (dtype_eqb (fst p) (snd p))) (map (fun p => (fst p, fst (snd p))) (combine orig outs))
  else [].
