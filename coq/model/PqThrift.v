(* Thrift compact protocol, writer side (specification): what crates/glaredb_ext_parquet/
   src/thrift.rs (TCompactSliceInputProtocol) must be able to read back.  Definitions only. *)
From Coq Require Import NArith ZArith List Bool.
From GV Require Import model.PqBits.
Import ListNotations.
Open Scope N_scope.

Inductive tval :=
| TBool (b : bool)
| TByte (z : Z)                                (* i8: one raw byte *)
| TI16 (z : Z)
| TI32 (z : Z)
| TI64 (z : Z)
| TBin (bs : list N)
| TStruct (fields : list (N * tval))          (* (field id, value), ids ascending *)
| TList (items : list tval).                  (* element type from the first item; empty = struct *)

(* compact type codes *)
Definition ttype (v : tval) : N :=
  match v with
  | TBool true => 1 | TBool false => 2
  | TByte _ => 3
  | TI16 _ => 4 | TI32 _ => 5 | TI64 _ => 6
  | TBin _ => 8 | TList _ => 9 | TStruct _ => 12
  end.
Definition elem_type (items : list tval) : N :=
  match items with [] => 12 | v :: _ => match v with TBool _ => 2 | _ => ttype v end end.

Definition zz_varint (z : Z) : list N := vlq_encode (zigzag_encode z).

(* field header: short form (delta << 4 | type) when 0 < delta <= 15, else type, zigzag id *)
Definition field_header (last fid ty : N) : list N :=
  if (last <? fid) && (fid - last <=? 15) then [(fid - last) * 16 + ty]
  else ty :: zz_varint (Z.of_N fid).

Definition list_header (n : nat) (ety : N) : list N :=
  if Nat.ltb n 15 then [N.of_nat n * 16 + ety] else (240 + ety) :: vlq_encode (N.of_nat n).

Fixpoint tenc (v : tval) : list N :=
  match v with
  | TBool _ => []                      (* in a struct the value lives in the field header *)
  | TByte z => [Z.to_N (z mod 256)]
  | TI16 z | TI32 z | TI64 z => zz_varint z
  | TBin bs => vlq_encode (N.of_nat (length bs)) ++ bs
  | TStruct fs =>
      (fix go (last : N) (fs : list (N * tval)) : list N :=
         match fs with
         | [] => [0]
         | (fid, x) :: r => field_header last fid (ttype x) ++ tenc x ++ go fid r
         end) 0 fs
  | TList items =>
      list_header (length items) (elem_type items) ++
      (fix go (items : list tval) : list N :=
         match items with
         | [] => []
         | x :: r => (match x with TBool b => [if b then 1 else 2] | _ => tenc x end) ++ go r
         end) items
  end.

(* optional fields: dropped when None *)
Definition opt_field (fid : N) (o : option tval) : list (N * tval) :=
  match o with Some v => [(fid, v)] | None => [] end.
