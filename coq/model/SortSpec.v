(* Specification side of ORDER BY / LIMIT / OFFSET over the declared order of
   model/SortKey.v (row_cmp), plus the executable checkers the correspondence
   stage runs on the engine's output.  Definitions only. *)
From Coq Require Import NArith ZArith List Bool.
From GV Require Import lib.Bytes model.SortKey.
Import ListNotations.

Definition rle (cs : list kcol) (a b : list kval) : bool :=
  match row_cmp cs a b with Gt => false | _ => true end.
Definition req (cs : list kcol) (a b : list kval) : bool :=
  match row_cmp cs a b with Eq => true | _ => false end.

(* a row is (sort keys, payload) ; only keys take part in the order *)
Definition srow := (list kval * list kval)%type.
Definition sle cs (a b : srow) := rle cs (fst a) (fst b).

Fixpoint insert cs (x : srow) (l : list srow) : list srow :=
  match l with
  | [] => [x]
  | y :: l' => if sle cs x y then x :: l else y :: insert cs x l'
  end.
Definition isort cs (l : list srow) : list srow := fold_right (insert cs) [] l.

Fixpoint sortedb cs (l : list srow) : bool :=
  match l with
  | [] => true
  | x :: l' => match l' with [] => true | y :: _ => sle cs x y && sortedb cs l' end
  end.

Definition slice {A} (off lim : nat) (l : list A) : list A := firstn lim (skipn off l).

Fixpoint keys_eqb cs (a b : list srow) : bool :=
  match a, b with
  | [], [] => true
  | x :: a', y :: b' => req cs (fst x) (fst y) && keys_eqb cs a' b'
  | _, _ => false
  end.

(* decidable equality on values / rows, for the multiset side *)
Fixpoint bytes_eqb (a b : list N) : bool :=
  match a, b with
  | [], [] => true
  | x :: a', y :: b' => N.eqb x y && bytes_eqb a' b'
  | _, _ => false
  end.
Definition kval_eqb (a b : kval) : bool :=
  match a, b with
  | KNull, KNull => true
  | KBits x, KBits y => N.eqb x y
  | KBytes x, KBytes y => bytes_eqb x y
  | KIv m d n, KIv m' d' n' => N.eqb m m' && N.eqb d d' && N.eqb n n'
  | _, _ => false
  end.
Fixpoint kvals_eqb (a b : list kval) : bool :=
  match a, b with
  | [], [] => true
  | x :: a', y :: b' => kval_eqb x y && kvals_eqb a' b'
  | _, _ => false
  end.
Definition srow_eqb (a b : srow) : bool := kvals_eqb (fst a) (fst b) && kvals_eqb (snd a) (snd b).

(* remove one occurrence *)
Fixpoint remove1 (x : srow) (l : list srow) : option (list srow) :=
  match l with
  | [] => None
  | y :: l' => if srow_eqb x y then Some l'
               else match remove1 x l' with Some r => Some (y :: r) | None => None end
  end.
(* out is a sub-multiset of inp *)
Fixpoint sub_bag (out inp : list srow) : bool :=
  match out with
  | [] => true
  | x :: out' => match remove1 x inp with Some inp' => sub_bag out' inp' | None => false end
  end.

(* ORDER BY keys LIMIT lim OFFSET off: `out` is an admissible answer for input `inp` iff it is
   drawn from the input, ordered, and its key sequence is that of the slice of the sorted input
   (rows with equal keys are interchangeable). *)
Definition check_order_slice cs (inp : list srow) (off : nat) (lim : option nat) (out : list srow) : bool :=
  let sorted := isort cs inp in
  let want := match lim with Some n => slice off n sorted | None => skipn off sorted end in
  sub_bag out inp && sortedb cs out && keys_eqb cs want out.
