(* A SHALLOW relational algebra over Sql.row (specification side of C02 and C09).
   Definitions only.  A relation is a list of rows read as a bag (equivalence = Permutation, `≡b`).

   Two layers:
   * the `r`-operators take predicates / functions in the `res` monad (`row -> res bool`: the three-valued
     WHERE/ON value already collapsed with Sql.opt_pred, true keeps) and evaluate them on every row exactly
     like Sql.eval_query does (mapM: every row is evaluated, the first error wins);
   * the `p`-operators are their pure shadows over total functions (`row -> bool`); RelProofs.v proves
     `r-op = Ok (p-op)` whenever all evaluations are Ok, so that plan-level laws are plain list inductions.

   Error discipline of the property: the optimizer may REMOVE evaluations, never add one that errors on a row
   the original did not evaluate: `refines orig opt` below.  Laws that move an evaluation to other rows are
   stated under explicit totality hypotheses (`total_on`). *)
From Coq Require Import NArith ZArith List Bool Permutation.
From GV Require Import model.Sql.
Import ListNotations.

(* `row`/`rel` are notations here (Sql.row is a definition): every term below is syntactically over
   `list value`, which keeps rewriting in the proofs free of delta-conversion mismatches *)
Notation row := (list value) (only parsing).
Notation rel := (list (list value)) (only parsing).
Notation pred := (list value -> res bool) (only parsing).

Definition bag_eq (a b : rel) : Prop := Permutation a b.
Infix "≡b" := bag_eq (at level 70).

(* both sides evaluate without error and to the same bag *)
Definition res_bag_eq (x y : res rel) : Prop :=
  match x, y with Ok a, Ok b => a ≡b b | _, _ => False end.
Infix "≡r" := res_bag_eq (at level 70).

(* `opt` refines `orig`: whenever the original evaluates without error so does the rewritten plan, to the same
   bag (evaluations were only removed) *)
Definition refines (orig opt : res rel) : Prop :=
  forall a, orig = Ok a -> exists b, opt = Ok b /\ a ≡b b.

Definition total_on {A} (p : row -> res A) (r : rel) : Prop := forall x, In x r -> exists v, p x = Ok v.

Definition unres {A} (d : A) (x : res A) : A := match x with Ok a => a | Err _ => d end.
Definition pure_of (p : pred) : row -> bool := fun x => unres false (p x).

(* the collapse of a three-valued value used by WHERE / ON / HAVING (Sql.opt_pred) *)
Definition collapse3 (v : value) : res bool :=
  match v with VBool b => Ok b | VNull => Ok false | _ => Err EType end.

(* predicate of an expression over the single row x (no outer environment, no database) *)
Definition pexpr (e : expr) : pred := fun x => opt_pred (eval_expr [] [x]) (Some e).

Definition pand (p q : pred) : pred := fun x => do a <- p x; do b <- q x; Ok (a && b).
Definition por (p q : pred) : pred := fun x => do a <- p x; do b <- q x; Ok (a || b).
Definition ptrue : pred := fun _ => Ok true.
(* short-circuit conjunction, left to right (what a selection executor that stops at the first false
   conjunct computes); Sql.v's AND is strict: both operands are always evaluated *)
Definition pand_sc (p q : pred) : pred := fun x => do a <- p x; if a then q x else Ok false.
Definition pand_all_sc (ps : list pred) : pred := fold_right pand_sc ptrue ps.
Definition pand_all (ps : list pred) : pred := fold_right pand ptrue ps.

(* ---------------------------------------------------------------- res-level operators *)

Definition rfilter (p : pred) (r : rel) : res rel :=
  do parts <- mapM (fun x => do b <- p x; Ok (if b then [x] else [])) r;
  Ok (concat parts).

Definition rproject (f : row -> res row) (r : rel) : res rel := mapM f r.

Definition rcross (a b : rel) : rel := flat_map (fun x => map (app x) b) a.

Definition rjoin (k : jkind) (a b : rel) (la ra : nat) (on : pred) : res rel := join_rows k a b la ra on.

Definition rlimit (off : nat) (lim : option nat) (r : rel) : rel := slice_rows off lim r.
Definition rdistinct (r : rel) : rel := dedup_rows r.
Definition runion (all : bool) (a b : rel) : rel := if all then a ++ b else dedup_rows (a ++ b).
Definition rsort (keys : list (nat * bool * bool)) (r : rel) : rel := sort_by keys r.

(* GROUP BY key + aggregates, exactly the grouping step of Sql.eval_query (QSelect, grp = Some _);
   glob = true: no GROUP BY keys, one group even over no rows *)
Definition agg_row (aggs : list (aggfn * bool * (row -> res value))) (g : row * list row) : res row :=
  do avs <- mapM (fun a => match a with (fn, dis, arg) =>
                    do vs <- mapM arg (snd g); agg_apply fn dis (length (snd g)) vs end) aggs;
  Ok (fst g ++ avs).
Definition ragg (glob : bool) (key : row -> res row) (aggs : list (aggfn * bool * (row -> res value)))
                (r : rel) : res rel :=
  do kv <- mapM (fun x => do k <- key x; Ok (k, x)) r;
  let groups := match glob, group_rows kv with
                | true, [] => [([], [])]
                | _, g => g
                end in
  mapM (agg_row aggs) groups.

(* dependent join: the subquery is evaluated once per outer row, with that row *)
Definition rdep (a : rel) (sub : row -> res rel) : res rel :=
  do parts <- mapM (fun x => do s <- sub x; Ok (map (app x) s)) a;
  Ok (concat parts).
Definition rdep_semi (a : rel) (sub : row -> res rel) : res rel :=
  do parts <- mapM (fun x => do s <- sub x; Ok (match s with [] => [] | _ => [x] end)) a;
  Ok (concat parts).
Definition rdep_anti (a : rel) (sub : row -> res rel) : res rel :=
  do parts <- mapM (fun x => do s <- sub x; Ok (match s with [] => [x] | _ => [] end)) a;
  Ok (concat parts).
Definition rdep_mark (a : rel) (sub : row -> res rel) : res rel :=
  mapM (fun x => do s <- sub x; Ok (x ++ [VBool (match s with [] => false | _ => true end)])) a.

(* ---------------------------------------------------------------- pure shadows *)

Definition pfilter (p : row -> bool) (r : rel) : rel := filter p r.
Definition pproject (f : row -> row) (r : rel) : rel := map f r.

Definition matches (on : row -> bool) (l : row) (b : rel) : rel :=
  flat_map (fun r => if on (l ++ r) then [l ++ r] else []) b.

Definition pjoin (k : jkind) (a b : rel) (la ra : nat) (on : row -> bool) : rel :=
  match k with
  | JCross | JInner => flat_map (fun l => matches on l b) a
  | JLeft => flat_map (fun l => match matches on l b with [] => [l ++ nulls ra] | m => m end) a
  | JRight => flat_map (fun r => match flat_map (fun l => if on (l ++ r) then [l ++ r] else []) a with
                                 | [] => [nulls la ++ r] | m => m end) b
  | JSemi => flat_map (fun l => if existsb (fun r => on (l ++ r)) b then [l] else []) a
  | JAnti => flat_map (fun l => if existsb (fun r => on (l ++ r)) b then [] else [l]) a
  end.

(* mark join (two-valued): every left row once, with a flag "has a partner" *)
Definition pmark (a b : rel) (on : row -> bool) : rel :=
  map (fun l => l ++ [VBool (existsb (fun r => on (l ++ r)) b)]) a.

Definition nonempty {A} (l : list A) : bool := match l with [] => false | _ => true end.

Definition pdep (a : rel) (sub : row -> rel) : rel := flat_map (fun x => map (app x) (sub x)) a.
Definition pdep_semi (a : rel) (sub : row -> rel) : rel := filter (fun x => nonempty (sub x)) a.
Definition pdep_anti (a : rel) (sub : row -> rel) : rel := filter (fun x => negb (nonempty (sub x))) a.
Definition pdep_mark (a : rel) (sub : row -> rel) : rel := map (fun x => x ++ [VBool (nonempty (sub x))]) a.

(* pure grouping: groups in order of first appearance, then one output row per group *)
Definition pgroups (key : row -> row) (r : rel) : list (row * list row) :=
  group_rows (map (fun x => (key x, x)) r).
Definition pagg (glob : bool) (key : row -> row) (out : row * list row -> row) (r : rel) : rel :=
  map out (match glob, pgroups key r with true, [] => [([], [])] | _, g => g end).

(* projection of a row on a list of column positions (the correlated columns) *)
Definition cols (cs : list nat) (x : row) : row := map (fun i => nth i x VNull) cs.

(* the two candidate join-back conditions of a decorrelated plan: T.corr vs the trailing columns of the
   right side, which carries the correlated values in its FIRST `length cs` columns *)
Definition eq_true (a b : value) : bool :=
  match cmp3 CEq a b with Ok (VBool true) => true | _ => false end.
Fixpoint row_eq_true (a b : row) : bool :=
  match a, b with
  | [], [] => true
  | x :: a', y :: b' => eq_true x y && row_eq_true a' b'
  | _, _ => false
  end.

(* ---------------------------------------------------------------- materialization (CTE / magic scan) *)

(* push side appends batches; after `finish` every scan reads the whole buffer *)
Record mat := { buf : rel; finished : bool }.
Definition mat_empty : mat := {| buf := []; finished := false |}.
Definition mat_push (m : mat) (batch : rel) : mat := {| buf := buf m ++ batch; finished := finished m |}.
Definition mat_finish (m : mat) : mat := {| buf := buf m; finished := true |}.
Definition mat_scan (m : mat) : option rel := if finished m then Some (buf m) else None.
Definition materialize (batches : list rel) : mat := mat_finish (fold_left mat_push batches mat_empty).
