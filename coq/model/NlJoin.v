(* C06 — executable model of the nested-loop join, at the algorithm level.
   Transcribed from /repo/crates/glaredb_core/src/execution/operators/nested_loop_join/
     mod.rs, cross_product.rs, match_tracker.rs.  Definitions only.

   What the source does (and the model keeps):
   * the LEFT input is pushed and collected (`ConcurrentColumnCollection`); a left row is addressed
     by its offset in the collection (`collection_scan_offset`), here (offset, row) = `lptr`;
   * every RIGHT batch is executed against the whole collection: `CrossProductState::scan_next`
     produces, for ONE left row at a time, that row repeated next to the whole right batch;
   * with a filter (`SelectionEvaluator::select`): the selected positions are the output; for RIGHT
     the positions are or-ed into `right_matches` (one flag per row of the current right batch,
     modelled as the flag carried by the row); for LEFT / SEMI / MARK a non-empty selection sets
     `left_matches[offset]` (shared by all partitions); SEMI / MARK emit nothing while probing;
   * without a filter (`plan_cross_join`: kind INNER, filter None) the cross product is the output and
     NO match flag is set on either side (see `nl_no_filter_*_latent` in the proofs: with an outer
     kind that would duplicate rows; the planner only passes `None` together with INNER or — for a
     comparison join whose condition list is empty — never from SQL as far as we could reach);
     for SEMI/MARK without filter the source returns `HasMore` with a stale output batch; the model
     emits nothing there (not transcribed, unreachable);
   * RIGHT: when the collection is exhausted for this right batch, `right_outer_result` emits the
     right rows whose flag is false, left-padded with NULLs, then the flags are reset;
   * LEFT / SEMI / MARK: after ALL partitions finished probing, every partition drains a disjoint part
     of the collection (`parallel_scan`, dynamic assignment): `left_outer_result` (unmatched rows
     padded), `left_semi_result` (matched rows), `left_mark_result` (all rows + flag).  The order and
     assignment are an input `dr` (any permutation of the collected rows).
   * LEFT ANTI and FULL are `not_implemented` in the drain. *)
From Coq Require Import NArith ZArith List Bool.
From GV Require Import model.Sql.
Import ListNotations.

Inductive nkind := NInner | NLeft | NRight | NSemi | NMark.

Definition tracks_left (k : nkind) : bool :=
  match k with NLeft | NSemi | NMark => true | NInner | NRight => false end.

Definition lptr := (nat * row)%type.

Section NlJoinModel.
  Variable filter : option (row -> row -> bool).   (* on (left row, right row) *)

  (* output of one `scan_next` + selection: left row l against the right batch rb *)
  Definition nl_cross_out (k : nkind) (rb : list row) (l : row) : list row :=
    match filter with
    | None => match k with NSemi | NMark => [] | _ => map (fun r => l ++ r) rb end
    | Some f => match k with
                | NSemi | NMark => []
                | _ => map (fun r => l ++ r) (List.filter (f l) rb)
                end
    end.

  (* left_matches.set_match(offset) when the selection is not empty *)
  Definition nl_left_mark (k : nkind) (rb : list row) (il : lptr) : list nat :=
    match filter with
    | None => []
    | Some f => if tracks_left k && existsb (f (snd il)) rb then [fst il] else []
    end.

  (* right_matches.set_matches(selection) *)
  Definition nl_right_step (st : list (row * bool)) (il : lptr) : list (row * bool) :=
    match filter with
    | None => st
    | Some f => map (fun rm => (fst rm, snd rm || f (snd il) (fst rm))) st
    end.

  (* one right batch against the whole collection *)
  Definition nl_probe_batch (k : nkind) (la : nat) (IL : list lptr) (rb : list row)
      : list row * list nat :=
    let flags := fold_left nl_right_step IL (map (fun r => (r, false)) rb) in
    let flush := match k with
                 | NRight => map (fun rm => nulls la ++ fst rm) (List.filter (fun rm => negb (snd rm)) flags)
                 | _ => []
                 end in
    (flat_map (fun il => nl_cross_out k rb (snd il)) IL ++ flush,
     flat_map (nl_left_mark k rb) IL).

  Definition nl_is_marked (marked : list nat) (il : lptr) : bool := existsb (Nat.eqb (fst il)) marked.

  Definition nl_drain_row (k : nkind) (ra : nat) (marked : list nat) (il : lptr) : list row :=
    match k with
    | NLeft => if nl_is_marked marked il then [] else [snd il ++ nulls ra]
    | NSemi => if nl_is_marked marked il then [snd il] else []
    | NMark => [snd il ++ [VBool (nl_is_marked marked il)]]
    | NInner | NRight => []
    end.

  Definition collected (Lparts : list (list (list row))) : list lptr :=
    let L := concat (concat Lparts) in combine (seq 0 (length L)) L.

  (* Lparts: left input, partitions -> batches -> rows; Rparts likewise;
     dr: the collected rows in the order the drain visits them *)
  Definition nl_join (k : nkind) (la ra : nat)
      (Lparts : list (list (list row))) (dr : list lptr) (Rparts : list (list (list row))) : list row :=
    let IL := collected Lparts in
    let res := map (nl_probe_batch k la IL) (concat Rparts) in
    flat_map fst res
    ++ (if tracks_left k then flat_map (nl_drain_row k ra (flat_map snd res)) dr else []).
End NlJoinModel.
