(* C11 model, part 3: how a list of files (and the row groups of a Parquet file) is dealt out to
   the partitions of a scan.  Transcribed from
     crates/glaredb_ext_csv/src/functions/read_csv.rs        create_pull_partition_states:
         expanded.iter().skip(partition_idx).step_by(partitions)
     crates/glaredb_core/src/functions/table/builtin/glob.rs  (same skip/step_by over path indices)
     crates/glaredb_ext_parquet/src/functions/scan.rs         create_pull_partition_states:
         row groups of the FIRST file: partition_row_groups[rg.idx % partitions].push_back(rg)
         files expanded()[1..]: .skip(partition_idx).step_by(partitions)
   The file list is expanded once, at bind time (MultiFileProvider::expand_all).  Definitions only. *)
From Coq Require Import List Arith Bool NArith.
Import ListNotations.

(* `.skip(k).step_by(p)`: drop k elements, then take one and drop p - 1, repeatedly *)
Fixpoint deal {A} (p k : nat) (l : list A) : list A :=
  match l with
  | [] => []
  | x :: r => match k with O => x :: deal p (p - 1) r | S k' => deal p k' r end
  end.

(* position of every element *)
Fixpoint indexed_from {A} (i : nat) (l : list A) : list (nat * A) :=
  match l with [] => [] | x :: r => (i, x) :: indexed_from (S i) r end.

(* row groups of the first Parquet file: group idx goes to partition idx % partitions *)
Definition deal_mod {A} (p k : nat) (l : list A) : list A :=
  map snd (filter (fun ix => Nat.eqb (fst ix mod p) k) (indexed_from 0 l)).

Section Scan.
  Variables (F R : Type).
  Variable scan : F -> list R.            (* the rows of one file, in file order *)

  (* read_csv / glob: partition k reads its files one after the other *)
  Definition part_scan (p k : nat) (files : list F) : list R := flat_map scan (deal p k files).
  (* the whole scan: the outputs of partitions 0 .. p-1 (as a bag; here in partition order) *)
  Definition multi_scan (p : nat) (files : list F) : list R :=
    flat_map (fun k => part_scan p k files) (seq 0 p).

  (* read_parquet: rgs f = the row groups of a file, rg_scan = the rows of one group *)
  Variable G : Type.
  Variable rgs : F -> list G.
  Variable rg_scan : G -> list R.
  Definition pq_part_scan (p k : nat) (files : list F) : list R :=
    match files with
    | [] => []
    | first :: rest =>
        flat_map rg_scan (deal_mod p k (rgs first)) ++
        flat_map (fun f => flat_map rg_scan (rgs f)) (deal p k rest)
    end.
  Definition pq_multi_scan (p : nat) (files : list F) : list R :=
    flat_map (fun k => pq_part_scan p k files) (seq 0 p).
End Scan.

(* ---- per-partition sequential processing with REUSABLE per-partition state.
   Transcribed from crates/glaredb_core/src/functions/table/builtin/read_text.rs (poll_pull):
   a partition owns one `buf: Vec<u8>` for all the files of its queue.  Per file:
     Opening:  if projections.has_data_column(0) { state.buf.resize(size, 0) }     (size = file size)
     Scanning: loop { read into &mut buf[buf_offset..] until 0 } ; content = the WHOLE buf
   read_csv / read_parquet reuse a reader per partition in the same way (CsvReader, Reader::prepare). ---- *)
Definition bytes := list N.

(* Vec::resize(size, 0): truncate, or pad with zeros *)
Definition resize (buf : bytes) (size : nat) : bytes := firstn size buf ++ repeat 0%N (size - length buf).
(* the read loop: the file's bytes are copied over the front of buf, as many as fit *)
Definition read_into (buf file : bytes) : bytes := firstn (length buf) file ++ skipn (length file) buf.

(* one file; `pc` = the content column is projected.  Returns the new buffer and the emitted content *)
Definition text_step (pc : bool) (buf file : bytes) : bytes * option bytes :=
  if pc then let b := read_into (resize buf (length file)) file in (b, Some b)
  else (read_into buf file, None).

Fixpoint text_reader (pc : bool) (buf : bytes) (files : list bytes) : list (option bytes) :=
  match files with
  | [] => []
  | f :: r => let '(b, out) := text_step pc buf f in out :: text_reader pc b r
  end.

(* a partition starts with `buf: Vec::new()` and reads its queue *)
Definition text_part (pc : bool) (p k : nat) (files : list bytes) : list (option bytes) :=
  text_reader pc [] (deal p k files).
Definition text_multi (pc : bool) (p : nat) (files : list bytes) : list (option bytes) :=
  flat_map (fun k => text_part pc p k files) (seq 0 p).

(* the variant that only ever GROWS the buffer (`if buf.len() < size { buf.resize(size, 0) }`):
   not what the code does; kept to show what the property excludes *)
Definition resize_grow (buf : bytes) (size : nat) : bytes :=
  if Nat.ltb (length buf) size then resize buf size else buf.
Definition text_step_grow (buf file : bytes) : bytes * option bytes :=
  let b := read_into (resize_grow buf (length file)) file in (b, Some b).
Fixpoint text_reader_grow (buf : bytes) (files : list bytes) : list (option bytes) :=
  match files with
  | [] => []
  | f :: r => let '(b, out) := text_step_grow buf f in out :: text_reader_grow b r
  end.

(* ---- the glob() table function's emission loop.  Transcribed from
   crates/glaredb_core/src/functions/table/builtin/glob.rs (Glob::poll_pull): a partition holds the
   list of its path indices ((0..n).skip(k).step_by(p)); one poll with output capacity `cap`:
     count = min(len, cap); if count == 0 { Exhausted }
     emit path_indices.iter().rev().take(count)          ("treat paths as a stack")
     path_indices.truncate(len - count)
   `caps` is the sequence of capacities of the successive polls. ---- *)
Fixpoint glob_pull {A} (caps : list nat) (l : list A) : list A :=
  match caps with
  | [] => []
  | cap :: r =>
      let count := Nat.min (length l) cap in
      match count with
      | O => []                                            (* Exhausted *)
      | S _ => firstn count (rev l) ++ glob_pull r (firstn (length l - count) l)
      end
  end.

Definition glob_part {A} (caps : nat -> list nat) (p k : nat) (paths : list A) : list A :=
  glob_pull (caps k) (deal p k paths).
Definition glob_multi {A} (caps : nat -> list nat) (p : nat) (paths : list A) : list A :=
  flat_map (fun k => glob_part caps p k paths) (seq 0 p).

(* the variant without `.rev()`: emits the FIRST count paths and still truncates from the back;
   not what the code does *)
Fixpoint glob_pull_norev {A} (caps : list nat) (l : list A) : list A :=
  match caps with
  | [] => []
  | cap :: r =>
      let count := Nat.min (length l) cap in
      match count with
      | O => []
      | S _ => firstn count l ++ glob_pull_norev r (firstn (length l - count) l)
      end
  end.
