(* C11 model, part 3: how a list of files (and the row groups of a Parquet file) is dealt out to
   the partitions of a scan.  Transcribed from
     crates/glaredb_ext_csv/src/functions/read_csv.rs        create_pull_partition_states:
         expanded.iter().skip(partition_idx).step_by(partitions)
     crates/glaredb_core/src/functions/table/builtin/glob.rs  (same skip/step_by over path indices)
     crates/glaredb_ext_parquet/src/functions/scan.rs         create_pull_partition_states:
         row groups of the FIRST file: partition_row_groups[rg.idx % partitions].push_back(rg)
         files expanded()[1..]: .skip(partition_idx).step_by(partitions)
   The file list is expanded once, at bind time (MultiFileProvider::expand_all).  Definitions only. *)
From Coq Require Import List Arith Bool.
Import ListNotations.

(* `.skip(k).step_by(p)`: drop k elements, then take one and drop p - 1, repeatedly *)
Fixpoint deal {A} (p k : nat) (l : list A) : list A :=
  match l with
  | [] => []
  | x :: r => match k with O => x :: deal p (p - 1) r | S k' => deal p k' r end
  end.

(* position of every element *)
Fixpoint indexed_from {A} (i : nat) (l : list A) : list (nat * A) :=
  match l with [] => [] | x :: r => (i, x) :: indexed_from (S i) r end.

(* row groups of the first Parquet file: group idx goes to partition idx % partitions *)
Definition deal_mod {A} (p k : nat) (l : list A) : list A :=
  map snd (filter (fun ix => Nat.eqb (fst ix mod p) k) (indexed_from 0 l)).

Section Scan.
  Variables (F R : Type).
  Variable scan : F -> list R.            (* the rows of one file, in file order *)

  (* read_csv / glob: partition k reads its files one after the other *)
  Definition part_scan (p k : nat) (files : list F) : list R := flat_map scan (deal p k files).
  (* the whole scan: the outputs of partitions 0 .. p-1 (as a bag; here in partition order) *)
  Definition multi_scan (p : nat) (files : list F) : list R :=
    flat_map (fun k => part_scan p k files) (seq 0 p).

  (* read_parquet: rgs f = the row groups of a file, rg_scan = the rows of one group *)
  Variable G : Type.
  Variable rgs : F -> list G.
  Variable rg_scan : G -> list R.
  Definition pq_part_scan (p k : nat) (files : list F) : list R :=
    match files with
    | [] => []
    | first :: rest =>
        flat_map rg_scan (deal_mod p k (rgs first)) ++
        flat_map (fun f => flat_map rg_scan (rgs f)) (deal p k rest)
    end.
  Definition pq_multi_scan (p : nat) (files : list F) : list R :=
    flat_map (fun k => pq_part_scan p k files) (seq 0 p).
End Scan.
