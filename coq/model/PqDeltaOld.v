(* The DELTA_BINARY_PACKED value decoder as it was BEFORE commit ec3835a3f (kept only for the closed
   witness lemmas of the repaired defects; not extracted, not used by the check).  Definitions only. *)
From Coq Require Import NArith ZArith List Bool.
From GV Require Import model.PqBits model.PqDelta.
Import ListNotations.
Open Scope N_scope.

Module Old.

Record dbp := mk_dbp {
  d_buf : list N; d_mbc : N; d_total : N; d_rem : N; d_widths : list N;
  d_mb_idx : N; d_mb_val : N; d_per : N; d_min : N; d_prev : N;
  d_pos : N; d_w : N }.

Definition opt_err {A} (o : option A) : outcome A := match o with Some a => Ok a | None => Err end.
Definition nth_panic (l : list N) (i : N) : outcome N :=
  match nth_error l (N.to_nat i) with Some x => Ok x | None => Panic end.

(* load_next_block *)
Definition dbp_load (bits : N) (s : dbp) : outcome dbp :=
  '(z, buf1) <- vlq_decode (d_buf s) ;;
  mn <- opt_err (from_i64 bits (zigzag_decode z)) ;;
  '(ws, buf2) <- take_bytes (N.to_nat (d_mbc s)) buf1 ;;
  w0 <- nth_panic ws 0 ;;
  Ok (mk_dbp buf2 (d_mbc s) (d_total s) (d_rem s) ws 0 0 (d_per s) mn (d_prev s) 0 w0).

(* try_new: header, and the first block whenever total_values > 0 *)
Definition dbp_new (bits : N) (buf : list N) : outcome dbp :=
  '(block, b1) <- vlq_decode buf ;;
  '(mbc, b2) <- vlq_decode b1 ;;
  '(total, b3) <- vlq_decode b2 ;;
  '(fz, b4) <- vlq_decode b3 ;;
  first <- opt_err (from_i64 bits (zigzag_decode fz)) ;;
  if mbc =? 0 then Panic else
  let s := mk_dbp b4 mbc total (total - 1) (repeat 0 (N.to_nat mbc)) 0 0 (block / mbc) 0 first 0 0 in
  if 0 <? total then dbp_load bits s else Ok s.

(* prefix sums of (delta + min_delta + prev), wrapping *)
Fixpoint dbp_accum (bits : N) (mn prev : N) (ds : list N) : list N * N :=
  match ds with
  | [] => ([], prev)
  | d :: r => let v := (d + mn + prev) mod 2 ^ bits in
              let '(vs, last) := dbp_accum bits mn v r in (v :: vs, last)
  end.

(* the `while out_idx < out.len() && self.values_remaining > 0` loop; cap = out.len() - out_idx.
   `values_remaining -= 1` underflows (overflow-checked build: panic) when more deltas are
   unpacked than remain. *)
Fixpoint dbp_go (bits : N) (fuel : nat) (cap : nat) (s : dbp) : outcome (list N * dbp) :=
  match cap with
  | O => Ok ([], s)
  | S _ =>
    if d_rem s =? 0 then Ok ([], s) else
    match fuel with
    | O => Err
    | S f =>
      s1 <- (if (d_per s <=? d_mb_val s) || (d_mbc s <=? d_mb_idx s) then dbp_load bits s else Ok s) ;;
      s2 <- (if d_mb_val s1 =? 0 then
               w <- nth_panic (d_widths s1) (d_mb_idx s1) ;;
               Ok (mk_dbp (d_buf s1) (d_mbc s1) (d_total s1) (d_rem s1) (d_widths s1) (d_mb_idx s1)
                          (d_mb_val s1) (d_per s1) (d_min s1) (d_prev s1) 0 w)
             else Ok s1) ;;
      let count := Nat.min cap (N.to_nat (d_per s2 - d_mb_val s2)) in
      '(raw, buf1, pos1) <- bit_unpack bits (d_w s2) count (d_buf s2) (d_pos s2) ;;
      if d_rem s2 <? N.of_nat count then Panic else
      let '(vs, last) := dbp_accum bits (d_min s2) (d_prev s2) raw in
      let mv := d_mb_val s2 + N.of_nat count in
      let s3 := mk_dbp buf1 (d_mbc s2) (d_total s2) (d_rem s2 - N.of_nat count) (d_widths s2)
                       (if d_per s2 <=? mv then d_mb_idx s2 + 1 else d_mb_idx s2)
                       (if d_per s2 <=? mv then 0 else mv)
                       (d_per s2) (d_min s2) last pos1 (d_w s2) in
      '(rest, s4) <- dbp_go bits f (cap - count) s3 ;;
      Ok (vs ++ rest, s4)
    end
  end.

(* read(out) with out.len() = n; slots not written keep their initial value 0 *)
Definition dbp_read (bits : N) (n : nat) (s : dbp) : outcome (list N * dbp) :=
  match n with
  | O => Ok ([], s)
  | S k =>
      '(vs, s') <- dbp_go bits (S n) k s ;;
      Ok (d_prev s :: vs ++ repeat 0 (k - length vs), s')
  end.

(* a sequence of reads on one decoder (one per batch slice of the page) *)
Fixpoint dbp_reads (bits : N) (ns : list nat) (s : dbp) : outcome (list (list N)) :=
  match ns with
  | [] => Ok []
  | n :: r => '(vs, s1) <- dbp_read bits n s ;; rest <- dbp_reads bits r s1 ;; Ok (vs :: rest)
  end.

Definition dbp_decode_split (bits : N) (buf : list N) (ns : list nat) : outcome (list (list N)) :=
  s <- dbp_new bits buf ;; dbp_reads bits ns s.

(* try_into_cursor: skip the unread rest of the current miniblock *)
Definition dbp_into_cursor (s : dbp) : outcome (list N) :=
  w <- nth_panic (d_widths s) (d_mb_idx s) ;;
  let rem_vals := d_per s - d_mb_val s in
  if (0 <? w) && (0 <? rem_vals) then
    '(_, rest) <- take_bytes (N.to_nat ((w * rem_vals + 7) / 8)) (d_buf s) ;; Ok rest
  else Ok (d_buf s).

(* the length prefix of DELTA_LENGTH_BYTE_ARRAY / DELTA_BYTE_ARRAY pages: all lengths in one
   read, then the data cursor *)
Definition dbp_read_lengths (buf : list N) : outcome (list N * list N) :=
  s <- dbp_new 32 buf ;;
  '(lens, s1) <- dbp_read 32 (N.to_nat (d_total s)) s ;;
  rest <- dbp_into_cursor s1 ;;
  Ok (lens, rest).

End Old.
