(* Model of crates/glaredb_core/src/functions/cast/builtin/{to_primitive,to_decimal}.rs together
   with the num-traits 0.2.19 `NumCast`/`ToPrimitive` macros they call, and
   arrays/scalar/decimal.rs `validate_precision`.  Executable definitions only; transcribed as
   the code is written (defects included); proofs live in proofs/CastProofs.v.

   Integers are mathematical Z plus an integer type (signedness, bit width); floats are raw bit
   patterns decoded to (sign, mantissa, exponent).  `oc` is the build's overflow-checks flag:
   with it an overflowing `*`, `pow`, `-`, `abs` panics, without it the operation wraps. *)
From Coq Require Import NArith ZArith List Bool.
Import ListNotations.
Open Scope Z_scope.

Inductive outcome (A : Type) : Type :=
| Ok (a : A)
| Err                (* CastErrorState::set_error: error for CAST, NULL for try-cast *)
| Panic.             (* the process panics (arithmetic overflow, ilog10 of a non-positive) *)
Arguments Ok {A} a.
Arguments Err {A}.
Arguments Panic {A}.

Definition obind {A B} (o : outcome A) (f : A -> outcome B) : outcome B :=
  match o with Ok a => f a | Err => Err | Panic => Panic end.

(* ---------- integer types ---------- *)
Record ity := mk_ity { i_signed : bool; i_bits : Z }.

Definition imin (t : ity) : Z := if i_signed t then - 2 ^ (i_bits t - 1) else 0.
Definition imax (t : ity) : Z := if i_signed t then 2 ^ (i_bits t - 1) - 1 else 2 ^ i_bits t - 1.
Definition in_range (t : ity) (v : Z) : bool := (imin t <=? v) && (v <=? imax t).

(* `v as T` between integer types: keep the low bits *)
Definition wrap (t : ity) (v : Z) : Z :=
  let m := v mod 2 ^ i_bits t in
  if i_signed t && (2 ^ (i_bits t - 1) <=? m) then m - 2 ^ i_bits t else m.

(* num-traits cast.rs: impl_to_primitive_{int_to_int,int_to_uint,uint_to_int,uint_to_uint};
   size_of comparisons are comparisons of bit widths *)
Definition cast_int (s d : ity) (v : Z) : outcome Z :=
  let ok :=
    match i_signed s, i_signed d with
    | true, true =>
        let mn := wrap s (imin d) in let mx := wrap s (imax d) in
        (i_bits s <=? i_bits d) || ((mn <=? v) && (v <=? mx))
    | true, false =>
        let mx := wrap s (imax d) in
        (0 <=? v) && ((i_bits s <=? i_bits d) || (v <=? mx))
    | false, true =>
        let mx := wrap s (imax d) in
        (i_bits s <? i_bits d) || (v <=? mx)
    | false, false =>
        let mx := wrap s (imax d) in
        (i_bits s <=? i_bits d) || (v <=? mx)
    end in
  if ok then Ok (wrap d v) else Err.

(* checked arithmetic in an integer type *)
Definition checked (t : ity) (v : Z) : outcome Z := if in_range t v then Ok v else Err.
Definition checked_div (t : ity) (a b : Z) : outcome Z :=
  if b =? 0 then Err else checked t (Z.quot a b).
(* unchecked arithmetic: panics with overflow checks, wraps without *)
Definition unchecked (oc : bool) (t : ity) (v : Z) : outcome Z :=
  if in_range t v then Ok v else if oc then Panic else Ok (wrap t v).

Definition I32 := mk_ity true 32.
Definition I64 := mk_ity true 64.
Definition I128 := mk_ity true 128.

(* ---------- decimals ---------- *)
(* DecimalType: primitive i64 / i128, MAX_PRECISION 18 / 38 *)
Record dty := mk_dty { d_prim : ity; d_maxp : Z }.
Definition D64 := mk_dty I64 18.
Definition D128 := mk_dty I128 38.

(* number of decimal digits of v > 0, i.e. ilog10 v + 1 (39 digits cover i128) *)
Fixpoint ndigits_fuel (fuel : nat) (v : Z) : Z :=
  match fuel with
  | O => 0
  | S f => if v <? 10 then 1 else 1 + ndigits_fuel f (v / 10)
  end.
Definition ndigits (v : Z) : Z := ndigits_fuel 40 v.

(* `base.pow(n)` in type t (unchecked: panics with overflow checks, wraps without).  Still used by
   DecimalFormatter::new; before 40311688b also by the to-decimal binds (there on an i32 literal). *)
Fixpoint pow_in (oc : bool) (t : ity) (base : Z) (n : nat) : outcome Z :=
  match n with
  | O => Ok 1
  | S k => obind (pow_in oc t base k) (fun r => unchecked oc t (r * base))
  end.

(* DecimalType::validate_precision (arrays/scalar/decimal.rs): the minimum value is handled
   before `abs`; `abs` and `ilog10` are still the panicking std operations *)
Definition validate_precision (oc : bool) (d : dty) (value precision : Z) : outcome unit :=
  if d_maxp d <? precision then Err
  else if value =? 0 then Ok tt
  else if value =? imin (d_prim d) then
    (if precision <? 2 ^ 32 - 1 then Err else Ok tt)            (* digits = u32::MAX *)
  else
    obind (unchecked oc (d_prim d) (Z.abs value)) (fun a =>
    if a <=? 0 then Panic                                        (* ilog10 of a non-positive *)
    else if precision <? ndigits a then Err else Ok tt).

(* num_traits::checked_pow(base, exp): square-and-multiply with checked_mul.  Every intermediate
   square is a factor of the result, so for base >= 1 it is Some(base^exp) exactly when base^exp
   fits the type (specification of the library routine, tied by correspondence) *)
Definition checked_pow (t : ity) (base : Z) (n : Z) : outcome Z := checked t (base ^ n).

(* IntToDecimal<S, D>: bind (scale factor in the decimal primitive, bind error when it does not fit)
   + cast of one value *)
Definition int_to_decimal (oc : bool) (s : ity) (d : dty) (precision scale : Z) (v : Z) : outcome Z :=
  obind (checked_pow (d_prim d) 10 (Z.abs scale)) (fun amt =>
  obind (cast_int s (d_prim d) v) (fun v' =>
  obind (if 0 <? scale then checked (d_prim d) (v' * amt) else checked_div (d_prim d) v' amt) (fun val =>
  obind (validate_precision oc d val precision) (fun _ => Ok val)))).

(* `<D1 as RescaleTo<D2>>::Wider`: i64 for Decimal64 -> Decimal64, i128 for the three other pairs,
   i.e. the wider of the two primitives *)
Definition wider (d1 d2 : dty) : ity :=
  if i_bits (d_prim d1) <=? i_bits (d_prim d2) then d_prim d2 else d_prim d1.

(* DecimalToDecimal<D1, D2>: bind + cast of one value.  Scale factor, rounding addition and the
   rescaling itself are computed in the wider primitive; the rescaled value is then converted to
   the target primitive (NumCast) and validated against the target precision. *)
Definition decimal_to_decimal (oc : bool) (d1 d2 : dty) (scale1 precision2 scale2 : Z) (v : Z) : outcome Z :=
  let w := wider d1 d2 in
  let scale_diff := scale1 - scale2 in
  obind (checked_pow w 10 (Z.abs scale_diff)) (fun amt =>
  let rounding := if 0 <? scale_diff then Z.quot amt 2 else 0 in
  obind (cast_int (d_prim d1) w v) (fun v' =>
  obind (if scale_diff <? 0 then checked w (v' * amt)
         else if 0 <? scale_diff then
           let adj := if 0 <=? v' then rounding else - rounding in
           obind (checked w (v' + adj)) (fun x => checked_div w x amt)
         else Ok v') (fun r0 =>
  (* `scaled.and_then(<D2::Primitive as NumCast>::from)` *)
  obind (cast_int w (d_prim d2) r0) (fun r =>
  (* `Some(v) if D2::validate_precision(v, precision).is_ok()`, anything else is the cast error *)
  match validate_precision oc d2 r precision2 with
  | Ok _ => Ok r
  | Err => Err
  | Panic => Panic
  end)))).

(* ---------- floats ---------- *)
(* IEEE binary format: mantissa bits (without the hidden bit), exponent bits *)
Record fty := mk_fty { f_mbits : Z; f_ebits : Z }.
Definition F32 := mk_fty 23 8.
Definition F64 := mk_fty 52 11.
Definition f_bits (f : fty) : Z := 1 + f_ebits f + f_mbits f.
Definition f_bias (f : fty) : Z := 2 ^ (f_ebits f - 1) - 1.

Inductive fval :=
| FNaN
| FInf (neg : bool)
| FFin (neg : bool) (m : Z) (e : Z).      (* (-1)^neg * m * 2^e, m >= 0 *)

Definition decode (f : fty) (bits : Z) : fval :=
  let mant := bits mod 2 ^ f_mbits f in
  let ex := (bits / 2 ^ f_mbits f) mod 2 ^ f_ebits f in
  let neg := negb ((bits / 2 ^ (f_mbits f + f_ebits f)) mod 2 =? 0) in
  if ex =? 2 ^ f_ebits f - 1 then (if mant =? 0 then FInf neg else FNaN)
  else if ex =? 0 then FFin neg mant (1 - f_bias f - f_mbits f)
  else FFin neg (mant + 2 ^ f_mbits f) (ex - f_bias f - f_mbits f).

(* truncation toward zero of m * 2^e *)
Definition trunc_me (m e : Z) : Z := if 0 <=? e then m * 2 ^ e else m / 2 ^ (- e).
Definition signed (neg : bool) (v : Z) : Z := if neg then - v else v.

(* exact comparison  (-1)^neg * m * 2^e  <  b   and  >  b  (b an integer) *)
Definition fin_lt (neg : bool) (m e b : Z) : bool :=
  if 0 <=? e then signed neg (m * 2 ^ e) <? b else signed neg m <? b * 2 ^ (- e).
Definition fin_gt (neg : bool) (m e b : Z) : bool :=
  if 0 <=? e then b <? signed neg (m * 2 ^ e) else b * 2 ^ (- e) <? signed neg m.

(* num-traits impl_to_primitive_float_to_{signed,unsigned}_int: accept the exclusive range
   (MIN-1, MAX+1) then `to_int_unchecked` (truncation).  The two size cases of the macro compare
   against constants that denote exactly MIN-1 (resp. MIN with >=, equivalent at that magnitude)
   and MAX+1; NaN fails both comparisons. *)
Definition cast_float_int (f : fty) (d : ity) (bits : Z) : outcome Z :=
  match decode f bits with
  | FNaN => Err
  | FInf _ => Err
  | FFin neg m e =>
      if fin_gt neg m e (imin d - 1) && fin_lt neg m e (imax d + 1)
      then Ok (signed neg (trunc_me m e)) else Err
  end.

(* round-to-nearest-even of the exact value (-1)^neg * M * 2^E (M >= 0) into format f,
   as an fval (overflow gives infinity).  Used for `v.mul(mul_scale)`. *)
Definition emin (f : fty) : Z := 1 - f_bias f - f_mbits f.          (* exponent of subnormal ulp *)
Definition emax (f : fty) : Z := 2 ^ f_ebits f - 2 - f_bias f - f_mbits f.  (* max exponent of the integer mantissa *)
Definition rne_shift (m k : Z) : Z :=       (* round m / 2^k to nearest, ties to even; k > 0 *)
  let q := m / 2 ^ k in let r := m mod 2 ^ k in let h := 2 ^ (k - 1) in
  if r <? h then q else if h <? r then q + 1 else if Z.even q then q else q + 1.
Definition round_float (f : fty) (neg : bool) (M E : Z) : fval :=
  if M =? 0 then FFin neg 0 (emin f) else
  let p := f_mbits f + 1 in
  let nb := Z.log2 M + 1 in                      (* bit length of M *)
  (* target exponent: keep p bits, not below emin *)
  let e := Z.max (E + nb - p) (emin f) in
  let m := if e <=? E then M * 2 ^ (E - e) else rne_shift M (e - E) in
  (* rounding may carry to p+1 bits *)
  let '(m, e) := if m =? 2 ^ p then (2 ^ (p - 1), e + 1) else (m, e) in
  if emax f <? e then FInf neg else FFin neg m e.

(* back to a bit pattern (NaN: the canonical quiet NaN; payloads are not modelled) *)
Definition encode (f : fty) (v : fval) : Z :=
  let sgn (neg : bool) := if neg then 2 ^ (f_mbits f + f_ebits f) else 0 in
  match v with
  | FNaN => (2 ^ f_ebits f - 1) * 2 ^ f_mbits f + 2 ^ (f_mbits f - 1)
  | FInf neg => sgn neg + (2 ^ f_ebits f - 1) * 2 ^ f_mbits f
  | FFin neg m e =>
      if m <? 2 ^ f_mbits f then sgn neg + m
      else sgn neg + (e - emin f + 1) * 2 ^ f_mbits f + (m - 2 ^ f_mbits f)
  end.

(* `v as f32/f64` for an integer (PrimToPrim int -> float: always Some) *)
Definition int_to_float (f : fty) (v : Z) : Z := encode f (round_float f (v <? 0) (Z.abs v) 0).
(* `x as f32/f64` between float types (always Some; overflow saturates to infinity) *)
Definition float_to_float (s d : fty) (bits : Z) : Z :=
  match decode s bits with
  | FNaN => encode d FNaN
  | FInf neg => encode d (FInf neg)
  | FFin neg m e => encode d (round_float d neg m e)
  end.

(* f.round(): half away from zero, result as an integer (finite case) *)
Definition round_half_away_me (m e : Z) : Z :=
  if 0 <=? e then m * 2 ^ e
  else let k := - e in (m + 2 ^ (k - 1)) / 2 ^ k.

(* product of two finite floats, rounded to nearest even in format f *)
Definition fmul (f : fty) (x y : fval) : fval :=
  match x, y with
  | FFin n1 m1 e1, FFin n2 m2 e2 => round_float f (xorb n1 n2) (m1 * m2) (e1 + e2)
  | FNaN, _ | _, FNaN => FNaN
  | FInf n1, FFin n2 m2 _ => if m2 =? 0 then FNaN else FInf (xorb n1 n2)
  | FFin n1 m1 _, FInf n2 => if m1 =? 0 then FNaN else FInf (xorb n1 n2)
  | FInf n1, FInf n2 => FInf (xorb n1 n2)
  end.

(* 10f64.powi(n), n >= 0: compiler-rt __powidf2 (r = 1; loop { if b & 1 { r *= a }; b /= 2;
   if b == 0 { break }; a *= a }).  Exact for n <= 22. *)
Fixpoint powi_loop (fuel : nat) (a r : fval) (b : Z) : fval :=
  match fuel with
  | O => r
  | S k =>
      let r := if Z.odd b then fmul F64 r a else r in
      let b := b / 2 in
      if b =? 0 then r else powi_loop k (fmul F64 a a) r b
  end.
Definition powi10 (n : Z) : fval := powi_loop 40 (FFin false 10 0) (FFin false 1 0) n.

(* `<f64 as NumCast>::from(v)` for a float v: `v as f64` (exact for f32, the identity for f64) *)
Definition to_f64 (f : fty) (bits : Z) : fval :=
  match decode f bits with
  | FFin n m e => round_float F64 n m e
  | x => x
  end.

(* FloatToDecimal<S, D>: bind (mul_scale = 10f64.powi(|scale|), an f64) + cast of one value: the
   value is widened to f64, multiplied (one IEEE rounding of the product), then .round() *)
Definition float_to_decimal (oc : bool) (f : fty) (d : dty) (precision scale : Z) (bits : Z) : outcome Z :=
  let mul_scale := powi10 (Z.abs scale) in
  match fmul F64 (to_f64 f bits) mul_scale with
  | FNaN => Err                                                  (* NumCast::from(NaN) = None *)
  | FInf _ => Err
  | FFin neg m e =>
      let r := signed neg (round_half_away_me m e) in
      (* NumCast::from(float) to the primitive: exclusive range (MIN-1, MAX+1) *)
      if in_range (d_prim d) r then
        obind (validate_precision oc d r precision) (fun _ => Ok r)
      else Err
  end.

(* ---------- nested casts (expr/cast_expr.rs CastExpr::new_using_default_casts) ---------- *)
(* CAST(CAST(x AS A) AS B) is planned as CAST(x AS B) exactly when the direct cast x -> B and the
   dropped inner cast x -> A are both flagged CastFlatten::Safe *)
Definition flatten_decision (direct_safe inner_safe : bool) : bool := direct_safe && inner_safe.

(* result of the nested expression with and without flattening, integer casts *)
Definition nested_cast (x a b : ity) (v : Z) : outcome Z := obind (cast_int x a v) (cast_int a b).
Definition planned_nested_cast (safe : ity -> ity -> bool) (x a b : ity) (v : Z) : outcome Z :=
  if flatten_decision (safe x b) (safe x a) then cast_int x b v else nested_cast x a b v.

(* ---------- specification side ---------- *)
(* a / b rounded to the nearest integer, halves away from zero (b > 0) *)
Definition rha_div (a b : Z) : Z := Z.sgn a * ((2 * Z.abs a + b) / (2 * b)).

(* what a cast of the decimal value v * 10^-s1 to DECIMAL(p2,s2) must give *)
Definition rescale_spec (s1 p2 s2 : Z) (v : Z) : outcome Z :=
  let d := if s1 <=? s2 then v * 10 ^ (s2 - s1) else rha_div v (10 ^ (s1 - s2)) in
  if Z.abs d <? 10 ^ p2 then Ok d else Err.
Definition int_spec (d : ity) (v : Z) : outcome Z := if in_range d v then Ok v else Err.
Definition float_int_spec (f : fty) (d : ity) (bits : Z) : outcome Z :=
  match decode f bits with
  | FFin neg m e => int_spec d (signed neg (trunc_me m e))
  | _ => Err
  end.
(* what a cast of the float (-1)^neg * m * 2^e to DECIMAL(p,s) must give: the exact product
   m * 2^e * 10^s rounded to the nearest integer, halves away from zero *)
Definition scaled_rha (m e s : Z) : Z :=
  if 0 <=? e then m * 10 ^ s * 2 ^ e else rha_div (m * 10 ^ s) (2 ^ (- e)).
Definition float_decimal_spec (f : fty) (p s : Z) (bits : Z) : outcome Z :=
  match decode f bits with
  | FFin neg m e => let r := signed neg (scaled_rha m e s) in if Z.abs r <? 10 ^ p then Ok r else Err
  | _ => Err
  end.

(* ---------- the code before the repairs a2e764fa7 / 40311688b / 770f0ed44 (kept for the witness lemmas) ---------- *)
Module Old.
(* DecimalType::validate_precision before a2e764fa7 *)
Definition validate_precision (oc : bool) (d : dty) (value precision : Z) : outcome unit :=
  if d_maxp d <? precision then Err
  else if value =? 0 then Ok tt
  else
    (* value.abs(): overflows for MIN *)
    obind (unchecked oc (d_prim d) (Z.abs value)) (fun a =>
    (* ilog10 panics for a non-positive argument (only reachable without overflow checks) *)
    if a <=? 0 then Panic
    else if precision <? ndigits a then Err else Ok tt).

(* IntToDecimal<S, D>: bind + cast of one value *)
Definition int_to_decimal (oc : bool) (s : ity) (d : dty) (precision scale : Z) (v : Z) : outcome Z :=
  obind (pow_in oc I32 10 (Z.abs_nat scale)) (fun amt32 =>
  (* <D::Primitive as NumCast>::from(i32).expect(..): always in range *)
  obind (cast_int I32 (d_prim d) amt32) (fun amt =>
  obind (cast_int s (d_prim d) v) (fun v' =>
  obind (if 0 <? scale then checked (d_prim d) (v' * amt) else checked_div (d_prim d) v' amt) (fun val =>
  obind (validate_precision oc d val precision) (fun _ => Ok val))))).

(* DecimalToDecimal<D1, D2>: bind + cast of one value.  NOTE: no validate_precision. *)
Definition decimal_to_decimal (oc : bool) (d1 d2 : dty) (scale1 precision2 scale2 : Z) (v : Z) : outcome Z :=
  let scale_diff := scale1 - scale2 in
  obind (pow_in oc (d_prim d2) 10 (Z.abs_nat scale_diff)) (fun amt =>
  let rounding := if 0 <? scale_diff then Z.quot amt 2 else 0 in
  obind (cast_int (d_prim d1) (d_prim d2) v) (fun v' =>
  if scale_diff <? 0 then checked (d_prim d2) (v' * amt)
  else if 0 <? scale_diff then
    let adj := if 0 <=? v' then rounding else - rounding in
    obind (checked (d_prim d2) (v' + adj)) (fun w => checked_div (d_prim d2) w amt)
  else Ok v')).

(* FloatToDecimal<S, D>: bind + cast of one value *)
Definition float_to_decimal (oc : bool) (f : fty) (d : dty) (precision scale : Z) (bits : Z) : outcome Z :=
  obind (pow_in oc I32 10 (Z.abs_nat scale)) (fun amt32 =>
  (* NumCast::from(i32) to the float type: exact for |amt32| < 2^24 (f32) resp. always (f64);
     the model rounds it like `as` does *)
  let mul_scale := round_float f (amt32 <? 0) (Z.abs amt32) 0 in
  match decode f bits, mul_scale with
  | FNaN, _ | _, FNaN => Err                                  (* NumCast::from(NaN) = None *)
  | FInf _, _ | _, FInf _ => Err
  | FFin n1 m1 e1, FFin n2 m2 e2 =>
      match round_float f (xorb n1 n2) (m1 * m2) (e1 + e2) with
      | FNaN => Err
      | FInf _ => Err
      | FFin neg m e =>
          let r := signed neg (round_half_away_me m e) in
          (* NumCast::from(float) to the primitive: exclusive range (MIN-1, MAX+1) *)
          if in_range (d_prim d) r then
            obind (validate_precision oc d r precision) (fun _ => Ok r)
          else Err
      end
  end).

(* DecimalToDecimal between 40311688b and 770f0ed44: scale factor and rescaling in the TARGET
   primitive, the source value converted to it first *)
Definition decimal_to_decimal_narrow (oc : bool) (d1 d2 : dty) (scale1 precision2 scale2 : Z) (v : Z) : outcome Z :=
  let scale_diff := scale1 - scale2 in
  obind (checked_pow (d_prim d2) 10 (Z.abs scale_diff)) (fun amt =>
  let rounding := if 0 <? scale_diff then Z.quot amt 2 else 0 in
  obind (cast_int (d_prim d1) (d_prim d2) v) (fun v' =>
  obind (if scale_diff <? 0 then checked (d_prim d2) (v' * amt)
         else if 0 <? scale_diff then
           let adj := if 0 <=? v' then rounding else - rounding in
           obind (checked (d_prim d2) (v' + adj)) (fun w => checked_div (d_prim d2) w amt)
         else Ok v') (fun r =>
  match Cast.validate_precision oc d2 r precision2 with
  | Ok _ => Ok r
  | Err => Err
  | Panic => Panic
  end))).

(* FloatToDecimal between 40311688b and 770f0ed44: scale factor and product in the SOURCE float type *)
Definition float_to_decimal_srcfmt (oc : bool) (f : fty) (d : dty) (precision scale : Z) (bits : Z) : outcome Z :=
  let mul_scale := match powi10 (Z.abs scale) with
                   | FFin n m e => round_float f n m e           (* `as f32` / identity for f64 *)
                   | x => x
                   end in
  match fmul f (decode f bits) mul_scale with
  | FNaN => Err
  | FInf _ => Err
  | FFin neg m e =>
      let r := signed neg (round_half_away_me m e) in
      if in_range (d_prim d) r then
        obind (Cast.validate_precision oc d r precision) (fun _ => Ok r)
      else Err
  end.

End Old.
