(* String functions of crates/glaredb_core/src/functions/scalar/builtin/string/*.rs, each twice:
   `spec_f`  the definition on code-point lists (PostgreSQL's, which docs/sql/functions/string.md
             follows), and
   `impl_f`  a transcription of what the Rust does.  A Rust str is represented by its code-point
             list (the `&str` type invariant: valid UTF-8, see model/Utf8.v); everything the Rust
             does with BYTE offsets (`char_indices`, `&s[..pos]`, `truncate(pos)`, `match_indices`)
             is computed here with byte offsets too (`cp_width`), and slicing off a character
             boundary or out of bounds is `Panic`.  `as usize` casts wrap modulo 2^64; loops that
             run a number of iterations that does not depend on the string run on fuel, so that
             (practical) non-termination is the visible outcome `OutOfFuel`; arithmetic that
             overflows i64 panics (the harness and the test suite build with overflow checks);
             saturating_* and unsigned_abs are modelled as such.
   Definitions only; proofs in proofs/StrFnProofs.v. *)
From Coq Require Import NArith ZArith List Bool.
From GV Require Import model.Utf8.
Import ListNotations.
Open Scope N_scope.

Inductive outcome (A : Type) := Ok (a : A) | Panic | OutOfFuel.
Arguments Ok {A} a.
Arguments Panic {A}.
Arguments OutOfFuel {A}.

Definition bind {A B} (o : outcome A) (f : A -> outcome B) : outcome B :=
  match o with Ok a => f a | Panic => Panic | OutOfFuel => OutOfFuel end.

Definition MIN64 : Z := (- 2 ^ 63)%Z.
Definition MAX64 : Z := (2 ^ 63 - 1)%Z.
Definition in_i64 (z : Z) : Prop := (MIN64 <= z <= MAX64)%Z.
Definition to_usize (z : Z) : N := Z.to_N (z mod 2 ^ 64)%Z.     (* `x as usize` for x : i64 *)
Definition sat64 (z : Z) : Z := Z.max MIN64 (Z.min MAX64 z).    (* i64::saturating_add / _sub *)

(* ---- byte-offset primitives ---- *)
(* s.char_indices().nth(k).map(|(pos, _)| pos) *)
Fixpoint char_index_nth (cs : list N) (k : N) : option N :=
  match cs with
  | [] => None
  | c :: r => if k =? 0 then Some 0
              else option_map (fun p => cp_width c + p) (char_index_nth r (k - 1))
  end.

(* &s[..k] for a byte offset k *)
Fixpoint slice_to (cs : list N) (k : N) : outcome (list N) :=
  match cs with
  | [] => if k =? 0 then Ok [] else Panic                       (* out of bounds *)
  | c :: r => if k =? 0 then Ok []
              else if k <? cp_width c then Panic                (* not a char boundary *)
              else bind (slice_to r (k - cp_width c)) (fun l => Ok (c :: l))
  end.

(* &s[k..] *)
Fixpoint slice_from (cs : list N) (k : N) : outcome (list N) :=
  match cs with
  | [] => if k =? 0 then Ok [] else Panic
  | c :: r => if k =? 0 then Ok cs
              else if k <? cp_width c then Panic
              else slice_from r (k - cp_width c)
  end.

(* `for _ in 0..n { if chars.next().is_none() { break; } }`: fuel counts the characters consumed;
   the iteration that finds the string exhausted leaves the loop *)
Fixpoint skip_chars (fuel : nat) (n : N) (cs : list N) : outcome (list N) :=
  if n =? 0 then Ok cs
  else match cs with
       | [] => Ok []
       | _ :: r => match fuel with
                   | O => OutOfFuel
                   | S f => skip_chars f (n - 1) r
                   end
       end.

(* ---- length, reverse, concat, repeat ---- *)
Definition impl_length (cs : list N) : Z := Z.of_N (lenN cs).          (* s.chars().count() *)
Definition spec_length (cs : list N) : Z := Z.of_N (lenN cs).
Definition impl_reverse (cs : list N) : outcome (list N) := Ok (rev cs). (* extend(chars().rev()) *)
Definition spec_reverse (cs : list N) : list N := rev cs.
Definition impl_concat (a b : list N) : outcome (list N) := Ok (a ++ b).
Definition spec_concat (a b : list N) : list N := a ++ b.
Definition repN (n : N) (cs : list N) : list N := N.iter n (fun a => a ++ cs) [].
Definition impl_repeat (cs : list N) (num : Z) : outcome (list N) := Ok (repN (Z.to_N num) cs).
Definition spec_repeat (cs : list N) (num : Z) : list N := repN (Z.to_N num) cs.

(* ---- left / right ---- *)
Definition impl_left (cs : list N) (count : Z) : outcome (list N) :=
  if (count =? 0)%Z then Ok []
  else if (count <? 0)%Z then
    let abs := Z.to_N (Z.abs count) in                             (* count.unsigned_abs() *)
    let n := lenN cs in
    if n <=? abs then Ok []
    else match char_index_nth cs (n - abs) with Some pos => slice_to cs pos | None => Ok cs end
  else match char_index_nth cs (Z.to_N count) with Some pos => slice_to cs pos | None => Ok cs end.

Definition spec_left (cs : list N) (count : Z) : list N :=
  if (0 <=? count)%Z then takeN (Z.to_N count) cs else takeN (lenN cs - Z.to_N (- count)) cs.

Definition impl_right (cs : list N) (count : Z) : outcome (list N) :=
  if (count =? 0)%Z then Ok []
  else if (count <? 0)%Z then
    let abs := Z.to_N (Z.abs count) in
    if lenN cs <=? abs then Ok []
    else match char_index_nth cs abs with Some pos => slice_from cs pos | None => Ok [] end
  else
    let c := Z.to_N count in
    let n := lenN cs in
    if n <=? c then Ok cs
    else match char_index_nth cs (n - c) with Some pos => slice_from cs pos | None => Ok cs end.

Definition spec_right (cs : list N) (count : Z) : list N :=
  if (0 <=? count)%Z then dropN (lenN cs - Z.to_N count) cs else dropN (Z.to_N (- count)) cs.

(* ---- substring ---- *)
(* let start = from.saturating_sub(1).max(0) as usize *)
Definition impl_substring_from (fuel : nat) (cs : list N) (from : Z) : outcome (list N) :=
  skip_chars fuel (Z.to_N (Z.max (sat64 (from - 1)) 0)) cs.

Definition impl_substring (fuel : nat) (cs : list N) (from count : Z) : outcome (list N) :=
  let e := sat64 (from + Z.max count 0) in             (* from.saturating_add(count.max(0)) *)
  let first := Z.max from 1 in
  let start := Z.to_N (first - 1) in
  let cnt := Z.to_N (Z.max (sat64 (e - first)) 0) in   (* end.saturating_sub(first).max(0) as usize *)
  bind (skip_chars fuel start cs) (fun rest =>
    (* rest.char_indices().skip(count).map(|(pos, _)| pos).next() *)
    match char_index_nth rest cnt with
    | Some pos => slice_to rest pos
    | None => Ok rest
    end).

(* characters at positions p with from <= p < from + count, positions start at 1 (PostgreSQL's
   definition).  The 3-argument form is undocumented; a negative count is outside any documented
   domain: '' is a definitional choice (the engine's total extension; PostgreSQL raises an error). *)
Definition spec_substring_from (cs : list N) (from : Z) : list N :=
  dropN (Z.to_N (Z.max from 1 - 1)) cs.
Definition spec_substring (cs : list N) (from count : Z) : list N :=
  if (count <? 0)%Z then []
  else let s1 := Z.max from 1 in
       let e := (from + count)%Z in
       takeN (Z.to_N (e - s1)) (dropN (Z.to_N (s1 - 1)) cs).

(* ---- lpad / rpad ---- *)
(* while rem > 0 { buf.push_str(pad); rem -= pad_char_len; } *)
Fixpoint pad_loop (fuel : nat) (rem pl : Z) (pad buf : list N) : outcome (list N * Z) :=
  if (rem <=? 0)%Z then Ok (buf, rem)
  else match fuel with
       | O => OutOfFuel
       | S f => pad_loop f (rem - pl)%Z pl pad (buf ++ pad)
       end.

(* buf.char_indices().rev().skip(k).map(|(pos, _)| pos).next()  ->  buf.truncate(pos) *)
Definition trunc_back (buf : list N) (k : N) : outcome (list N) :=
  let n := lenN buf in
  if k <? n then
    match char_index_nth buf (n - 1 - k) with Some pos => slice_to buf pos | None => Ok buf end
  else Ok buf.

Definition is_nil {A} (l : list A) : bool := match l with [] => true | _ => false end.

Definition impl_lpad (fuel : nat) (cs : list N) (count : Z) (pad : list N) : outcome (list N) :=
  let sl := Z.of_N (lenN cs) in
  if (sl >? count)%Z || is_nil pad then
    (* let keep = count.max(0) as usize;
       let end = s.char_indices().nth(keep).map(|(pos, _)| pos).unwrap_or(s.len());  &s[..end] *)
    let keep := Z.to_N (Z.max count 0) in
    match char_index_nth cs keep with Some pos => slice_to cs pos | None => slice_to cs (blen cs) end
  else
    bind (pad_loop fuel (count - sl)%Z (Z.of_N (lenN pad)) pad []) (fun br =>
      let '(buf, rem) := br in
      bind (if (rem <? 0)%Z then trunc_back buf (Z.to_N (Z.abs rem - 1)) else Ok buf)
           (fun b => Ok (b ++ cs))).

Definition impl_rpad (fuel : nat) (cs : list N) (count : Z) (pad : list N) : outcome (list N) :=
  let sl := Z.of_N (lenN cs) in
  if is_nil pad || (count <? sl)%Z then
    (* if let Some((pos, _)) = buf.char_indices().nth(count.max(0) as usize) { buf.truncate(pos) } *)
    let keep := Z.to_N (Z.max count 0) in
    match char_index_nth cs keep with Some pos => slice_to cs pos | None => Ok cs end
  else
    bind (pad_loop fuel (count - sl)%Z (Z.of_N (lenN pad)) pad cs) (fun br =>
      let '(buf, rem) := br in
      if (rem <? 0)%Z then trunc_back buf (Z.to_N (Z.abs rem - 1)) else Ok buf).

(* PostgreSQL: the string truncated to `count` characters if longer; otherwise filled with
   the pad repeated and cut to the missing number of characters; count <= 0 gives '' *)
Fixpoint rep (m : nat) (pad : list N) : list N :=
  match m with O => [] | S m' => pad ++ rep m' pad end.
Definition fillN (k : N) (pad : list N) : list N := takeN k (rep (N.to_nat k) pad).
Definition spec_lpad (cs : list N) (count : Z) (pad : list N) : list N :=
  if (count <=? 0)%Z then []
  else let n := Z.to_N count in
       if n <=? lenN cs then takeN n cs
       else if is_nil pad then cs else fillN (n - lenN cs) pad ++ cs.
Definition spec_rpad (cs : list N) (count : Z) (pad : list N) : list N :=
  if (count <=? 0)%Z then []
  else let n := Z.to_N count in
       if n <=? lenN cs then takeN n cs
       else if is_nil pad then cs else cs ++ fillN (n - lenN cs) pad.

(* ---- strpos ---- *)
(* index (in characters) of the first occurrence *)
Fixpoint find_sub (cs p : list N) : option N :=
  if starts_with cs p then Some 0
  else match cs with
       | [] => None
       | _ :: r => option_map N.succ (find_sub r p)
       end.
(* s.match_indices(sub).next().map(|(byte_idx, _)| s[..byte_idx].chars().count() + 1).unwrap_or(0) *)
Definition impl_strpos (cs p : list N) : outcome Z :=
  match find_sub cs p with
  | Some i => bind (slice_to cs (blen (takeN i cs))) (fun pre => Ok (Z.of_N (lenN pre) + 1)%Z)
  | None => Ok 0%Z
  end.
Definition spec_strpos (cs p : list N) : Z :=
  match find_sub cs p with Some i => (Z.of_N i + 1)%Z | None => 0%Z end.

(* ---- replace (str::replace: non-overlapping, left to right; empty `from` -> unchanged) ---- *)
Fixpoint repl_go (cs from to : list N) (skip : nat) : list N :=
  match cs with
  | [] => []
  | c :: r =>
    match skip with
    | S k => repl_go r from to k
    | O => if starts_with cs from then to ++ repl_go r from to (length from - 1)
           else c :: repl_go r from to 0
    end
  end.
Definition spec_replace (cs from to : list N) : list N :=
  if is_nil from then cs else repl_go cs from to 0.
Definition impl_replace (cs from to : list N) : outcome (list N) := Ok (spec_replace cs from to).

(* ---- translate: first occurrence in `from` decides; beyond `to` -> deleted ---- *)
Fixpoint index_of (c : N) (l : list N) : option N :=
  match l with [] => None | x :: r => if x =? c then Some 0 else option_map N.succ (index_of c r) end.
Fixpoint nthN (l : list N) (n : N) : option N :=
  match l with [] => None | x :: r => if n =? 0 then Some x else nthN r (n - 1) end.
Definition spec_translate (cs from to : list N) : list N :=
  flat_map (fun c => match index_of c from with
                     | None => [c]
                     | Some i => match nthN to i with Some y => [y] | None => [] end
                     end) cs.
Definition impl_translate (cs from to : list N) : outcome (list N) := Ok (spec_translate cs from to).

(* ---- trim family: trim_start_matches / trim_end_matches(|c| chars.contains(c)) ---- *)
Fixpoint trim_set_start (set cs : list N) : list N :=
  match cs with [] => [] | c :: r => if existsb (N.eqb c) set then trim_set_start set r else cs end.
Definition spec_ltrim (cs set : list N) : list N := trim_set_start set cs.
Definition spec_rtrim (cs set : list N) : list N := rev (trim_set_start set (rev cs)).
Definition spec_btrim (cs set : list N) : list N := spec_rtrim (spec_ltrim cs set) set.

(* ---- split_part ---- *)
(* str::split(delim) for a non-empty delimiter *)
Fixpoint split_go (cs d cur : list N) (skip : nat) : list (list N) :=
  match cs with
  | [] => [rev cur]
  | c :: r =>
    match skip with
    | S k => split_go r d cur k
    | O => if starts_with cs d then rev cur :: split_go r d [] (length d - 1)
           else split_go r d (c :: cur) 0
    end
  end.
Fixpoint nth_list (l : list (list N)) (n : N) : list N :=
  match l with [] => [] | x :: r => if n =? 0 then x else nth_list r (n - 1) end.
(* what split_part.rs does (after e3543b716) *)
Definition impl_split_part (cs d : list N) (n : Z) : outcome (list N) :=
  if is_nil d then Ok (if (n =? 1)%Z || (n =? -1)%Z then cs else [])
  else if (0 <? n)%Z then Ok (nth_list (split_go cs d [] 0) (Z.to_N (n - 1)))
  else if (n <? 0)%Z then
    (* let n = n.unsigned_abs(); let count = s.split(d).count();
       match count.checked_sub(n) { Some(idx) => s.split(d).nth(idx).unwrap_or(""), None => "" } *)
    let parts := split_go cs d [] 0 in
    let k := Z.to_N (Z.abs n) in
    if lenN parts <? k then Ok [] else Ok (nth_list parts (lenN parts - k))
  else Ok [].
(* the documented definition: "splits string at occurrences of delimiter and returns the n'th field
   (counting from one), or when n is negative, returns the |n|'th-from-last field"; a field that does
   not exist is ''; an empty delimiter makes the whole string the only field.  n = 0 is outside the
   documented domain: '' is a definitional choice (the engine's total extension; PostgreSQL raises
   an error there). *)
Definition spec_split_part (cs d : list N) (n : Z) : list N :=
  if (n =? 0)%Z then []
  else if is_nil d then (if (n =? 1)%Z || (n =? -1)%Z then cs else [])
  else if (0 <? n)%Z then nth_list (split_go cs d [] 0) (Z.to_N (n - 1))
  else nth_list (rev (split_go cs d [] 0)) (Z.to_N (- n - 1)).

(* ---- translate.rs as written: a map built with entry(c).or_insert_with(..), first entry wins ---- *)
Fixpoint map_lookup (c : N) (m : list (N * option N)) : option (option N) :=
  match m with [] => None | (k, v) :: r => if k =? c then Some v else map_lookup c r end.
Fixpoint build_map (from to : list N) (i : N) (m : list (N * option N)) : list (N * option N) :=
  match from with
  | [] => m
  | c :: r => build_map r to (i + 1)
                (match map_lookup c m with Some _ => m | None => m ++ [(c, nthN to i)] end)
  end.
Definition translate_map (cs from to : list N) : outcome (list N) :=
  let m := build_map from to 0 [] in
  Ok (flat_map (fun c => match map_lookup c m with
                         | Some (Some y) => [y]
                         | Some None => []
                         | None => [c]
                         end) cs).

(* ---- repeat: the definition (n copies) ---- *)
Definition spec_repeat_copies (cs : list N) (num : Z) : list N :=
  concat (repeat cs (N.to_nat (Z.to_N num))).

(* ---- case mapping: str::to_uppercase / to_lowercase map every char through the Unicode tables
   (char::to_uppercase yields 1..3 chars); the tables are external, the ASCII rows are instantiated *)
Section CaseMap.
  Variable to_upper to_lower : N -> list N.
  Variable is_alpha is_space : N -> bool.
  Definition impl_upper (cs : list N) : outcome (list N) := Ok (flat_map to_upper cs).
  Definition impl_lower (cs : list N) : outcome (list N) := Ok (flat_map to_lower cs).
  (* initcap.rs: `for c in s.chars() { if c.is_alphabetic() { .. } else { push(c);
       capitalize_next = !c.is_alphanumeric() } }` *)
  Variable is_alnum : N -> bool.
  Fixpoint initcap_go (cap_next : bool) (cs : list N) : list N :=
    match cs with
    | [] => []
    | c :: r => if is_alpha c then (if cap_next then to_upper c else to_lower c) ++ initcap_go false r
                else c :: initcap_go (negb (is_alnum c)) r
    end.
  Definition impl_initcap (cs : list N) : outcome (list N) := Ok (initcap_go true cs).
  (* before 900b19af8: a new word only after whitespace, '-', '_', '.', ','; kept for the regression witness *)
  Definition is_sep (c : N) : bool := is_space c || (c =? 45) || (c =? 95) || (c =? 46) || (c =? 44).
  Fixpoint old_initcap_go (cap_next : bool) (cs : list N) : list N :=
    match cs with
    | [] => []
    | c :: r => if is_alpha c then (if cap_next then to_upper c else to_lower c) ++ old_initcap_go false r
                else c :: old_initcap_go (is_sep c) r
    end.
End CaseMap.

Definition ascii_upper (c : N) : N := if (97 <=? c) && (c <=? 122) then c - 32 else c.
Definition ascii_lower (c : N) : N := if (65 <=? c) && (c <=? 90) then c + 32 else c.
Definition ascii_alpha (c : N) : bool := ((65 <=? c) && (c <=? 90)) || ((97 <=? c) && (c <=? 122)).
Definition ascii_digit (c : N) : bool := (48 <=? c) && (c <=? 57).
Definition ascii_space (c : N) : bool := ((9 <=? c) && (c <=? 13)) || (c =? 32).
Definition is_ascii (cs : list N) : bool := forallb (fun c => c <? 0x80) cs.
Definition up1 (c : N) : list N := [ascii_upper c].
Definition lo1 (c : N) : list N := [ascii_lower c].
Definition upper_ascii (cs : list N) : outcome (list N) := impl_upper up1 cs.
Definition lower_ascii (cs : list N) : outcome (list N) := impl_lower lo1 cs.
Definition ascii_alnum (c : N) : bool := ascii_alpha c || ascii_digit c.
Definition initcap_ascii (cs : list N) : outcome (list N) := impl_initcap up1 lo1 ascii_alpha ascii_alnum cs.
Definition old_initcap_ascii (cs : list N) : outcome (list N) := Ok (old_initcap_go up1 lo1 ascii_alpha ascii_space true cs).
(* definitions: upper / lower map letter by letter; initcap (PostgreSQL): first letter of each word
   upper case, the rest lower case, words = maximal runs of alphanumeric characters *)
Definition spec_upper_ascii (cs : list N) : list N := map ascii_upper cs.
Definition spec_lower_ascii (cs : list N) : list N := map ascii_lower cs.
Fixpoint spec_initcap_go (prev_alnum : bool) (cs : list N) : list N :=
  match cs with
  | [] => []
  | c :: r => (if prev_alnum then ascii_lower c else ascii_upper c)
              :: spec_initcap_go (ascii_alpha c || ascii_digit c) r
  end.
Definition spec_initcap_ascii (cs : list N) : list N := spec_initcap_go false cs.

(* The transcriptions as they were before the fixes 0e7aca77d (lpad/rpad), 5eee47bd9 (substring),
   16bd2d89d (left/right): kept only for the regression witnesses in proofs/StrFnProofs.v. *)
Module Old.
  (* `for _ in 0..n { chars.next(); }`: n iterations whatever the string *)
  Fixpoint iter_next (fuel : nat) (n : N) (cs : list N) : outcome (list N) :=
    if n =? 0 then Ok cs
    else match fuel with
         | O => OutOfFuel
         | S f => iter_next f (n - 1) (tl cs)
         end.

  Definition impl_left (cs : list N) (count : Z) : outcome (list N) :=
    if (count =? 0)%Z then Ok []
    else if (count <? 0)%Z then
      if (count =? MIN64)%Z then Panic                               (* `-count` overflows *)
      else
        let abs := Z.to_N (- count) in
        let n := lenN cs in
        if n <=? abs then Ok []
        else match char_index_nth cs (n - abs) with Some pos => slice_to cs pos | None => Ok cs end
    else match char_index_nth cs (Z.to_N count) with Some pos => slice_to cs pos | None => Ok cs end.

  Definition impl_right (cs : list N) (count : Z) : outcome (list N) :=
    if (count =? 0)%Z then Ok []
    else if (count <? 0)%Z then
      if (count =? MIN64)%Z then Panic
      else
        let abs := Z.to_N (- count) in
        if lenN cs <=? abs then Ok []
        else match char_index_nth cs abs with Some pos => slice_from cs pos | None => Ok [] end
    else
      let c := Z.to_N count in
      let n := lenN cs in
      if n <=? c then Ok cs
      else match char_index_nth cs (n - c) with Some pos => slice_from cs pos | None => Ok cs end.

  Definition impl_substring_from (fuel : nat) (cs : list N) (from : Z) : outcome (list N) :=
    if (from =? MIN64)%Z then Panic                                   (* `from - 1` overflows *)
    else iter_next fuel (to_usize (from - 1)) cs.

  Definition impl_substring (fuel : nat) (cs : list N) (from count : Z) : outcome (list N) :=
    if (from =? MIN64)%Z then Panic
    else bind (iter_next fuel (to_usize (from - 1)) cs) (fun rest =>
      (* rest.char_indices().skip(count as usize).map(|(pos, _)| pos).next() *)
      match char_index_nth rest (to_usize count) with
      | Some pos => slice_to rest pos
      | None => Ok rest
      end).

  Definition impl_lpad (fuel : nat) (cs : list N) (count : Z) (pad : list N) : outcome (list N) :=
    if is_nil pad then Ok cs
    else
      let sl := Z.of_N (lenN cs) in
      if (sl >? count)%Z then slice_to cs (to_usize count)   (* &s.chars().as_str()[..count as usize] *)
      else
        bind (pad_loop fuel (count - sl)%Z (Z.of_N (lenN pad)) pad []) (fun br =>
          let '(buf, rem) := br in
          bind (if (rem <? 0)%Z then trunc_back buf (Z.to_N (Z.abs rem - 1)) else Ok buf)
               (fun b => Ok (b ++ cs))).

  Definition impl_rpad (fuel : nat) (cs : list N) (count : Z) (pad : list N) : outcome (list N) :=
    if is_nil pad then Ok cs
    else
      let sl := Z.of_N (lenN cs) in
      bind (pad_loop fuel (count - sl)%Z (Z.of_N (lenN pad)) pad cs) (fun br =>
        let '(buf, rem) := br in
        if (rem <? 0)%Z then trunc_back buf (Z.to_N (Z.abs rem - 1)) else Ok buf).
End Old.
