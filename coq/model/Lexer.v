(* The SQL tokenizer of crates/glaredb_parser/src/tokens.rs (State::{peek,next,take_while},
   Tokenizer::{tokenize,next_token,take_*}) and the keyword lookup of keywords.rs, transcribed AS WRITTEN.

   A Rust `&str` is represented by its code-point list (type invariant of str: valid UTF-8, model/Utf8.v);
   everything the Rust does with BYTE offsets (`self.idx`, `char_indices`, `&self.query[a..b]`,
   `self.query.len()`) is computed here with byte offsets too (`cp_width`, `blen`).  Every place where the
   Rust could panic is an explicit `Panic` outcome of the model:
     * `&s[i..]` / `&s[a..b]`: `str_from` / `str_slice` panic unless a <= b <= len and both ends are on a
       character boundary (core::str::index);
     * `self.line += 1`, `self.col += 1`, `self.idx += next_idx`, `char_idx + self.idx`: `uadd` panics at 2^64
       (usize on the 64-bit targets; the harness and the test-suite build with overflow checks);
     * the only loop whose termination is not structural (`while let Some(token) = self.next_token()?` in
       `tokenize`) runs on fuel: running out is the visible outcome `Fuel`.
   The loop inside `take_while` walks a `char_indices()` iterator of a finite slice: structural.
   Every slice taken is appended to the ghost field `slog` of the state (start, end), which no result depends
   on; proofs/LexerProofs.v proves them all in bounds.
   `char::is_alphabetic` / `char::is_numeric` (Unicode tables of the std the engine is built with) are
   PARAMETERS of the model (Section variables): every theorem holds for all such tables; the correspondence
   run feeds the tables dumped from the real std.  `char::is_alphanumeric` is `is_alphabetic || is_numeric`
   (core::char::methods) and `is_ascii_digit` is '0'..='9'.
   Definitions only; proofs in proofs/LexerProofs.v. *)
From Coq Require Import NArith List Bool.
From GV Require Import model.Utf8 gen.TablesLexer.
Import ListNotations.
Open Scope N_scope.

(* the two errors of the tokenizer: "Unhandled character: c" and "Unterminated quoted string: missing closing q" *)
Inductive lex_error := Unhandled (c : N) | Unterminated (quote : N).
Inductive outcome (A : Type) := Ok (a : A) | Err (e : lex_error) | Panic | Fuel.
Arguments Ok {A} a.
Arguments Err {A} e.
Arguments Panic {A}.
Arguments Fuel {A}.

Definition bind {A B} (o : outcome A) (f : A -> outcome B) : outcome B :=
  match o with Ok a => f a | Err e => Err e | Panic => Panic | Fuel => Fuel end.
Notation "'do' x <- e ; k" := (bind e (fun x => k)) (at level 200, x name, e at level 100, k at level 200).

Definition str := list N.

(* ---- primitives that can panic ---- *)
Definition USIZE : N := 2 ^ 64.
Definition uadd (a b : N) : outcome N := if a + b <? USIZE then Ok (a + b) else Panic.

(* &s[i..] *)
Fixpoint str_from (s : str) (i : N) : outcome str :=
  match s with
  | [] => if i =? 0 then Ok [] else Panic                        (* out of bounds *)
  | c :: r => if i =? 0 then Ok s
              else if i <? cp_width c then Panic                 (* not a char boundary *)
              else str_from r (i - cp_width c)
  end.
(* &s[..n] *)
Fixpoint str_to (s : str) (n : N) : outcome str :=
  match s with
  | [] => if n =? 0 then Ok [] else Panic
  | c :: r => if n =? 0 then Ok []
              else if n <? cp_width c then Panic
              else do l <- str_to r (n - cp_width c); Ok (c :: l)
  end.
(* &s[a..b] *)
Definition str_slice (s : str) (a b : N) : outcome str :=
  if b <? a then Panic else do r <- str_from s a; str_to r (b - a).

(* ---- State ---- *)
Record state := mk_state { idx : N; line : N; col : N; slog : list (N * N) }.
Definition logged (st : state) (e : N * N) : state := mk_state (idx st) (line st) (col st) (e :: slog st).
Definition init_state : state := mk_state 0 0 0 [].

(* State::peek:  self.query[self.idx..].chars().next() *)
Definition peek (q : str) (st : state) : outcome (option N * state) :=
  do r <- str_from q (idx st);
  Ok (hd_error r, logged st (idx st, blen q)).

(* State::next *)
Definition next (q : str) (st : state) : outcome (option N * state) :=
  do r <- str_from q (idx st);
  let st := logged st (idx st, blen q) in
  match r with
  | [] => Ok (None, st)
  | c :: r' =>
    do lc <- (if c =? 10 then do l <- uadd (line st) 1; Ok (l, 0)
              else do k <- uadd (col st) 1; Ok (line st, k));
    do i <- match r' with
            | _ :: _ => uadd (idx st) (cp_width c)      (* next_idx = offset of the 2nd char of the slice *)
            | [] => Ok (blen q)
            end;
    Ok (Some c, mk_state i (fst lc) (snd lc) (slog st))
  end.

(* the loop of State::take_while over `chars = self.query[self.idx..].char_indices()`; `off` is the offset the
   iterator reports (bounded by the slice length: the iterator's own addition cannot overflow); the predicate
   is FnMut: its captured state is threaded as `p` *)
Fixpoint tw_loop {P} (pred : P -> N -> bool * P) (p : P) (chars : str) (off i qlen : N) : outcome N :=
  match chars with
  | [] => Ok qlen                                            (* None => end_idx = self.query.len() *)
  | c :: r =>
    do e <- uadd off i;                                      (* end_idx = char_idx + self.idx *)
    let (b, p') := pred p c in
    if b then tw_loop pred p' r (off + cp_width c) i qlen else Ok e
  end.

Definition take_while {P} (pred : P -> N -> bool * P) (p0 : P) (q : str) (st : state) : outcome (str * state) :=
  do r <- str_from q (idx st);
  let st := logged st (idx st, blen q) in
  do e <- tw_loop pred p0 r 0 (idx st) (blen q);
  do s <- str_slice q (idx st) e;                            (* &self.query[self.idx..end_idx] *)
  Ok (s, mk_state e (line st) (col st) ((idx st, e) :: slog st)).

Definition stateless (f : N -> bool) : unit -> N -> bool * unit := fun u c => (f c, u).

(* ---- keywords.rs ---- *)
Definition ascii_lower (c : N) : N := if (65 <=? c) && (c <=? 90) then c + 32 else c.
(* Ord for unicase::Ascii: chars().map(to_ascii_lowercase) compared lexicographically *)
Fixpoint ci_cmp (a b : str) : comparison :=
  match a, b with
  | [], [] => Eq
  | [], _ :: _ => Lt
  | _ :: _, [] => Gt
  | x :: a', y :: b' => match ascii_lower x ?= ascii_lower y with Eq => ci_cmp a' b' | o => o end
  end.
Fixpoint kw_find_from (tbl : list str) (k : nat) (s : str) : option nat :=
  match tbl with
  | [] => None
  | w :: r => match ci_cmp w s with Eq => Some k | _ => kw_find_from r (S k) s end
  end.
(* keyword_from_str: KEYWORD_STRINGS.binary_search(&Ascii::new(s)) -> ALL_KEYWORDS[idx].  binary_search on a
   strictly sorted slice returns Ok(i) iff element i compares Equal (its documented contract); the table is
   strictly sorted (theorem C15lex_keywords_strictly_sorted), so the first such index is THE index. *)
Definition keyword_from_str (s : str) : option nat := kw_find_from keywords 0 s.
Fixpoint sortedb (tbl : list str) : bool :=
  match tbl with
  | a :: ((b :: _) as r) => match ci_cmp a b with Lt => sortedb r | _ => false end
  | _ => true
  end.

(* ---- tokens ---- *)
Inductive op := OEq | ODoubleEq | ONeq | OLt | OGt | OLtEq | OGtEq | OPlus | OMinus | OMul | ODiv | OIntDiv
  | OMod | OExponent | OShl | OShr | OPipe | OAmp | OHash | OConcat | OComma | OLParen | ORParen | OPeriod
  | OColon | ODoubleColon | OSemi | OLBracket | ORBracket | ORightArrow | OExcl | OCaret | OTilde | OCaretAt.
(* Token::LeftBrace, Token::RightBrace and Comment::Multiline are never constructed by tokens.rs *)
Inductive token :=
| TWord (value : str) (quote : option N) (kw : option nat)     (* Word::new *)
| TString (s : str)                                            (* SingleQuotedString *)
| TNumber (s : str)
| TWhitespace
| TComment (s : str)                                           (* Comment::SingleLine *)
| TOp (o : op).
Record twl := mk_twl { tok : token; start_idx : N; tline : N; tcol : N }.     (* TokenWithLocation *)

(* which arm of the `match c` of next_token is taken *)
Inductive arm :=
| AWs | AOp1 (o : op) | AOp2 (alts : list (N * op)) (dflt : op) | AMinus | AString | ANumber
| AIdent | AQIdent | AUnhandled.

Definition is_digit (c : N) : bool := (48 <=? c) && (c <=? 57).

Section Lexer.
Variable is_alpha : N -> bool.      (* char::is_alphabetic *)
Variable is_numeric : N -> bool.    (* char::is_numeric *)

Definition is_alnum (c : N) : bool := is_alpha c || is_numeric c.      (* char::is_alphanumeric *)
Definition is_identifier_start (c : N) : bool := is_alpha c || (c =? 95).
Definition ident_pred (c : N) : bool := is_alnum c || (c =? 95).

Definition arm_of (c : N) : arm :=
  if (c =? 32) || (c =? 9) || (c =? 10) || (c =? 13) then AWs
  else if c =? 59 then AOp1 OSemi                                   (* ; *)
  else if c =? 40 then AOp1 OLParen
  else if c =? 41 then AOp1 ORParen
  else if c =? 91 then AOp1 OLBracket
  else if c =? 93 then AOp1 ORBracket
  else if c =? 44 then AOp1 OComma
  else if c =? 42 then AOp2 [(42, OExponent)] OMul                  (* * ** *)
  else if c =? 43 then AOp1 OPlus
  else if c =? 45 then AMinus                                       (* - -- *)
  else if c =? 47 then AOp2 [(47, OIntDiv)] ODiv                    (* / // *)
  else if c =? 37 then AOp1 OMod
  else if c =? 35 then AOp1 OHash
  else if c =? 94 then AOp2 [(64, OCaretAt)] OCaret                 (* ^ ^@ *)
  else if c =? 62 then AOp2 [(61, OGtEq); (62, OShr)] OGt           (* > >= >> *)
  else if c =? 60 then AOp2 [(61, OLtEq); (62, ONeq); (60, OShl)] OLt   (* < <= <> << *)
  else if c =? 33 then AOp2 [(61, ONeq)] OExcl                      (* ! != *)
  else if c =? 124 then AOp2 [(124, OConcat)] OPipe                 (* | || *)
  else if c =? 38 then AOp1 OAmp
  else if c =? 126 then AOp1 OTilde
  else if c =? 58 then AOp2 [(58, ODoubleColon)] OColon             (* : :: *)
  else if c =? 39 then AString                                      (* single quote *)
  else if is_digit c || (c =? 46) then ANumber                      (* '0'..='9' | '.' *)
  else if c =? 61 then AOp2 [(62, ORightArrow); (61, ODoubleEq)] OEq    (* = => == *)
  else if is_identifier_start c then AIdent
  else if c =? 34 then AQIdent                                      (* double quote *)
  else AUnhandled.

Fixpoint assoc_op (c : N) (alts : list (N * op)) : option op :=
  match alts with
  | [] => None
  | (k, o) :: r => if c =? k then Some o else assoc_op c r
  end.

(* the closure of the Numbers arm; captured `period_found` is the threaded state *)
Definition num_pred (period_found : bool) (c : N) : bool * bool :=
  if is_digit c then (true, period_found)
  else if period_found then (false, period_found)
  else if c =? 46 then (true, true)
  else (false, period_found).

(* Tokenizer::take_quoted_string (start quote consumed already):
     let mut s = String::new();
     loop { s.push_str(take_while(|c| c != quote));
            if next().is_none() { return Err(unterminated) }          // consume the end quote
            if peek() == Some(quote) { next(); s.push(quote); continue }   // doubled quote = escaped quote
            return Ok(s) }
   every iteration consumes at least the quote: fuel = characters of the query + 1 *)
Fixpoint quoted_loop (fuel : nat) (quote : N) (q : str) (st : state) (s : str) : outcome (str * state) :=
  match fuel with
  | O => Fuel
  | S f =>
    do r <- take_while (stateless (fun c => negb (c =? quote))) tt q st;
    let s := s ++ fst r in
    do n <- next q (snd r);
    match fst n with
    | None => Err (Unterminated quote)
    | Some _ =>
      do p <- peek q (snd n);
      match fst p with
      | Some c =>
        if c =? quote then do n2 <- next q (snd p); quoted_loop f quote q (snd n2) (s ++ [quote])
        else Ok (s, snd p)
      | None => Ok (s, snd p)
      end
    end
  end.
Definition take_quoted_string (quote : N) (q : str) (st : state) : outcome (str * state) :=
  quoted_loop (S (length q)) quote q st [].

(* Tokenizer::next_token, after `let c = match self.state.peek()`; one definition per arm kind *)
Definition run_arm (a : arm) (c : N) (q : str) (st : state) : outcome (token * state) :=
  match a with
  | AWs => do n <- next q st; Ok (TWhitespace, snd n)
  | AOp1 o => do n <- next q st; Ok (TOp o, snd n)
  | AOp2 alts dflt =>
    do n <- next q st;
    do p <- peek q (snd n);
    match fst p with
    | Some c2 => match assoc_op c2 alts with
                 | Some o => do n2 <- next q (snd p); Ok (TOp o, snd n2)
                 | None => Ok (TOp dflt, snd p)
                 end
    | None => Ok (TOp dflt, snd p)
    end
  | AMinus =>
    do n <- next q st;
    do p <- peek q (snd n);
    match fst p with
    | Some c2 =>
      if c2 =? 45 then
        do n2 <- next q (snd p);
        do r <- take_while (stateless (fun c => negb (c =? 10))) tt q (snd n2);   (* take_single_line_comment *)
        Ok (TComment (fst r), snd r)
      else Ok (TOp OMinus, snd p)
    | None => Ok (TOp OMinus, snd p)
    end
  | AString =>
    do n <- next q st;
    do r <- take_quoted_string 39 q (snd n);
    Ok (TString (fst r), snd r)
  | ANumber =>
    do r <- take_while num_pred false q st;
    if list_eqb (fst r) [46] then Ok (TOp OPeriod, snd r)      (* if s is a lone period *)
    else Ok (TNumber (fst r), snd r)
  | AIdent =>
    do r <- take_while (stateless ident_pred) tt q st;          (* take_identifier *)
    Ok (TWord (fst r) None (keyword_from_str (fst r)), snd r)
  | AQIdent =>
    do n <- next q st;                                          (* take start quote *)
    do r <- take_quoted_string 34 q (snd n);
    Ok (TWord (fst r) (Some 34) None, snd r)                    (* Word::new(quoted, Some(dquote)): keyword None *)
  | AUnhandled => Err (Unhandled c)
  end.

Definition next_token (q : str) (st : state) : outcome (option token * state) :=
  do p <- peek q st;
  match fst p with
  | None => Ok (None, snd p)
  | Some c => do r <- run_arm (arm_of c) c q (snd p); Ok (Some (fst r), snd r)
  end.

(* Tokenizer::tokenize: `while let Some(token) = self.next_token()? { push; start_idx = self.state.idx }` *)
Fixpoint tok_loop (fuel : nat) (q : str) (st : state) (start : N) : outcome (list twl * state) :=
  match fuel with
  | O => Fuel
  | S f =>
    do r <- next_token q st;
    match fst r with
    | None => Ok ([], snd r)
    | Some t =>
      let st' := snd r in
      do rest <- tok_loop f q st' (idx st');
      Ok (mk_twl t start (line st') (col st') :: fst rest, snd rest)
    end
  end.

(* fuel: one iteration per character at most, one more to see the end *)
Definition tokenize (q : str) : outcome (list twl * state) := tok_loop (S (length q)) q init_state 0.

(* ---- specification vocabulary ---- *)
(* which source texts a token can come from; `rest` is what follows in the input *)
Definition op_spellings (o : op) : list str :=
  match o with
  | OEq => [[61]] | ODoubleEq => [[61; 61]] | ONeq => [[33; 61]; [60; 62]] | OLt => [[60]] | OGt => [[62]]
  | OLtEq => [[60; 61]] | OGtEq => [[62; 61]] | OPlus => [[43]] | OMinus => [[45]] | OMul => [[42]]
  | ODiv => [[47]] | OIntDiv => [[47; 47]] | OMod => [[37]] | OExponent => [[42; 42]] | OShl => [[60; 60]]
  | OShr => [[62; 62]] | OPipe => [[124]] | OAmp => [[38]] | OHash => [[35]] | OConcat => [[124; 124]]
  | OComma => [[44]] | OLParen => [[40]] | ORParen => [[41]] | OPeriod => [[46]] | OColon => [[58]]
  | ODoubleColon => [[58; 58]] | OSemi => [[59]] | OLBracket => [[91]] | ORBracket => [[93]]
  | ORightArrow => [[61; 62]] | OExcl => [[33]] | OCaret => [[94]] | OTilde => [[126]] | OCaretAt => [[94; 64]]
  end.

(* source spelling of the content of a quoted string: every quote doubled *)
Fixpoint escape (quote : N) (body : str) : str :=
  match body with
  | [] => []
  | c :: r => if c =? quote then quote :: quote :: escape quote r else c :: escape quote r
  end.
(* the token text `body` is the source text between the quotes with doubled quotes collapsed; what follows the
   closing quote is not another quote (that would have been an escaped quote) *)
Definition quoted (quote : N) (body src rest : str) : Prop :=
  src = quote :: escape quote body ++ [quote] /\ ~ (exists r, rest = quote :: r).

Definition spells (t : token) (src rest : str) : Prop :=
  match t with
  | TWord v None kw => src = v /\ kw = keyword_from_str v /\ forallb ident_pred v = true
  | TWord v (Some qc) kw => qc = 34 /\ kw = None /\ quoted 34 v src rest
  | TString s => quoted 39 s src rest
  | TNumber s => src = s /\ forallb (fun c => is_digit c || (c =? 46)) s = true
  | TWhitespace => exists c, src = [c] /\ arm_of c = AWs
  | TComment s => src = 45 :: 45 :: s /\ ~ In 10 s /\ (rest = [] \/ exists r, rest = 10 :: r)
  | TOp o => In src (op_spellings o)
  end.

(* the tokens tile the remaining input `rest`, the first one starting at byte offset `off`: consecutive,
   non-empty source texts, nothing lost or duplicated, start_idx = byte offset of the source text *)
Inductive tiles : N -> str -> list twl -> Prop :=
| tiles_nil off : tiles off [] []
| tiles_cons off src rest t ts :
    src <> [] -> spells (tok t) src rest -> start_idx t = off ->
    tiles (off + blen src) rest ts -> tiles off (src ++ rest) (t :: ts).

End Lexer.

(* ---- in-bounds vocabulary (what core::str::index requires of &s[a..b]) ---- *)
Definition boundary (q : str) (i : N) : Prop := exists pre post, q = pre ++ post /\ blen pre = i.
Definition slice_ok (q : str) (e : N * N) : Prop :=
  fst e <= snd e /\ snd e <= blen q /\ boundary q (fst e) /\ boundary q (snd e).
