(* Decimal arithmetic as the GlareDB source computes it (definitions only).

   Transcribed from
     arith/decimal_arith.rs   common_add_sub_decimal_type_info
     arith/add.rs, sub.rs     DecimalAdd/DecimalSub::{bind, execute}
     arith/mul.rs             DecimalMul::{bind, execute}
     arith/div.rs, rem.rs     decimals are cast to Float64 (DivDecimal) -- outside exact arithmetic
     cast/builtin/to_decimal.rs  IntToDecimal::cast, DecimalToDecimal::cast (operand rescaling, round())
     arrays/datatype.rs       DecimalTypeMeta::new_for_datatype_id
     arrays/scalar/decimal.rs MAX_PRECISION, validate_precision
     aggregate/builtin/sum.rs SumDecimal (SumStateCheckedAdd<i128, _>), avg.rs AvgDecimal

   A decimal value is its unscaled integer; its type is (precision, scale); the storage primitive is
   i64 (Decimal64, precision <= 18) or i128 (Decimal128, precision <= 38). *)
From Coq Require Import ZArith List Bool.
From GV Require Import model.Arith.
Import ListNotations.
Open Scope Z_scope.

Inductive dkind := D64 | D128.
Definition prim_bits (k : dkind) : Z := match k with D64 => 64 | D128 => 128 end.

(* MAX_PRECISION of the two decimal types: parameters, instantiated from the source constants
   (gen/TablesArith.v) in the theorems and by the driver *)
(* Two switches record which variant of cast/builtin/to_decimal.rs the source has (read by
   vlib/tables_arith.py); the current source (after "fix: casts to decimal must validate the precision
   and compute scale factors without overflow") has pow_i32 = false, d2d_validates = true:
   pow_i32       true: IntToDecimal::bind computes the scale factor as `10.pow(scale)` on an *i32*
                 literal (scale >= 10: panic with overflow checks, a wrapped factor in release);
                 false: num_traits::checked_pow on the decimal primitive (bind error if it does not fit)
   d2d_validates true: DecimalToDecimal::cast validates the rescaled value against the target precision
                 (and bind fails if 10^|scale diff| does not fit the target primitive);
                 false: the rescaled value is stored unvalidated
   res_validates true: DecimalAdd/Sub/Mul::execute use checked_add/sub/mul on the primitive and validate the
                 result against the precision of the OUTPUT type (arith/{add,sub,mul}.rs after "fix: integer
                 and decimal arithmetic must fail with an error ..."): anything else is an error;
                 false: the native operator, result not validated (what the source did before) *)
Record dparams := { max64 : Z; max128 : Z; pow_i32 : bool; d2d_validates : bool; res_validates : bool }.
Definition max_prec (P : dparams) (k : dkind) : Z := match k with D64 => max64 P | D128 => max128 P end.

(* DecimalTypeMeta::new_for_datatype_id for the signed integer widths (scale 0) *)
Definition int_meta_prec (w : Z) : Z :=
  if w =? 8 then 3 else if w =? 16 then 5 else if w =? 32 then 10 else if w =? 64 then 19 else 38.

Inductive operand :=
| ODec (p s : Z) (v : Z)        (* decimal(p,s) with unscaled value v *)
| OInt (w : Z) (v : Z).         (* signed integer of w bits *)

Definition op_meta (o : operand) : Z * Z :=
  match o with ODec p s _ => (p, s) | OInt w _ => (int_meta_prec w, 0) end.

(* common_add_sub_decimal_type_info: (precision, scale, precision_exceeded) *)
Definition add_sub_type (P : dparams) (k : dkind) (p1 s1 p2 s2 : Z) : Z * Z * bool :=
  let max_scale := Z.max s1 s2 in
  let max_int_digits := Z.max (p1 - s1) (p2 - s2) in
  let new_prec := max_int_digits + max_scale + 1 in
  if max_prec P k <? new_prec then (max_prec P k, max_scale, true) else (new_prec, max_scale, false).

(* number of decimal digits of |v|  (ilog10 + 1); 0 for v = 0 *)
Fixpoint digits_fuel (fuel : nat) (v : Z) : Z :=
  match fuel with
  | O => 0
  | S f => if v =? 0 then 0 else 1 + digits_fuel f (v / 10)
  end.
Definition digits (v : Z) : Z := digits_fuel 60 (Z.abs v).

(* validate_precision(value, precision) *)
Definition validate_precision (P : dparams) (k : dkind) (v p : Z) : bool :=
  (p <=? max_prec P k) && ((v =? 0) || (digits v <=? p)).

(* checked multiplication on the primitive *)
Definition checked (k : dkind) (x : Z) : outcome Z := if in_range Signed (prim_bits k) x then Ok x else Err.

(* casting one operand to the common type (p', s'):
   - a decimal operand whose meta already equals (p', s') is left alone; otherwise DecimalToDecimal
     (s' >= s always here): scale factor 10^(s'-s) by checked_pow on the primitive, checked_mul, then
     validate_precision against p'
   - an integer operand: IntToDecimal: scale factor 10^s' by checked_pow on the primitive, checked_mul
     (scale > 0) / checked_div (scale = 0: factor 1), then validate_precision against p' *)
Definition int_scale_amount (P : dparams) (m : mode) (k : dkind) (s : Z) : outcome Z :=
  if pow_i32 P then arith_result Native m Signed 32 (10 ^ s) else checked k (10 ^ s).

Definition cast_operand (P : dparams) (m : mode) (k : dkind) (p' s' : Z) (o : operand) : outcome Z :=
  match o with
  | ODec p s v =>
    if (p =? p') && (s =? s') then Ok v
    else if d2d_validates P then
      bind_out (checked k (10 ^ (s' - s))) (fun amt =>
      bind_out (checked k (v * amt)) (fun x =>
        if validate_precision P k x p' then Ok x else Err))
    else checked k (v * 10 ^ (s' - s))
  | OInt w v =>
    bind_out (int_scale_amount P m k s') (fun amt =>
    bind_out (checked k (v * amt)) (fun x =>
      if validate_precision P k x p' then Ok x else Err))
  end.

(* storing the mathematical result x of combining the two unscaled integers, output precision p':
   `match a.checked_add(&b) { Some(v) if D::validate_precision(v, precision).is_ok() => put, _ => failed }` *)
Definition dec_result (P : dparams) (st : style) (m : mode) (k : dkind) (p' x : Z) : outcome Z :=
  if res_validates P
  then bind_out (checked k x) (fun v => if validate_precision P k v p' then Ok v else Err)
  else arith_result st m Signed (prim_bits k) x.

(* DecimalAdd / DecimalSub: result (type, value) *)
Definition dec_addsub (P : dparams) (st : style) (m : mode) (k : dkind) (sub : bool) (l r : operand)
  : (Z * Z * bool) * outcome Z :=
  let '(p1, s1) := op_meta l in
  let '(p2, s2) := op_meta r in
  let '(p', s', exc) := add_sub_type P k p1 s1 p2 s2 in
  ((p', s', exc),
   bind_out (cast_operand P m k p' s' l) (fun a =>
   bind_out (cast_operand P m k p' s' r) (fun b =>
     dec_result P st m k p' (if sub then a - b else a + b)))).

(* the mathematical result at scale s' *)
Definition op_unscaled (o : operand) : Z := match o with ODec _ _ v => v | OInt _ v => v end.
Definition exact_addsub (s' : Z) (sub : bool) (l r : operand) : Z :=
  let a := op_unscaled l * 10 ^ (s' - snd (op_meta l)) in
  let b := op_unscaled r * 10 ^ (s' - snd (op_meta r)) in
  if sub then a - b else a + b.
Definition fits (p v : Z) : bool := Z.abs v <? 10 ^ p.
Definition spec_addsub (P : dparams) (k : dkind) (sub : bool) (l r : operand) : outcome Z :=
  let '(p1, s1) := op_meta l in
  let '(p2, s2) := op_meta r in
  let '(p', s', _) := add_sub_type P k p1 s1 p2 s2 in
  let v := exact_addsub s' sub l r in
  if fits p' v then Ok v else Err.

(* DecimalMul::bind: None = bind error *)
Definition mul_type (P : dparams) (k : dkind) (p1 s1 p2 s2 : Z) : option (Z * Z * bool) :=
  let new_scale := s1 + s2 in
  let new_prec := p1 + p2 in
  if max_prec P k <? new_scale then None
  else
    let '(np, clamped) := if max_prec P k <? new_prec then (max_prec P k, true) else (new_prec, false) in
    if np <? new_scale then None else Some (np, new_scale, clamped).

(* DecimalMul::execute: operands keep their own scale (an integer is cast to decimal(int_meta, 0),
   value unchanged); checked_mul on the primitive, validated against the output precision *)
Definition dec_mul (P : dparams) (st : style) (m : mode) (k : dkind) (l r : operand)
  : option ((Z * Z * bool) * outcome Z) :=
  let '(p1, s1) := op_meta l in
  let '(p2, s2) := op_meta r in
  match mul_type P k p1 s1 p2 s2 with
  | None => None
  | Some t => Some (t, dec_result P st m k (fst (fst t)) (op_unscaled l * op_unscaled r))
  end.
Definition spec_mul (P : dparams) (k : dkind) (l r : operand) : option (outcome Z) :=
  let '(p1, s1) := op_meta l in
  let '(p2, s2) := op_meta r in
  match mul_type P k p1 s1 p2 s2 with
  | None => None
  | Some (p', _, _) => let v := op_unscaled l * op_unscaled r in Some (if fits p' v then Ok v else Err)
  end.

(* round(decimal(p,s), n) with 0 <= n < s: DecimalToDecimal downscale by k = s - n digits:
   (v +- 10^k/2) checked, then truncating division by 10^k; result type decimal(p, n) *)
Definition dec_round (kd : dkind) (v k : Z) : outcome Z :=
  let amount := 10 ^ k in
  let half := amount / 2 in
  let adj := if 0 <=? v then half else - half in
  bind_out (checked kd (v + adj)) (fun x => Ok (Z.quot x amount)).

(* SUM(decimal): the same SumStateCheckedAdd over i128 (an i128 overflow fails the statement), result
   type Decimal128(38, s); the total is NOT validated against the 38 digits *)
Definition sum_dec_impl (parts : list (list Z)) : outcome (option Z) := sum_impl 128 parts.
Definition sum_dec_spec (P : dparams) (parts : list (list Z)) : outcome (option Z) :=
  if all_empty parts then Ok None
  else if fits (max128 P) (sum_exact parts) then Ok (Some (sum_exact parts)) else Err.

(* AVG(decimal): i128 accumulator, `checked_add` since 2f7b0a8b9 (error "Avg overflowed" in every profile;
   before: native `+=`, Panic in Debug / wrap in Release), count; result (sum as f64) / (count as f64 * 10^scale).
   The model returns the accumulator. *)
Definition avg_dec_acc (m : mode) (xs : list Z) : outcome Z :=
  fold_left (fun acc x => bind_out acc (fun s => arith_result Checked m Signed 128 (s + x))) xs (Ok 0).

(* ---------------------------------------------------------------- binary64 rounding *)
(* nearest binary64 to the rational n/d (d > 0), ties to even, as its bit pattern; normal range
   only (|n/d| in [2^-1022, 2^1024)); None outside.  Used for `sum as f64 / count as f64`. *)
Definition round_q_f64 (n d : Z) : option Z :=
  if n =? 0 then Some 0 else
  let sign := if n <? 0 then 1 else 0 in
  let m := Z.abs n in
  (* find e with 2^52 <= m / (d * 2^e) < 2^53 *)
  let e0 := Z.log2 m - Z.log2 d - 52 in
  let scaled (e : Z) := if 0 <=? e then (m, d * 2 ^ e) else (m * 2 ^ (- e), d) in
  let q_of (e : Z) := let '(a, b) := scaled e in a / b in
  let e := if q_of e0 <? 2 ^ 52 then e0 - 1 else if 2 ^ 53 <=? q_of e0 then e0 + 1 else e0 in
  let '(a, b) := scaled e in
  let q := a / b in
  let r := a mod b in
  let q' := if 2 * r <? b then q else if b <? 2 * r then q + 1 else if Z.even q then q else q + 1 in
  let '(q'', e') := if q' =? 2 ^ 53 then (2 ^ 52, e + 1) else (q', e) in
  let biased := e' + 1075 in
  if (biased <? 1) || (2046 <? biased) then None
  else Some (sign * 2 ^ 63 + biased * 2 ^ 52 + (q'' - 2 ^ 52)).

(* value (as a rational n/d) of the binary64 nearest to the integer x: x as f64 *)
Definition int_as_f64 (x : Z) : Z * Z :=
  let m := Z.abs x in
  let e := Z.log2 m - 52 in
  if (m =? 0) || (e <=? 0) then (x, 1) else
  let q := m / 2 ^ e in
  let r := m mod 2 ^ e in
  let half := 2 ^ (e - 1) in
  let q' := if r <? half then q else if half <? r then q + 1 else if Z.even q then q else q + 1 in
  (Z.sgn x * q' * 2 ^ e, 1).

(* AVG finalize: (sum as f64) / (count as f64 * scale_f64), scale_f64 = 10^s exactly (s <= 22),
   count small enough for count*10^s to be exact (< 2^53): the quotient of two floats, rounded once *)
Definition avg_f64 (sum count s : Z) : option Z :=
  let '(n, _) := int_as_f64 sum in
  if 2 ^ 53 <? count * 10 ^ s then None else round_q_f64 n (count * 10 ^ s).
