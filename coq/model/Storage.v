(* C14 — the storage side: `ConcurrentColumnCollection` (arrays/collection/concurrent.rs) behind a
   `DataTable`, as a labelled transition system for an ARBITRARY number of appender partitions
   (`InsertPartitionState` / `CreateTableAsPartitionState`: one `ColumnCollectionAppendState` each) and an
   arbitrary number of parallel scan states (`memory_scan.rs`: one `ParallelColumnCollectionScanState`
   per partition).  Definitions only; proofs are in proofs/StorageProofs.v.

   What is transcribed (bugs included):
   * `append_batch`: rows go to the partition-local segment; chunks are packed to `chunk_capacity` rows
     (segment.rs `append_batch`: a new chunk is started only when rows remain), and when
     `num_chunks >= segment_size` the local segment is flushed.
   * `flush`: a segment with zero rows is dropped; otherwise, UNDER THE MUTEX, it is pushed to
     `flushed.segments` (its position = its index).  Also called by `poll_finalize_execute`.
   * `init_parallel_scan_states n`: state j starts at segment index j, the shared counter at n.
     COLLECTION level (`ConcurrentColumnCollection::init_parallel_scan_states`, still used by Materialize and
     the nested-loop join): `segment_limit = None`.  TABLE level (`DataTable::init_parallel_scan_states`,
     storage/datatable.rs, since commit 2e9960218): every state gets `segment_limit = Some n` where
     n = `num_flushed_segments()` AT THE CREATION OF THE SCAN STATES.
   * one `parallel_scan` call: if no current segment, `segments.get(next_segment_idx)` is read UNDER THE
     MUTEX AT THE TIME OF THE CALL and kept only if `next_segment_idx < limit` (no limit: always kept);
     `None` -> 0 rows (memory_scan answers `Exhausted`, the state is never polled again); `Some` -> that segment
     becomes current and next index := fetch_add(counter).  Then (a slice of) one chunk of the current
     segment is emitted: min(rows left in the chunk, capacity of the output batch) rows (commit 34b7d5265,
     `chunk_row_offset`); a call that emits 0 rows makes memory_scan answer `Exhausted`.
   `Old.self_insert` is the table scan as it was before 2e9960218 (no limit): the witnesses of the two
   self-insert defects are kept as lemmas about it.
   A row is an abstract identifier (N).  `fetched` is a ghost log of the segment indexes handed out. *)
From Coq Require Import List NArith Arith Bool.
Import ListNotations.

Definition row := N.

Record cfg := { segsz : nat; cap : nat; ocap : nat }.   (* segment_size (chunks), chunk_capacity (rows),
                                                         write capacity of the scan's output batch (batch_size) *)

Record appender := { a_buf : list row;             (* rows in the local, unflushed segment *)
                     a_touched : bool;            (* the local segment has a chunk *)
                     a_count : nat;               (* InsertPartitionState.count *)
                     a_fin : bool }.              (* poll_finalize_execute done *)

Record scanner := { s_next : nat;                  (* next_segment_idx *)
                    s_cur : option (list row);    (* rows of the current segment not yet emitted *)
                    s_off : nat;                  (* chunk_row_offset: rows already taken from the current chunk *)
                    s_limit : option nat;         (* segment_limit *)
                    s_done : bool;                (* answered Exhausted *)
                    s_out : list (list row) }.    (* batches emitted, most recent first *)

Record coll := { segs : list (list row);           (* flushed.segments *)
                 counter : nat;                   (* the shared AtomicUsize of the scan states *)
                 apps : list appender;
                 scans : list scanner;
                 fetched : list nat }.            (* ghost *)

Definition fresh_app : appender := {| a_buf := []; a_touched := false; a_count := 0; a_fin := false |}.
Definition fresh_scan (lim : option nat) (j : nat) : scanner :=
  {| s_next := j; s_cur := None; s_off := 0; s_limit := lim; s_done := false; s_out := [] |}.

(* segment.rs: number of chunks of a local segment holding r rows *)
Definition nchunks (cp : nat) (touched : bool) (r : nat) : nat :=
  if touched then Nat.max 1 ((r + cp - 1) / cp) else 0.

Definition replace {A} (i : nat) (x : A) (l : list A) : list A := firstn i l ++ x :: skipn (S i) l.

(* concurrent.rs `flush` *)
Definition flush (sg : list (list row)) (a : appender) : list (list row) * appender :=
  let a' := {| a_buf := []; a_touched := false; a_count := a_count a; a_fin := a_fin a |} in
  match a_buf a with
  | [] => (sg, a')
  | _ :: _ => (sg ++ [a_buf a], a')
  end.

Inductive label :=
| LAppend (i : nat) (b : list row)      (* append_batch of appender i *)
| LFinalize (i : nat)                   (* poll_finalize_execute of appender i *)
| LScan (j : nat)                       (* one parallel_scan call of scan state j *)
| LPipe (j : nat).                      (* partition j of `INSERT INTO t SELECT .. FROM t`: one scan call of
                                          scan state j whose batch is appended by appender j *)

Definition set_apps (c : coll) (sg : list (list row)) (ap : list appender) : coll :=
  {| segs := sg; counter := counter c; apps := ap; scans := scans c; fetched := fetched c |}.

Definition do_append (k : cfg) (c : coll) (i : nat) (b : list row) : option coll :=
  match nth_error (apps c) i with
  | None => None
  | Some a =>
    if a_fin a then None else
    let a1 := {| a_buf := a_buf a ++ b; a_touched := true; a_count := a_count a + length b; a_fin := false |} in
    if segsz k <=? nchunks (cap k) true (length (a_buf a1))
    then let (sg, a2) := flush (segs c) a1 in Some (set_apps c sg (replace i a2 (apps c)))
    else Some (set_apps c (segs c) (replace i a1 (apps c)))
  end.

Definition do_finalize (c : coll) (i : nat) : option coll :=
  match nth_error (apps c) i with
  | None => None
  | Some a =>
    if a_fin a then None else
    let (sg, a2) := flush (segs c) a in
    Some (set_apps c sg (replace i {| a_buf := a_buf a2; a_touched := a_touched a2; a_count := a_count a2; a_fin := true |} (apps c)))
  end.

(* rows left in the current chunk; rows emitted by one call *)
Definition chunk_rem (k : cfg) (off : nat) (rem : list row) : nat := Nat.min (cap k - off) (length rem).
Definition slice (k : cfg) (off : nat) (rem : list row) : nat := Nat.min (chunk_rem k off rem) (ocap k).

Definition in_limit (s : scanner) : bool :=
  match s_limit s with None => true | Some l => s_next s <? l end.

(* the scan state after emitting from `rem` (rows of the current segment still to emit, the current chunk
   already consumed up to `off`), with next segment index nx *)
Definition emit_from (k : cfg) (s : scanner) (nx : nat) (rem : list row) (off : nat) : scanner :=
  let e := slice k off rem in
  {| s_next := nx; s_cur := Some (skipn e rem);
     s_off := if e =? chunk_rem k off rem then 0 else off + e;
     s_limit := s_limit s; s_done := (e =? 0); s_out := firstn e rem :: s_out s |}.

Definition set_scans (c : coll) (cn : nat) (f : list nat) (sc : list scanner) : coll :=
  {| segs := segs c; counter := cn; apps := apps c; scans := sc; fetched := f |}.

(* one `parallel_scan` call *)
Definition do_scan (k : cfg) (c : coll) (j : nat) : option coll :=
  match nth_error (scans c) j with
  | None => None
  | Some s =>
    if s_done s then None else
    let cur := match s_cur s with Some [] => None | x => x end in
    match cur with
    | Some rem => Some (set_scans c (counter c) (fetched c) (replace j (emit_from k s (s_next s) rem (s_off s)) (scans c)))
    | None =>
      match (if in_limit s then nth_error (segs c) (s_next s) else None) with
      | None =>
        Some (set_scans c (counter c) (fetched c)
                (replace j {| s_next := s_next s; s_cur := None; s_off := 0; s_limit := s_limit s; s_done := true; s_out := s_out s |} (scans c)))
      | Some seg =>
        Some (set_scans c (S (counter c)) (s_next s :: fetched c) (replace j (emit_from k s (counter c) seg 0) (scans c)))
      end
    end
  end.

Definition step (k : cfg) (c : coll) (l : label) : option coll :=
  match l with
  | LAppend i b => do_append k c i b
  | LFinalize i => do_finalize c i
  | LScan j => do_scan k c j
  | LPipe j =>
    match do_scan k c j with
    | None => None
    | Some c1 =>
      match nth_error (scans c1) j with
      | None => None
      | Some s1 => if s_done s1 then Some c1 else do_append k c1 j (hd [] (s_out s1))
      end
    end
  end.

Fixpoint run (k : cfg) (c : coll) (ls : list label) : option coll :=
  match ls with
  | [] => Some c
  | l :: r => match step k c l with Some c' => run k c' r | None => None end
  end.

(* ---- observations *)
Definition all_rows (c : coll) : list row := concat (segs c).
Definition buf_rows (c : coll) : list row := concat (map a_buf (apps c)).
Definition out_of (s : scanner) : list row := concat (rev (s_out s)).
Definition scan_output (c : coll) : list row := concat (map out_of (scans c)).
Definition cur_rows (c : coll) : list row := concat (map (fun s => match s_cur s with Some r => r | None => [] end) (scans c)).
Definition insert_count (c : coll) : nat := fold_right Nat.add 0 (map a_count (apps c)).
Definition all_finalized (c : coll) : bool := forallb a_fin (apps c).
Definition all_done (c : coll) : bool := forallb s_done (scans c).

Fixpoint appended (ls : list label) : list row :=
  match ls with
  | [] => []
  | LAppend _ b :: r => b ++ appended r
  | _ :: r => appended r
  end.

(* a collection holding `sg`, with n fresh appenders and no scan states *)
Definition writers (sg : list (list row)) (n : nat) : coll :=
  {| segs := sg; counter := 0; apps := repeat fresh_app n; scans := []; fetched := [] |}.

(* `ConcurrentColumnCollection::init_parallel_scan_states p`: no segment limit *)
Definition start_scan (p : nat) (c : coll) : coll :=
  {| segs := segs c; counter := p; apps := apps c; scans := map (fresh_scan None) (seq 0 p); fetched := [] |}.

(* `DataTable::init_parallel_scan_states p`: the segment count is captured when the states are created *)
Definition start_table_scan (p : nat) (c : coll) : coll :=
  {| segs := segs c; counter := p; apps := apps c;
     scans := map (fresh_scan (Some (length (segs c)))) (seq 0 p); fetched := [] |}.

(* `INSERT INTO t SELECT * FROM t` with p partitions on a table holding `sg` *)
Definition self_insert (sg : list (list row)) (p : nat) : coll :=
  start_table_scan p (writers sg p).

(* the same statement before commit 2e9960218: the table scan had no segment limit *)
Module Old.
Definition self_insert (sg : list (list row)) (p : nat) : coll :=
  start_scan p (writers sg p).
End Old.

(* the statement's own actions: partition j pipes a batch from its scan state to its appender, or finalizes *)
Definition is_stmt_label (l : label) : bool :=
  match l with LPipe _ | LFinalize _ => true | _ => false end.

(* termination measure of a table scan over L segments holding R rows, p partitions *)
Definition live_scans (c : coll) : nat := length (filter (fun s => negb (s_done s)) (scans c)).
Definition live_apps (c : coll) : nat := length (filter (fun a => negb (a_fin a)) (apps c)).
Definition measure (R L : nat) (c : coll) : nat :=
  S R * (length (scans c) + L - counter c) + length (cur_rows c) + live_scans c + live_apps c.

Definition complete (c : coll) : bool := all_done c && all_finalized c.

(* rows added by the statement that started on a table holding n0 segments *)
Definition added (n0 : nat) (c : coll) : list row := concat (skipn n0 (segs c)).

(* ---- the schedules used for the replay: partition order `order`, every partition run to completion
   (pipe until exhausted, then finalize) before the next one starts — the deterministic scheduler polls a
   task until it parks or finishes *)
Fixpoint pipe_until_done (k : cfg) (fuel : nat) (c : coll) (j : nat) : option coll :=
  match fuel with
  | O => None
  | S f =>
    match step k c (LPipe j) with
    | None => None
    | Some c1 =>
      match nth_error (scans c1) j with
      | Some s1 => if s_done s1 then step k c1 (LFinalize j) else pipe_until_done k f c1 j
      | None => None
      end
    end
  end.

Fixpoint run_order (k : cfg) (fuel : nat) (c : coll) (order : list nat) : option coll :=
  match order with
  | [] => Some c
  | j :: r => match pipe_until_done k fuel c j with Some c1 => run_order k fuel c1 r | None => None end
  end.

(* N-valued lengths for printing at real scale *)
Fixpoint lenN {A} (l : list A) : N := match l with [] => 0%N | _ :: r => N.succ (lenN r) end.
Definition total_rows (c : coll) : N := fold_right N.add 0%N (map lenN (segs c)).

(* a table loaded by one partition: n rows numbered from 1, flushed per `segsz` chunks of `cap` rows
   (fed in batches of `cap` rows), the rest at finalize *)
Fixpoint iotaN (start : N) (n : nat) : list row :=
  match n with O => [] | S m => start :: iotaN (N.succ start) m end.

(* ------------------------------------------------------------------ chunk level: `ColumnCollectionSegment::append_batch`
   (arrays/collection/segment.rs) AS WRITTEN.  A local segment is its list of chunks, MOST RECENT FIRST (the head is
   `chunks.last_mut()`); a chunk is the list of the rows filled so far, its capacity is cp.

     if chunks.is_empty() { push new chunk }
     input_offset = 0; rows_remaining = batch.num_rows();
     while rows_remaining != 0 {
         copy_count = min(chunk.capacity - chunk.filled, rows_remaining);
         chunk.copy_rows(batch, input_offset, copy_count);        // rows input_offset .. input_offset+copy_count
         input_offset += copy_count;  rows_remaining -= copy_count;
         if rows_remaining > 0 { push new chunk }
     }
   `accum = true` is the code as written (`input_offset += copy_count`); `accum = false` is the variant
   `input_offset = copy_count`, kept to show that the theorems below do distinguish the two.
   The loop has no bound in the source (with capacity 0 it never ends); here it runs on fuel. *)
Fixpoint append_loop (accum : bool) (cp fuel : nat) (rchs : list (list row)) (batch : list row) (off rem : nat)
  : option (list (list row)) :=
  match fuel with
  | O => None
  | S f =>
    if rem =? 0 then Some rchs else
    match rchs with
    | [] => None
    | cur :: older =>
      let copy := Nat.min (cp - length cur) rem in
      let cur' := cur ++ firstn copy (skipn off batch) in
      let off' := if accum then off + copy else copy in
      let rem' := rem - copy in
      if 0 <? rem' then append_loop accum cp f ([] :: cur' :: older) batch off' rem'
      else append_loop accum cp f (cur' :: older) batch off' rem'
    end
  end.

Definition seg_append (accum : bool) (cp : nat) (rchs : list (list row)) (batch : list row) : option (list (list row)) :=
  append_loop accum cp (length batch + 2) (match rchs with [] => [[]] | _ => rchs end) batch 0 (length batch).

Fixpoint seg_appends (accum : bool) (cp : nat) (rchs : list (list row)) (batches : list (list row)) : option (list (list row)) :=
  match batches with
  | [] => Some rchs
  | b :: r => match seg_append accum cp rchs b with Some rchs' => seg_appends accum cp rchs' r | None => None end
  end.

(* the rows of a local segment, in storage order *)
Definition chunk_rows (rchs : list (list row)) : list row := concat (rev rchs).

(* every chunk but the current one is full, the current one within capacity, and an empty current chunk is the only chunk *)
Definition wfc (cp : nat) (rchs : list (list row)) : Prop :=
  match rchs with
  | [] => True
  | cur :: older => length cur <= cp /\ Forall (fun c => length c = cp) older /\ (older <> [] -> cur <> [])
  end.

(* one appender partition of an INSERT / CTAS at chunk level: append_batch, flush at `sz` chunks, flush at the end;
   flushed segments are kept as their rows in storage order *)
Definition cflush (sg : list (list row)) (rchs : list (list row)) : list (list row) :=
  match chunk_rows rchs with [] => sg | r => sg ++ [r] end.

Fixpoint bulk (accum : bool) (cp sz : nat) (sg : list (list row)) (rchs : list (list row)) (batches : list (list row))
  : option (list (list row)) :=
  match batches with
  | [] => Some (cflush sg rchs)
  | b :: r =>
    match seg_append accum cp rchs b with
    | None => None
    | Some rchs' => if sz <=? length rchs' then bulk accum cp sz (cflush sg rchs') [] r else bulk accum cp sz sg rchs' r
    end
  end.

(* rows a .. a+n-1 cut into batches of bs rows *)
Fixpoint batches_of (fuel bs : nat) (l : list row) : list (list row) :=
  match fuel with
  | O => []
  | S f => match l with [] => [] | _ => firstn bs l :: batches_of f bs (skipn bs l) end
  end.
