(* Text <-> value conversions of crates/glaredb_core/src/functions/cast/{parse,format}.rs as
   functions on byte lists (bytes are N < 256).  Where the source delegates to a library the
   library routine is transcribed too: Rust core `from_str_radix` / integer `Display` for the
   integer types, chrono 0.4.41 `NaiveDate::from_str` and `%Y-%m-%d` for dates.  Float text is
   Rust std (not modelled).  Definitions only; proofs in proofs/TextConvProofs.v. *)
From Coq Require Import NArith ZArith List Bool.
From GV Require Import model.Cast model.Calendar.
Import ListNotations.
Open Scope Z_scope.

Definition byte := N.
Definition is_digit (b : N) : bool := ((48 <=? b) && (b <=? 57))%N.
Definition digit_val (b : N) : Z := Z.of_N b - 48.
Definition digit_char (d : Z) : N := Z.to_N (48 + d).

(* ---------- integers ---------- *)
(* core::num from_str_radix, radix 10: checked_mul then checked_add / checked_sub per digit *)
Fixpoint pdigits (t : ity) (neg : bool) (acc : Z) (bs : list N) : option Z :=
  match bs with
  | [] => Some acc
  | b :: r =>
      if is_digit b then
        let a10 := acc * 10 in
        if in_range t a10 then
          let a := if neg then a10 - digit_val b else a10 + digit_val b in
          if in_range t a then pdigits t neg a r else None
        else None
      else None
  end.

Definition parse_int (t : ity) (bs : list N) : option Z :=
  match bs with
  | [] => None
  | b :: r =>
      if ((b =? 43) || (b =? 45))%N then
        match r with
        | [] => None                                   (* a lone sign *)
        | _ :: _ =>
            if (b =? 43)%N then pdigits t false 0 r
            else if i_signed t then pdigits t true 0 r
            else pdigits t false 0 bs                  (* '-' is an invalid digit for unsigned *)
        end
      else pdigits t false 0 bs
  end.

(* integer Display: decimal digits, most significant first, no padding *)
Fixpoint udigits (fuel : nat) (v : Z) (acc : list N) : list N :=
  match fuel with
  | O => acc
  | S f => if v <? 10 then digit_char v :: acc
           else udigits f (v / 10) (digit_char (v mod 10) :: acc)
  end.
Definition format_uint (v : Z) : list N := udigits (S (Z.to_nat (Z.log2 v))) v [].
Definition format_int (v : Z) : list N :=
  if v <? 0 then 45%N :: format_uint (- v) else format_uint v.

Fixpoint lpad_n (n : nat) (c : N) (l : list N) : list N :=
  match n with O => l | S k => c :: lpad_n k c l end.
(* `{:0>w}`: fill on the left up to width w *)
Definition lpad (w : Z) (c : N) (l : list N) : list N :=
  lpad_n (Z.to_nat (w - Z.of_nat (length l))) c l.

(* ---------- booleans ---------- *)
Definition bytes_eqb (a b : list N) : bool :=
  (length a =? length b)%nat && forallb (fun p => (fst p =? snd p)%N) (combine a b).
Definition s_true : list N := [116; 114; 117; 101]%N.
Definition s_false : list N := [102; 97; 108; 115; 101]%N.
Definition s_TRUE : list N := [84; 82; 85; 69]%N.
Definition s_FALSE : list N := [70; 65; 76; 83; 69]%N.
Definition parse_bool (bs : list N) : option bool :=
  if bytes_eqb bs [116]%N || bytes_eqb bs s_true || bytes_eqb bs s_TRUE || bytes_eqb bs [84]%N then Some true
  else if bytes_eqb bs [102]%N || bytes_eqb bs s_false || bytes_eqb bs s_FALSE || bytes_eqb bs [70]%N then Some false
  else None.
Definition format_bool (b : bool) : list N := if b then s_true else s_false.

(* ---------- decimals ---------- *)
Definition U8 := mk_ity false 8.

(* DecimalParser::parse (cast/parse.rs after 7b11b6c5d).  `?` on a checked operation is Err (None);
   the operations that are still the plain std ones (`%`, `/`, `T::zero().sub(val)`) keep their
   panic outcome in the model. *)
Definition push_digit (t : ity) (val : Z) (b : N) : outcome Z :=
  obind (checked t (val * 10)) (fun v1 => checked t (v1 + digit_val b)).

(* first loop: digits before the point.  Result: (val, seen_digit, rest after the '.' or None when
   the iterator is exhausted) *)
Fixpoint dec_lead (t : ity) (val : Z) (seen : bool) (bs : list N) : outcome (Z * bool * option (list N)) :=
  match bs with
  | [] => Ok (val, seen, None)
  | b :: r =>
      if is_digit b then obind (push_digit t val b) (fun v => dec_lead t v true r)
      else if (b =? 46)%N then Ok (val, seen, Some r)
      else Err
  end.

(* second loop: digits after the point; the first digit beyond the scale decides the rounding *)
Fixpoint dec_frac (t : ity) (scale : Z) (val decimals : Z) (seen round_up seen_dropped : bool) (bs : list N)
  : outcome (Z * Z * bool * bool) :=
  match bs with
  | [] => Ok (val, decimals, seen, round_up)
  | b :: r =>
      if is_digit b then
        if (scale <=? 0) || (decimals =? scale) then
          (if seen_dropped then dec_frac t scale val decimals true round_up true r
           else dec_frac t scale val decimals true (53 <=? b)%N true r)
        else obind (push_digit t val b) (fun v => dec_frac t scale v (decimals + 1) true round_up seen_dropped r)
      else Err
  end.

Definition parse_decimal (oc : bool) (d : dty) (precision scale : Z) (bs : list N) : outcome Z :=
  let t := d_prim d in
  let '(neg, bs) :=
    match bs with
    | b :: r => if (b =? 45)%N then (true, r) else if (b =? 43)%N then (false, r) else (false, bs)
    | [] => (false, bs)
    end in
  obind (dec_lead t 0 false bs) (fun '(val, seen, rest) =>
  obind (match rest with
         | Some r => dec_frac t scale val 0 seen false false r
         | None => Ok (val, 0, seen, false)
         end) (fun '(val, decimals, seen, round_up) =>
  if negb seen then Err
  else
    obind (if scale <? 0 then
             obind (checked_pow t 10 (Z.abs scale)) (fun div =>
             if div =? 0 then Panic                                  (* `%` by zero *)
             else
               obind (checked t (Z.rem val div * 2)) (fun r2 =>
               Ok (Z.quot val div, div <=? r2)))
           else if decimals <? scale then
             obind (checked_pow t 10 (scale - decimals)) (fun mul =>
             obind (checked t (val * mul)) (fun v => Ok (v, round_up)))
           else Ok (val, round_up)) (fun '(val, round_up) =>
    obind (if round_up then checked t (val + 1) else Ok val) (fun val =>
    (* if let Some(limit) = checked_pow(ten, precision) { if val >= limit { return None } } *)
    if (match checked_pow t 10 precision with Ok limit => limit <=? val | _ => false end) then Err
    else if neg then unchecked oc t (0 - val) else Ok val)))).

(* DecimalFormatter::write *)
Definition format_decimal (oc : bool) (d : dty) (scale : Z) (v : Z) : outcome (list N) :=
  let t := d_prim d in
  obind (pow_in oc t 10 (Z.abs_nat scale)) (fun mask =>
  obind (if v <? 0 then unchecked oc t (- v) else Ok v) (fun a =>
  let sign := if v <? 0 then [45%N] else [] in
  obind (if scale <? 0 then obind (unchecked oc t (a * mask)) (fun i => Ok (i, 0))
         else Ok (Z.quot a mask, Z.rem a mask)) (fun '(ipart, fpart) =>
  let istr := format_int ipart in
  if scale <=? 0 then Ok (sign ++ istr)
  else Ok (sign ++ istr ++ [46%N] ++ lpad scale 48%N (format_int fpart))))).

(* ---------- dates ---------- *)
Definition is_ws (b : N) : bool := (((9 <=? b) && (b <=? 13)) || (b =? 32))%N.
Fixpoint trim_start (bs : list N) : list N :=
  match bs with
  | b :: r => if is_ws b then trim_start r else bs
  | [] => []
  end.

(* chrono format::scan::number(s, 1, max): 1..max digits, i64 checked arithmetic *)
Fixpoint scan_number (fuel : nat) (first : bool) (acc : Z) (bs : list N) : option (Z * list N) :=
  match fuel with
  | O => Some (acc, bs)
  | S f =>
      match bs with
      | [] => if first then None else Some (acc, bs)
      | b :: r =>
          if is_digit b then
            let a := acc * 10 + digit_val b in
            if in_range I64 (acc * 10) && in_range I64 a then scan_number f false a r else None
          else if first then None else Some (acc, bs)
      end
  end.

(* NaiveDate::from_str: Year, Space, "-", Month, Space, "-", Day, Space; then from_ymd_opt *)
Definition parse_date (bs : list N) : option Z :=
  let s := trim_start bs in
  let unbounded := S (length s) in
  let yr :=
    match s with
    | b :: r =>
        if (b =? 45)%N then
          match scan_number unbounded true 0 r with
          | Some (v, rest) => Some (- v, rest)       (* 0i64.checked_sub(v): never overflows *)
          | None => None
          end
        else if (b =? 43)%N then scan_number unbounded true 0 r
        else scan_number 4 true 0 s
    | [] => None
    end in
  match yr with
  | None => None
  | Some (y, s) =>
      match trim_start s with
      | b :: s =>
          if negb (b =? 45)%N then None else
          match scan_number 2 true 0 (trim_start s) with
          | None => None
          | Some (m, s) =>
              match trim_start s with
              | b :: s =>
                  if negb (b =? 45)%N then None else
                  match scan_number 2 true 0 (trim_start s) with
                  | None => None
                  | Some (d, s) =>
                      match trim_start s with
                      | _ :: _ => None                 (* trailing input: TOO_LONG *)
                      | [] =>
                          (* Parsed::set_year needs an i32; from_ymd_opt range-checks *)
                          if in_range I32 y && (min_year <=? y) && (y <=? max_year) && valid_ymd y m d
                          then Some (days_from_civil y m d) else None
                      end
                  end
              | [] => None
              end
          end
      | [] => None
      end
  end.

(* Date32Formatter: DateTime::from_timestamp(days * 86400, 0) then "%Y-%m-%d" *)
Definition format_year (y : Z) : list N :=
  if (0 <=? y) && (y <=? 9999) then lpad 4 48%N (format_uint y)
  else (if y <? 0 then 45%N else 43%N) :: lpad 4 48%N (format_uint (Z.abs y)).   (* {:+05} *)
Definition format_date (days : Z) : option (list N) :=
  (* from_timestamp: days + 719163 must be an i32; from_num_days_from_ce_opt: checked_add(365), then
     the year is range-checked (from_ordinal_and_flags) *)
  let dce := days + 719163 in
  if in_range I32 dce && in_range I32 (dce + 365) then
    let '(y, m, d) := civil_from_days days in
    if (min_year <=? y) && (y <=? max_year) then
      Some (format_year y ++ [45%N] ++ lpad 2 48%N (format_uint m) ++ [45%N] ++ lpad 2 48%N (format_uint d))
    else None
  else None.

(* ---------- intervals ---------- *)
Record interval := mk_iv { iv_months : Z; iv_days : Z; iv_nanos : Z }.

Definition str (l : list Z) : list N := map Z.to_N l.
Definition s_year := str [32; 121; 101; 97; 114].       (* " year" *)
Definition s_mon := str [32; 109; 111; 110].            (* " mon" *)
Definition s_day := str [32; 100; 97; 121].             (* " day" *)
Definition plural (v : Z) : list N := if 1 <? v then [115%N] else [].
(* `{v:02}` *)
Definition fmt02 (v : Z) : list N :=
  if v <? 0 then 45%N :: lpad 1 48%N (format_uint (- v)) else lpad 2 48%N (format_uint v).

(* IntervalFormatter::write; `/` and `%` truncate *)
Definition format_interval (iv : interval) : list N :=
  let years := Z.quot (iv_months iv) 12 in
  let months := Z.rem (iv_months iv) 12 in
  let days := iv_days iv in
  let n := iv_nanos iv in
  let hours := Z.quot n 3600000000000 in let n := Z.rem n 3600000000000 in
  let minutes := Z.quot n 60000000000 in let n := Z.rem n 60000000000 in
  let seconds := Z.quot n 1000000000 in let n := Z.rem n 1000000000 in
  let millis := Z.quot n 1000000 in
  let sep (pad : bool) := if pad then [32%N] else [] in
  let p0 := false in
  let '(o1, p1) := if 0 <? years then (format_int years ++ s_year ++ plural years, true) else ([], p0) in
  let '(o2, p2) := if 0 <? months then (o1 ++ sep p1 ++ format_int months ++ s_mon ++ plural months, true) else (o1, p1) in
  let '(o3, p3) := if 0 <? days then (o2 ++ sep p2 ++ format_int days ++ s_day ++ plural days, true) else (o2, p2) in
  if negb (hours + minutes + seconds + millis =? 0) then
    o3 ++ sep p3 ++ fmt02 hours ++ [58%N] ++ fmt02 minutes ++ [58%N] ++ fmt02 seconds ++
    (if 0 <? millis then 46%N :: format_int millis else [])
  else o3.

(* IntervalUnit::from_str: multiplier per unit as (months, days, nanos) *)
Definition unit_table : list (list N * (Z * Z * Z)) :=
  [ (str [109;105;108;108;101;110;105;117;109], (12000, 0, 0));
    (str [109;105;108;108;101;110;105;117;109;115], (12000, 0, 0));
    (str [99;101;110;116;117;114;121], (1200, 0, 0));
    (str [99;101;110;116;117;114;105;101;115], (1200, 0, 0));
    (str [100;101;99;97;100;101], (120, 0, 0));
    (str [100;101;99;97;100;101;115], (120, 0, 0));
    (str [121;101;97;114], (12, 0, 0));
    (str [121;101;97;114;115], (12, 0, 0));
    (str [109;111;110;116;104], (1, 0, 0));
    (str [109;111;110;116;104;115], (1, 0, 0));
    (str [119;101;101;107], (0, 7, 0));
    (str [119;101;101;107;115], (0, 7, 0));
    (str [100;97;121], (0, 1, 0));
    (str [100;97;121;115], (0, 1, 0));
    (str [104;111;117;114], (0, 0, 3600000000000));
    (str [104;111;117;114;115], (0, 0, 3600000000000));
    (str [109;105;110;117;116;101], (0, 0, 60000000000));
    (str [109;105;110;117;116;101;115], (0, 0, 60000000000));
    (str [109;105;110], (0, 0, 60000000000));
    (str [109;105;110;115], (0, 0, 60000000000));
    (str [115;101;99;111;110;100], (0, 0, 1000000000));
    (str [115;101;99;111;110;100;115], (0, 0, 1000000000));
    (str [115;101;99], (0, 0, 1000000000));
    (str [115;101;99;115], (0, 0, 1000000000));
    (str [109;105;108;108;105;115;101;99;111;110;100], (0, 0, 1000000));
    (str [109;105;108;108;105;115;101;99;111;110;100;115], (0, 0, 1000000));
    (str [109;105;99;114;111;115;101;99;111;110;100], (0, 0, 1000));
    (str [109;105;99;114;111;115;101;99;111;110;100;115], (0, 0, 1000));
    (str [110;97;110;111;115;101;99;111;110;100], (0, 0, 1));
    (str [110;97;110;111;115;101;99;111;110;100;115], (0, 0, 1)) ].

Fixpoint lookup_unit (tbl : list (list N * (Z * Z * Z))) (s : list N) : option (Z * Z * Z) :=
  match tbl with
  | [] => None
  | (k, v) :: r => if bytes_eqb k s then Some v else lookup_unit r s
  end.

Definition lower (b : N) : N := if ((65 <=? b) && (b <=? 90))%N then (b + 32)%N else b.

(* split_whitespace *)
Fixpoint split_ws_aux (bs : list N) (cur : list N) : list (list N) :=
  match bs with
  | [] => match cur with [] => [] | _ => [rev cur] end
  | b :: r => if is_ws b then (match cur with [] => split_ws_aux r [] | _ => rev cur :: split_ws_aux r [] end)
              else split_ws_aux r (b :: cur)
  end.
Definition split_ws (bs : list N) : list (list N) := split_ws_aux bs [].

Section IntervalParse.
  (* The quantity of each field is parsed by Rust's f64::from_str (external).  The model takes
     the quantity parser as a parameter and covers whole-number quantities only (for those the
     float arithmetic of the source is exact below 2^53 and every fractional carry is 0);
     i32 / i64 overflow of the additions is not modelled. *)
  Variable qparse : list N -> option Z.

  Fixpoint parse_fields (fs : list (list N)) (acc : interval) : option interval :=
    match fs with
    | [] => Some acc
    | q :: u :: r =>
        match qparse q with
        | None => None
        | Some n =>
            match lookup_unit unit_table u with
            | None => None
            | Some (mm, dd, nn) =>
                parse_fields r (mk_iv (iv_months acc + n * mm) (iv_days acc + n * dd) (iv_nanos acc + n * nn))
            end
        end
    | [_] => None
    end.

  Definition parse_interval (bs : list N) : option interval :=
    match split_ws (map lower bs) with
    | [f] => match qparse f with
             | Some n => Some (mk_iv 0 0 (n * 1000000000))      (* a single field is seconds *)
             | None => None
             end
    | fs => if Nat.even (length fs) then parse_fields fs (mk_iv 0 0 0) else None
    end.
End IntervalParse.

(* whole-number quantities: the integer syntax f64::from_str shares with i64::from_str *)
Definition qparse_int (bs : list N) : option Z := parse_int I64 bs.

(* ---------- specification side ---------- *)
(* a conforming text -> integer parser accepts exactly  [+-]? digit+  (no surrounding bytes) *)
Definition wellformed_int (bs : list N) : bool :=
  match bs with
  | [] => false
  | b :: r => if ((b =? 43) || (b =? 45))%N
              then negb (match r with [] => true | _ => false end) && forallb is_digit r
              else forallb is_digit bs
  end.
(* value of a digit string *)
Definition dval (a : Z) (l : list N) : Z := fold_left (fun a b => a * 10 + digit_val b) l a.
Fixpoint split_point (bs : list N) : list N * option (list N) :=
  match bs with
  | [] => ([], None)
  | b :: r => if (b =? 46)%N then ([], Some r) else let '(i, f) := split_point r in (b :: i, f)
  end.
(* a conforming decimal literal:  [+-]? digit* ( '.' digit* )?  with at least one digit *)
Fixpoint count_digits (bs : list N) : nat :=
  match bs with [] => O | b :: r => if is_digit b then S (count_digits r) else count_digits r end.
Fixpoint all_digits_or_one_point (seen_point : bool) (bs : list N) : bool :=
  match bs with
  | [] => true
  | b :: r => if is_digit b then all_digits_or_one_point seen_point r
              else if (b =? 46)%N && negb seen_point then all_digits_or_one_point true r else false
  end.
Definition wellformed_decimal (bs : list N) : bool :=
  let body := match bs with
              | b :: r => if ((b =? 43) || (b =? 45))%N then r else bs
              | [] => bs end in
  all_digits_or_one_point false body && negb (count_digits body =? 0)%nat.

(* text -> DECIMAL(p,s): a well-formed literal (optional sign, digits, optional point and digits, at least one digit)
   denotes N / 10^n (N the digits, n the number of fractional digits); the result is
   round_half_away(N * 10^s / 10^n) when its magnitude is below 10^p, otherwise (and for every
   other text) nothing *)
Definition spec_parse_decimal (p s : Z) (bs : list N) : option Z :=
  if wellformed_decimal bs then
    let '(neg, body) := match bs with
                        | b :: r => if (b =? 45)%N then (true, r) else if (b =? 43)%N then (false, r) else (false, bs)
                        | [] => (false, bs) end in
    let '(ip, fp) := split_point body in
    let fp := match fp with Some f => f | None => [] end in
    let d := rha_div (dval 0 (ip ++ fp) * 10 ^ s) (10 ^ Z.of_nat (length fp)) in
    if d <? 10 ^ p then Some (if neg then - d else d) else None
  else None.

(* ---------- the parser before the repair 7b11b6c5d (kept for the witness lemmas) ---------- *)
Module Old.
(* first loop of DecimalParser::parse: digits before the point.  Result: (val, digits, rest after
   the '.' or None when the iterator is exhausted) *)
Fixpoint dec_lead (oc : bool) (t : ity) (val digits : Z) (bs : list N)
  : outcome (Z * Z * option (list N)) :=
  match bs with
  | [] => Ok (val, digits, None)
  | b :: r =>
      if is_digit b then
        if (digits =? 0) && (b =? 48)%N then dec_lead oc t val digits r
        else
          obind (unchecked oc U8 (digits + 1)) (fun dg =>
          obind (unchecked oc t (val * 10)) (fun v1 =>
          obind (unchecked oc t (v1 + digit_val b)) (fun v2 =>
          dec_lead oc t v2 dg r)))
      else if (b =? 46)%N then Ok (val, digits, Some r)
      else Err
  end.

(* second loop: digits after the point; digits beyond `scale` are skipped *)
Fixpoint dec_frac (oc : bool) (t : ity) (scale : Z) (val digits decimals : Z) (bs : list N)
  : outcome (Z * Z * Z) :=
  match bs with
  | [] => Ok (val, digits, decimals)
  | b :: r =>
      if is_digit b then
        if decimals =? scale then dec_frac oc t scale val digits decimals r
        else
          obind (unchecked oc U8 (digits + 1)) (fun dg =>
          obind (unchecked oc t (val * 10)) (fun v1 =>
          obind (unchecked oc t (v1 + digit_val b)) (fun v2 =>
          dec_frac oc t scale v2 dg (decimals + 1) r)))
      else Err
  end.

Definition parse_decimal (oc : bool) (d : dty) (precision scale : Z) (bs : list N) : outcome Z :=
  let t := d_prim d in
  let '(neg, bs) :=
    match bs with
    | b :: r => if (b =? 45)%N then (true, r) else if (b =? 43)%N then (false, r) else (false, bs)
    | [] => (false, bs)
    end in
  obind (dec_lead oc t 0 0 bs) (fun '(val, digits, rest) =>
  obind (match rest with
         | Some r => dec_frac oc t scale val digits 0 r
         | None => Ok (val, digits, 0)
         end) (fun '(val, digits, decimals) =>
  obind (if scale <? 0 then
           obind (unchecked oc U8 (digits - Z.abs scale)) (fun dg =>
           obind (pow_in oc t 10 (Z.abs_nat scale)) (fun pw =>
           Ok (Z.quot val pw, dg)))
         else Ok (val, digits)) (fun '(val, digits) =>
  if precision <? digits then Err
  else
    obind (if decimals <? scale then
             obind (pow_in oc t 10 (Z.to_nat (scale - decimals))) (fun pw => unchecked oc t (val * pw))
           else Ok val) (fun val =>
    if neg then unchecked oc t (0 - val) else Ok val)))).

End Old.
