(* C07 (split/order independence of aggregate partial states) and C12 (SUM/AVG exact or fail):
   the per-function state machines  new_aggregate_state / update / merge / finalize  of
   /repo/crates/glaredb_core/src/functions/aggregate/builtin/
       {count,sum,avg,stddev,covar,corr,regr_avg,regr_count,regr_r2,regr_slope,minmax,first,
        bool_and,bool_or,bit_and,bit_or,string_agg}.rs
   transcribed AS WRITTEN (guards, early returns, which fields are added, order of operations), and the
   mathematical specification of every function on the whole list of (non-NULL) inputs.
   Definitions only (executable; extracted by extract/ExtractAggFn.v).  Proofs: proofs/AggFnProofs.v.

   How the engine drives a state (functions/aggregate/simple.rs, arrays/executor/aggregate/{unary,binary}.rs):
     * `UnaryNonNullUpdater` calls `state.update(v)` for the valid (non-NULL) rows only,
       `BinaryNonNullUpdater` for the rows where BOTH inputs are valid              -> `feed`
     * `combine` calls `dest.merge(src)` and then drops `src`                        -> `a_merge dest src`
       (`std::mem::swap(self, other)` therefore = "self becomes other")
     * `finalize` writes a value or NULL                                             -> `a_final`

   Number model
     * integers / unscaled decimals: Z.  Checked operations of the source (`checked_add` in
       SumStateCheckedAdd, and since 2f7b0a8b9 in AvgStateDecimal) are `Err` outside the accumulator width.
       The `count: i64` fields use native `+= 1` / `+=`: a wrap needs 2^63 rows and is not modelled (Z); the
       i128 sum of AVG(bigint) and AVG(decimal64) needs 2^64 rows to overflow and is not modelled either.
     * f64 accumulators: EXACT rationals Q, every result kept in lowest terms (`Qred`, so that equal numbers
       are equal terms).  Rounding, infinities, NaN and signed zeros are OUTSIDE the model; a division by
       zero (which gives inf/NaN in the source) is the outcome `NonFinite` (shown unreachable).
       `x as f64` of an integer is exact in the model (`qz`).  sqrt is kept symbolic in the result (`FSqrt`,
       `FCorr`); the comparison with the engine evaluates it in floating point. *)
From Coq Require Import ZArith QArith Qreduction List Bool.
Import ListNotations.
Open Scope Z_scope.

Inductive outcome (A : Type) : Type :=
| Ok (a : A)
| Err            (* DbError returned by the source *)
| Panic          (* arithmetic overflow panic (dev profile) *)
| NonFinite.     (* the f64 result would be inf / NaN: outside the rational model *)
Arguments Ok {A} a.
Arguments Err {A}.
Arguments Panic {A}.
Arguments NonFinite {A}.

Definition bind {A B} (o : outcome A) (f : A -> outcome B) : outcome B :=
  match o with Ok a => f a | Err => Err | Panic => Panic | NonFinite => NonFinite end.
Notation "'do' x <- e ; k" := (bind e (fun x => k)) (at level 200, x name, e at level 100, k at level 200).

(* ---------------------------------------------------------------- numbers *)
Definition in_i (w z : Z) : bool := (- 2 ^ (w - 1) <=? z) && (z <? 2 ^ (w - 1)).

Definition qadd (a b : Q) : Q := Qred (a + b).
Definition qsub (a b : Q) : Q := Qred (a - b).
Definition qmul (a b : Q) : Q := Qred (a * b).
Definition qdiv (a b : Q) : outcome Q := if Qeq_bool b 0 then NonFinite else Ok (Qred (a / b)).
Definition qz (z : Z) : Q := inject_Z z.

(* result of a Float64-valued aggregate *)
Inductive fres :=
| FNull
| FRat (q : Q)                 (* the number q *)
| FSqrt (q : Q)                (* sqrt q *)
| FCorr (c vx vy : Q)          (* c / (sqrt vx * sqrt vy) *)
| FCorrSq (c vx vy : Q)        (* (c / (sqrt vx * sqrt vy)) ^ 2 *)
| FNonFinite.

Definition frat (o : outcome Q) : fres := match o with Ok q => FRat q | _ => FNonFinite end.
Definition fsqrt (o : outcome Q) : fres := match o with Ok q => FSqrt q | _ => FNonFinite end.

(* equality of results as numbers *)
Definition fres_eq (a b : fres) : Prop :=
  match a, b with
  | FNull, FNull => True
  | FRat p, FRat q => p == q
  | FSqrt p, FSqrt q => p == q
  | FCorr c x y, FCorr c' x' y' => c == c' /\ x == x' /\ y == y'
  | FCorrSq c x y, FCorrSq c' x' y' => c == c' /\ x == x' /\ y == y'
  | FNonFinite, FNonFinite => True
  | _, _ => False
  end.

(* ---------------------------------------------------------------- the state-machine interface *)
Record agg (X S O : Type) := mkAgg {
  a_init : S;                               (* new_aggregate_state *)
  a_update : S -> X -> outcome S;           (* self.update(input) *)
  a_merge : S -> S -> outcome S;            (* self.merge(other): the new `self` *)
  a_final : S -> O                          (* self.finalize(): value or NULL *)
}.
Arguments mkAgg {X S O}.
Arguments a_init {X S O}.
Arguments a_update {X S O}.
Arguments a_merge {X S O}.
Arguments a_final {X S O}.

Section Run.
  Context {X S O : Type} (f : agg X S O).

  (* NULL rows never reach `update` *)
  Definition feed (s : S) (o : option X) : outcome S :=
    match o with None => Ok s | Some x => a_update f s x end.

  Definition foldM {A B} (g : A -> B -> outcome A) (l : list B) (a : A) : outcome A :=
    fold_left (fun acc x => do s <- acc; g s x) l (Ok a).

  (* one partial state fed with one chunk of rows *)
  Definition run_chunk (xs : list (option X)) : outcome S := foldM feed xs (a_init f).

  (* an arbitrary combination plan: fresh state fed with a chunk; `Node l r` = l.merge(r);
     `More t xs` = the state of t fed with further rows *)
  Inductive mtree := Leaf (xs : list (option X)) | Node (l r : mtree) | More (t : mtree) (xs : list (option X)).

  Fixpoint run_tree (t : mtree) : outcome S :=
    match t with
    | Leaf xs => run_chunk xs
    | Node l r => do a <- run_tree l; do b <- run_tree r; a_merge f a b
    | More t xs => do a <- run_tree t; foldM feed xs a
    end.

  Fixpoint flatten (t : mtree) : list (option X) :=
    match t with
    | Leaf xs => xs
    | Node l r => flatten l ++ flatten r
    | More t xs => flatten t ++ xs
    end.

  Definition result_tree (t : mtree) : outcome O := do s <- run_tree t; Ok (a_final f s).
End Run.
Arguments Leaf {X} xs.
Arguments Node {X} l r.
Arguments More {X} t xs.

(* the non-NULL inputs, in order *)
Fixpoint nn {X} (l : list (option X)) : list X :=
  match l with [] => [] | None :: r => nn r | Some x :: r => x :: nn r end.

(* a row of a binary aggregate is an input only if both arguments are non-NULL *)
Definition both {A B} (p : option A * option B) : option (A * B) :=
  match p with (Some a, Some b) => Some (a, b) | _ => None end.

(* ================================================================ count.rs, regr_count.rs *)
(* CountNonNullState { count: i64 }: update `count += 1`; merge `count += other.count`; finalize put(count) *)
Definition count_agg {X} : agg X Z Z :=
  mkAgg 0 (fun c _ => Ok (c + 1)) (fun a b => Ok (a + b)) (fun c => c).

(* ================================================================ sum.rs *)
(* SumStateCheckedAdd<S, I> { sum: S, valid: bool } with S = i64 (w = 64, Int8..Int64 inputs) or
   S = i128 (w = 128, Decimal64 / Decimal128 inputs):
     update:  sum = sum.checked_add(input.as_()).ok_or("Sum overflowed")?; valid = true
     merge:   sum = sum.checked_add(other.sum).ok_or("Sum overflowed")?; valid = valid || other.valid
     finalize: if valid { put(sum) } else { put_null } *)
Definition sum_chk (w : Z) : agg Z (Z * bool) (option Z) :=
  mkAgg (0, false)
    (fun s x => let '(sum, _) := s in
                if in_i w (sum + x) then Ok (sum + x, true) else Err)
    (fun s o => let '(sum, valid) := s in let '(osum, ovalid) := o in
                if in_i w (sum + osum) then Ok (sum + osum, valid || ovalid) else Err)
    (fun s => let '(sum, valid) := s in if valid then Some sum else None).

(* SumUInt64 (a40c65193): Signature UInt64 -> Int128, state SumStateCheckedAdd<i128, u64>: inputs in [0, 2^64),
   checked i128 accumulator (overflow needs more than 2^63 rows: proofs sum_u64_exact) *)
Definition sum_u64 : agg Z (Z * bool) (option Z) := sum_chk 128.
Definition is_u64 (z : Z) : Prop := 0 <= z < 2 ^ 64.

(* SumStateAdd<f64> { sum, valid }: `sum += input; valid = true`; `sum += other.sum; valid ||= other.valid` *)
Definition sum_f : agg Q (Q * bool) fres :=
  mkAgg (0%Q, false)
    (fun s x => let '(sum, _) := s in Ok (qadd sum x, true))
    (fun s o => let '(sum, valid) := s in let '(osum, ovalid) := o in Ok (qadd sum osum, valid || ovalid))
    (fun s => let '(sum, valid) := s in if valid then FRat sum else FNull).

(* ================================================================ avg.rs, regr_avg.rs *)
(* AvgStateF64<I, T> { sum: T, count: i64 }: update `sum += input.into(); count += 1`;
   merge `sum += other.sum; count += other.count`;
   finalize: count == 0 -> NULL, else `(sum as f64) / (count as f64)`.
   T = i128 for Int64 input (avg_i), T = f64 for Float64 input (avg_f). *)
Definition avg_final (sum : Q) (count : Z) : fres :=
  if count =? 0 then FNull else frat (qdiv sum (qz count)).

Definition avg_i : agg Z (Z * Z) fres :=
  mkAgg (0, 0)
    (fun s x => let '(sum, count) := s in Ok (sum + x, count + 1))
    (fun s o => let '(sum, count) := s in let '(osum, ocount) := o in Ok (sum + osum, count + ocount))
    (fun s => let '(sum, count) := s in avg_final (qz sum) count).

(* Avg::<PhysicalU64, i128> (a40c65193): UInt64 -> Float64, the same AvgStateF64 with T = i128 and inputs in
   [0, 2^64); the native `+=` cannot leave i128 below 2^63 rows (proofs avg_u64_accumulator_in_range), so the
   accumulator is unbounded in the model as for avg_i *)
Definition avg_u64 : agg Z (Z * Z) fres := avg_i.

Definition avg_f : agg Q (Q * Z) fres :=
  mkAgg (0%Q, 0)
    (fun s x => let '(sum, count) := s in Ok (qadd sum x, count + 1))
    (fun s o => let '(sum, count) := s in let '(osum, ocount) := o in Ok (qadd sum osum, count + ocount))
    (fun s => let '(sum, count) := s in avg_final sum count).

(* AvgStateDecimal<I> { scale: f64, sum: i128, count: i64 } (since 2f7b0a8b9):
     update: sum = sum.checked_add(input.into()).ok_or("Avg overflowed")?; count += 1
     merge:  sum = sum.checked_add(other.sum).ok_or("Avg overflowed")?; count += other.count
   (the only AVG accumulator that a few rows can overflow: Decimal128 inputs);
   finalize: count == 0 -> NULL, else `(sum as f64) / (count as f64 * scale)`.
   sc = the bind state's `scale` factor. *)
Definition avg_d (sc : Q) : agg Z (Z * Z) fres :=
  mkAgg (0, 0)
    (fun s x => let '(sum, count) := s in
                if in_i 128 (sum + x) then Ok (sum + x, count + 1) else Err)
    (fun s o => let '(sum, count) := s in let '(osum, ocount) := o in
                if in_i 128 (sum + osum) then Ok (sum + osum, count + ocount) else Err)
    (fun s => let '(sum, count) := s in
              if count =? 0 then FNull else frat (qdiv (qz sum) (qmul (qz count) sc))).

(* AvgDecimal::bind (since ae73b43ce): `let scale = f64::powi(10.0, m.scale as i32)` for an input of type
   Decimal(p, scale); scales may be negative (Decimal64(5,-2) holds 1200 as the unscaled 12), 10^scale is
   then 1 / 10^|scale|.  Exact in the model (powi rounds for |scale| > 22 and for negative scales). *)
Definition pow10 (scale : Z) : Q :=
  if 0 <=? scale then inject_Z (10 ^ scale) else Qred (/ inject_Z (10 ^ (- scale))).
Definition avg_dec (scale : Z) : agg Z (Z * Z) fres := avg_d (pow10 scale).

(* RegrAvgState<F> { sum: f64, count: i64 } over rows (y, x): update `sum += F::input((y, x)); count += 1`;
   merge `count += other.count; sum += other.sum`; finalize count == 0 -> NULL else sum / count.
   regr_avgy: F::input = .0 (y);  regr_avgx: F::input = .1 (x). *)
Definition regr_avg (sel : Q * Q -> Q) : agg (Q * Q) (Q * Z) fres :=
  mkAgg (0%Q, 0)
    (fun s yx => let '(sum, count) := s in Ok (qadd sum (sel yx), count + 1))
    (fun s o => let '(sum, count) := s in let '(osum, ocount) := o in Ok (qadd sum osum, count + ocount))
    (fun s => let '(sum, count) := s in avg_final sum count).
Definition regr_avgy := regr_avg fst.
Definition regr_avgx := regr_avg snd.

(* ================================================================ stddev.rs *)
(* VarianceState { count: i64, mean: f64, m2: f64 } (Welford; pairwise combination of Chan et al.)
     update(input):  count += 1; delta = input - mean; mean += delta / count as f64;
                     delta2 = input - mean; m2 += delta * delta2
     merge(other):   if self.count == 0 { swap(self, other); return }
                     self_count, other_count as f64; total_count = self_count + other_count
                     delta = other.mean - self.mean
                     new_mean = self.mean + delta * other_count / total_count          (since 2ad5a541a)
                     m2 = m2 + other.m2 + delta * delta * self_count * other_count / total_count
                     mean = new_mean; count += other.count
   (there is no guard for other.count == 0; the formulas then leave self unchanged) *)
Record vstate := mkV { v_count : Z; v_mean : Q; v_m2 : Q }.
Definition v_init : vstate := mkV 0 0%Q 0%Q.

Definition v_update (s : vstate) (x : Q) : outcome vstate :=
  let count := v_count s + 1 in
  let delta := qsub x (v_mean s) in
  do d <- qdiv delta (qz count);
  let mean := qadd (v_mean s) d in
  let delta2 := qsub x mean in
  Ok (mkV count mean (qadd (v_m2 s) (qmul delta delta2))).

(* the merge before 2ad5a541a: new_mean = (self_count * self.mean + other_count * other.mean) / total_count,
   delta = self.mean - other.mean.  Equal in exact arithmetic (proofs: old_variance_merge_equivalent); in f64
   it did not keep two equal means bit-identical (finding const-column-variance-lost-under-merge, fixed) *)
Definition v_merge_old (s o : vstate) : outcome vstate :=
  if v_count s =? 0 then Ok o
  else
    let self_count := qz (v_count s) in
    let other_count := qz (v_count o) in
    let total_count := qadd self_count other_count in
    do new_mean <- qdiv (qadd (qmul self_count (v_mean s)) (qmul other_count (v_mean o))) total_count;
    let delta := qsub (v_mean s) (v_mean o) in
    do cross <- qdiv (qmul (qmul (qmul delta delta) self_count) other_count) total_count;
    Ok (mkV (v_count s + v_count o) new_mean (qadd (qadd (v_m2 s) (v_m2 o)) cross)).

Definition v_merge (s o : vstate) : outcome vstate :=
  if v_count s =? 0 then Ok o
  else
    let self_count := qz (v_count s) in
    let other_count := qz (v_count o) in
    let total_count := qadd self_count other_count in
    let delta := qsub (v_mean o) (v_mean s) in
    do step <- qdiv (qmul delta other_count) total_count;
    let new_mean := qadd (v_mean s) step in
    do cross <- qdiv (qmul (qmul (qmul delta delta) self_count) other_count) total_count;
    Ok (mkV (v_count s + v_count o) new_mean (qadd (qadd (v_m2 s) (v_m2 o)) cross)).

(* the four VarianceFinalize impls: `match count { 0 => None, 1 => Some(0.0), _ => .. }` (pop),
   `match count { 0 | 1 => None, _ => .. }` (samp) *)
Inductive vkind := VarPop | VarSamp | StdPop | StdSamp.

(* the value under the square root / the variance itself; None = NULL *)
Definition v_value (k : vkind) (s : vstate) : option (outcome Q) :=
  let c := v_count s in
  match k with
  | VarPop | StdPop =>
      if c =? 0 then None else if c =? 1 then Some (Ok 0%Q) else Some (qdiv (v_m2 s) (qz c))
  | VarSamp | StdSamp =>
      if (c =? 0) || (c =? 1) then None else Some (qdiv (v_m2 s) (qz (c - 1)))
  end.

Definition v_final (k : vkind) (s : vstate) : fres :=
  match v_value k s with
  | None => FNull
  | Some o => match k with VarPop | VarSamp => frat o | StdPop | StdSamp => fsqrt o end
  end.

Definition var_agg (k : vkind) : agg Q vstate fres := mkAgg v_init v_update v_merge (v_final k).

(* ================================================================ covar.rs *)
(* CovarState { count, meanx, meany, co_moment } over rows (y, x)
     update((y, x)): count += 1; n = count as f64; dx = x - meanx; meanx' = meanx + dx / n;
                     dy = y - meany; meany' = meany + dy / n; co_moment' = co_moment + dx * (y - meany')
     merge(other):   if self.count == 0 { swap; return }  if other.count == 0 { return }
                     count = self.count + other.count
                     deltax = other.meanx - self.meanx; deltay = other.meany - self.meany
                     meanx = self.meanx + deltax * other.count / count   (same for y; since 2ad5a541a)
                     co_moment = other.co_moment + self.co_moment
                                 + deltax * deltay * other.count * self.count / count *)
Record cstate := mkC { c_count : Z; c_meanx : Q; c_meany : Q; c_co : Q }.
Definition c_init : cstate := mkC 0 0%Q 0%Q 0%Q.

Definition c_update (s : cstate) (yx : Q * Q) : outcome cstate :=
  let '(y, x) := yx in
  let count := c_count s + 1 in
  let n := qz count in
  let dx := qsub x (c_meanx s) in
  do qx <- qdiv dx n;
  let meanx := qadd (c_meanx s) qx in
  let dy := qsub y (c_meany s) in
  do qy <- qdiv dy n;
  let meany := qadd (c_meany s) qy in
  let co := qadd (c_co s) (qmul dx (qsub y meany)) in
  Ok (mkC count meanx meany co).

(* the merge before 2ad5a541a (see v_merge_old) *)
Definition c_merge_old (s o : cstate) : outcome cstate :=
  if c_count s =? 0 then Ok o
  else if c_count o =? 0 then Ok s
  else
    let count := c_count s + c_count o in
    let sc := qz (c_count s) in
    let oc := qz (c_count o) in
    do meanx <- qdiv (qadd (qmul oc (c_meanx o)) (qmul sc (c_meanx s))) (qz count);
    do meany <- qdiv (qadd (qmul oc (c_meany o)) (qmul sc (c_meany s))) (qz count);
    let deltax := qsub (c_meanx s) (c_meanx o) in
    let deltay := qsub (c_meany s) (c_meany o) in
    do cross <- qdiv (qmul (qmul (qmul deltax deltay) oc) sc) (qz count);
    Ok (mkC count meanx meany (qadd (qadd (c_co o) (c_co s)) cross)).

Definition c_merge (s o : cstate) : outcome cstate :=
  if c_count s =? 0 then Ok o
  else if c_count o =? 0 then Ok s
  else
    let count := c_count s + c_count o in
    let sc := qz (c_count s) in
    let oc := qz (c_count o) in
    let deltax := qsub (c_meanx o) (c_meanx s) in
    let deltay := qsub (c_meany o) (c_meany s) in
    do stepx <- qdiv (qmul deltax oc) (qz count);
    do stepy <- qdiv (qmul deltay oc) (qz count);
    do cross <- qdiv (qmul (qmul (qmul deltax deltay) oc) sc) (qz count);
    Ok (mkC count (qadd (c_meanx s) stepx) (qadd (c_meany s) stepy) (qadd (qadd (c_co o) (c_co s)) cross)).

(* CovarSampFinalize: 0 | 1 => None, _ => co_moment / (count - 1);  CovarPopFinalize: 0 => None, _ => co_moment / count *)
Inductive ckind := CovPop | CovSamp.
Definition c_value (k : ckind) (s : cstate) : option (outcome Q) :=
  let c := c_count s in
  match k with
  | CovPop => if c =? 0 then None else Some (qdiv (c_co s) (qz c))
  | CovSamp => if (c =? 0) || (c =? 1) then None else Some (qdiv (c_co s) (qz (c - 1)))
  end.
Definition c_final (k : ckind) (s : cstate) : fres :=
  match c_value k s with None => FNull | Some o => frat o end.

Definition covar_agg (k : ckind) : agg (Q * Q) cstate fres := mkAgg c_init c_update c_merge (c_final k).

(* ================================================================ corr.rs, regr_r2.rs *)
(* CorrelationState { covar: CovarState<Pop>, stddev_x, stddev_y: VarianceState<StddevPop> }
     update((y, x)): covar.update((y, x)); stddev_x.update(x); stddev_y.update(y)
     merge: the three components, in this order
     finalize_value: cov = covar.finalize_value()?; sx = stddev_x.finalize_value()?; sy = ..?;
                     div = sx * sy; if div == 0.0 { None } else { Some(cov / div) }
   sx = sqrt vx, sy = sqrt vy are kept symbolic: div == 0 iff vx * vy == 0. *)
Definition rstate : Type := cstate * vstate * vstate.
Definition r_init : rstate := (c_init, v_init, v_init).
Definition r_update (s : rstate) (yx : Q * Q) : outcome rstate :=
  let '(c, sx, sy) := s in
  do c' <- c_update c yx;
  do sx' <- v_update sx (snd yx);
  do sy' <- v_update sy (fst yx);
  Ok (c', sx', sy').
Definition r_merge (s o : rstate) : outcome rstate :=
  let '(c, sx, sy) := s in let '(oc, osx, osy) := o in
  do c' <- c_merge c oc;
  do sx' <- v_merge sx osx;
  do sy' <- v_merge sy osy;
  Ok (c', sx', sy').

Definition r_final (sq : bool) (s : rstate) : fres :=
  let '(c, sx, sy) := s in
  match c_value CovPop c with
  | None => FNull
  | Some cov =>
    match v_value StdPop sx with
    | None => FNull
    | Some vx =>
      match v_value StdPop sy with
      | None => FNull
      | Some vy =>
        match cov, vx, vy with
        | Ok cov, Ok vx, Ok vy =>
            if Qeq_bool (qmul vx vy) 0 then FNull
            else if sq then FCorrSq cov vx vy else FCorr cov vx vy
        | _, _, _ => FNonFinite
        end
      end
    end
  end.

Definition corr_agg : agg (Q * Q) rstate fres := mkAgg r_init r_update r_merge (r_final false).
(* RegrR2State { corr }: finalize `corr.finalize_value().map(|v| v.powi(2))` *)
Definition regr_r2_agg : agg (Q * Q) rstate fres := mkAgg r_init r_update r_merge (r_final true).

(* ================================================================ regr_slope.rs *)
(* RegrSlopeState { cov: CovarState<Pop>, var: VarianceState<VariancePop> }
     update((y, x)): cov.update((y, x)); var.update(x)      merge: cov, var
     finalize: (Some(cov), Some(var)) => if var == 0.0 { NULL } else { cov / var };  _ => NULL *)
Definition sstate : Type := cstate * vstate.
Definition s_update (s : sstate) (yx : Q * Q) : outcome sstate :=
  let '(c, v) := s in
  do c' <- c_update c yx;
  do v' <- v_update v (snd yx);
  Ok (c', v').
Definition s_merge (s o : sstate) : outcome sstate :=
  let '(c, v) := s in let '(oc, ov) := o in
  do c' <- c_merge c oc;
  do v' <- v_merge v ov;
  Ok (c', v').
Definition s_final (s : sstate) : fres :=
  let '(c, v) := s in
  match c_value CovPop c, v_value VarPop v with
  | Some (Ok cov), Some (Ok var) => if Qeq_bool var 0 then FNull else frat (qdiv cov var)
  | Some _, Some _ => FNonFinite
  | _, _ => FNull
  end.
Definition regr_slope_agg : agg (Q * Q) sstate fres := mkAgg (c_init, v_init) s_update s_merge s_final.

(* ================================================================ minmax.rs (primitive integer payloads) *)
(* Min/MaxStatePrimitive<T> { min: T (Default), valid: bool }
     update(input): if !valid { valid = true; min = input; return }  if min.gt(input) { min = input }
     merge(other):  if !valid { valid = other.valid; swap(min, other.min); return }
                    if !other.valid { return }   if min.gt(other.min) { swap(min, other.min) }
   (strings / floats / the general `value` order: model/AggState.v) *)
Definition ext_agg (better : Z -> Z -> bool) : agg Z (Z * bool) (option Z) :=
  mkAgg (0, false)
    (fun s x => let '(m, valid) := s in
                if negb valid then Ok (x, true) else if better x m then Ok (x, true) else Ok (m, valid))
    (fun s o => let '(m, valid) := s in let '(om, ovalid) := o in
                if negb valid then Ok (om, ovalid)
                else if negb ovalid then Ok (m, valid)
                else if better om m then Ok (om, valid) else Ok (m, valid))
    (fun s => let '(m, valid) := s in if valid then Some m else None).
Definition min_agg := ext_agg (fun x m => m >? x).     (* self.min.gt(input) *)
Definition max_agg := ext_agg (fun x m => m <? x).     (* self.max.lt(input) *)

(* ================================================================ first.rs *)
(* FirstPrimitiveState<T> / FirstBinaryState { value: Option<T> }
     update: if value.is_none() { value = Some(input) }     merge: if value.is_none() { swap(value, other.value) } *)
Definition first_agg {X} : agg X (option X) (option X) :=
  mkAgg None
    (fun s x => match s with None => Ok (Some x) | Some _ => Ok s end)
    (fun s o => match s with None => Ok o | Some _ => Ok s end)
    (fun s => s).

(* ================================================================ bool_and.rs, bool_or.rs *)
(* Bool{And,Or}State { result: true / false, valid: false }: update `result = result op input; valid = true`;
   merge `result = result op other.result; valid = valid || other.valid` (no guards) *)
Definition bool_agg (op : bool -> bool -> bool) (unit : bool) : agg bool (bool * bool) (option bool) :=
  mkAgg (unit, false)
    (fun s x => let '(r, _) := s in Ok (op r x, true))
    (fun s o => let '(r, valid) := s in let '(or_, ovalid) := o in Ok (op r or_, valid || ovalid))
    (fun s => let '(r, valid) := s in if valid then Some r else None).
Definition bool_and_agg := bool_agg andb true.
Definition bool_or_agg := bool_agg orb false.

(* ================================================================ bit_and.rs, bit_or.rs *)
(* Bit{And,Or}StatePrimitive<T> { result: T (Default = 0), valid }
     update: if !valid { valid = true; result = input; return }  result = result op input
     merge:  if !valid { valid = other.valid; swap(result, other.result); return }
             if !other.valid { return }   result = result op other.result
   Z.land / Z.lor on Z are the two's-complement operations of every signed and unsigned width. *)
Definition bit_agg (op : Z -> Z -> Z) : agg Z (Z * bool) (option Z) :=
  mkAgg (0, false)
    (fun s x => let '(r, valid) := s in if negb valid then Ok (x, true) else Ok (op r x, valid))
    (fun s o => let '(r, valid) := s in let '(or_, ovalid) := o in
                if negb valid then Ok (or_, ovalid)
                else if negb ovalid then Ok (r, valid)
                else Ok (op r or_, valid))
    (fun s => let '(r, valid) := s in if valid then Some r else None).
Definition bit_and_agg := bit_agg Z.land.
Definition bit_or_agg := bit_agg Z.lor.

(* ================================================================ string_agg.rs *)
(* StringAggState { string: Option<String> }, bind state sep (constant second argument)
     update((input, _)): Some(s) => { s.push_str(sep); s.push_str(input) }   None => string = Some(input)
     merge(other): if self.string.is_none() { swap(self, other); return }  if other.string.is_none() { return }
                   s.push_str(sep); s.push_str(other.string) *)
Definition bytes := list N.
Definition string_agg (sep : bytes) : agg bytes (option bytes) (option bytes) :=
  mkAgg None
    (fun s x => match s with Some str => Ok (Some (str ++ sep ++ x)) | None => Ok (Some x) end)
    (fun s o => match s with
                | None => Ok o
                | Some str => match o with None => Ok s | Some ostr => Ok (Some (str ++ sep ++ ostr)) end
                end)
    (fun s => s).

(* ================================================================ specifications *)
(* the mathematical definition on the WHOLE list of non-NULL inputs *)
Definition zsum (xs : list Z) : Z := fold_right Z.add 0 xs.
Definition qsum (xs : list Q) : Q := fold_right Qplus 0%Q xs.
Definition qlen {A} (xs : list A) : Q := inject_Z (Z.of_nat (length xs)).
Definition zlen {A} (xs : list A) : Z := Z.of_nat (length xs).
Definition qmean (xs : list Q) : Q := (qsum xs / qlen xs)%Q.
(* sum of squared deviations from the mean;  sum of products of deviations *)
Definition ssd (xs : list Q) : Q := qsum (map (fun x => (x - qmean xs) * (x - qmean xs))%Q xs).
Definition ys_of (ps : list (Q * Q)) : list Q := map fst ps.
Definition xs_of (ps : list (Q * Q)) : list Q := map snd ps.
Definition spd (ps : list (Q * Q)) : Q :=
  qsum (map (fun yx => (snd yx - qmean (xs_of ps)) * (fst yx - qmean (ys_of ps)))%Q ps).

Definition spec_count {X} (xs : list X) : Z := zlen xs.
Definition spec_sum (xs : list Z) : option Z := match xs with [] => None | _ => Some (zsum xs) end.
Definition spec_sum_f (xs : list Q) : fres := match xs with [] => FNull | _ => FRat (qsum xs) end.
Definition spec_avg_f (xs : list Q) : fres := match xs with [] => FNull | _ => FRat (qmean xs) end.
Definition spec_avg_i (xs : list Z) : fres := spec_avg_f (map inject_Z xs).
(* unscaled integers u standing for u / sc *)
Definition spec_avg_d (sc : Q) (xs : list Z) : fres :=
  spec_avg_f (map (fun u => inject_Z u / sc)%Q xs).

(* Decimal(p, scale): the value of the unscaled u is u / 10^scale (scale >= 0), u * 10^(-scale) (scale < 0) *)
Definition dec_value (scale u : Z) : Q :=
  if 0 <=? scale then (inject_Z u / inject_Z (10 ^ scale))%Q else inject_Z (u * 10 ^ (- scale)).
Definition spec_avg_dec (scale : Z) (xs : list Z) : fres := spec_avg_f (map (dec_value scale) xs).

Definition spec_var (k : vkind) (xs : list Q) : fres :=
  let n := length xs in
  match k with
  | VarPop => match n with O => FNull | _ => FRat (ssd xs / qlen xs) end
  | StdPop => match n with O => FNull | _ => FSqrt (ssd xs / qlen xs) end
  | VarSamp => match n with O | 1%nat => FNull | _ => FRat (ssd xs / (qlen xs - 1)) end
  | StdSamp => match n with O | 1%nat => FNull | _ => FSqrt (ssd xs / (qlen xs - 1)) end
  end%Q.

Definition spec_covar (k : ckind) (ps : list (Q * Q)) : fres :=
  let n := length ps in
  match k with
  | CovPop => match n with O => FNull | _ => FRat (spd ps / qlen ps) end
  | CovSamp => match n with O | 1%nat => FNull | _ => FRat (spd ps / (qlen ps - 1)) end
  end%Q.

(* Pearson: cov_pop / (stddev_pop x * stddev_pop y); NULL when a deviation is zero (or no rows) *)
Definition spec_corr (sq : bool) (ps : list (Q * Q)) : fres :=
  match ps with
  | [] => FNull
  | _ => let vx := (ssd (xs_of ps) / qlen ps)%Q in
         let vy := (ssd (ys_of ps) / qlen ps)%Q in
         if Qeq_bool (vx * vy) 0 then FNull
         else if sq then FCorrSq (spd ps / qlen ps) vx vy else FCorr (spd ps / qlen ps) vx vy
  end.

(* slope of the least-squares line: cov_pop(y, x) / var_pop(x); NULL when var_pop(x) = 0 (or no rows) *)
Definition spec_regr_slope (ps : list (Q * Q)) : fres :=
  match ps with
  | [] => FNull
  | _ => let vx := (ssd (xs_of ps) / qlen ps)%Q in
         if Qeq_bool vx 0 then FNull else FRat ((spd ps / qlen ps) / vx)
  end.

Definition spec_regr_avgx (ps : list (Q * Q)) : fres := spec_avg_f (xs_of ps).
Definition spec_regr_avgy (ps : list (Q * Q)) : fres := spec_avg_f (ys_of ps).

Definition spec_ext (pick : Z -> Z -> Z) (xs : list Z) : option Z :=
  match xs with [] => None | x :: r => Some (fold_left pick r x) end.
Definition spec_min := spec_ext Z.min.
Definition spec_max := spec_ext Z.max.

Definition spec_first {X} (xs : list X) : option X := hd_error xs.

Definition spec_bool_and (xs : list bool) : option bool :=
  match xs with [] => None | _ => Some (forallb (fun b => b) xs) end.
Definition spec_bool_or (xs : list bool) : option bool :=
  match xs with [] => None | _ => Some (existsb (fun b => b) xs) end.

Definition spec_bit (op : Z -> Z -> Z) (xs : list Z) : option Z :=
  match xs with [] => None | x :: r => Some (fold_left op r x) end.

(* the inputs joined by the separator, in input order *)
Fixpoint join (sep : bytes) (xs : list bytes) : bytes :=
  match xs with [] => [] | [x] => x | x :: r => x ++ sep ++ join sep r end.
Definition spec_string_agg (sep : bytes) (xs : list bytes) : option bytes :=
  match xs with [] => None | _ => Some (join sep xs) end.

(* ================================================================ property vocabulary *)
(* (used by props/C07fn.v; `eqO` is `eq`, or `fres_eq` for Float64 results) *)
From Coq Require Import Permutation.
Section Vocabulary.
  Context {X S O : Type} (f : agg X S O).

  (* the sequential run over one chunk succeeds and finalizes to the specification of its non-NULL rows *)
  Definition fold_correct (spec : list X -> O) (eqO : O -> O -> Prop) : Prop :=
    forall xs, exists s, run_chunk f xs = Ok s /\ eqO (a_final f s) (spec (nn xs)).

  (* ANY combination plan (any split into chunks, any merge tree, further updates after merges) over ANY
     arrangement of the same bag of non-NULL rows ends in the SAME STATE as the sequential run: hence the
     same finalize, and the same behaviour under every further update / merge *)
  Definition split_invariant : Prop :=
    forall t xs, Permutation (nn (flatten t)) (nn xs) -> run_tree f t = run_chunk f xs.

  (* the same for order-sensitive functions (first, string_agg): the plan does not matter, the order of the
     rows (leaf order of the plan) does *)
  Definition order_split_invariant : Prop :=
    forall t xs, nn (flatten t) = nn xs -> run_tree f t = run_chunk f xs.

  Definition merge_homomorphism : Prop :=
    forall xs ys, (do a <- run_chunk f xs; do b <- run_chunk f ys; a_merge f a b) = run_chunk f (xs ++ ys).

  (* merging with the empty state is the identity, on both sides, for every reachable state *)
  Definition empty_neutral : Prop :=
    forall t s, run_tree f t = Ok s ->
      a_merge f s (a_init f) = Ok s /\ a_merge f (a_init f) s = Ok s.

  Definition total : Prop := forall t, exists s, run_tree f t = Ok s.

  (* for accumulators that can fail: a plan that succeeds gives the specification's value *)
  Definition never_wrong (spec : list X -> O) (eqO : O -> O -> Prop) : Prop :=
    forall t s, run_tree f t = Ok s -> eqO (a_final f s) (spec (nn (flatten t))).

  (* ... and its state is the one of every other successful plan over the same bag of rows *)
  Definition state_determined : Prop :=
    forall t t' s s', Permutation (nn (flatten t)) (nn (flatten t')) ->
      run_tree f t = Ok s -> run_tree f t' = Ok s' -> s = s'.
End Vocabulary.
