(* C11 model, part 1: statistics-based row-group pruning and the hinted table scan.
   Transcribed from
     crates/glaredb_ext_parquet/src/metadata/statistics.rs   (from_thrift, ValueStatistics::new)
     crates/glaredb_ext_parquet/src/column/row_group_pruner.rs (PrimitiveRowGroupPruner::should_prune)
     crates/glaredb_ext_parquet/src/column/struct_reader.rs  (StructReader::should_prune, new_column_reader)
     crates/glaredb_ext_parquet/src/reader.rs                (Reader::poll_pull: pruned groups are skipped)
     crates/glaredb_core/src/arrays/scalar/unwrap.rs         (which ScalarValue variants a pruner accepts)
   Definitions only (executable); what the code DOES, defects included.
   Re-transcribed after the repair f11c5d40d (the `min > max` guard); `Module Old` keeps the previous
   should_prune. *)
From Coq Require Import ZArith List Bool.
Import ListNotations.
Open Scope Z_scope.

Inductive outcome (A : Type) : Type := Ok (a : A) | Err.
Arguments Ok {A} a.
Arguments Err {A}.

(* ---- the storage type U of a PrimitiveRowGroupPruner<T, U>: i8..i64, u8..u64 ---- *)
Record ltype := mk_lt { lt_bits : Z; lt_signed : bool }.
Definition ltype_eqb (a b : ltype) : bool := (lt_bits a =? lt_bits b) && Bool.eqb (lt_signed a) (lt_signed b).

(* Rust `as` between integer types (num::cast::AsPrimitive::as_): keep the low bits, reinterpret *)
Definition wrap_u (bits z : Z) : Z := z mod 2 ^ bits.
Definition wrap_s (bits z : Z) : Z :=
  let m := z mod 2 ^ bits in if m <? 2 ^ (bits - 1) then m else m - 2 ^ bits.
Definition conv (lt : ltype) (z : Z) : Z :=
  if lt_signed lt then wrap_s (lt_bits lt) z else wrap_u (lt_bits lt) z.

(* ---- constants of the pushed `col = const` filters (ScalarValue) ---- *)
Inductive ckind := KInt (t : ltype) | KDate32 | KDate64 | KDecimal64 | KTimestamp | KOther.
Inductive const := CNull | CVal (k : ckind) (v : Z).
(* U::try_unwrap: the variants each unwrapper accepts (UnwrapI32 also Date32; UnwrapI64 also Date64,
   Decimal64, Timestamp); anything else is an error *)
Definition accepts (lt : ltype) (k : ckind) : bool :=
  match k with
  | KInt t => ltype_eqb t lt
  | KDate32 => ltype_eqb lt (mk_lt 32 true)
  | KDate64 | KDecimal64 | KTimestamp => ltype_eqb lt (mk_lt 64 true)
  | KOther => false
  end.

(* ---- ValueStatistics<T::Native> for the INT32 / INT64 physical types ---- *)
Record stats := mk_st {
  st_min : option Z; st_max : option Z;           (* native i32 / i64 values *)
  st_min_exact : bool; st_max_exact : bool;
  st_deprecated : bool;                            (* taken from the deprecated min / max fields *)
  st_nulls : Z }.

(* thrift Statistics as read from the footer: deprecated max(1) min(2), null_count(3),
   max_value(5) min_value(6); the is_*_exact flags (7, 8) are NOT consulted for INT32/INT64 *)
Record tstats := mk_ts {
  t_max : option Z; t_min : option Z; t_nulls : option Z;
  t_max_value : option Z; t_min_value : option Z }.

Definition is_some {A} (o : option A) : bool := match o with Some _ => true | None => false end.

(* statistics.rs::from_thrift + ValueStatistics::new *)
Definition from_thrift (t : tstats) : outcome stats :=
  let nulls := match t_nulls t with Some n => n | None => 0 end in
  if nulls <? 0 then Err else
  let old := negb (is_some (t_min_value t)) && negb (is_some (t_max_value t)) in
  let mn := if old then t_min t else t_min_value t in
  let mx := if old then t_max t else t_max_value t in
  Ok (mk_st mn mx (is_some mn) (is_some mx) old nulls).

(* ---- PrimitiveRowGroupPruner::should_prune ---- *)
Fixpoint prune_loop (lt : ltype) (mn mx : Z) (cs : list const) : outcome bool :=
  match cs with
  | [] => Ok false                     (* every constant lies inside [min, max] *)
  | CNull :: _ => Ok false             (* "I don't know, just skip pruning" — returns at once *)
  | CVal k v :: r =>
      if accepts lt k then
        if mn >? v then Ok true
        else if mx <? v then Ok true
        else prune_loop lt mn mx r
      else Err
  end.

(* as of /repo f11c5d40d: after the conversion, bounds that are not ordered in the logical type
   (`min > max`, e.g. deprecated signed-order statistics of an unsigned column) are not used *)
Definition should_prune (lt : ltype) (st : stats) (cs : list const) : outcome bool :=
  if negb (st_max_exact st && st_min_exact st) then Ok false else
  match st_min st, st_max st with
  | Some mn, Some mx =>
      if conv lt mn >? conv lt mx then Ok false
      else prune_loop lt (conv lt mn) (conv lt mx) cs
  | _, _ => Ok false
  end.

(* the definition before f11c5d40d (no `min > max` guard), kept for the witness of the repaired defect *)
Module Old.
  Definition should_prune (lt : ltype) (st : stats) (cs : list const) : outcome bool :=
    if negb (st_max_exact st && st_min_exact st) then Ok false else
    match st_min st, st_max st with
    | Some mn, Some mx => prune_loop lt (conv lt mn) (conv lt mx) cs
    | _, _ => Ok false
    end.
End Old.

(* ---- one column reader: new_column_reader picks the pruner by the logical data type ---- *)
Inductive pruner := PNop | PPrim (lt : ltype).
Definition col_should_prune (p : pruner) (st : stats) (cs : list const) : outcome bool :=
  match p with PNop => Ok false | PPrim lt => should_prune lt st cs end.

(* ---- pushed filters (PhysicalScanFilter): the data columns they mention and their type ---- *)
Inductive ftype := FConstEq (c : const) | FUnknown.
Record sfilter := mk_sf { f_cols : list nat; f_type : ftype }.

(* StructReader::try_new_root hands a column reader the filters with columns = [Data(col)];
   PrimitiveRowGroupPruner::new keeps their ConstantEq constants, in order *)
Definition col_consts (col : nat) (fs : list sfilter) : list const :=
  flat_map (fun f => match f_cols f, f_type f with
                     | [c], FConstEq k => if Nat.eqb c col then [k] else []
                     | _, _ => [] end) fs.

(* StructReader::should_prune over the projected data columns, in projection order;
   the first column that says "prune" or fails decides *)
Fixpoint rg_should_prune (prj : list nat) (pr : nat -> pruner) (rgst : nat -> option stats)
         (fs : list sfilter) : outcome bool :=
  match prj with
  | [] => Ok false
  | c :: r =>
      match rgst c with
      | None => rg_should_prune r pr rgst fs
      | Some st =>
          match col_should_prune (pr c) st (col_consts c fs) with
          | Err => Err
          | Ok true => Ok true
          | Ok false => rg_should_prune r pr rgst fs
          end
      end
  end.

(* ---- files, row groups, scans ---- *)
(* a cell is the physical native value (None = NULL); the column readers deliver `conv lt v`
   (CastingInt32ToUInt32Reader etc. use the same `as` cast) *)
Definition row := list (option Z).
Record rowgroup := mk_rg { rg_rows : list row; rg_stats : nat -> option stats }.
Definition pfile := list rowgroup.

Definition scan_all (f : pfile) : list row := flat_map rg_rows f.

(* Reader::poll_pull: row groups are taken in order, a group with should_prune = true is skipped *)
Fixpoint scan_hinted (prj : list nat) (pr : nat -> pruner) (fs : list sfilter) (f : pfile)
  : outcome (list row) :=
  match f with
  | [] => Ok []
  | g :: r =>
      match rg_should_prune prj pr (rg_stats g) fs with
      | Err => Err
      | Ok drop =>
          match scan_hinted prj pr fs r with
          | Err => Err
          | Ok rows => Ok (if drop then rows else rg_rows g ++ rows)
          end
      end
  end.

(* Projections: data indices in any order, with repeats *)
Definition project (prj : list nat) (r : row) : list (option Z) :=
  map (fun i => nth i r None) prj.

(* ---- what statistics claim (Parquet format): every non-NULL value of the chunk lies between
   min and max in the order the statistics were written in: the deprecated min/max fields use the
   SIGNED order of the physical type, min_value/max_value the order of the logical type ---- *)
Inductive sorder := OSigned | OUnsigned (physbits : Z).
Definition okey (o : sorder) (z : Z) : Z :=
  match o with OSigned => z | OUnsigned pb => z mod 2 ^ pb end.
Definition stats_describe (o : sorder) (st : stats) (vs : list (option Z)) : Prop :=
  forall v, In (Some v) vs ->
    (forall mn, st_min st = Some mn -> okey o mn <= okey o v) /\
    (forall mx, st_max st = Some mx -> okey o v <= okey o mx).

(* the side condition: the `as` conversion is monotone between the bounds *)
Definition conv_monotone_on (lt : ltype) (o : sorder) (st : stats) : Prop :=
  forall mn mx, st_min st = Some mn -> st_max st = Some mx ->
  forall a b, okey o mn <= okey o a -> okey o a <= okey o b -> okey o b <= okey o mx ->
    conv lt a <= conv lt b.

(* a native value of the physical type (i32 / i64) *)
Definition native (pb z : Z) : Prop := - 2 ^ (pb - 1) <= z < 2 ^ (pb - 1).
Definition stats_native (pb : Z) (st : stats) : Prop :=
  (forall mn, st_min st = Some mn -> native pb mn) /\ (forall mx, st_max st = Some mx -> native pb mx).
(* the bounds lie in the range of the logical type (needed for the narrowing conversions only) *)
Definition in_lrange (lt : ltype) (z : Z) : Prop :=
  if lt_signed lt then - 2 ^ (lt_bits lt - 1) <= z < 2 ^ (lt_bits lt - 1) else 0 <= z < 2 ^ lt_bits lt.
Definition stats_in_lrange (lt : ltype) (st : stats) : Prop :=
  (forall mn, st_min st = Some mn -> in_lrange lt mn) /\ (forall mx, st_max st = Some mx -> in_lrange lt mx).

(* a row value passes the pushed conjunction `col = c1 AND col = c2 ...` *)
Definition passes (lt : ltype) (cell : option Z) (cs : list const) : Prop :=
  forall c, In c cs -> exists v k, cell = Some v /\ c = CVal k (conv lt v).
