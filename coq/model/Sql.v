(* Reference semantics of the SQL core (specification side of C01, C02, C03, C05, C06, C07, C09).
   A textbook environment-passing, nested-loop denotation: a correlated subquery is evaluated once
   per outer row with that row's values, by definition.  Executable definitions only.

   The AST is what the generator (vlib/sqlgen.py) produces next to the SQL text; column references are
   already resolved to (depth, index): depth 0 = the row of the enclosing SELECT block (FROM items
   concatenated left to right, or group keys ++ aggregate results after grouping), depth k = k-th
   enclosing block (correlation). *)
From Coq Require Import NArith ZArith List Bool.
From GV Require Import lib.Bytes.
Import ListNotations.

Inductive value :=
| VNull
| VBool (b : bool)
| VInt (z : Z)
| VStr (s : list N).

Definition row := list value.

Inductive err := EOverflow | EDivZero | ECard | EType.
Inductive res (A : Type) := Ok (a : A) | Err (e : err).
Arguments Ok {A} a.
Arguments Err {A} e.

Definition bind {A B} (x : res A) (f : A -> res B) : res B :=
  match x with Ok a => f a | Err e => Err e end.
Notation "'do' x <- e1 ; e2" := (bind e1 (fun x => e2)) (at level 200, x name, e1 at level 100, e2 at level 200).

Definition mapM {A B} (f : A -> res B) : list A -> res (list B) :=
  fix go (l : list A) : res (list B) :=
    match l with
    | [] => Ok []
    | x :: l' => do y <- f x; do ys <- go l'; Ok (y :: ys)
    end.

(* ---------------------------------------------------------------- values *)

(* total order used by ORDER BY / min / max / comparisons between values of one kind;
   comparing different kinds is a type error (the generator never does it) *)
Definition val_compare (a b : value) : option comparison :=
  match a, b with
  | VBool x, VBool y => Some (match x, y with false, true => Lt | true, false => Gt | _, _ => Eq end)
  | VInt x, VInt y => Some (Z.compare x y)
  | VStr x, VStr y => Some (lex_cmp x y)
  | _, _ => None
  end.

(* NULL = NULL, used by GROUP BY / DISTINCT / UNION / IS NOT DISTINCT FROM *)
Definition val_same (a b : value) : bool :=
  match a, b with
  | VNull, VNull => true
  | VNull, _ | _, VNull => false
  | _, _ => match val_compare a b with Some Eq => true | _ => false end
  end.

Fixpoint row_same (a b : row) : bool :=
  match a, b with
  | [], [] => true
  | x :: a', y :: b' => val_same x y && row_same a' b'
  | _, _ => false
  end.

Inductive cmpop := CEq | CNe | CLt | CLe | CGt | CGe.

Definition cmp_holds (op : cmpop) (c : comparison) : bool :=
  match op, c with
  | CEq, Eq => true | CNe, Lt => true | CNe, Gt => true
  | CLt, Lt => true | CLe, Lt => true | CLe, Eq => true
  | CGt, Gt => true | CGe, Gt => true | CGe, Eq => true
  | _, _ => false
  end.

Definition cmp3 (op : cmpop) (a b : value) : res value :=
  match a, b with
  | VNull, _ | _, VNull => Ok VNull
  | _, _ => match val_compare a b with
            | Some c => Ok (VBool (cmp_holds op c))
            | None => Err EType
            end
  end.

(* three-valued logic *)
Definition and3 (a b : value) : res value :=
  match a, b with
  | VBool x, VBool y => Ok (VBool (andb x y))
  | VBool false, VNull | VNull, VBool false => Ok (VBool false)
  | VBool true, VNull | VNull, VBool true | VNull, VNull => Ok VNull
  | _, _ => Err EType
  end.
Definition or3 (a b : value) : res value :=
  match a, b with
  | VBool x, VBool y => Ok (VBool (orb x y))
  | VBool true, VNull | VNull, VBool true => Ok (VBool true)
  | VBool false, VNull | VNull, VBool false | VNull, VNull => Ok VNull
  | _, _ => Err EType
  end.
Definition not3 (a : value) : res value :=
  match a with
  | VBool b => Ok (VBool (negb b))
  | VNull => Ok VNull
  | _ => Err EType
  end.

Definition is_true (v : value) : bool := match v with VBool true => true | _ => false end.

Inductive binop := Add | Sub | Mul | Div | Rem.

Definition in_range (w : N) (z : Z) : bool :=
  (Z.leb (- 2 ^ (Z.of_N w - 1)) z && Z.ltb z (2 ^ (Z.of_N w - 1)))%Z.

(* integer arithmetic in a signed type of w bits: exact, or an error *)
Definition arith (op : binop) (w : N) (a b : value) : res value :=
  match a, b with
  | VNull, (VNull | VInt _) | VInt _, VNull => Ok VNull
  | VInt x, VInt y =>
      match op with
      | Add => if in_range w (x + y) then Ok (VInt (x + y)) else Err EOverflow
      | Sub => if in_range w (x - y) then Ok (VInt (x - y)) else Err EOverflow
      | Mul => if in_range w (x * y) then Ok (VInt (x * y)) else Err EOverflow
      | Div => if Z.eqb y 0 then Err EDivZero
               else if in_range w (Z.quot x y) then Ok (VInt (Z.quot x y)) else Err EOverflow
      | Rem => if Z.eqb y 0 then Err EDivZero else Ok (VInt (Z.rem x y))
      end
  | _, _ => Err EType
  end.

(* ---------------------------------------------------------------- syntax *)

Inductive aggfn := ACountStar | ACount | ASum | AMin | AMax | ABoolAnd | ABoolOr.
Inductive jkind := JCross | JInner | JLeft | JRight | JSemi | JAnti.

Inductive expr :=
| EConst (v : value)
| ECol (depth idx : nat)
| ECmp (op : cmpop) (a b : expr)
| EDistinct (neg : bool) (a b : expr)       (* IS [NOT] DISTINCT FROM; neg = true for IS NOT DISTINCT *)
| EAnd (a b : expr)
| EOr (a b : expr)
| ENot (a : expr)
| EIsNull (neg : bool) (a : expr)
| EArith (op : binop) (w : N) (a b : expr)
| ENeg (w : N) (a : expr)
| ECase (branches : list (expr * expr)) (els : expr)
| EInList (neg : bool) (a : expr) (es : list expr)
| EExists (neg : bool) (q : query)
| EInSub (neg : bool) (a : expr) (q : query)
| EScalar (q : query)
with query :=
| QTable (t : nat)
| QValues (rows : list (list expr))
| QSelect (f : option fromc) (wh : option expr)
          (grp : option (list expr * list (aggfn * bool * expr)))   (* keys, (fn, DISTINCT?, arg) *)
          (hav : option expr) (sel : list expr) (distinct : bool)
| QUnion (all : bool) (a b : query)
| QOrderLimit (q : query) (keys : list (nat * bool * bool))         (* output column, desc, nulls_first *)
              (lim : option nat) (off : nat)
with fromc :=
| FQuery (q : query)
| FJoin (k : jkind) (l r : fromc) (on : option expr) (la ra : nat)  (* arities for NULL padding *)
| FLateral (k : jkind) (l : fromc) (r : query) (on : option expr) (ra : nat).

Definition db := list (list row).
Definition env := list row.

(* ---------------------------------------------------------------- bags, grouping, ordering *)

Fixpoint dedup_rows (l : list row) : list row :=
  match l with
  | [] => []
  | r :: l' => r :: filter (fun x => negb (row_same r x)) (dedup_rows l')
  end.

(* groups in order of first appearance: (key, member rows in arrival order) *)
Fixpoint group_insert (k r : row) (gs : list (row * list row)) : list (row * list row) :=
  match gs with
  | [] => [(k, [r])]
  | (k', rs) :: gs' =>
      if row_same k k' then (k', rs ++ [r]) :: gs' else (k', rs) :: group_insert k r gs'
  end.
Definition group_rows (kv : list (row * row)) : list (row * list row) :=
  fold_left (fun gs p => group_insert (fst p) (snd p) gs) kv [].

(* ORDER BY: NULL placement by nulls_first, DESC reverses values only *)
Definition key_cmp (desc nf : bool) (a b : value) : comparison :=
  match a, b with
  | VNull, VNull => Eq
  | VNull, _ => if nf then Lt else Gt
  | _, VNull => if nf then Gt else Lt
  | _, _ => match val_compare a b with
            | Some c => if desc then CompOpp c else c
            | None => Eq
            end
  end.
Fixpoint keys_cmp (keys : list (nat * bool * bool)) (a b : row) : comparison :=
  match keys with
  | [] => Eq
  | (i, desc, nf) :: ks =>
      match key_cmp desc nf (nth i a VNull) (nth i b VNull) with
      | Eq => keys_cmp ks a b
      | c => c
      end
  end.
Definition keys_le keys (a b : row) : bool := match keys_cmp keys a b with Gt => false | _ => true end.
Fixpoint insert_by keys (x : row) (l : list row) : list row :=
  match l with
  | [] => [x]
  | y :: l' => if keys_le keys x y then x :: l else y :: insert_by keys x l'
  end.
(* stable: fold_right inserts later rows first, equal keys keep arrival order *)
Definition sort_by keys (l : list row) : list row := fold_right (insert_by keys) [] l.

(* ---------------------------------------------------------------- aggregates *)

Definition agg_values (distinct : bool) (vs : list value) : list value :=
  let nn := filter (fun v => match v with VNull => false | _ => true end) vs in
  if distinct then map (fun r => hd VNull r) (dedup_rows (map (fun v => [v]) nn)) else nn.

Definition sum_ints (vs : list value) : res value :=
  fold_left (fun acc v => do a <- acc;
                          match a, v with
                          | VNull, VInt x => Ok (VInt x)
                          | VInt s, VInt x => if in_range 64 (s + x) then Ok (VInt (s + x)) else Err EOverflow
                          | _, _ => Err EType
                          end) vs (Ok VNull).

Definition extremum (want : comparison) (vs : list value) : res value :=
  fold_left (fun acc v => do a <- acc;
                          match a with
                          | VNull => Ok v
                          | _ => match val_compare v a with
                                 | Some c => Ok (if match c, want with Lt, Lt | Gt, Gt => true | _, _ => false end
                                                 then v else a)
                                 | None => Err EType
                                 end
                          end) vs (Ok VNull).

Definition bool_fold (unit : bool) (vs : list value) : res value :=
  fold_left (fun acc v => do a <- acc;
                          match a, v with
                          | VNull, VBool b => Ok (VBool b)
                          | VBool x, VBool b => Ok (VBool (if unit then andb x b else orb x b))
                          | _, _ => Err EType
                          end) vs (Ok VNull).

(* rows = number of rows of the group (for count( * )); vs = the argument's value per row *)
Definition agg_apply (f : aggfn) (distinct : bool) (nrows : nat) (vs : list value) : res value :=
  let xs := agg_values distinct vs in
  match f with
  | ACountStar => Ok (VInt (Z.of_nat nrows))
  | ACount => Ok (VInt (Z.of_nat (length xs)))
  | ASum => sum_ints xs
  | AMin => extremum Lt xs
  | AMax => extremum Gt xs
  | ABoolAnd => bool_fold true xs
  | ABoolOr => bool_fold false xs
  end.

(* ---------------------------------------------------------------- evaluation *)

Definition nulls (n : nat) : row := repeat VNull n.

Definition opt_pred {A} (f : A -> res value) (o : option A) : res bool :=
  match o with
  | None => Ok true
  | Some e => do v <- f e; match v with VBool b => Ok b | VNull => Ok false | _ => Err EType end
  end.

(* joins over already-evaluated sides; `on` is given the concatenated row *)
Definition join_rows (k : jkind) (L R : list row) (la ra : nat) (on : row -> res bool) : res (list row) :=
  match k with
  | JCross | JInner =>
      do parts <- mapM (fun l => do ms <- mapM (fun r => do b <- on (l ++ r); Ok (if b then [l ++ r] else [])) R;
                                 Ok (concat ms)) L;
      Ok (concat parts)
  | JLeft =>
      do parts <- mapM (fun l => do ms <- mapM (fun r => do b <- on (l ++ r); Ok (if b then [l ++ r] else [])) R;
                                 let m := concat ms in
                                 Ok (match m with [] => [l ++ nulls ra] | _ => m end)) L;
      Ok (concat parts)
  | JRight =>
      do parts <- mapM (fun r => do ms <- mapM (fun l => do b <- on (l ++ r); Ok (if b then [l ++ r] else [])) L;
                                 let m := concat ms in
                                 Ok (match m with [] => [nulls la ++ r] | _ => m end)) R;
      Ok (concat parts)
  | JSemi =>
      do parts <- mapM (fun l => do ms <- mapM (fun r => on (l ++ r)) R;
                                 Ok (if existsb (fun b => b) ms then [l] else [])) L;
      Ok (concat parts)
  | JAnti =>
      do parts <- mapM (fun l => do ms <- mapM (fun r => on (l ++ r)) R;
                                 Ok (if existsb (fun b => b) ms then [] else [l])) L;
      Ok (concat parts)
  end.

Definition slice_rows (off : nat) (lim : option nat) (l : list row) : list row :=
  match lim with Some n => firstn n (skipn off l) | None => skipn off l end.

(* a IN (set): TRUE on a match; else NULL if a is NULL (and the set is not empty) or the set has a
   NULL; else FALSE *)
Definition in_set (a : value) (vs : list value) : res value :=
  match vs with
  | [] => Ok (VBool false)
  | _ =>
    match a with
    | VNull => Ok VNull
    | _ =>
      do cs <- mapM (fun v => cmp3 CEq a v) vs;
      Ok (if existsb is_true cs then VBool true
          else if existsb (fun c => match c with VNull => true | _ => false end) cs then VNull
          else VBool false)
    end
  end.

Fixpoint eval_expr (d : db) (en : env) (e : expr) {struct e} : res value :=
  match e with
  | EConst v => Ok v
  | ECol depth idx =>
      match nth_error en depth with
      | Some r => match nth_error r idx with Some v => Ok v | None => Err EType end
      | None => Err EType
      end
  | ECmp op a b => do x <- eval_expr d en a; do y <- eval_expr d en b; cmp3 op x y
  | EDistinct neg a b =>
      do x <- eval_expr d en a; do y <- eval_expr d en b;
      Ok (VBool (if neg then val_same x y else negb (val_same x y)))
  | EAnd a b => do x <- eval_expr d en a; do y <- eval_expr d en b; and3 x y
  | EOr a b => do x <- eval_expr d en a; do y <- eval_expr d en b; or3 x y
  | ENot a => do x <- eval_expr d en a; not3 x
  | EIsNull neg a =>
      do x <- eval_expr d en a;
      Ok (VBool (match x with VNull => negb neg | _ => neg end))
  | EArith op w a b => do x <- eval_expr d en a; do y <- eval_expr d en b; arith op w x y
  | ENeg w a => do x <- eval_expr d en a; arith Sub w (match x with VNull => VNull | _ => VInt 0 end) x
  | ECase branches els =>
      (fix go (bs : list (expr * expr)) : res value :=
         match bs with
         | [] => eval_expr d en els
         | (c, t) :: bs' =>
             do cv <- eval_expr d en c;
             if is_true cv then eval_expr d en t else go bs'
         end) branches
  | EInList neg a es =>
      do x <- eval_expr d en a;
      do vs <- mapM (eval_expr d en) es;
      do r <- in_set x vs;
      if neg then not3 r else Ok r
  | EExists neg q =>
      do rows <- eval_query d en q;
      Ok (VBool (match rows with [] => neg | _ => negb neg end))
  | EInSub neg a q =>
      do x <- eval_expr d en a;
      do rows <- eval_query d en q;
      do r <- in_set x (map (fun r => hd VNull r) rows);
      if neg then not3 r else Ok r
  | EScalar q =>
      do rows <- eval_query d en q;
      match rows with
      | [] => Ok VNull
      | [r] => Ok (hd VNull r)
      | _ => Err ECard
      end
  end
with eval_query (d : db) (en : env) (q : query) {struct q} : res (list row) :=
  match q with
  | QTable t => match nth_error d t with Some rows => Ok rows | None => Err EType end
  | QValues rows => mapM (fun r => mapM (eval_expr d en) r) rows
  | QSelect f wh grp hav sel distinct =>
      do src <- match f with None => Ok [[]] | Some fc => eval_from d en fc end;
      do kept <- mapM (fun r => do b <- opt_pred (eval_expr d (r :: en)) wh; Ok (if b then [r] else [])) src;
      let rows := concat kept in
      do rows2 <-
        match grp with
        | None => Ok rows
        | Some (keys, aggs) =>
            do kv <- mapM (fun r => do k <- mapM (eval_expr d (r :: en)) keys; Ok (k, r)) rows;
            let groups := match keys, group_rows kv with
                          | [], [] => [([], [])]          (* global aggregate over no rows: one group *)
                          | _, g => g
                          end in
            do grows <- mapM (fun g =>
                  do avs <- mapM (fun a => match a with (fn, dis, arg) =>
                                    do vs <- mapM (fun r => eval_expr d (r :: en) arg) (snd g);
                                    agg_apply fn dis (length (snd g)) vs end) aggs;
                  Ok (fst g ++ avs)) groups;
            do hk <- mapM (fun r => do b <- opt_pred (eval_expr d (r :: en)) hav; Ok (if b then [r] else [])) grows;
            Ok (concat hk)
        end;
      do out <- mapM (fun r => mapM (eval_expr d (r :: en)) sel) rows2;
      Ok (if distinct then dedup_rows out else out)
  | QUnion all a b =>
      do x <- eval_query d en a; do y <- eval_query d en b;
      Ok (if all then x ++ y else dedup_rows (x ++ y))
  | QOrderLimit q' keys lim off =>
      do rows <- eval_query d en q';
      Ok (slice_rows off lim (sort_by keys rows))
  end
with eval_from (d : db) (en : env) (f : fromc) {struct f} : res (list row) :=
  match f with
  | FQuery q => eval_query d en q
  | FJoin k l r on la ra =>
      do L <- eval_from d en l; do R <- eval_from d en r;
      join_rows k L R la ra (fun row => opt_pred (eval_expr d (row :: en)) on)
  | FLateral k l r on ra =>
      do L <- eval_from d en l;
      do parts <- mapM (fun lr =>
            do R <- eval_query d (lr :: en) r;
            join_rows k [lr] R (length lr) ra (fun row => opt_pred (eval_expr d (row :: en)) on)) L;
      Ok (concat parts)
  end.

(* ---------------------------------------------------------------- comparing with an engine answer *)

Fixpoint remove_row (r : row) (l : list row) : option (list row) :=
  match l with
  | [] => None
  | x :: l' => if row_same r x then Some l'
               else match remove_row r l' with Some t => Some (x :: t) | None => None end
  end.
Fixpoint bag_eqb (a b : list row) : bool :=
  match a with
  | [] => match b with [] => true | _ => false end
  | r :: a' => match remove_row r b with Some b' => bag_eqb a' b' | None => false end
  end.
Fixpoint sub_bagb (a b : list row) : bool :=
  match a with
  | [] => true
  | r :: a' => match remove_row r b with Some b' => sub_bagb a' b' | None => false end
  end.
Fixpoint sorted_by keys (l : list row) : bool :=
  match l with
  | [] => true
  | x :: l' => match l' with [] => true | y :: _ => keys_le keys x y && sorted_by keys l' end
  end.
Fixpoint same_keys keys (a b : list row) : bool :=
  match a, b with
  | [], [] => true
  | x :: a', y :: b' => match keys_cmp keys x y with Eq => same_keys keys a' b' | _ => false end
  | _, _ => false
  end.

Inductive verdict := VOk | VMismatch | VSpecError (e : err).

(* the engine answered `got` (rows in the order returned): is it an admissible answer?
   Without a top-level ORDER BY: equal as bags.  With ORDER BY [LIMIT/OFFSET] at the top: drawn from
   the input, ordered, and key-wise equal to the slice of the sorted input (ties interchangeable). *)
Definition check_answer (d : db) (q : query) (got : list row) : verdict :=
  match q with
  | QOrderLimit q' keys lim off =>
      match eval_query d [] q' with
      | Err e => VSpecError e
      | Ok inp =>
          let want := slice_rows off lim (sort_by keys inp) in
          if sub_bagb got inp && sorted_by keys got && same_keys keys want got
             && match lim with None => Nat.eqb (length got) (length inp - off) | Some _ => true end
          then VOk else VMismatch
      end
  | _ => match eval_query d [] q with
         | Err e => VSpecError e
         | Ok want => if bag_eqb want got then VOk else VMismatch
         end
  end.
