(* C14 — the catalog side: the sequential effect of DDL/DML on the temp catalog and the settings of the
   sessions of one engine.  Definitions only; proofs are in proofs/CatalogProofs.v.

   state  = one `sess` per session (engine/mod.rs `new_session`: every session gets its OWN
            `DatabaseContext` with a fresh `temp` database (catalog/context.rs) and its own `SessionConfig`;
            the shared `system` database is read-only and not modelled)
   sess   = temp schemas -> name -> entry (Table cols rows | View target), settings, default settings
   `step` is the sequential specification, with the dialect decisions of this tree transcribed:
     * name resolution (logical/resolver/resolve_normal.rs, resolver/mod.rs): `n` is `temp.temp.n`,
       `s.n` is `temp.s.n`; `CREATE SCHEMA s` is `temp.s`
     * `DROP TABLE` also drops a view (same map); `DROP TABLE IF EXISTS s.n` with a missing SCHEMA is an error
       (catalog/memory.rs `drop_entry`: the schema lookup is not covered by IF EXISTS)
     * `DROP SCHEMA` removes the schema with everything in it (no RESTRICT check); CASCADE is rejected
     * `CREATE OR REPLACE` on an existing name is an error ("Duplicate entry name"), on a new name it creates
     * `CREATE TABLE IF NOT EXISTS t AS q` on an existing name reports the source's row count and changes nothing
     * INSERT checks the number of columns at bind time; a view is not insertable
     * SET validates at plan time (config/session.rs): partitions 1..512, batch_size 1..8192
   `step_impl` is the same function except for what the IMPLEMENTATION leaves behind when an INSERT / CTAS
   fails during execution (an `oracle` says what the storage layer made visible, see model/Storage.v); it is
   what the real engine is compared with.  (An INSERT reading its own target inserts the snapshot since commit
   2e9960218 — Storage theorem C14_insert_select_snapshot — so no oracle is needed for it any more.)
   Rows, column descriptors and names are interned identifiers (N): table contents are bags of abstract rows. *)
From Coq Require Import List NArith ZArith Bool.
Import ListNotations.

Definition ident := N.
Definition temp_schema : ident := 0%N.
Definition ref := (option ident * ident)%type.
Definition resolve_ref (r : ref) : ident * ident :=
  match fst r with None => (temp_schema, snd r) | Some s => (s, snd r) end.

Inductive entry := Table (cols : list N) (rows : list N) | View (target : ref).
Definition schema := list (ident * entry).

Record settings := { partitions : Z; batch_size : Z; enable_optimizer : bool }.
Record sess := { schemas : list (ident * schema); conf : settings; defaults : settings }.
Definition state := list sess.

Fixpoint alookup {A} (k : N) (l : list (N * A)) : option A :=
  match l with
  | [] => None
  | (k', v) :: r => if N.eqb k k' then Some v else alookup k r
  end.
Fixpoint aremove {A} (k : N) (l : list (N * A)) : list (N * A) :=
  match l with
  | [] => []
  | (k', v) :: r => if N.eqb k k' then aremove k r else (k', v) :: aremove k r
  end.
Fixpoint areplace {A} (k : N) (v : A) (l : list (N * A)) : list (N * A) :=
  match l with
  | [] => []
  | (k', v') :: r => if N.eqb k k' then (k', v) :: r else (k', v') :: areplace k v r
  end.
Definition aadd {A} (k : N) (v : A) (l : list (N * A)) : list (N * A) := l ++ [(k, v)].

Definition set_nth {A} (i : nat) (x : A) (l : list A) : list A := firstn i l ++ x :: skipn (S i) l.

Inductive err := EExists | ENotFound | EInvalid | EOther.
Inductive var := VPartitions | VBatchSize | VEnableOptimizer | VUnknown.
Inductive setval := SInt (z : Z) | SBool (b : bool) | SText.
Inductive res :=
| RNone
| RCount (n : N)
| RRows (cols : list N) (rows : list N)
| RNames (l : list (ident * ident))
| RSchemas (l : list ident)
| RVal (v : setval).
Inductive outcome := Ok (r : res) | Err (e : err).

Inductive on_conflict := OnError | OnIgnore | OnReplace.
Inductive source :=
| SrcRows (cols : list N) (rows : list N) (fails : bool)   (* a query over constants; `fails`: it raises at run time *)
| SrcRef (r : ref).                                        (* SELECT * FROM r *)

Inductive stmt :=
| CreateSchema (s : ident) (if_not_exists : bool)
| DropSchema (s : ident) (if_exists cascade : bool)
| CreateTable (r : ref) (cols : list N) (c : on_conflict)
| CreateView (r : ref) (target : ref) (or_replace : bool)
| DropTable (r : ref) (if_exists cascade : bool)
| Insert (r : ref) (src : source)
| Ctas (r : ref) (c : on_conflict) (src : source)
| SetVar (v : var) (x : setval)
| ResetVar (v : var)
| ResetAll
| ShowVar (v : var)
| Select (r : ref)
| ListTables
| ListViews
| ListSchemas.

(* SELECT * FROM r: views are expanded against the catalog of the querying statement *)
Fixpoint read_ref (fuel : nat) (scs : list (ident * schema)) (r : ref) : option (list N * list N) :=
  match fuel with
  | O => None
  | S f =>
    let (s, n) := resolve_ref r in
    match alookup s scs with
    | None => None
    | Some sc =>
      match alookup n sc with
      | None => None
      | Some (Table c rows) => Some (c, rows)
      | Some (View t) => read_ref f scs t
      end
    end
  end.
Definition entries_of (scs : list (ident * schema)) : nat := fold_right (fun p a => length (snd p) + a) 0 scs.
(* a chain of views is at most as long as the number of entries: a view can only be created over a
   reference that resolves, so no cycle can be built *)
Definition fuel_of (scs : list (ident * schema)) : nat := S (entries_of scs).
Definition read (scs : list (ident * schema)) (r : ref) := read_ref (fuel_of scs) scs r.

Definition lookup (scs : list (ident * schema)) (s n : ident) : option entry :=
  match alookup s scs with None => None | Some sc => alookup n sc end.

Definition with_schemas (se : sess) (scs : list (ident * schema)) : sess :=
  {| schemas := scs; conf := conf se; defaults := defaults se |}.
Definition with_conf (se : sess) (c : settings) : sess :=
  {| schemas := schemas se; conf := c; defaults := defaults se |}.

Definition put_entry (scs : list (ident * schema)) (s n : ident) (e : entry) : list (ident * schema) :=
  match alookup s scs with
  | None => scs
  | Some sc => areplace s (match alookup n sc with Some _ => areplace n e sc | None => aadd n e sc end) scs
  end.
Definition del_entry (scs : list (ident * schema)) (s n : ident) : list (ident * schema) :=
  match alookup s scs with
  | None => scs
  | Some sc => areplace s (aremove n sc) scs
  end.

Inductive src_val := SvRows (cols : list N) (rows : list N) (fails : bool) | SvMissing.
Definition eval_source (scs : list (ident * schema)) (src : source) : src_val :=
  match src with
  | SrcRows c r f => SvRows c r f
  | SrcRef r => match read scs r with Some (c, rows) => SvRows c rows false | None => SvMissing end
  end.

Definition lenN {A} (l : list A) : N := N.of_nat (length l).

Definition set_var (c : settings) (v : var) (x : setval) : settings + err :=
  match v, x with
  | VUnknown, _ => inr ENotFound
  | VPartitions, SInt z => if (1 <=? z)%Z && (z <=? 512)%Z
                           then inl {| partitions := z; batch_size := batch_size c; enable_optimizer := enable_optimizer c |}
                           else inr EInvalid
  | VBatchSize, SInt z => if (1 <=? z)%Z && (z <=? 8192)%Z
                          then inl {| partitions := partitions c; batch_size := z; enable_optimizer := enable_optimizer c |}
                          else inr EInvalid
  | VEnableOptimizer, SBool b => inl {| partitions := partitions c; batch_size := batch_size c; enable_optimizer := b |}
  | _, _ => inr EInvalid
  end.
Definition get_var (c : settings) (v : var) : option setval :=
  match v with
  | VPartitions => Some (SInt (partitions c))
  | VBatchSize => Some (SInt (batch_size c))
  | VEnableOptimizer => Some (SBool (enable_optimizer c))
  | VUnknown => None
  end.

(* what the storage layer left behind / added beyond the specification (model/Storage.v) *)
Record oracle := { leak : option (list N) }.   (* failing INSERT: rows flushed before the failure stay;
                                                 failing CTAS: Some rows = the table exists holding them *)
Definition no_oracle : oracle := {| leak := None |}.

Definition same_target (scs : list (ident * schema)) (r : ref) (src : source) : bool :=
  match src with
  | SrcRef q =>
    (* the source resolves (through views) to the table being inserted into *)
    let fix base (fuel : nat) (q : ref) : option (ident * ident) :=
      match fuel with
      | O => None
      | S f => let (s, n) := resolve_ref q in
               match lookup scs s n with
               | Some (Table _ _) => Some (s, n)
               | Some (View t) => base f t
               | None => None
               end
      end in
    match base (fuel_of scs) q with
    | Some (s, n) => let (s', n') := resolve_ref r in N.eqb s s' && N.eqb n n'
    | None => false
    end
  | SrcRows _ _ _ => false
  end.

(* one statement on one session: new session state and result, or an error *)
Definition exec (o : oracle) (se : sess) (st : stmt) : (sess * res) + (sess * err) :=
  let scs := schemas se in
  match st with
  | CreateSchema s ine =>
    match alookup s scs with
    | Some _ => if ine then inl (se, RNone) else inr (se, EExists)
    | None => inl (with_schemas se (aadd s [] scs), RNone)
    end
  | DropSchema s ie cascade =>
    if cascade then inr (se, EOther) else
    match alookup s scs with
    | Some _ => inl (with_schemas se (aremove s scs), RNone)
    | None => if ie then inl (se, RNone) else inr (se, ENotFound)
    end
  | CreateTable r cols c =>
    let (s, n) := resolve_ref r in
    match alookup s scs with
    | None => inr (se, ENotFound)
    | Some sc =>
      match alookup n sc, c with
      | Some _, OnIgnore => inl (se, RNone)
      | Some _, _ => inr (se, EExists)
      | None, _ => inl (with_schemas se (put_entry scs s n (Table cols [])), RNone)
      end
    end
  | CreateView r target or_replace =>
    let (s, n) := resolve_ref r in
    match read scs target with
    | None => inr (se, ENotFound)
    | Some _ =>
      match alookup s scs with
      | None => inr (se, ENotFound)
      | Some sc =>
        match alookup n sc with
        | Some _ => inr (se, EExists)
        | None => inl (with_schemas se (put_entry scs s n (View target)), RNone)
        end
      end
    end
  | DropTable r ie cascade =>
    let (s, n) := resolve_ref r in
    match alookup s scs with
    | None => inr (se, ENotFound)
    | Some sc =>
      if cascade then inr (se, EOther) else
      match alookup n sc with
      | Some _ => inl (with_schemas se (del_entry scs s n), RNone)
      | None => if ie then inl (se, RNone) else inr (se, ENotFound)
      end
    end
  | Insert r src =>
    let (s, n) := resolve_ref r in
    (* resolver: the target must exist, then the source must resolve; binder: a view is not insertable, then
       the number of columns is checked *)
    match lookup scs s n with
    | None => inr (se, ENotFound)
    | Some ent =>
      match eval_source scs src with
      | SvMissing => inr (se, ENotFound)
      | SvRows c new fails =>
        match ent with
        | View _ => inr (se, EOther)
        | Table cols rows =>
          if negb (Nat.eqb (length c) (length cols)) then inr (se, EInvalid) else
          if fails then
            match leak o with
            | None => inr (se, EOther)
            | Some lk => inr (with_schemas se (put_entry scs s n (Table cols (rows ++ lk))), EOther)
            end
          else
            inl (with_schemas se (put_entry scs s n (Table cols (rows ++ new))), RCount (lenN new))
        end
      end
    end
  | Ctas r c src =>
    let (s, n) := resolve_ref r in
    match eval_source scs src with
    | SvMissing => inr (se, ENotFound)
    | SvRows cols new fails =>
      match alookup s scs with
      | None => inr (se, ENotFound)
      | Some sc =>
        match alookup n sc, c with
        | Some _, OnIgnore => if fails then inr (se, EOther) else inl (se, RCount (lenN new))
        | Some _, _ => inr (se, EExists)
        | None, _ =>
          if fails then
            match leak o with
            | None => inr (se, EOther)
            | Some lk => inr (with_schemas se (put_entry scs s n (Table cols lk)), EOther)
            end
          else inl (with_schemas se (put_entry scs s n (Table cols new)), RCount (lenN new))
        end
      end
    end
  | SetVar v x =>
    match set_var (conf se) v x with
    | inl c => inl (with_conf se c, RNone)
    | inr e => inr (se, e)
    end
  | ResetVar v =>
    match get_var (defaults se) v with
    | None => inr (se, ENotFound)
    | Some x => match set_var (conf se) v x with
                | inl c => inl (with_conf se c, RNone)
                | inr e => inr (se, e)
                end
    end
  | ResetAll => inl (with_conf se (defaults se), RNone)
  | ShowVar v =>
    match get_var (conf se) v with
    | Some x => inl (se, RVal x)
    | None => inr (se, ENotFound)
    end
  | Select r =>
    match read scs r with
    | Some (c, rows) => inl (se, RRows c rows)
    | None => inr (se, ENotFound)
    end
  | ListTables =>
    inl (se, RNames (flat_map (fun p => flat_map (fun q => match snd q with Table _ _ => [(fst p, fst q)] | View _ => [] end) (snd p)) scs))
  | ListViews =>
    inl (se, RNames (flat_map (fun p => flat_map (fun q => match snd q with View _ => [(fst p, fst q)] | Table _ _ => [] end) (snd p)) scs))
  | ListSchemas => inl (se, RSchemas (map fst scs))
  end.

Definition step_impl (o : oracle) (st : state) (u : nat) (s : stmt) : state * outcome :=
  match nth_error st u with
  | None => (st, Err EOther)
  | Some se =>
    match exec o se s with
    | inl (se', r) => (set_nth u se' st, Ok r)
    | inr (se', e) => (set_nth u se' st, Err e)
    end
  end.

(* the sequential specification: nothing leaks, nothing extra *)
Definition step (st : state) (u : nat) (s : stmt) : state * outcome := step_impl no_oracle st u s.

(* what session u can observe *)
Definition view (u : nat) (st : state) : option sess := nth_error st u.

Definition new_session (default_partitions : Z) : sess :=
  let d := {| partitions := default_partitions; batch_size := 2048; enable_optimizer := true |} in
  {| schemas := [(temp_schema, [])]; conf := d; defaults := d |}.
Definition new_engine (default_partitions : Z) (sessions : nat) : state := repeat (new_session default_partitions) sessions.

(* well-formedness: schema names and, per schema, object names are unique *)
Definition keys {A} (l : list (N * A)) : list N := map fst l.
Definition wf_sess (se : sess) : Prop :=
  NoDup (keys (schemas se)) /\ Forall (fun p => NoDup (keys (snd p))) (schemas se).
Definition wf (st : state) : Prop := Forall wf_sess st.

Definition fails_at_runtime (s : stmt) : bool :=
  match s with
  | Insert _ (SrcRows _ _ f) => f
  | Ctas _ _ (SrcRows _ _ f) => f
  | _ => false
  end.
Definition is_self_insert (se : sess) (s : stmt) : bool :=
  match s with
  | Insert r src => same_target (schemas se) r src
  | _ => false
  end.
