(* Model of crates/glaredb_ext_parquet/src/column/bitutil.rs and
   column/encoding/rle_bit_packed.rs (RleBitPackedDecoder), WITH the resumable decoder
   state, plus the specification-side encoders.  Executable definitions only.

   Bytes are N < 256, buffers are byte lists (the ReadCursor = the remaining bytes).
   Integers of the Rust code are their bit patterns (N); `tw` is the bit width of the
   output element type T (`T::from_u64` keeps the low tw bits). *)
From Coq Require Import NArith ZArith List Bool.
Import ListNotations.
Open Scope N_scope.

(* outcome of a partial operation of the implementation:
   Err   = a DbError is returned
   Panic = index out of bounds / failed assert / division by zero
   OOB   = `read_next_unchecked` past the end of the cursor (debug_assert panic in a
           debug build, undefined behaviour in a release build) *)
Inductive outcome (A : Type) : Type :=
| Ok (a : A) | Err | Panic | OOB.
Arguments Ok {A} a.
Arguments Err {A}.
Arguments Panic {A}.
Arguments OOB {A}.

Definition bind {A B} (o : outcome A) (f : A -> outcome B) : outcome B :=
  match o with Ok a => f a | Err => Err | Panic => Panic | OOB => OOB end.
Notation "x <- e ;; f" := (bind e (fun x => f)) (at level 61, e at next level, right associativity).
Notation "' p <- e ;; f" := (bind e (fun p => f)) (at level 61, p pattern, e at next level, right associativity).

(* ---------- little endian numbers ---------- *)
Fixpoint le_bytes (k : nat) (x : N) : list N :=
  match k with O => [] | S k' => x mod 256 :: le_bytes k' (x / 256) end.
Fixpoint le_num (bs : list N) : N :=
  match bs with [] => 0 | b :: r => b + 256 * le_num r end.

(* cursor.read k bytes (unchecked) *)
Fixpoint take_bytes (k : nat) (buf : list N) : outcome (list N * list N) :=
  match k with
  | O => Ok ([], buf)
  | S k' => match buf with
            | [] => OOB
            | b :: r => '(bs, r') <- take_bytes k' r ;; Ok (b :: bs, r')
            end
  end.

Definition trunc (tw x : N) : N := x mod 2 ^ tw.
Definition to_signed (bits x : N) : Z :=
  if x <? 2 ^ (bits - 1) then Z.of_N x else (Z.of_N x - 2 ^ Z.of_N bits)%Z.
Definition of_signed (bits : N) (z : Z) : N := Z.to_N (z mod 2 ^ Z.of_N bits).

(* ---------- ULEB128 (read_unsigned_vlq) ---------- *)
(* spec encoder: at most fuel+1 bytes *)
Fixpoint vlq_enc (fuel : nat) (n : N) : list N :=
  match fuel with
  | O => [n mod 128]
  | S f => if n <? 128 then [n] else (n mod 128 + 128) :: vlq_enc f (n / 128)
  end.
Definition vlq_encode (n : N) : list N := vlq_enc 9 n.

(* read_unsigned_vlq: result |= ((byte & 0x7F) as u64) << shift; stop on a clear top bit;
   shift += 7; if shift >= 64 -> Err *)
Fixpoint vlq_dec (bs : list N) (result shift : N) : outcome (N * list N) :=
  match bs with
  | [] => OOB
  | b :: r =>
      let result' := N.lor result (N.shiftl (N.land b 127) shift mod 2 ^ 64) in
      if N.land b 128 =? 0 then Ok (result', r)
      else let shift' := shift + 7 in
           if 64 <=? shift' then Err else vlq_dec r result' shift'
  end.
Definition vlq_decode (bs : list N) : outcome (N * list N) := vlq_dec bs 0 0.

(* ---------- zigzag ---------- *)
Definition zigzag_encode (z : Z) : N := if (0 <=? z)%Z then Z.to_N (2 * z) else Z.to_N (- 2 * z - 1).
(* ((n >> 1) as i64) ^ (-((n & 1) as i64)), as a 64 bit pattern *)
Definition zigzag_decode (n : N) : N :=
  N.lxor (N.shiftr n 1) (if N.odd n then N.ones 64 else 0).
(* T::from_i64: None when the value does not fit the `bits`-wide signed type *)
Definition from_i64 (bits : N) (pat64 : N) : option N :=
  let z := to_signed 64 pat64 in
  if ((- 2 ^ (Z.of_N bits - 1) <=? z) && (z <? 2 ^ (Z.of_N bits - 1)))%Z%bool
  then Some (of_signed bits z) else None.

(* ---------- bit packing (LSB first) ---------- *)
(* spec: the packed buffer, read as one little endian number, is sum v_i * 2^(w*i) *)
Fixpoint pack_num (w : N) (vals : list N) : N :=
  match vals with [] => 0 | v :: r => v + 2 ^ w * pack_num w r end.
Definition packed_len (w : N) (n : nat) : nat := N.to_nat ((w * N.of_nat n + 7) / 8).
Definition bitpack (w : N) (vals : list N) : list N :=
  le_bytes (packed_len w (length vals)) (pack_num w vals).

(* bit_unpack, inner `while bits_needed > 0` loop for one value: returns the value, the
   cursor and the bit position *)
Fixpoint unpack_val (fuel : nat) (buf : list N) (pos need off value : N) : outcome (N * list N * N) :=
  if need =? 0 then Ok (value, buf, pos) else
  match fuel with
  | O => Err
  | S f =>
      match buf with
      | [] => OOB
      | b :: rest =>
          let take := N.min need (8 - pos) in
          let chunk := (b / 2 ^ pos) mod 2 ^ take in          (* (byte & (mask << pos)) >> pos *)
          let value' := N.lor value (N.shiftl chunk off) in
          let pos' := pos + take in
          if pos' =? 8 then unpack_val f rest 0 (need - take) (off + take) value'
          else unpack_val f buf pos' (need - take) (off + take) value'
      end
  end.

Definition unpack_one (tw w : N) (buf : list N) (pos : N) : outcome (N * list N * N) :=
  '(v, buf', pos') <- unpack_val 65 buf pos w 0 0 ;; Ok (trunc tw v, buf', pos').

Fixpoint unpack_n (tw w : N) (n : nat) (buf : list N) (pos : N) : outcome (list N * list N * N) :=
  match n with
  | O => Ok ([], buf, pos)
  | S k => '(v, buf1, pos1) <- unpack_one tw w buf pos ;;
           '(vs, buf2, pos2) <- unpack_n tw w k buf1 pos1 ;;
           Ok (v :: vs, buf2, pos2)
  end.

(* bit_unpack(state, cursor, out): a width above 64 is an error (tested before BITPACK_MASKS[w] is
   indexed since the repair 72f92a6f7; it was a panic before); width 0 fills zeros and touches
   neither the cursor nor bit_pos *)
Definition bit_unpack (tw w : N) (n : nat) (buf : list N) (pos : N) : outcome (list N * list N * N) :=
  if 64 <? w then Err
  else if w =? 0 then Ok (repeat 0 n, buf, pos)
  else unpack_n tw w n buf pos.

(* ---------- RLE / bit-packed hybrid ---------- *)
Record rle := mk_rle {
  r_buf : list N; r_w : N; r_cur : N; r_rle_left : N; r_bp_left : N; r_pos : N }.

Definition rle_new (buf : list N) (w : N) : rle := mk_rle buf w 0 0 0 0.
Definition byte_enc_len (w : N) : nat := N.to_nat ((w + 7) / 8).

(* read_next: run header *)
Definition rle_read_next (s : rle) : outcome rle :=
  if negb (r_pos s =? 0) then Err else
  '(ind, buf1) <- vlq_decode (r_buf s) ;;
  if N.odd ind then
    Ok (mk_rle buf1 (r_w s) (r_cur s) (r_rle_left s) ((ind / 2) * 8 mod 2 ^ 64) 0)
  else
    '(bs, buf2) <- take_bytes (byte_enc_len (r_w s)) buf1 ;;
    Ok (mk_rle buf2 (r_w s) (le_num bs) (ind / 2) (r_bp_left s) 0).

(* read(values): the `while num_read < values.len()` loop, n = values still to produce.
   Every iteration produces at least one value or consumes at least one byte. *)
Fixpoint rle_go (tw : N) (fuel : nat) (n : nat) (s : rle) : outcome (list N * rle) :=
  match n with
  | O => Ok ([], s)
  | S _ =>
    match fuel with
    | O => Err
    | S f =>
      if 0 <? r_rle_left s then
        let count := Nat.min n (N.to_nat (r_rle_left s)) in
        let s1 := mk_rle (r_buf s) (r_w s) (r_cur s) (r_rle_left s - N.of_nat count) (r_bp_left s) (r_pos s) in
        '(vs, s2) <- rle_go tw f (n - count) s1 ;;
        Ok (repeat (trunc tw (r_cur s)) count ++ vs, s2)
      else if 0 <? r_bp_left s then
        let count := Nat.min n (N.to_nat (r_bp_left s)) in
        '(lit, buf1, pos1) <- bit_unpack tw (r_w s) count (r_buf s) (r_pos s) ;;
        let s1 := mk_rle buf1 (r_w s) (r_cur s) (r_rle_left s) (r_bp_left s - N.of_nat count) pos1 in
        '(vs, s2) <- rle_go tw f (n - count) s1 ;;
        Ok (lit ++ vs, s2)
      else
        s1 <- rle_read_next s ;;
        rle_go tw f n s1
    end
  end.

Definition rle_read (tw : N) (n : nat) (s : rle) : outcome (list N * rle) :=
  rle_go tw (n + length (r_buf s) + 1) n s.

(* spec side: a hybrid stream is a list of runs *)
Inductive run :=
| RunRle (count : N) (v : N)
| RunLit (vals : list N).          (* length a multiple of 8 (padding included) *)

Definition run_values (r : run) : list N :=
  match r with RunRle c v => repeat v (N.to_nat c) | RunLit vs => vs end.
Definition runs_values (rs : list run) : list N := flat_map run_values rs.

Definition run_bytes (w : N) (r : run) : list N :=
  match r with
  | RunRle c v => vlq_encode (2 * c) ++ le_bytes (byte_enc_len w) v
  | RunLit vs => vlq_encode (2 * (N.of_nat (length vs) / 8) + 1) ++ bitpack w vs
  end.
Definition runs_bytes (w : N) (rs : list run) : list N := flat_map (run_bytes w) rs.

Definition run_wf (w : N) (r : run) : Prop :=
  match r with
  | RunRle c v => c < 2 ^ 62 /\ v < 2 ^ w
  | RunLit vs => (exists g, length vs = (8 * g)%nat) /\ N.of_nat (length vs) < 2 ^ 62 /\ Forall (fun v => v < 2 ^ w) vs
  end.

(* spec side: a deterministic choice of runs for a value list.  A run of at least
   `min_rle` equal values becomes an RLE run, otherwise literal groups of 8*g values
   (the last one zero padded). *)
Fixpoint count_eq (v : N) (xs : list N) : nat :=
  match xs with x :: r => if x =? v then S (count_eq v r) else O | [] => O end.
Definition pad8 (xs : list N) : list N :=
  xs ++ repeat 0 ((8 - length xs mod 8) mod 8).
Fixpoint plan_runs (fuel : nat) (min_rle g : nat) (xs : list N) : list run :=
  match fuel with
  | O => []
  | S f =>
    match xs with
    | [] => []
    | x :: _ =>
      let c := count_eq x xs in
      if (Nat.leb min_rle c) then RunRle (N.of_nat c) x :: plan_runs f min_rle g (skipn c xs)
      else let k := Nat.min (8 * g) (length xs) in
           RunLit (pad8 (firstn k xs)) :: plan_runs f min_rle g (skipn k xs)
    end
  end.
Definition rle_encode (w : N) (min_rle g : nat) (xs : list N) : list N :=
  runs_bytes w (plan_runs (length xs) (Nat.max 1 min_rle) (Nat.max 1 g) xs).

(* number of bits needed for values up to max (num_required_bits) *)
Definition bit_width_of (max : N) : N := N.size max.
