(* C17 — model of the CSV read path.  Executable definitions only; proofs live in proofs/CsvProofs.v.

   (i)   the SPEC: RFC-4180 as an *encoder relation made executable*: `encode_file d recs encs` writes a list of
         records with a per-field choice quoted/unquoted and a per-record choice LF/CRLF; `rfc4180 d bs` is the
         reference parser (a direct recursive-descent reading of the grammar, final record with or without
         terminator).  BLANK LINES (a line without any byte) are not records: RFC 4180 does not mention them (its
         grammar would read one as a record of one empty field), GlareDB's documentation (docs/integrations/
         file-formats/csv.md) is silent, and csv_core documents "Empty lines (that do not include other whitespace)
         are ignored" (reader.rs, "differences from RFC 4180").  The spec follows the documented engine behaviour; a
         record of one empty field can still be written as a quoted empty field.
   (ii)  csv_core 0.1.12 `Reader` (external crate, src/reader.rs) as configured by
         `DialectOptions::csv_core_reader` (delimiter, quote; defaults: Terminator::CRLF, quoting, double_quote,
         no escape, no comment): `transition_nfa` transcribed, the DFA is its epsilon closure exactly as
         `build_dfa` computes it; `read_record_dfa` with the caller's growing output (the OutputFull /
         OutputEndsFull round trips of `CsvDecoder::decode` only re-enter the loop and are not modelled: the
         correspondence check drives the real decoder from capacity 0 so that those paths run).
   (iii) crates/glaredb_ext_csv/src/decoder.rs: `ByteRecords` (buf, ends, record_boundaries, clear_completed,
         clear_all, get_record, iter_fields), `CsvDecoder::decode_inner` (= `decode` below: the csv_core loop) and
         `CsvDecoder::decode` (= `decode_h`: holds back a first input that ends inside a UTF-8 BOM until it knows);
         reader.rs `CsvReader::poll_pull` AS WRITTEN (= `reader_loop_h`; re-transcribed after /repo commits ddfbbbc21,
         0abcb062b and the BOM repair): at `Poll::Ready(0)` the reader calls `decoder.decode(&[], ..)` (end-of-input
         signal) before flushing; `clear_completed` clears everything only if neither bytes nor field ends of a
         partial record are pending.  The definitions named `_old` are the code BEFORE those commits;
         `decode_chunks`, `decode_flush`, `reader_loop` drive `decode_inner` directly (the decoder before the BOM
         repair): they are kept for the regression witnesses and as the layer the proofs go through. *)
From Coq Require Import NArith List Bool Arith.
Import ListNotations.

Record dialect := { delim : N; quote : N }.

Definition CR : N := 13%N.
Definition LF : N := 10%N.

(* ------------------------------------------------------------------ (ii) csv_core *)
(* NfaState; InEscapedQuote / InComment are unreachable without escape / comment bytes and omitted *)
Inductive nfa :=
| End | StartRecord | StartField | InField | InQuotedField | InDoubleEscapedQuote
| EndFieldDelim | EndFieldTerm | InRecordTerm | EndRecord | CRLF.

Inductive action := Epsilon | CopyToOutput | Discard.

(* Terminator::CRLF.equals *)
Definition term_equals (c : N) : bool := (c =? CR)%N || (c =? LF)%N.

(* Reader::transition_nfa with quoting = true, double_quote = true, escape = None, comment = None, term = CRLF *)
Definition transition_nfa (d : dialect) (s : nfa) (c : N) : nfa * action :=
  match s with
  | End => (End, Epsilon)
  | StartRecord => if term_equals c then (StartRecord, Discard) else (StartField, Epsilon)
  | EndRecord => (StartRecord, Epsilon)
  | StartField =>
      if (quote d =? c)%N then (InQuotedField, Discard)
      else if (delim d =? c)%N then (EndFieldDelim, Discard)
      else if term_equals c then (EndFieldTerm, Epsilon)
      else (InField, CopyToOutput)
  | EndFieldDelim => (StartField, Epsilon)
  | EndFieldTerm => (InRecordTerm, Epsilon)
  | InField =>
      if (delim d =? c)%N then (EndFieldDelim, Discard)
      else if term_equals c then (EndFieldTerm, Epsilon)
      else (InField, CopyToOutput)
  | InQuotedField =>
      if (quote d =? c)%N then (InDoubleEscapedQuote, Discard) else (InQuotedField, CopyToOutput)
  | InDoubleEscapedQuote =>
      if (quote d =? c)%N then (InQuotedField, CopyToOutput)
      else if (delim d =? c)%N then (EndFieldDelim, Discard)
      else if term_equals c then (EndFieldTerm, Epsilon)
      else (InField, CopyToOutput)
  | InRecordTerm => if (CR =? c)%N then (CRLF, Discard) else (EndRecord, Discard)
  | CRLF => if (LF =? c)%N then (StartRecord, Discard) else (StartRecord, Epsilon)
  end.

Definition is_end (s : nfa) : bool := match s with End => true | _ => false end.

(* build_dfa: `while nfa_result.0 != End && nfa_result.1 == Epsilon { nfa_result = transition_nfa(..) }`.
   The longest epsilon chain has 5 steps (CRLF, StartRecord, StartField, EndFieldTerm, InRecordTerm). *)
Fixpoint dfa_closure (fuel : nat) (d : dialect) (r : nfa * action) (c : N) : nfa * action :=
  match fuel with
  | O => r
  | S k =>
      if is_end (fst r) then r
      else match snd r with
           | Epsilon => dfa_closure k d (transition_nfa d (fst r) c) c
           | _ => r
           end
  end.

(* Dfa::get_output : (next state, has_output) *)
Definition dfa_step (d : dialect) (s : nfa) (c : N) : nfa * bool :=
  let r := dfa_closure 8 d (s, Epsilon) c in
  (fst r, match snd r with CopyToOutput => true | _ => false end).

(* state >= final_field / state >= final_record (DFA states are numbered in NfaState order) *)
Definition field_final (s : nfa) : bool :=
  match s with EndFieldDelim | EndRecord | CRLF => true | _ => false end.
Definition record_final (s : nfa) : bool :=
  match s with EndRecord | CRLF => true | _ => false end.
Definition is_start (s : nfa) : bool := match s with StartRecord => true | _ => false end.

(* ------------------------------------------------------------------ (iii) ByteRecords *)
(* buf = the first buf_len bytes, ends = the first ends_len entries, bounds = (end_idx, end_offset) *)
Record byte_records := { buf : list N; ends : list nat; bounds : list (nat * nat) }.
Definition br_empty : byte_records := {| buf := []; ends := []; bounds := [] |}.

(* csv_core Reader: dfa_state, output_pos, has_read *)
Record rdr := { r_state : nfa; r_opos : nat; r_has_read : bool }.
Definition rdr_init : rdr := {| r_state := StartRecord; r_opos := 0; r_has_read := false |}.

Definition dstate := (rdr * byte_records)%type.
Definition st_init : dstate := (rdr_init, br_empty).

(* one byte of read_record_dfa's loop, with the caller's bookkeeping of CsvDecoder::decode folded in:
   copy, `ends[nend] = output_pos + nout`, and on a record-final state `output_pos = 0` and
   `record_boundaries.push({end_idx: ends_len - 1, end_offset: buf_len})` *)
Definition byte_step (d : dialect) (st : dstate) (c : N) : dstate :=
  let '(r, br) := st in
  let '(s', out) := dfa_step d (r_state r) c in
  let buf' := if out then buf br ++ [c] else buf br in
  let opos' := if out then S (r_opos r) else r_opos r in
  let ends' := if field_final s' then ends br ++ [opos'] else ends br in
  if record_final s'
  then ({| r_state := s'; r_opos := 0; r_has_read := true |},
        {| buf := buf'; ends := ends'; bounds := bounds br ++ [(length ends' - 1, length buf')] |})
  else ({| r_state := s'; r_opos := opos'; r_has_read := true |},
        {| buf := buf'; ends := ends'; bounds := bounds br |}).

(* read_record with empty input = the end-of-input signal (transition_final_dfa): from a record-final or the
   start state -> start state, result End; otherwise -> EndRecord, the last field end is written, result Record;
   CsvDecoder::decode then loops once more with empty input and gets End. *)
Definition decode_eof (st : dstate) : dstate :=
  let '(r, br) := st in
  if record_final (r_state r) || is_start (r_state r)
  then ({| r_state := StartRecord; r_opos := r_opos r; r_has_read := true |}, br)
  else
    let ends' := ends br ++ [r_opos r] in
    ({| r_state := StartRecord; r_opos := 0; r_has_read := true |},
     {| buf := buf br; ends := ends'; bounds := bounds br ++ [(length ends' - 1, length (buf br))] |}).

(* strip_utf8_bom: only on the very first read_record call and only if that call's input holds all 3 bytes *)
Definition strip_bom (r : rdr) (chunk : list N) : list N :=
  match r_has_read r, chunk with
  | false, 239%N :: 187%N :: 191%N :: rest => rest
  | _, _ => chunk
  end.

(* when the chunk's last byte completed a record the loop `continue`s with empty input: csv_core takes that as
   end of input and moves a record-final state to the start state (result End -> RecordBoundary) *)
Definition end_of_chunk (st : dstate) : dstate :=
  let '(r, br) := st in
  if record_final (r_state r)
  then ({| r_state := StartRecord; r_opos := r_opos r; r_has_read := true |}, br)
  else st.

(* CsvDecoder::decode_inner(input, output) (before the BOM repair: CsvDecoder::decode) *)
Definition decode (d : dialect) (st : dstate) (chunk : list N) : dstate :=
  match chunk with
  | [] => decode_eof st
  | _ =>
      match strip_bom (fst st) chunk with
      | [] => (* the chunk was exactly the BOM: InputEmpty *)
          ({| r_state := r_state (fst st); r_opos := r_opos (fst st); r_has_read := true |}, snd st)
      | body => end_of_chunk (fold_left (byte_step d) body st)
      end
  end.

Definition clear_all (br : byte_records) : byte_records := br_empty.

(* CsvDecoder::decode: `started`, `bom_prefix` + the csv_core reader and the output *)
Definition BOM : list N := [239; 187; 191]%N.
(* b.starts_with(a) *)
Fixpoint is_prefix (a b : list N) : bool :=
  match a, b with
  | [], _ => true
  | x :: a', y :: b' => (x =? y)%N && is_prefix a' b'
  | _ :: _, [] => false
  end.
Definition nilb (l : list N) : bool := match l with [] => true | _ => false end.

Record hstate := { h_started : bool; h_prefix : list N; h_st : dstate }.
Definition h_init : hstate := {| h_started := false; h_prefix := []; h_st := st_init |}.
Definition h_run (st : dstate) : hstate := {| h_started := true; h_prefix := []; h_st := st |}.

Definition decode_h (d : dialect) (h : hstate) (input : list N) : hstate :=
  if h_started h then h_run (decode d (h_st h) input)
  else if nilb (h_prefix h) && (nilb input || (3 <=? length input) || negb (is_prefix input BOM))
  then h_run (decode d (h_st h) input)             (* holds the complete BOM, or does not start with one *)
  else
    let count := Nat.min (3 - length (h_prefix h)) (length input) in
    let prefix := h_prefix h ++ firstn count input in
    let rest := skipn count input in
    if negb (nilb input) && (length prefix <? 3) && is_prefix prefix BOM
    then {| h_started := false; h_prefix := prefix; h_st := h_st h |}     (* still unknown: NeedsMore *)
    else
      let st1 := decode d (h_st h) prefix in
      if nilb rest && negb (nilb input) then h_run st1
      else h_run (decode d st1 rest).

(* ByteRecords::clear_completed, as written (after 0abcb062b):
     if last.end_offset == self.buf_len && last.end_idx + 1 == self.ends_len { clear everything } else { carry } *)
Definition clear_completed (br : byte_records) : byte_records :=
  match rev (bounds br) with
  | [] => br
  | (ei, eo) :: _ =>
      if (eo =? length (buf br)) && (S ei =? length (ends br)) then br_empty
      else {| buf := skipn eo (buf br); ends := skipn (S ei) (ends br); bounds := [] |}
  end.

(* OLD (before 0abcb062b): "only completed records" was decided by the BYTE offset alone, losing the field ends
   of a partial record that has no bytes yet *)
Definition clear_completed_old (br : byte_records) : byte_records :=
  match rev (bounds br) with
  | [] => br
  | (ei, eo) :: _ =>
      if eo =? length (buf br) then br_empty
      else {| buf := skipn eo (buf br); ends := skipn (S ei) (ends br); bounds := [] |}
  end.

(* auxiliary normal form used by the proofs: always carry (equal to clear_completed, proofs/CsvFlushProofs.v) *)
Definition clear_completed_carry (br : byte_records) : byte_records :=
  match rev (bounds br) with
  | [] => br
  | (ei, eo) :: _ => {| buf := skipn eo (buf br); ends := skipn (S ei) (ends br); bounds := [] |}
  end.

(* slices panic in Rust when out of range: None *)
Definition slice {A} (l : list A) (a b : nat) : option (list A) :=
  if (a <=? b) && (b <=? length l) then Some (firstn (b - a) (skipn a l)) else None.

(* FieldIter over (record buf, record ends): field = buf[offset .. ends[0]], offset = ends[0] *)
Fixpoint fields_of (rbuf : list N) (off : nat) (rends : list nat) : option (list (list N)) :=
  match rends with
  | [] => Some []
  | e :: rest =>
      match slice rbuf off e, fields_of rbuf e rest with
      | Some f, Some fs => Some (f :: fs)
      | _, _ => None
      end
  end.

(* get_record idx, iterated in order: `pb` is the previous boundary as (first end index, byte offset) *)
Fixpoint records_from (br : byte_records) (pi po : nat) (bs : list (nat * nat)) : option (list (list (list N))) :=
  match bs with
  | [] => Some []
  | (ei, eo) :: rest =>
      match slice (buf br) po eo, slice (ends br) pi (S ei) with
      | Some rbuf, Some rends =>
          match fields_of rbuf 0 rends, records_from br (S ei) eo rest with
          | Some r, Some rs => Some (r :: rs)
          | _, _ => None
          end
      | _, _ => None
      end
  end.

(* iter_records().map(iter_fields): None = a slice out of range (a panic) *)
Definition records_of (br : byte_records) : option (list (list (list N))) :=
  records_from br 0 0 (bounds br).

(* ------------------------------------------------------------------ chunked decoding *)
(* records accumulate over all chunks, read once at the end (the reader while a batch is not yet full) *)
Definition decode_chunks (d : dialect) (chunks : list (list N)) : dstate :=
  fold_left (decode d) chunks st_init.

Definition opt_app {A} (a b : option (list A)) : option (list A) :=
  match a, b with Some x, Some y => Some (x ++ y) | _, _ => None end.

(* records collected and `clear_completed` applied after every chunk (the reader when every read fills a batch) *)
Fixpoint decode_flush_from (clear : byte_records -> byte_records) (d : dialect) (st : dstate)
         (chunks : list (list N)) : option (list (list (list N))) :=
  match chunks with
  | [] => records_of (snd st)
  | ch :: rest =>
      let st' := decode d st ch in
      opt_app (records_of (snd st')) (decode_flush_from clear d (fst st', clear (snd st')) rest)
  end.
Definition decode_flush (d : dialect) (chunks : list (list N)) := decode_flush_from clear_completed d st_init chunks.
Definition decode_flush_old (d : dialect) (chunks : list (list N)) :=
  decode_flush_from clear_completed_old d st_init chunks.
Definition decode_flush_carry (d : dialect) (chunks : list (list N)) :=
  decode_flush_from clear_completed_carry d st_init chunks.

(* run_dfa: the whole input in one `decode` call and NO end-of-input signal: what ReadCsv::bind does with an
   inference sample that is a proper prefix of the file (and what the reader did before ddfbbbc21) *)
Definition run_dfa (d : dialect) (bs : list N) : option (list (list (list N))) :=
  records_of (snd (decode d st_init bs)).
(* run_reader: the reader with a read buffer at least as large as the file: one read, then Poll::Ready(0) ->
   `decode(&[])`, then everything is flushed *)
Definition run_reader (d : dialect) (bs : list N) : option (list (list (list N))) :=
  records_of (snd (decode_eof (match bs with [] => st_init | _ => decode d st_init bs end))).

(* run_sample: ReadCsv::bind / DialectOptions::infer_from_sample_with_eof on the inference sample: one `decode`
   call, followed by the end-of-input signal iff the sample reached the end of the file (`eof`, read_csv.rs:
   `n < INFER_BUF_SIZE`) *)
Definition run_sample (d : dialect) (eof : bool) (bs : list N) : option (list (list (list N))) :=
  let h := decode_h d h_init bs in
  records_of (snd (h_st (if eof then decode_h d h [] else h))).

(* ------------------------------------------------------------------ CsvReader::poll_pull, rows level *)
(* Reading{skip_first}: every chunk is decoded; when num_records >= out_cap the decoded records (minus the header
   if still to skip) are emitted, clear_completed runs, and skip_first becomes false.  At Poll::Ready(0) the decoder
   gets the end-of-input signal and whatever is complete is emitted. *)
Fixpoint reader_loop (d : dialect) (out_cap : nat) (skip_first : bool) (st : dstate)
         (chunks : list (list N)) : option (list (list (list N))) :=
  let emit (br : byte_records) := option_map (fun rs => if skip_first then tl rs else rs) (records_of br) in
  match chunks with
  | [] => emit (snd (decode_eof st))
  | ch :: rest =>
      let st' := decode d st ch in
      if out_cap <=? length (bounds (snd st'))
      then opt_app (emit (snd st')) (reader_loop d out_cap false (fst st', clear_completed (snd st')) rest)
      else reader_loop d out_cap skip_first st' rest
  end.

(* the same loop over CsvDecoder::decode (BOM held back): the reader AS WRITTEN *)
Fixpoint reader_loop_h (d : dialect) (out_cap : nat) (skip_first : bool) (h : hstate)
         (chunks : list (list N)) : option (list (list (list N))) :=
  let emit (br : byte_records) := option_map (fun rs => if skip_first then tl rs else rs) (records_of br) in
  match chunks with
  | [] => emit (snd (h_st (decode_h d h [])))
  | ch :: rest =>
      let h' := decode_h d h ch in
      if out_cap <=? length (bounds (snd (h_st h')))
      then opt_app (emit (snd (h_st h')))
             (reader_loop_h d out_cap false
                {| h_started := h_started h'; h_prefix := h_prefix h';
                   h_st := (fst (h_st h'), clear_completed (snd (h_st h'))) |} rest)
      else reader_loop_h d out_cap skip_first h' rest
  end.

(* the same, also returning the state the reader is left in at PollPull::Exhausted (decoder + records buffer) *)
Fixpoint reader_run (d : dialect) (out_cap : nat) (skip_first : bool) (h : hstate)
         (chunks : list (list N)) : option (list (list (list N))) * hstate :=
  let emit (br : byte_records) := option_map (fun rs => if skip_first then tl rs else rs) (records_of br) in
  match chunks with
  | [] => let h' := decode_h d h [] in (emit (snd (h_st h')), h')
  | ch :: rest =>
      let h' := decode_h d h ch in
      if out_cap <=? length (bounds (snd (h_st h')))
      then let r := reader_run d out_cap false
                      {| h_started := h_started h'; h_prefix := h_prefix h';
                         h_st := (fst (h_st h'), clear_completed (snd (h_st h'))) |} rest in
           (opt_app (emit (snd (h_st h'))) (fst r), snd r)
      else reader_run d out_cap skip_first h' rest
  end.

(* CsvReader::prepare: `records.clear_all(); decoder.reset();` (csv_core Reader::reset: start state, output_pos = 0,
   has_read = false; CsvDecoder: started = false, bom_prefix cleared) and `Reading { skip_first: has_header }` *)
Definition prepare (h : hstate) : hstate := h_init.
(* OLD (before decoder.reset() was added): only the records were cleared; csv_core's state, has_read and
   CsvDecoder.started stayed as the previous file left them *)
Definition prepare_old (h : hstate) : hstate :=
  {| h_started := h_started h; h_prefix := h_prefix h; h_st := (fst (h_st h), clear_all (snd (h_st h))) |}.

(* ReadCsv::poll_pull over the file queue of one partition: Init -> Opening -> reader.prepare(file) -> Scanning until
   Exhausted -> Init ...; every file is given as the list of its (non-empty) reads *)
Fixpoint read_queue (prep : hstate -> hstate) (d : dialect) (out_cap : nat) (has_header : bool) (h : hstate)
         (files : list (list (list N))) : option (list (list (list N))) :=
  match files with
  | [] => Some []
  | f :: rest =>
      let r := reader_run d out_cap has_header (prep h) f in
      opt_app (fst r) (read_queue prep d out_cap has_header (snd r) rest)
  end.

Definition read_file_h (d : dialect) (has_header : bool) (out_cap : nat) (chunks : list (list N)) :=
  reader_loop_h d out_cap has_header h_init chunks.
Definition read_file (d : dialect) (has_header : bool) (out_cap : nat) (chunks : list (list N)) :=
  reader_loop d out_cap has_header st_init chunks.

(* records accumulating / flushed after every chunk, over CsvDecoder::decode (what gv_csv decode drives) *)
Definition decode_chunks_h (d : dialect) (chunks : list (list N)) : hstate :=
  fold_left (decode_h d) chunks h_init.
Fixpoint decode_flush_h_from (d : dialect) (h : hstate) (chunks : list (list N)) : option (list (list (list N))) :=
  match chunks with
  | [] => records_of (snd (h_st h))
  | ch :: rest =>
      let h' := decode_h d h ch in
      opt_app (records_of (snd (h_st h')))
        (decode_flush_h_from d {| h_started := h_started h'; h_prefix := h_prefix h';
                                  h_st := (fst (h_st h'), clear_completed (snd (h_st h'))) |} rest)
  end.
Definition decode_flush_h (d : dialect) (chunks : list (list N)) := decode_flush_h_from d h_init chunks.

(* OLD reader (before ddfbbbc21): no end-of-input signal, old clear_completed *)
Fixpoint reader_loop_old (d : dialect) (out_cap : nat) (skip_first : bool) (st : dstate)
         (chunks : list (list N)) : option (list (list (list N))) :=
  let emit (br : byte_records) := option_map (fun rs => if skip_first then tl rs else rs) (records_of br) in
  match chunks with
  | [] => emit (snd st)
  | ch :: rest =>
      let st' := decode d st ch in
      if out_cap <=? length (bounds (snd st'))
      then opt_app (emit (snd st')) (reader_loop_old d out_cap false (fst st', clear_completed_old (snd st')) rest)
      else reader_loop_old d out_cap skip_first st' rest
  end.

(* ------------------------------------------------------------------ (i) the RFC-4180 spec *)
(* Encoder side.  A field may be written bare when it holds none of delimiter, quote, CR, LF; quoted always. *)
Definition special (d : dialect) (c : N) : bool :=
  (c =? delim d)%N || (c =? quote d)%N || (c =? CR)%N || (c =? LF)%N.
Definition plain (d : dialect) (f : list N) : bool := forallb (fun c => negb (special d c)) f.

Fixpoint escape (d : dialect) (f : list N) : list N :=
  match f with
  | [] => []
  | c :: r => if (c =? quote d)%N then c :: c :: escape d r else c :: escape d r
  end.

(* quoted? *)
Definition enc_field (d : dialect) (q : bool) (f : list N) : list N :=
  if q then quote d :: escape d f ++ [quote d] else f.

Fixpoint enc_record (d : dialect) (fs : list (bool * list N)) : list N :=
  match fs with
  | [] => []
  | [(q, f)] => enc_field d q f
  | (q, f) :: rest => enc_field d q f ++ delim d :: enc_record d rest
  end.

(* crlf? *)
Definition enc_term (crlf : bool) : list N := if crlf then [CR; LF] else [LF].

(* every record followed by its terminator *)
Fixpoint enc_file (d : dialect) (recs : list (bool * list (bool * list N))) : list N :=
  match recs with
  | [] => []
  | (crlf, fs) :: rest => enc_record d fs ++ enc_term crlf ++ enc_file d rest
  end.

(* an encoding is valid when bare fields are plain and every record has a field.  A record that is one bare empty
   field is written as a blank line, which is not a record for the reader (see (i) above): `nonblank` are the
   records a file holds. *)
Definition field_ok (d : dialect) (qf : bool * list N) : bool := fst qf || plain d (snd qf).
Definition blank (fs : list (bool * list N)) : bool :=
  match fs with [(false, [])] => true | _ => false end.
Definition record_ok (d : dialect) (fs : list (bool * list N)) : bool :=
  negb (length fs =? 0) && forallb (field_ok d) fs.
Definition dialect_ok (d : dialect) : bool :=
  negb (delim d =? quote d)%N
  && negb ((quote d =? CR)%N || (quote d =? LF)%N) && negb ((delim d =? CR)%N || (delim d =? LF)%N).
Definition contents (recs : list (bool * list (bool * list N))) : list (list (list N)) :=
  map (fun r => map snd (snd r)) recs.
Definition nonblank (recs : list (bool * list (bool * list N))) : list (bool * list (bool * list N)) :=
  filter (fun r => negb (blank (snd r))) recs.

(* the same with an optional last record WITHOUT terminator *)
Definition enc_file_open (d : dialect) (recs : list (bool * list (bool * list N))) (last : option (list (bool * list N))) : list N :=
  enc_file d recs ++ match last with Some fs => enc_record d fs | None => [] end.
Definition contents_open (recs : list (bool * list (bool * list N))) (last : option (list (bool * list N))) : list (list (list N)) :=
  contents recs ++ match last with Some fs => [map snd fs] | None => [] end.

(* Parser side: the reference RFC-4180 reader (total; on text that is not RFC-4180 it makes *a* choice, the
   theorems only use it on encodings).  mode: 0 at field start, 1 in a bare field, 2 in a quoted field,
   3 after a quote inside a quoted field.  `cur` is the reversed current field, `fs` the reversed record. *)
Inductive pmode := PStart | PBare | PQuoted | PQuoteSeen.
(* at a line terminator: no byte since the previous terminator (a field start with no field before it) *)
Definition blank_line (m : pmode) (fs : list (list N)) : bool :=
  match m, fs with PStart, [] => true | _, _ => false end.
Fixpoint rfc_go (d : dialect) (m : pmode) (cur : list N) (fs : list (list N)) (cr : bool) (bs : list N)
  : list (list (list N)) :=
  match bs with
  | [] =>
      (* end of input: a pending record (any byte seen since the last terminator) is the unterminated last record *)
      match m, cur, fs with
      | PStart, [], [] => []
      | _, _, _ => [rev (rev cur :: fs)]
      end
  | c :: rest =>
      match m with
      | PQuoted =>
          if (c =? quote d)%N then rfc_go d PQuoteSeen cur fs false rest
          else rfc_go d PQuoted (c :: cur) fs false rest
      | _ =>
          if (match m with PQuoteSeen => (c =? quote d)%N | _ => false end)
          then rfc_go d PQuoted (c :: cur) fs false rest
          else if (match m with PStart => (c =? quote d)%N | _ => false end)
          then rfc_go d PQuoted cur fs false rest
          else if (c =? delim d)%N then rfc_go d PStart [] (rev cur :: fs) false rest
          else if (c =? LF)%N then
            (if cr then rfc_go d PStart [] [] false rest   (* the LF of a CRLF *)
             else if blank_line m fs then rfc_go d PStart [] [] false rest
             else rev (rev cur :: fs) :: rfc_go d PStart [] [] false rest)
          else if (c =? CR)%N then
            (if blank_line m fs then rfc_go d PStart [] [] true rest
             else rev (rev cur :: fs) :: rfc_go d PStart [] [] true rest)
          else rfc_go d PBare (c :: cur) fs false rest
      end
  end.
Definition rfc4180 (d : dialect) (bs : list N) : list (list (list N)) := rfc_go d PStart [] [] false bs.

(* hypotheses of the refinement theorem, on raw bytes *)
Definition ends_with_terminator (bs : list N) : bool :=
  match rev bs with c :: _ => (c =? LF)%N || (c =? CR)%N | [] => true end.
