(* UTF-8: code points (N) <-> bytes (N < 256).  Definitions only; proofs in proofs/Utf8Proofs.v.
   A Rust `&str` / `String` is a byte buffer whose type invariant is "valid UTF-8"; `chars()`
   is `decode`, `len()` is the BYTE length, slicing `&s[a..b]` takes BYTE offsets and panics
   off a character boundary.  The string-function models (model/StrFn.v) represent a str by
   its code-point list and compute byte offsets with `cp_width`. *)
From Coq Require Import NArith List Bool.
Import ListNotations.
Open Scope N_scope.

(* Unicode scalar value: what a Rust `char` can hold *)
Definition cp_validb (c : N) : bool := (c <? 0xD800) || ((0xDFFF <? c) && (c <? 0x110000)).
Definition cp_valid (c : N) : Prop := cp_validb c = true.
Definition cps_valid (cs : list N) : Prop := Forall cp_valid cs.

Definition encode_cp (c : N) : list N :=
  if c <? 0x80 then [c]
  else if c <? 0x800 then [0xC0 + c / 64; 0x80 + c mod 64]
  else if c <? 0x10000 then [0xE0 + c / 4096; 0x80 + (c / 64) mod 64; 0x80 + c mod 64]
  else [0xF0 + c / 262144; 0x80 + (c / 4096) mod 64; 0x80 + (c / 64) mod 64; 0x80 + c mod 64].

Definition encode (cs : list N) : list N := flat_map encode_cp cs.

(* char::len_utf8 *)
Definition cp_width (c : N) : N :=
  if c <? 0x80 then 1 else if c <? 0x800 then 2 else if c <? 0x10000 then 3 else 4.

(* str::len *)
Definition blen (cs : list N) : N := fold_right (fun c a => cp_width c + a) 0 cs.

Definition is_cont (b : N) : bool := (0x80 <=? b) && (b <? 0xC0).

(* strict decoder (what std::str::from_utf8 accepts): shortest form only, no surrogates,
   nothing above U+10FFFF *)
Fixpoint decode (bs : list N) : option (list N) :=
  match bs with
  | [] => Some []
  | b0 :: r0 =>
    if b0 <? 0x80 then option_map (cons b0) (decode r0)
    else if b0 <? 0xC2 then None
    else if b0 <? 0xE0 then
      match r0 with
      | b1 :: r1 =>
        if is_cont b1 then option_map (cons ((b0 - 0xC0) * 64 + (b1 - 0x80))) (decode r1) else None
      | _ => None
      end
    else if b0 <? 0xF0 then
      match r0 with
      | b1 :: b2 :: r2 =>
        if is_cont b1 && is_cont b2 then
          let c := (b0 - 0xE0) * 4096 + (b1 - 0x80) * 64 + (b2 - 0x80) in
          if (c <? 0x800) || negb (cp_validb c) then None else option_map (cons c) (decode r2)
        else None
      | _ => None
      end
    else if b0 <? 0xF5 then
      match r0 with
      | b1 :: b2 :: b3 :: r3 =>
        if is_cont b1 && is_cont b2 && is_cont b3 then
          let c := (b0 - 0xF0) * 262144 + (b1 - 0x80) * 4096 + (b2 - 0x80) * 64 + (b3 - 0x80) in
          if (c <? 0x10000) || negb (cp_validb c) then None else option_map (cons c) (decode r3)
        else None
      | _ => None
      end
    else None
  end.

Definition utf8_validb (bs : list N) : bool :=
  match decode bs with Some _ => true | None => false end.

(* list helpers indexed by N (a `usize` can be 2^64-1: never convert it to nat) *)
Fixpoint takeN {A} (n : N) (l : list A) : list A :=
  match l with
  | [] => []
  | x :: r => if n =? 0 then [] else x :: takeN (n - 1) r
  end.
Fixpoint dropN {A} (n : N) (l : list A) : list A :=
  match l with
  | [] => []
  | x :: r => if n =? 0 then l else dropN (n - 1) r
  end.
Definition lenN {A} (l : list A) : N := N.of_nat (length l).

Fixpoint list_eqb (a b : list N) : bool :=
  match a, b with
  | [], [] => true
  | x :: a', y :: b' => (x =? y) && list_eqb a' b'
  | _, _ => false
  end.

(* str::starts_with / ends_with / contains with a &str pattern: documented semantics
   ("is a prefix / suffix / substring"); on valid UTF-8 byte-wise and char-wise agree. *)
Fixpoint starts_with (s p : list N) : bool :=
  match p with
  | [] => true
  | c :: p' => match s with x :: s' => (x =? c) && starts_with s' p' | [] => false end
  end.
Fixpoint ends_with (s p : list N) : bool :=
  list_eqb s p || match s with [] => false | _ :: s' => ends_with s' p end.
Fixpoint contains (s p : list N) : bool :=
  starts_with s p || match s with [] => false | _ :: s' => contains s' p end.
