(* Integer arithmetic as the GlareDB source computes it (definitions only).

   Transcribed from
     crates/glaredb_core/src/functions/scalar/builtin/arith/checked.rs   CheckedArith / CheckedNeg
       ints: add/sub/mul/div_checked = std checked_*; rem_checked = None for divisor 0, else
             Some(checked_rem(..).unwrap_or(0))   (MIN % -1 = 0);   neg_checked = checked_neg
     crates/glaredb_core/src/functions/scalar/builtin/arith/{add,sub,mul,div,rem}.rs
       Add::execute   |&a, &b, buf| match a.add_checked(b) { Some(v) => buf.put(&v), None => failed = true }
                      if failed { return Err(DbError::new("Arithmetic overflow in '+'")) }   (likewise - * / %)
     crates/glaredb_core/src/functions/scalar/builtin/negate.rs   neg_checked, same shape (signed widths only)
     crates/glaredb_core/src/functions/aggregate/builtin/sum.rs
       SumStateCheckedAdd: self.sum = self.sum.checked_add(..).ok_or_else(|| DbError::new("Sum overflowed"))?
     crates/glaredb_core/src/functions/aggregate/builtin/avg.rs
       AvgStateF64<i64, i128>: sum += input (i128), count += 1, sum as f64 / count as f64

   `style` = Checked is what the source does today (fix "integer and decimal arithmetic must fail with an
   error instead of panicking or wrapping"): an unrepresentable result fails the statement in every build
   profile.  `style` = Native is what it did before: the native Rust operators, whose overflow behaviour
   depends on the profile (`mode`): with overflow checks `+ - *` and unary `-` panic, without they wrap
   modulo 2^w; `/` and `%` panic for divisor 0 and for MIN / -1, MIN % -1.  vlib/tables_arith.py reads
   from the source which of the two each operator file uses; the Native variant is kept so that a
   regression is recognised for what it is. *)
From Coq Require Import ZArith List Bool.
Import ListNotations.
Open Scope Z_scope.

Inductive outcome (A : Type) : Type :=
| Ok (a : A)      (* a value is returned *)
| Err             (* the statement fails with a database error *)
| Panic.          (* the Rust code panics (process abort on a worker thread) *)
Arguments Ok {A} a.
Arguments Err {A}.
Arguments Panic {A}.

Inductive mode := Debug | Release.          (* overflow-checks on | off *)
Inductive sgn := Signed | Unsigned.
Inductive style := Native | Checked.
Inductive binop := Add | Sub | Mul | Div | Rem.

(* w = number of bits *)
Definition lo (sg : sgn) (w : Z) : Z := match sg with Signed => - 2 ^ (w - 1) | Unsigned => 0 end.
Definition hi (sg : sgn) (w : Z) : Z := match sg with Signed => 2 ^ (w - 1) - 1 | Unsigned => 2 ^ w - 1 end.
Definition in_range (sg : sgn) (w x : Z) : bool := (lo sg w <=? x) && (x <=? hi sg w).

(* two's complement wrap-around of the mathematical result *)
Definition wrap (sg : sgn) (w x : Z) : Z :=
  match sg with
  | Unsigned => x mod 2 ^ w
  | Signed => (x + 2 ^ (w - 1)) mod 2 ^ w - 2 ^ (w - 1)
  end.

(* what storing the mathematical result x of a native `+ - *` / unary `-` yields *)
Definition arith_result (st : style) (m : mode) (sg : sgn) (w x : Z) : outcome Z :=
  match st with
  | Checked => if in_range sg w x then Ok x else Err
  | Native =>
    match m with
    | Debug => if in_range sg w x then Ok x else Panic
    | Release => Ok (wrap sg w x)
    end
  end.

Definition fault (st : style) : outcome Z := match st with Native => Panic | Checked => Err end.

(* `a / b` and `a % b` panic for b = 0 and for MIN / -1, MIN % -1, in every profile *)
Definition div_fault (sg : sgn) (w a b : Z) : bool :=
  (b =? 0) || match sg with Signed => (a =? lo sg w) && (b =? -1) | Unsigned => false end.

Definition impl_bin (st : style) (m : mode) (sg : sgn) (w : Z) (op : binop) (a b : Z) : outcome Z :=
  match op with
  | Add => arith_result st m sg w (a + b)
  | Sub => arith_result st m sg w (a - b)
  | Mul => arith_result st m sg w (a * b)
  | Div => if div_fault sg w a b then fault st else Ok (Z.quot a b)
  | Rem =>
    match st with
    | Native => if div_fault sg w a b then Panic else Ok (Z.rem a b)
    | Checked => if b =? 0 then Err else Ok (Z.rem a b)     (* rem_checked: MIN % -1 = Z.rem MIN (-1) = 0 *)
    end
  end.

(* unary minus: signatures exist for the signed widths only *)
Definition impl_neg (st : style) (m : mode) (w a : Z) : outcome Z := arith_result st m Signed w (- a).

(* abs(): the source has Float16/32/64 signatures only; an integer argument is implicitly cast to
   Float64, so the value returned is the binary64 nearest to |a| -- the integer |a| itself whenever
   |a| <= 2^53.  The model gives the value for that range and None outside it. *)
Definition impl_abs_f64 (a : Z) : option Z := if Z.abs a <=? 2 ^ 53 then Some (Z.abs a) else None.

(* ---------------------------------------------------------------- specification *)
(* the mathematical result (integer division truncates toward zero, the remainder takes the
   dividend's sign); None = undefined *)
Definition exact_bin (op : binop) (a b : Z) : option Z :=
  match op with
  | Add => Some (a + b)
  | Sub => Some (a - b)
  | Mul => Some (a * b)
  | Div => if b =? 0 then None else Some (Z.quot a b)
  | Rem => if b =? 0 then None else Some (Z.rem a b)
  end.

Definition representable (sg : sgn) (w x : Z) : Prop := in_range sg w x = true.

(* exact, or an error: never a wrapped value, never a panic *)
Definition spec_of (sg : sgn) (w : Z) (x : option Z) : outcome Z :=
  match x with
  | None => Err
  | Some v => if in_range sg w v then Ok v else Err
  end.
Definition spec_bin (sg : sgn) (w : Z) (op : binop) (a b : Z) : outcome Z := spec_of sg w (exact_bin op a b).
Definition spec_neg (w a : Z) : outcome Z := spec_of Signed w (Some (- a)).

(* The classes of operand pairs on which the native operators are known to deviate. *)
Definition unrepresentable_or_div0 (sg : sgn) (w : Z) (op : binop) (a b : Z) : Prop :=
  match exact_bin op a b with None => True | Some v => in_range sg w v = false end.
Definition rem_min_neg1 (sg : sgn) (w : Z) (op : binop) (a b : Z) : Prop :=
  op = Rem /\ sg = Signed /\ a = lo Signed w /\ b = -1.
Definition KnownClass_C12 (sg : sgn) (w : Z) (op : binop) (a b : Z) : Prop :=
  unrepresentable_or_div0 sg w op a b \/ rem_min_neg1 sg w op a b.

(* boolean version used by the driver *)
Definition known_class_b (sg : sgn) (w : Z) (op : binop) (a b : Z) : bool :=
  match exact_bin op a b with None => true | Some v => negb (in_range sg w v) end
  || match op, sg with Rem, Signed => (a =? lo Signed w) && (b =? -1) | _, _ => false end.

(* ---------------------------------------------------------------- SUM / AVG over integers *)
Definition bind_out {A B} (x : outcome A) (f : A -> outcome B) : outcome B :=
  match x with Ok a => f a | Err => Err | Panic => Panic end.

(* SumStateCheckedAdd<i64, _> (sum.rs, as repaired by "fix: SUM must fail on overflow ..."):
     update: self.sum = self.sum.checked_add(&input.as_()).ok_or_else(|| DbError::new("Sum overflowed"))?
     merge : self.sum = self.sum.checked_add(&other.sum).ok_or_else(..)?
   an overflowing step fails the statement.  One state per partition (each starts at 0 and folds its
   own rows in order); the partition states are merged one after the other into a fresh state. *)
Definition chk (w x : Z) : outcome Z := if in_range Signed w x then Ok x else Err.
Definition sum_step (w : Z) (acc : outcome Z) (x : Z) : outcome Z := bind_out acc (fun s => chk w (s + x)).
Definition sum_fold (w : Z) (xs : list Z) : outcome Z := fold_left (sum_step w) xs (Ok 0).
Definition sum_merge (w : Z) (acc ps : outcome Z) : outcome Z :=
  bind_out acc (fun s => bind_out ps (fun t => chk w (s + t))).
Definition all_empty (parts : list (list Z)) : bool :=
  forallb (fun p : list Z => match p with [] => true | _ => false end) parts.
(* Ok None = SQL NULL (no row seen: `valid` stays false) *)
Definition sum_impl (w : Z) (parts : list (list Z)) : outcome (option Z) :=
  bind_out (fold_left (sum_merge w) (map (sum_fold w) parts) (Ok 0))
           (fun v => Ok (if all_empty parts then None else Some v)).
Definition sum_exact (parts : list (list Z)) : Z := fold_left Z.add (concat parts) 0.
(* the property: the exact total, or an error when it is not representable *)
Definition sum_spec (w : Z) (parts : list (list Z)) : outcome (option Z) :=
  if all_empty parts then Ok None
  else if in_range Signed w (sum_exact parts) then Ok (Some (sum_exact parts)) else Err.

(* AVG(bigint): i128 accumulator with native `+=`, count i64; result sum as f64 / count as f64.
   The model returns the exact pair (sum, count); the binary64 rounding is in model/Decimal.v
   (f64_div_int). *)
Definition avg_acc (xs : list Z) : Z * Z := (fold_left Z.add xs 0, Z.of_nat (length xs)).
